import fpy2 as fp
def attempt(label, mk, *args):
    try:
        f = mk()
    except Exception as e:
        print(label, 'REJECTED', type(e).__name__); return
    try:
        print(label, 'accepted ->', f(*args))
    except Exception as e:
        print(label, 'accepted -> RUNTIME', type(e).__name__, str(e)[:80])
def m1():
    @fp.fpy
    def f(xs: list[fp.Real]):
        for x in xs:
            pass
        return x
    return f
def m2():
    @fp.fpy
    def f(xs: list[fp.Real]):
        for x in xs:
            y = x
        return y
    return f
def m3():
    @fp.fpy
    def f(t: fp.Real):
        while t > 0:
            z = t
            t = t - 1
        return z
    return f
def m4():
    @fp.fpy
    def f(xs: list[fp.Real]):
        for i, x in enumerate(xs):
            pass
        return i
    return f
def m5():
    @fp.fpy
    def f(xs: list[fp.Real]):
        ys = [x for x in xs]
        return x
    return f
def m6():
    @fp.fpy
    def f(t: fp.Real):
        if t > 0:
            return 1
    return f
attempt('for-target', m1, [])
attempt('for-body', m2, [])
attempt('while-body', m3, 0)
attempt('for-tuple-target', m4, [])
attempt('comp-target', m5, [])
attempt('fallthrough', m6, -1)
