import fpy2 as fp, itertools
from fractions import Fraction as Q
from fpy2 import Float
from fpy2.number.context.efloat import EFloatFormat, EFloatNanKind as K, _format_is_valid
def spec_decode(es, nbits, inf, kind, eoff, b):
    """first-principles decoder: returns ('nan',s) | ('inf',s) | ('fin', s, Q)"""
    m = nbits - 1 - es   # mantissa bits
    s = (b >> (nbits-1)) & 1
    ebits = (b >> m) & ((1 << es) - 1)
    mbits = b & ((1 << m) - 1)
    mag = b & ((1 << (nbits-1)) - 1)
    top = (1 << (nbits-1)) - 1
    bias = 0 if es == 0 else (1 << (es-1)) - 1
    def fin():
        if ebits == 0:
            e = 1 - bias + eoff
            return ('fin', s, Q(mbits) * Q(2)**(e - m))
        e = ebits - bias + eoff
        return ('fin', s, (Q(1 << m) + mbits) * Q(2)**(e - m))
    if kind == K.IEEE_754:
        if ebits == (1 << es) - 1:
            if inf and mbits == 0: return ('inf', s)
            return ('nan', s)
        return fin()
    if kind == K.MAX_VAL:
        if mag == top: return ('nan', s)
        if inf and mag == top - 1: return ('inf', s)
        return fin()
    # NEG_ZERO / NONE
    if inf and mag == top: return ('inf', s)
    if kind == K.NEG_ZERO and s == 1 and mag == 0: return ('nan', s)
    return fin()
def cls(x: Float):
    if x.isnan: return ('nan', int(x.s))
    if x.isinf: return ('inf', int(x.s))
    return ('fin', int(x.s), abs(x.as_rational()))
problems = {}
nf = 0
for nbits in range(1, 8):
  for es in range(0, nbits):
    for inf in (False, True):
      for kind in K:
        if not _format_is_valid(es, nbits, inf, kind): continue
        for eoff in (-2, 0, 3):
            nf += 1
            try:
                fmt = EFloatFormat(es, nbits, inf, kind, eoff)
            except Exception as e:
                problems.setdefault('ctor', []).append((es, nbits, inf, kind.name, eoff, str(e)[:60])); continue
            tag = (es, nbits, inf, kind.name, eoff)
            decoded = []
            for b in range(1 << nbits):
                try:
                    d = fmt.decode(b)
                except Exception as e:
                    problems.setdefault('decode-exc', []).append((tag, b, type(e).__name__)); continue
                want = spec_decode(es, nbits, inf, kind, eoff, b)
                got = cls(d)
                if kind != K.IEEE_754 or want[0] != 'nan':
                    pass
                if got[0] != want[0] or (got[0] != 'nan' and got != want):
                    problems.setdefault('decode', []).append((tag, b, got, want))
                # representable?
                try:
                    rep = fmt.representable_in(d)
                except Exception as e:
                    rep = 'EXC'
                if rep is not True:
                    problems.setdefault('decoded-not-representable', []).append((tag, b, got, rep))
                    continue
                try:
                    b2 = fmt.encode(d)
                except Exception as e:
                    problems.setdefault('encode-exc', []).append((tag, b, got, type(e).__name__)); continue
                if got[0] != 'nan' and b2 != b:
                    problems.setdefault('encode(decode(b))!=b', []).append((tag, b, b2, got))
                if got[0] == 'nan':
                    if cls(fmt.decode(b2))[0] != 'nan':
                        problems.setdefault('nan-roundtrip', []).append((tag, b, b2))
                decoded.append(got)
            fins = [g[2] if g[1]==0 else -g[2] for g in decoded if g[0]=='fin']
            if fins:
                try:
                    mx = fmt.maxval().as_rational(); 
                    if mx != max(fins): problems.setdefault('maxval', []).append((tag, mx, max(fins)))
                    sm = fmt.smallest().as_rational()
                    if sm != min(fins): problems.setdefault('smallest', []).append((tag, sm, min(fins)))
                except Exception as e:
                    problems.setdefault('maxval-exc', []).append((tag, type(e).__name__, str(e)[:50]))
                # ordinals strictly increasing & contiguous
                try:
                    uniq = sorted(set(fins))
                    ords = [fmt.to_ordinal(Float.from_rational(v) if v != 0 else Float()) for v in uniq]
                    if ords != list(range(ords[0], ords[0] + len(ords))):
                        problems.setdefault('ordinal', []).append((tag, uniq[:6], ords[:6]))
                except Exception as e:
                    problems.setdefault('ordinal-exc', []).append((tag, type(e).__name__, str(e)[:60]))
print('formats', nf)
for k, v in problems.items():
    print(k, len(v)); 
    for item in v[:4]: print('   ', item)
