import fpy2 as fp
from fpy2.strategies import simplify, unroll_for, unroll_while, split, inline
def show(tag, f, g, *args):
    try:
        a = f(*args)
    except Exception as e: a = 'EXC ' + type(e).__name__
    try:
        b = g(*args)
    except Exception as e: b = 'EXC ' + type(e).__name__
    print(tag, a, b, 'SAME' if str(a)==str(b) else 'DIFF')
@fp.fpy
def f1():
    xs = [1, 2]
    ys = xs
    ys[0] = 5
    return xs[0]
g1 = simplify(f1); print(g1.format()); show('alias-fold', f1, g1)
@fp.fpy
def f2(x: fp.Real):
    with fp.MPFloatContext(3):
        a = 1 / 3
    with fp.MPFloatContext(5):
        b = 1 / 3
    return a + b + x
g2 = simplify(f2); show('ctx-fold', f2, g2, 0.0)
@fp.fpy
def f3(xs: list[fp.Real]):
    acc = 0
    for x in xs:
        if x > 2:
            return acc
        acc = acc + x
    return acc
for k in (1,2,3):
    g3 = unroll_for(f3, times=k) if 'times' in unroll_for.__code__.co_varnames else unroll_for(f3)
    for n in range(0,6):
        show('unroll k=%d n=%d' % (k,n), f3, g3, [float(i) for i in range(n)])
