import fpy2 as fp
from fpy2.strategies import inline, split, elim_iter, fuse, unroll_while, lift_context, monomorphize, close
def show(tag, f, g, *args, **kw):
    try: a = f(*args, **kw)
    except Exception as e: a = 'EXC ' + type(e).__name__
    try: b = g(*args, **kw)
    except Exception as e: b = 'EXC ' + type(e).__name__ + ' ' + str(e)[:60]
    print(tag, '|', a, '|', b, '|', 'SAME' if str(a)==str(b) else 'DIFF')
P3 = fp.MPFloatContext(3)
P5 = fp.MPFloatContext(5)
@fp.fpy
def third(x: fp.Real):
    t = x / 3
    return t
@fp.fpy(ctx=P5)
def third5(x: fp.Real):
    t = x / 3
    return t
@fp.fpy
def caller(x: fp.Real):
    t = x + 1
    with P3:
        a = third(t)
    b = third(t)
    c = third5(t)
    return a + b + c + t
try:
    g = inline(caller)
    print(g.format())
    for x in (1.0, 0.1, 7.3):
        show('inline', caller, g, x)
        show('inline ctx=P3', caller, g, x, ctx=P3)
except Exception as e:
    import traceback; traceback.print_exc()
@fp.fpy
def bump(xs: list[fp.Real]):
    xs[0] = xs[0] + 1
    return xs[0]
@fp.fpy
def caller2(xs: list[fp.Real]):
    a = bump(xs)
    b = bump(xs)
    return a + b + xs[0]
try:
    g2 = inline(caller2)
    show('inline-mut', caller2, g2, [1.0, 2.0])
except Exception as e:
    print('inline2', type(e).__name__, e)
@fp.fpy
def zipper(xs: list[fp.Real], ys: list[fp.Real]):
    acc = 0
    for i, (x, y) in enumerate(zip(xs, ys)):
        acc = acc + i * x * y
    return acc
try:
    g3 = elim_iter(zipper)
    for n in (0,1,3):
        show('elim_iter n=%d' % n, zipper, g3, [float(i+1) for i in range(n)], [float(2*i+1) for i in range(n)])
except Exception as e:
    print('elim_iter', type(e).__name__, str(e)[:100])
@fp.fpy
def summer(xs: list[fp.Real]):
    acc = 0
    for x in xs:
        acc = acc + x
        xs[0] = acc
    return acc
for factor in (2, 3):
    try:
        g4 = split(summer, factor=factor) if 'factor' in split.__code__.co_varnames else split(summer, None, factor)
        for n in range(0, 7):
            show('split f=%d n=%d' % (factor, n), summer, g4, [float(i+1) for i in range(n)])
    except Exception as e:
        print('split', factor, type(e).__name__, str(e)[:100])
