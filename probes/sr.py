import fpy2 as fp, random
from fractions import Fraction
class Scripted(random.Random):
    def __init__(self, v): super().__init__(); self.v = v; self.calls = 0
    def getrandbits(self, k): self.calls += 1; return self.v
def dist(mk, x, k):
    out = []
    for v in range(1 << k):
        rng = Scripted(v); ctx = mk(rng)
        r = ctx.round(x); out.append((v, str(r), rng.calls))
    return out
for k in (1, 2):
    for rm in (fp.RM.RNE, fp.RM.RTZ, fp.RM.RAZ):
        print('fixed n=-1 k=%d %s x=0.9:' % (k, rm.name), dist(lambda rng: fp.MPFixedContext(-1, rm, k, rng=rng), Fraction(9,10), k))
print('float p=2 k=2 x=1.45:', dist(lambda rng: fp.MPFloatContext(2, fp.RM.RNE, 2, rng=rng), Fraction(145,100), 2))
print('float p=2 k=2 x=1.95 RNE:', dist(lambda rng: fp.MPFloatContext(2, fp.RM.RNE, 2, rng=rng), Fraction(195,100), 2))
print('exact 1.5:', dist(lambda rng: fp.MPFloatContext(2, fp.RM.RNE, 2, rng=rng), Fraction(3,2), 2))
print('---- non-carry cases')
for x in (Fraction(12,10), Fraction(13,10), Fraction(11,8), Fraction(9,8)):
    for rm in (fp.RM.RNE, fp.RM.RTZ):
        d = dist(lambda rng: fp.MPFloatContext(2, rm, 2, rng=rng), x, 2)
        print(x, rm.name, [r for _, r, _ in d])
