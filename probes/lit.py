import fpy2 as fp
from fractions import Fraction
@fp.fpy
def f():
    return 0.1234567890123456789
@fp.fpy
def g():
    return 1e23
@fp.fpy
def h():
    return 9007199254740993.0
@fp.fpy
def k():
    return -0.0
@fp.fpy
def m():
    return 123456789012345678901234567890
for fn, want in [(f, Fraction(1234567890123456789, 10**19)), (g, Fraction(10**23)), (h, Fraction(9007199254740993)), (m, Fraction(123456789012345678901234567890))]:
    r = fn(ctx=fp.REAL)
    rr = r if isinstance(r, Fraction) else r.as_rational()
    print(fn.name, rr == want, rr)
print(repr(k(ctx=fp.REAL)))
