import fpy2 as fp
from fpy2.strategies import sites, refusals, unroll_for, unroll_while, simplify, split, TransformReferenceError, TransformDeclined
@fp.fpy
def f(xs: list[fp.Real], ys: list[fp.Real]):
    a = 0
    for x in xs:
        a = a + x
    b = 0
    for y in ys:
        for z in xs:
            b = b + y * z
    c = a + b
    return c
ss = sites(unroll_for, f)
print('sites', len(ss), [str(s) for s in ss])
for j in range(-1, len(ss) + 1):
    try:
        g = unroll_for(f, where=j)
        # count how many for-loops changed: compare formatted text lines
        print('where', j, 'ok', g.format().count('for '), 'fors')
    except Exception as e:
        print('where', j, type(e).__name__)
g = unroll_for(f, where=None)
print('None ->', g.format().count('for '))
# cursor forwarding
cur = ss[1]
g1 = unroll_for(f, where=0)
try:
    fw = g1.forward(cur)
    print('forwarded', fw, '->', fw.resolve().format().splitlines()[0] if hasattr(fw.resolve(),'format') else fw.resolve())
except Exception as e:
    print('forward', type(e).__name__, e)
g2 = unroll_for(g1, where=cur)
print(g2.format())
