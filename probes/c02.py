import fpy2 as fp, itertools, math
from fractions import Fraction as Q
from fpy2 import Float, RealFloat
import fpy2.ops as ops
def ilog2(q):  # floor(log2(q)) for q>0
    n, d = q.numerator, q.denominator
    e = n.bit_length() - d.bit_length()
    if Q(2)**e > q: e -= 1
    if Q(2)**(e+1) <= q: e += 1
    return e
def oracle(q, p, emin, rm, neg=None):
    """round rational q to (p, emin) float (emin None = unbounded); returns Fraction"""
    if q == 0: return Q(0)
    s = q < 0; a = abs(q)
    e = ilog2(a)
    exp = e - p + 1
    if emin is not None: exp = max(exp, emin - p + 1)
    ulp = Q(2)**exp
    lo = (a // ulp) * ulp
    if lo == a: return q
    hi = lo + ulp
    mid = lo + ulp/2
    lo_even = ((lo/ulp).numerator % 2 == 0)
    name = rm.name
    if name == 'RNE': up = a > mid or (a == mid and not lo_even)
    elif name == 'RNA': up = a >= mid
    elif name == 'RTZ': up = False
    elif name == 'RAZ': up = True
    elif name == 'RTP': up = not s
    elif name == 'RTN': up = s
    elif name == 'RTO': up = lo_even
    elif name == 'RTE': up = not lo_even
    r = hi if up else lo
    return -r if s else r
def vals(p, elo, ehi):
    out = [Q(0)]
    for e in range(elo, ehi+1):
        for c in range(1 << (p-1), 1 << p):
            v = Q(c) * Q(2)**(e - p + 1)
            out += [v, -v]
    return out
bad = {}
src = vals(3, -2, 2)
n = 0
for p in (1, 2, 3):
  for emin in (None, -1):
    for rm in fp.RM:
        ctx = fp.MPFloatContext(p, rm) if emin is None else fp.MPSFloatContext(p, emin, rm)
        for x, y in itertools.product(src, src):
            fx, fy = Float.from_rational(x), Float.from_rational(y)
            cases = [('add', x+y, lambda: ops.add(fx, fy, ctx)), ('sub', x-y, lambda: ops.sub(fx, fy, ctx)), ('mul', x*y, lambda: ops.mul(fx, fy, ctx))]
            if y != 0: cases.append(('div', x/y, lambda: ops.div(fx, fy, ctx)))
            for name, exact, f in cases:
                n += 1
                got = f()
                want = oracle(exact, p, emin, rm)
                if got.is_nar() or got.as_rational() != want:
                    bad.setdefault(name, []).append((str(x), str(y), p, emin, rm.name, str(got), str(want)))
print('cases', n)
for k, v in bad.items(): print(k, len(v), v[:4])
# sqrt via integer check
nb = 0
for p in (1,2,3,4):
    for rm in fp.RM:
        ctx = fp.MPFloatContext(p, rm)
        for x in vals(4, -3, 3):
            if x <= 0: continue
            got = ops.sqrt(Float.from_rational(x), ctx).as_rational()
            # neighbours around sqrt(x): check got is correct by squares
            e = ilog2(got) if got > 0 else 0
            ulp = Q(2)**(e - p + 1)
            if got*got == x: continue
            lo, hi = (got, got+ulp) if got*got < x else (got-ulp, got)
            # handle binade edge for lo
            if lo > 0 and ilog2(lo) < e: 
                ulp2 = Q(2)**(ilog2(lo)-p+1); lo = got - ulp2
            assert lo*lo < x < hi*hi, (x, got, lo, hi)
            mid = (lo+hi)/2
            lo_even = ((lo / (Q(2)**(ilog2(lo)-p+1))).numerator % 2 == 0) if lo > 0 else True
            nm = rm.name
            if nm in ('RNE','RNA'): up = mid*mid < x
            elif nm in ('RTZ','RTN'): up = False
            elif nm in ('RAZ','RTP'): up = True
            elif nm == 'RTO': up = lo_even
            else: up = not lo_even
            want = hi if up else lo
            if want != got: nb += 1; print('sqrt bad', x, p, nm, got, want)
print('sqrt bad', nb)
