import fpy2 as fp, math
import fpy2.ops as ops
from fpy2 import Float
ctx = fp.FP64
vals = {'nan': float('nan'), '+inf': float('inf'), '-inf': float('-inf'), '+0': 0.0, '-0': -0.0, '1': 1.0, '-1': -1.0, '2.5': 2.5, '-2.5': -2.5}
def cl(x):
    if isinstance(x, Float):
        if x.isnan: return 'nan'
        if x.isinf: return '-inf' if x.s else '+inf'
        return ('-' if x.s else '+') + str(abs(float(x)))
    return str(x)
def py(fn, *a):
    try: r = fn(*a)
    except Exception as e: return 'EXC'
    if math.isnan(r): return 'nan'
    if math.isinf(r): return '-inf' if r < 0 else '+inf'
    return ('-' if math.copysign(1, r) < 0 else '+') + str(abs(r))
bin_ops = [('add', ops.add, lambda a,b: a+b), ('sub', ops.sub, lambda a,b: a-b), ('mul', ops.mul, lambda a,b: a*b),
           ('div', ops.div, lambda a,b: (a/b if b != 0 else (math.nan if (a == 0 or math.isnan(a)) else math.copysign(math.inf, a) * math.copysign(1, b)))),
           ('fmod', ops.fmod, math.fmod), ('remainder', ops.remainder, math.remainder), ('hypot', ops.hypot, math.hypot),
           ('copysign', ops.copysign, math.copysign), ('mod', ops.mod, lambda a,b: a % b), ('pow', ops.pow, lambda a,b: math.pow(a,b)),
           ('fdim', ops.fdim, lambda a,b: (math.nan if math.isnan(a) or math.isnan(b) else (a-b if a > b else 0.0)))]
for name, f, ref in bin_ops:
    diffs = []
    for an, a in vals.items():
        for bn, b in vals.items():
            try: got = cl(f(a, b, ctx=ctx))
            except Exception as e: got = 'EXC:' + type(e).__name__
            want = py(ref, a, b)
            if got != want: diffs.append((an, bn, got, want))
    print(name, len(diffs), diffs[:10])
un_ops = [('sqrt', ops.sqrt, math.sqrt), ('cbrt', ops.cbrt, lambda a: math.copysign(abs(a)**(1/3), a) if not math.isinf(a) else a), ('neg', ops.neg, lambda a: -a), ('fabs', ops.fabs, abs),
          ('ceil', ops.ceil, lambda a: float(math.ceil(a)) if math.isfinite(a) else a), ('floor', ops.floor, lambda a: float(math.floor(a)) if math.isfinite(a) else a),
          ('trunc', ops.trunc, lambda a: float(math.trunc(a)) if math.isfinite(a) else a), ('roundint', ops.roundint, lambda a: a)]
for name, f, ref in un_ops:
    out = []
    for an, a in vals.items():
        try: got = cl(f(a, ctx=ctx))
        except Exception as e: got = 'EXC:' + type(e).__name__
        out.append((an, got))
    print(name, out)
print('fma', [(a,b,c, cl(ops.fma(vals[a], vals[b], vals[c], ctx=ctx))) for a,b,c in [('+inf','+0','1'),('+inf','+0','nan'),('1','-1','1'),('+0','-1','+0'),('+0','-1','-0'),('-0','1','-0')]])
rtn = fp.IEEEContext(11,64,fp.RM.RTN)
print('cancel RTN', cl(ops.add(1.0,-1.0,ctx=rtn)), cl(ops.sub(1.0,1.0,ctx=rtn)), cl(ops.fma(1.0,1.0,-1.0,ctx=rtn)))
