import fpy2 as fp
data = [1.0, 2.0]
@fp.fpy
def f():
    return data
r = f()
print(r)
r[0] = fp.Float.from_float(5.0)
print('after caller mutation:', f())
try:
    @fp.fpy
    def g():
        data[0] = data[0] + 1
        return data[0]
    print(g(), g(), g())
except Exception as e:
    print('g rejected:', type(e).__name__, str(e)[:100])
@fp.fpy
def h(xs: list[fp.Real]):
    xs[0] = 7
    return xs
a = [1.0, 2.0]
b = h(a)
print(a, b, b is a)
@fp.fpy
def k(xs: list[fp.Real]):
    return (xs, xs)
p, q = k(a)
print(p is q)
