import fpy2 as fp
from fpy2.strategies import simplify
@fp.fpy
def f(y: fp.Real):
    x = y
    y = y + 1
    return x
g = simplify(f)
print(g.format())
print(f(1.0), g(1.0))
@fp.fpy
def h(xs: list[fp.Real]):
    acc = 0
    prev = 0
    for v in xs:
        prev = acc
        acc = acc + v
    return prev
k = simplify(h)
print(k.format())
print(h([1.0,2.0,3.0]), k([1.0,2.0,3.0]))
