import sys; sys.path.insert(0,'/verif/harness')
from numgen import *
import fpy2 as fp
R=Prng(1,'op')
lines=[];gots=[]
ops={'add':2,'sub':2,'mul':2,'div':2,'fma':3,'neg':1,'fabs':1,'sqrt':1}
def show(y):
    if isinstance(y,Fraction):
        d=y.denominator
        if d&(d-1)==0:
            e=-(d.bit_length()-1); return f'ok {canon_rf(y<0,e,abs(y.numerator))} # frac'
        return f'ok frac {y.numerator}/{y.denominator} #'
    v=fv_of_obj(y); raw=f'{b01(y.s)}:{y.exp}:{y.c}' if v[0]=='fin' else (f'i{b01(y.s)}' if v[0]=='inf' else f'n{b01(y.s)}')
    return f'ok {canon_fv(v)} # raw={raw}'
for i in range(6000):
    d=rand_ctx(R) if R.random()<0.9 else {'fam':'real'}
    try: ctx=ctx_obj(d)
    except Exception: continue
    name=R.choice(list(ops))
    args=[]
    for _ in range(ops[name]):
        t=R.random()
        if t<0.1: o=R.choice([e for e in SPECIALS if e[0]!='R'])
        elif t<0.2: o=('Q',Fraction(R.randint(-50,50),R.randint(1,24)))
        else:
            x=Fraction(R.randint(-64,64))*Fraction(2)**R.randint(-6,6)
            o=R.choice([e for e in encodings(R,x,x<0) if e[0]!='R'])
        args.append(o)
    try: got=show(getattr(fp.ops,name)(*[operand_obj(o) for o in args],ctx=ctx))
    except Exception as e: got='err '+err_name(e)
    lines.append(f'op {name} {ctx_tok(d)} '+' '.join(operand_tok(o) for o in args)); gots.append(got)
mod=run_driver(lines)
bad=0
for l,g,m in zip(lines,gots,mod):
    if verdict_part(g)!=verdict_part(m):
        bad+=1
        if bad<25: print(l,'|',g,'|',m)
print('total',len(lines),'bad',bad)
