import fpy2 as fp, itertools
from fractions import Fraction as Q
from fpy2 import Float
from fpy2.number.context.efloat import EFloatFormat, EFloatContext, EFloatNanKind as K, _format_is_valid
def parity_even(v, ulp):  # significand parity at spacing ulp
    return (abs(v)/ulp).numerator % 2 == 0
problems = {}
ncase = 0
for nbits in range(2, 7):
  for es in range(0, nbits):
    for inf in (False, True):
      for kind in K:
        if not _format_is_valid(es, nbits, inf, kind): continue
        eoff = 0
        fmt = EFloatFormat(es, nbits, inf, kind, eoff)
        fins = set()
        for b in range(1 << nbits):
            d = fmt.decode(b)
            if not d.is_nar(): fins.add(d.as_rational())
        fins = sorted(fins)
        if len(fins) < 3: continue
        pts = set()
        for a, b in zip(fins, fins[1:]):
            for t in (Q(1,4), Q(1,2), Q(3,4), Q(1,64), Q(63,64)):
                pts.add(a + (b-a)*t)
        for rm in fp.RM:
            ctx = EFloatContext(es, nbits, inf, kind, eoff, rm, fp.OV.SATURATE)
            for x in sorted(pts):
                ncase += 1
                lo = max(v for v in fins if v < x); hi = min(v for v in fins if v > x)
                gap = hi - lo
                # spacing at the rounding position is the gap (adjacent representables)
                s = x < 0
                # toward zero / away
                tz, az = (hi, lo) if s else (lo, hi)
                mid = (lo+hi)/2
                nm = rm.name
                tz_even = parity_even(tz, gap)
                if nm == 'RTZ': want = tz
                elif nm == 'RAZ': want = az
                elif nm == 'RTP': want = hi
                elif nm == 'RTN': want = lo
                elif nm == 'RTE': want = tz if tz_even else az
                elif nm == 'RTO': want = az if tz_even else tz
                elif nm == 'RNE': want = (tz if abs(x-tz) < abs(x-az) else az) if x != mid else (tz if tz_even else az)
                elif nm == 'RNA': want = (tz if abs(x-tz) < abs(x-az) else az) if x != mid else az
                try:
                    got = ctx.round(x)
                except Exception as e:
                    problems.setdefault('exc', []).append(((es,nbits,inf,kind.name), nm, str(x), type(e).__name__)); continue
                if got.is_nar() or got.as_rational() != want or not got.inexact:
                    problems.setdefault('value', []).append(((es,nbits,inf,kind.name), nm, str(x), str(got), str(want), got.inexact))
print('cases', ncase)
for k, v in problems.items():
    print(k, len(v))
    for item in v[:8]: print('   ', item)
