import fpy2 as fp
from fpy2.strategies import elim_round
P11 = fp.MPFloatContext(11)
@fp.fpy(ctx=fp.FP32)
def f(x: fp.Real):
    y = fp.round(x)
    with P11:
        z = fp.round(y)
    return z
try:
    g = elim_round(fp.strategies.monomorphize(f, ctx=fp.FP32, arg_types=[fp.types.RealType(fp.FP32)]) if False else f)
    print(g.format())
    x = 1.0000001
    print(f(x), g(x))
except Exception as e:
    import traceback; traceback.print_exc()
