#!/usr/bin/env python3
"""
Re-try filed seeded changes after the machinery was strengthened and append the result to their meta.json:
  tools/retry_seed.py <id> [<id> …] [--checks C07,C13] [--seed N]
(checks default to the seed's own property). Runs against a scratch worktree of /repo HEAD; never touches /repo.
"""
import subprocess, sys, os, json, shutil, tempfile, time
VERIF = os.path.dirname(os.path.dirname(os.path.abspath(__file__)))
def sh(cmd, **kw): return subprocess.run(cmd, capture_output=True, text=True, **kw)
def main():
    a = sys.argv[1:]
    checks = None; seed = '0'
    if '--checks' in a: i = a.index('--checks'); checks = a[i + 1].split(','); del a[i:i + 2]
    if '--seed' in a: i = a.index('--seed'); seed = a[i + 1]; del a[i:i + 2]
    for sid in a:
        d = os.path.join(VERIF, 'seeded', sid)
        meta = json.load(open(os.path.join(d, 'meta.json')))
        cs = checks or [meta['property']]
        wt = tempfile.mkdtemp(prefix='fpyseed_', dir='/var/tmp'); os.rmdir(wt)
        subprocess.run(['git', '-C', '/repo', 'worktree', 'add', '-q', '--detach', wt, 'HEAD'], check=True)
        try:
            ap = sh(['git', '-C', wt, 'apply', '--3way', os.path.join(d, 'patch.diff')])
            if ap.returncode != 0: ap = sh(['git', '-C', wt, 'apply', os.path.join(d, 'patch.diff')])
            entry = {'at_repo_head': sh(['git', '-C', '/repo', 'log', '--format=%h', '-1']).stdout.strip(),
                     'at_verif_head': sh(['git', '-C', VERIF, 'log', '--format=%h', '-1']).stdout.strip(),
                     'patch_applies': ap.returncode == 0, 'seed': seed, 'checks': {}}
            if ap.returncode == 0:
                for c in cs:
                    p = sh([os.path.join(VERIF, 'check'), c, '--tier', 'quick'], env=dict(os.environ, FPY_REPO=wt, VERIF_SEED=seed), cwd=VERIF)
                    lines = [l for l in p.stdout.splitlines() if l.startswith('VIOLATION')]
                    entry['checks'][c] = {'exit': p.returncode, 'violation_lines': lines[:2],
                                          'with_failing_input': bool(lines) and 'no-failing-input-found' not in lines[0]}
            meta.setdefault('retrial', []).append(entry)
            json.dump(meta, open(os.path.join(d, 'meta.json'), 'w'), indent=1)
            print(sid, {c: (v['exit'], v['with_failing_input']) for c, v in entry['checks'].items()}, 'applies' if entry['patch_applies'] else 'PATCH DOES NOT APPLY')
        finally:
            subprocess.run(['git', '-C', '/repo', 'worktree', 'remove', '--force', wt])
            shutil.rmtree(wt, ignore_errors=True)
if __name__ == '__main__':
    main()
