#!/usr/bin/env python3
"""tools/mkseed.py Cxx — prepare a seeding job: scratch worktree /tmp/seed_Cxx of /repo HEAD, the property text
/tmp/prop_Cxx.txt and the sub-agent prompt /tmp/seed_prompt_Cxx.txt (the agent sees only these)."""
import json, subprocess, sys, os
pid = sys.argv[1]
props = {json.loads(l)['id']: json.loads(l) for l in open('/verif/properties.jsonl')}
p = props[pid]
text = f"{p['title']}\n\n{p['statement']}\n\nQuantified over: {p['quantifier']['text']}\n\nCode anchors: {', '.join(p['anchors']['files'])}\n"
open(f'/tmp/prop_{pid}.txt', 'w').write(text)
wt = f'/tmp/seed_{pid}' + (sys.argv[2] if len(sys.argv) > 2 else '')
if not os.path.isdir(wt):
    subprocess.check_call(['git', '-C', '/repo', 'worktree', 'add', '--detach', wt, 'HEAD'])
tmpl = open('/verif/tools/seed_prompt.tmpl').read()
# round 2+: name the ideas already used so that the new changes are different in kind
import glob
prev = []
for d in sorted(glob.glob(f'/verif/seeded/{pid}-*')):
    try:
        first = [l for l in open(d + '/notes.md').read().splitlines() if l.strip()][0].lstrip('# ').strip()
        files = [l.split(' b/')[-1] for l in open(d + '/patch.diff') if l.startswith('diff --git')]
        prev.append(f'- {first} ({", ".join(files)})')
    except Exception: pass
if prev:
    tmpl = tmpl.replace('Make the three changes different in kind', 'These ideas were ALREADY used by earlier rounds -- do not repeat them or close variants, find different mechanisms and different functions:\n' + '\n'.join(prev) + '\nMake the three changes different in kind')

open(f'/tmp/seed_prompt_{pid}' + (sys.argv[2] if len(sys.argv) > 2 else '') + '.txt', 'w').write(tmpl.replace('@WT@', wt).replace('@PID@', pid).replace('@PROP@', text))
print(f'/tmp/seed_prompt_{pid}' + (sys.argv[2] if len(sys.argv) > 2 else '') + '.txt')
