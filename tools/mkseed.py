#!/usr/bin/env python3
"""tools/mkseed.py Cxx — prepare a seeding job: scratch worktree /tmp/seed_Cxx of /repo HEAD, the property text
/tmp/prop_Cxx.txt and the sub-agent prompt /tmp/seed_prompt_Cxx.txt (the agent sees only these)."""
import json, subprocess, sys, os
pid = sys.argv[1]
props = {json.loads(l)['id']: json.loads(l) for l in open('/verif/properties.jsonl')}
p = props[pid]
text = f"{p['title']}\n\n{p['statement']}\n\nQuantified over: {p['quantifier']['text']}\n\nCode anchors: {', '.join(p['anchors']['files'])}\n"
open(f'/tmp/prop_{pid}.txt', 'w').write(text)
wt = f'/tmp/seed_{pid}'
if not os.path.isdir(wt):
    subprocess.check_call(['git', '-C', '/repo', 'worktree', 'add', '--detach', wt, 'HEAD'])
tmpl = open('/verif/tools/seed_prompt.tmpl').read()
open(f'/tmp/seed_prompt_{pid}.txt', 'w').write(tmpl.replace('@WT@', wt).replace('@PID@', pid).replace('@PROP@', text))
print(f'/tmp/seed_prompt_{pid}.txt')
