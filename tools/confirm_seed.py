#!/usr/bin/env python3
"""
Confirm a seeded change in a scratch worktree of /repo and file it under /verif/seeded/<id>/:
  tools/confirm_seed.py <src_dir with patch.diff, demo.py[, notes.md]> <id> <property> [--suite] [--checks C01,C02]
 - demo.py must exit 0 on the unchanged tree and non-zero with the patch applied
 - --suite: also run the pinned test suite with the patch (must pass)
 - --checks: run these /verif checks against the patched worktree and record which catch it
"""
import subprocess, sys, os, json, shutil, tempfile, time
VERIF = os.path.dirname(os.path.dirname(os.path.abspath(__file__)))
def sh(cmd, **kw): return subprocess.run(cmd, capture_output=True, text=True, **kw)
def main():
    a = sys.argv[1:]
    suite = '--suite' in a
    if suite: a.remove('--suite')
    checks = []
    if '--checks' in a:
        i = a.index('--checks'); checks = a[i + 1].split(','); del a[i:i + 2]
    src, sid, prop = a[0], a[1], a[2]
    wt = tempfile.mkdtemp(prefix='fpyseed_', dir='/var/tmp'); os.rmdir(wt)
    subprocess.run(['git', '-C', '/repo', 'worktree', 'add', '-q', '--detach', wt, 'HEAD'], check=True)
    meta = {'id': sid, 'property': prop, 'confirmed_at_repo_head': sh(['git', '-C', '/repo', 'log', '--format=%h', '-1']).stdout.strip(), 'ran': []}
    try:
        # run the demo from inside the worktree (demos locate the package relative to their own path)
        ddir = os.path.join(wt, 'out', 'x'); os.makedirs(ddir, exist_ok=True)
        shutil.copy(os.path.join(src, 'demo.py'), ddir)
        demo = os.path.join(ddir, 'demo.py')
        env = dict(os.environ, PYTHONPATH=wt, FPY_CHECKOUT=wt, FPY_ROOT=wt, FPY2_ROOT=wt)
        r0 = sh(['/venv/bin/python', demo], cwd=wt, env=env, timeout=900)
        meta['demo_without_patch_exit'] = r0.returncode
        meta['ran'].append('demo.py on the unchanged worktree')
        ap = sh(['git', '-C', wt, 'apply', '--3way', os.path.join(src, 'patch.diff')])
        if ap.returncode != 0:
            ap = sh(['git', '-C', wt, 'apply', os.path.join(src, 'patch.diff')])
        meta['patch_applies'] = ap.returncode == 0
        if ap.returncode == 0:
            r1 = sh(['/venv/bin/python', demo], cwd=wt, env=env, timeout=900)
            meta['demo_with_patch_exit'] = r1.returncode
            meta['demo_with_patch_tail'] = (r1.stdout + r1.stderr)[-600:]
            meta['ran'].append('demo.py with the patch applied')
            if suite:
                t0 = time.time()
                rs = sh('/venv/bin/python -m pytest -q -p no:cacheprovider --timeout=900 -x -q 2>&1 | tail -5', cwd=wt, shell=True)
                meta['suite_with_patch_tail'] = rs.stdout[-500:]
                meta['suite_with_patch_ok'] = ('failed' not in rs.stdout and 'error' not in rs.stdout.lower())
                meta['suite_wall_s'] = round(time.time() - t0)
                meta['ran'].append('pinned test suite with the patch (pytest -x)')
            caught = {}
            for c in checks:
                p = sh([os.path.join(VERIF, 'check'), c, '--tier', 'quick'], env=dict(os.environ, FPY_REPO=wt, VERIF_SEED='0'), cwd=VERIF)
                lines = [l for l in p.stdout.splitlines() if l.startswith('VIOLATION')]
                caught[c] = {'exit': p.returncode, 'violation_lines': lines[:2], 'with_failing_input': bool(lines) and 'no-failing-input-found' not in lines[0]}
                meta['ran'].append(f'./check {c} --tier quick with FPY_REPO=<patched worktree>')
            meta['checks'] = caught
    finally:
        subprocess.run(['git', '-C', '/repo', 'worktree', 'remove', '--force', wt])
        shutil.rmtree(wt, ignore_errors=True)
    ok = meta.get('demo_without_patch_exit') == 0 and meta.get('demo_with_patch_exit') not in (0, None)
    meta['confirmed'] = ok
    if True:   # unconfirmed deliveries are kept too (meta.confirmed = false), never lost with the worktree
        dst = os.path.join(VERIF, 'seeded', sid if ok else sid + '.unconfirmed'); os.makedirs(dst, exist_ok=True)
        for f in ('patch.diff', 'demo.py', 'notes.md'):
            if os.path.exists(os.path.join(src, f)): shutil.copy(os.path.join(src, f), dst)
        notes = os.path.join(src, 'notes.md')
        meta['needs_to_manifest'] = ''
        if os.path.exists(notes):
            t = open(notes).read()
            i = t.lower().find('needed'); meta['needs_to_manifest'] = t[i:i + 900] if i >= 0 else t[:600]
        json.dump(meta, open(os.path.join(dst, 'meta.json'), 'w'), indent=1)
    print(json.dumps({k: v for k, v in meta.items() if k not in ('demo_with_patch_tail', 'needs_to_manifest')}, indent=1))
if __name__ == '__main__':
    main()
