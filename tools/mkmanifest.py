#!/usr/bin/env python3
"""regenerate MANIFEST.json from the table below (keeps it valid at all times)"""
import json, os
HERE = os.path.dirname(os.path.dirname(os.path.abspath(__file__)))
TB = ("Lean 4.33 kernel; axioms limited to propext/Classical.choice/Quot.sound (audited per theorem each run, no native_decide/bv_decide/sorry); "
      "the hand-written Lean model is tied to /repo by a correspondence run on every invocation (real code vs compiled model on the same generated lines) "
      "and judged by an independent exact-rational Spec oracle; trusted: Lean compiler/runtime for the driver, harness canonicalisation and generators, CPython int/Fraction")
CLAIMED = {
 'C01': dict(text="Lean theorems: the bit-level rounding core of every context family computes the arithmetic specification of the 8 modes (unbounded widths/exponents), "
                  "result fits the format, representable operands unchanged, inexact flag truthful, overflow decision table; model tied to the code by differential runs "
                  "over all families x modes x overflow modes x operand types at every kind of breakpoint, each case also judged by a rational Spec oracle.",
             note=TB + "; gmpy2/MPFR not used by the model (non-dyadic operands are modelled by exact integer division and compared with the real MPFR path).",
             tech="Lean 4 proof (omega/simp over Nat/Int) + model-vs-code correspondence + rational Spec oracle", ref="5/C01"),

 'C17': dict(text="Lean theorems (no bound on widths, exponents or k): stochastic rounding equals deterministic rounding with a thresholded mode; pointwise result for every draw r < 2^k is the upper neighbour iff 2^k <= r + m; the count of round-away draws over all 2^k draws is exactly m = the distance past the lower neighbour in units of 2^-k of the gap rounded by the mode; representable operands unchanged; mean within 2^-k of the gap (exact when k covers all lost digits); float shape included. Tie: every one of the 2^k scripted draws replayed on the real code and the model for every generated (context, operand), plus a Spec oracle on neighbours/count/one draw.",
             note=TB + "; the real code's single call to the generator is observed by a scripted random.Random subclass (not provable in Lean).",
             tech="Lean 4 proof (induction over List.range, omega) + exhaustive-draw correspondence + Spec oracle", ref="5/C17"),

 'C04': dict(text="An independent evaluator of the FPy core language written in Lean from the semantics documents (fuel-indexed big-step: contexts as an evaluator argument so `with` cannot leak, heap of shared lists, callee-context rule, unrounded literals/arguments, lazy comparison chains, strict slices/zip, live-list iteration) with the documented rules pinned as theorems; every rounded node goes through the C01/C02 number model. Tie: type-directed random programs printed both as FPy source (real parser + bytecode interpreter) and as S-expressions (Lean evaluator), compared on inputs incl. specials under absent/narrow/REAL caller contexts; the AST the real parser produced is exported and compared with the program text the generator wrote.",
             note=TB + "; byte.py compiling to Python AST is not proved correct (tied by correspondence); static context-constructor expressions are evaluated by the harness when exporting; programs outside the modelled subset are counted and skipped.",
             tech="Lean 4 executable semantics + rule theorems; differential execution real interpreter vs Lean evaluator", ref="5/C04"),

 'C02': dict(text="Lean theorems: the load-bearing round-to-odd lemma (two guard digits + sticky bit re-round exactly, for every mode; one guard digit is refuted), lifted through every deterministic context family; add/sub/mul/fma/neg/fabs/fmod/pow results = the exact RealFloat result rounded once; exactness under the real context; integer sqrt/cbrt specifications and 'floor + sticky rounds like the real value'; IEEE special-value tables. The MPFR toward-zero result and ternary are COMPUTED in integers by the model, not assumed. Tie: real fpy2.ops vs the model on every operand spelling x contexts far narrower than the operands, concentrated within one sticky bit of target breakpoints; independent exact-rational Spec oracle (polynomial enclosures for roots).",
             note=TB + "; div's lift through the exponent search is partial; remainder/fdim/copysign/negative powers covered by the harness only; MPFR exponent range not modelled (known finding C02-F3).",
             tech="Lean 4 proof + model-vs-code correspondence + rational Spec oracle", ref="5/C02"),
 'C05': dict(text="Lean theorems (51): RealFloat +,-,*,**,neg,abs,pos are homomorphic to the rationals they denote for ANY encoding; signed-zero rules; compare/==/hash-class coherence across Float, RealFloat, int, float, Fraction in both operand orders; split/normalize/is_more_significant/bit/int()/float() exactness incl. when they must raise; Float layer equals the extended-real tables. Tie: exhaustive (s, exp in [-4,4], c <= 31) pairs over type combinations + wide random encodings against the real operators and an exact Fraction Spec oracle.",
             note=TB + "; Python's own hash() on int/Fraction is trusted to respect equality.",
             tech="Lean 4 proof (core Rat lemmas, grind/omega) + exhaustive small-operand correspondence + Spec oracle", ref="5/C05"),
 'C16': dict(text="Lean theorems (44) for every valid format parameter and unbounded widths: EFloat/IEEE decode = published layout for all NaN kinds/inf flags/offsets; encode/decode round trips incl. signed zeros, infinities and NaN up to payload; encode < 2^nbits; two's-complement, sign-magnitude and exponential round trips; float and fixed ordinals are the value order (strictly monotone, bijective, zeros merged), from/to ordinal inverse, next_up = ordinal + 1; normalize keeps the value; maxval is the largest finite code. Tie: EVERY bit pattern of every format with nbits <= 6 (8 thorough) on the real code, the model and a first-principles layout decoder.",
             note=TB + "; minval/representable_iff_decoded (<-) are checked exhaustively, not proved.",
             tech="Lean 4 proof + exhaustive bit-pattern correspondence + layout Spec oracle", ref="5/C16"),
 'C19': dict(text="Lean theorems (22) for every tree, edit log and path: forwarding a cursor across a log either errors or resolves to a statement that descends from the one named (never unrelated), untouched statements are unchanged, replaced runs map exactly to the replacing run, chains of passes compose; site selection: index j < k selects site j only, other indices rejected, None selects all, every candidate is a site or a refusal. Tie: random trees x well/ill-formed logs x paths against the real EditLog.forward and an independent tag-tracking Spec oracle; end-to-end on real strategies with planted tags, all where= values, cursors forwarded across 1-3 strategies.",
             note=TB + "; the per-strategy candidate loops are abstracted in the Sites model and exercised end to end.",
             tech="Lean 4 proof (induction over trees/logs) + correspondence + tag-identity Spec oracle", ref="5/C19"),

 'C15': dict(text="Lean theorem accepted_safe at full strength: if the model of the front end's definedness checker + reachability accepts a function then, for EVERY oracle of branch outcomes and trip counts (zero-trip loops, untaken one-armed ifs) and every fuel, neither the first-call analysis nor the run reads an unbound name or falls off the end; plus the rejects-leaks theorems (names introduced only in a loop/branch, loop targets). Proved over a skeleton language in which values are irrelevant, by the invariant 'marked defined => bound at run time'. Tie: every skeleton program up to a size bound (exhaustive) + random ones rendered as FPy source: the real @fpy accept/reject decision and error kind vs the model, every accepted program run on the real interpreter and on CPython on inputs steering each branch/trip count.",
             note=TB + "; each `if` site gets one steering argument per run (the theorem quantifies over all oracles).",
             tech="Lean 4 proof (invariant by induction over the big-step semantics) + exhaustive small-program correspondence + run-time Spec oracle", ref="5/C15"),

 'C14': dict(text="Lean theorems (21) over a faithful model of AbstractFormat with concretisation gamma written from the class docstring: add/sub/union/abs/<= soundness at full strength (for all well-formed formats and all members incl. -0, infinities, NaN), member <-> gamma, multiplication sound up to the recorded -0 flag (F29), rounding-identity soundness for MPFloat targets; counterexample theorems document the repaired defects on the legacy definitions. Tie: all pairs of a grid of abstract formats through the real operators vs the model, an independent rational membership oracle on enumerated members, and program-level traced executions under pinned contexts (every run-time value must be a member of the inferred format; elim_round end to end).",
             note=TB + "; the program-level fixpoint (_join_bounds, widening, branch refinement) is monitored on traced executions, not proved.",
             tech="Lean 4 proof (abstract arithmetic) + grid correspondence + membership Spec oracle + traced executions", ref="5/C14"),

 'C06': dict(text="Lean theorems (21): the decimal, hexadecimal-float, digits(m,e,b) and rational(p,q) parsers return exactly the positional value of every spelling they accept and accept exactly the well-formed spellings (any digit count, exponent, separators); negated-zero fold; a literal is evaluated exactly and rounded once by fp.round; for the current front end the float-token path through Python's float is modelled faithfully (binary64 rounding + shortest repr) with proved counterexamples (known finding F5) and the full theorem literal_exact for the proposed repair. Tie: generated spellings evaluated by the real @fpy under REAL and narrow contexts vs the model, judged by an independent positional parser in exact rationals.",
             note=TB + "; F5 (decimal literals go through Python's float) is a recorded known finding: its repair changes the meaning of 1e300 relied on by an existing test.",
             tech="Lean 4 proof (parser = positional value) + spelling correspondence + rational Spec oracle", ref="5/C06"),

 'C03': dict(text="Lean theorems (18) about everything FPy adds around MPFR: given the MPFR contract (toward-zero truncation + inexact ternary at each precision, stated as a coherence predicate without real numbers) the round-to-odd wrapper with the context's round_params digits returns the correct rounding — fully formal for dyadic and rational true values and, via rto_determined, depending only on comparisons with dyadic breakpoints; the two-pass precision selection for fixed-point targets is sufficient; exactly representable results come back exact and unflagged; the constant table's shape (single primitive vs composition) and the mechanism by which composed constants mis-round (counterexample + soundness of the exponent-scaling repair). MPFR itself is validated per case by an independent enclosure oracle (directed evaluations at growing working precision until both ends round alike; constants by a pure-integer interval evaluator).",
             note=TB + "; PARTIAL: numerical correctness of MPFR's transcendental kernels is outside any Lean model (sampled by the enclosure oracle); the passage from rationals to real numbers is the one informal step. Known finding F9 (seven composed constants).",
             tech="Lean 4 proof of the wrapper logic + Ziv-style enclosure Spec oracle against the real ops", ref="5/C03"),
 'C12': dict(text="Lean theorems (28): a model of the FPCore core subset (fuel evaluator where '!' scopes the rounding context over exactly its sub-expression) and of the repaired compiler for blocks of assignments, nested/sequential with followed by statements, if/else, return: compile_sound (the compiled expression evaluates to what the FPy block returns, every operation under the context of its enclosing with and no other), with_scope (continuation outside the inner annotation, with a legacy counterexample), context-property table round trip. Tie: generated programs compiled by the real FPCoreCompiler, evaluated by titanfp (trusted reference) and re-read with Function.from_fpcore vs the interpreter; an evaluator-independent annotation-scope walk over the emitted core; the Lean FPCore evaluator vs titanfp; the compile model vs the real compiler.",
             note=TB + "; PARTIAL: loops, if followed by statements (bundling), tuples/lists and the reader are covered by the harness only; titanfp is a trusted reference (its own deviations are counted, not judged). Known finding C12-looptarget.",
             tech="Lean 4 proof (compile soundness for the loop-free subset) + differential runs against titanfp and the re-read function", ref="5/C12"),

 'C10': dict(text="Lean theorems (30) — the lowering rewrites are number theorems over the rounding model: a float rounding equals the fixed-point rounding at the emitted position (normal, subnormal and clamped branches; value, sign and flags) for every deterministic bounded/unbounded float context and probed policy; rescaling a fixed-point rounding by a power of two commutes with rounding for every operand incl. NaN/inf/zeros and WRAP; bounded rounding = unbounded rounding + the emitted comparison + the source's own overflow arm, and a single probe determines that arm; what a context makes of NaN/inf/zero is a constant; shedding rules are invisible exactly when unreachable; identity roundings change nothing; the documented chain end to end; counterexamples for the repaired defects. Tie: each real strategy alone and every chain prefix applied to `with C: y = round(x)` for generated contexts of all families, original vs lowered on the real interpreter at every boundary operand, emitted constants checked against the theorem instances, lowered programs run on the Lean evaluator.",
             note=TB + "; early_check is proved for thresholds at a binade boundary only; lowered programs that use logb cannot be run on the Lean evaluator (counted). Known finding F29 (via insert_round).",
             tech="Lean 4 proof (rounding identities) + original-vs-lowered differential at format boundaries", ref="5/C10"),
 'C18': dict(text="Lean theorems (11) over a model of the Python boundary on top of the Lean evaluator: the frame property of the WHOLE evaluator (cells that existed before a call and are not reachable from fresh arguments are never written; returned references are fresh) proved by induction over all evaluator functions, hence args_untouched and result_fresh for any aliased caller values; history_independent for every operation sequence (calls, transformed copies, caller mutating results) and every module under the current copy-captured/rebuild-result policy; schedule_independent for every interleaving of the atomic steps lookup|compile|insert|run of N calls over the shared cache; legacy counterexamples for the repaired defects F7/F8. Tie: deep snapshots incl. container identity around real calls, random histories in one process (other contexts, stochastic contexts, transforms, raising calls, mutated results, re-entrant callbacks), 4-8 threads with a 1 microsecond switch interval vs sequential results, and the model's prediction of successive results.",
             note=TB + "; PARTIAL: GIL preemption inside C extensions, gmpy2's thread-local MPFR context, writes made before an exception and free variables of callees are not modelled — the threaded runs are sampling.",
             tech="Lean 4 proof (frame property + induction over histories and schedules) + history/thread differential runs", ref="5/C18"),
}
NA_REASON = "check not built yet (work in progress; see DESIGN.md section 8 build order)"

def main():
    checks = []
    for pid, c in sorted(CLAIMED.items()):
        checks.append({
            "property_id": pid,
            "quick_cmd": f"./check {pid} --tier quick",
            "thorough_cmd": f"./check {pid} --tier thorough",
            "evidence_file": f"evidence/{pid}.json",
            "replay_cmd_template": f"./check {pid} --replay {{path}}",
            "engine": "fpy-lean",
            "level_claimed": {"category": c.get('cat', 'proof'), "text": c['text'], "design_ref": c['ref']},
            "level_note": c['note'],
            "technique": c['tech'],
        })
    na = [{"property_id": "C%02d" % i, "reason": NA_REASON} for i in range(1, 21) if "C%02d" % i not in CLAIMED]
    m = {
        "version": 1,
        "setup_cmd": "cd lean && lake build Fpy fpydrv",
        "hooks": {"guard": "FPY_VERIF", "enable": "no hooks needed: every observable is reachable through the public API (scripted rng objects, subclassing)",
                  "baseline_off_cmd": "cd /repo && /venv/bin/python -m pytest -q -p no:cacheprovider --timeout=900", "source_commits": [], "add_only": True},
        "engines": [{"name": "fpy-lean", "path": "lean/", "serves_properties": sorted(CLAIMED),
                     "kind_free_text": "Lean 4 model + theorems (lean/Fpy), native driver (lean/Driver), Python correspondence harness (harness/), entry ./check"}],
        "checks": checks,
        "not_applicable": na,
        "notes": "See DESIGN.md. Fixes to /repo are separate 'fix:' commits recorded in known_findings.json.",
    }
    json.dump(m, open(os.path.join(HERE, 'MANIFEST.json'), 'w'), indent=1)
if __name__ == '__main__':
    main()
