#!/usr/bin/env python3
"""regenerate lean/Fpy.lean so that `lake build Fpy` builds every module"""
import glob, os
HERE = os.path.dirname(os.path.dirname(os.path.abspath(__file__)))
mods = [f[len(HERE) + len('/lean/'):-5].replace('/', '.') for f in sorted(glob.glob(HERE + '/lean/Fpy/**/*.lean', recursive=True))]
open(HERE + '/lean/Fpy.lean', 'w').write('-- all modules of the library (regenerate with tools/mkroot.py)\n' + ''.join(f'import {m}\n' for m in mods))
