#!/usr/bin/env python3
"""
Run checks against a seeded change WITHOUT touching /repo (other work may be using it):
  tools/try_seed.py <patch.diff> <Cxx> [<Cyy> …] [--seed N] [--tier quick]
makes a scratch worktree of /repo HEAD under /var/tmp, applies the patch, runs each check with
FPY_REPO pointing at it, prints exit code + protocol lines, removes the worktree.
(The registered commands always run against /repo itself; this is only the mutation-testing convenience.)
"""
import subprocess, sys, os, tempfile, shutil
def main():
    args = sys.argv[1:]
    seed = '0'; tier = 'quick'
    if '--seed' in args: i = args.index('--seed'); seed = args[i + 1]; del args[i:i + 2]
    if '--tier' in args: i = args.index('--tier'); tier = args[i + 1]; del args[i:i + 2]
    patch, checks = os.path.abspath(args[0]), args[1:]
    wt = tempfile.mkdtemp(prefix='fpymut_', dir='/var/tmp')
    os.rmdir(wt)
    subprocess.run(['git', '-C', '/repo', 'worktree', 'add', '-q', '--detach', wt, 'HEAD'], check=True)
    try:
        r = subprocess.run(['git', '-C', wt, 'apply', '--3way', patch], capture_output=True, text=True)
        if r.returncode != 0:
            r2 = subprocess.run(['git', '-C', wt, 'apply', patch], capture_output=True, text=True)
            if r2.returncode != 0:
                print('PATCH DOES NOT APPLY:', r.stderr[-400:], r2.stderr[-400:]); return 2
        verif = os.path.dirname(os.path.dirname(os.path.abspath(__file__)))
        env = dict(os.environ, FPY_REPO=wt, VERIF_SEED=seed)
        rc_all = 0
        for c in checks:
            p = subprocess.run([os.path.join(verif, 'check'), c, '--tier', tier], capture_output=True, text=True, env=env, cwd=verif)
            lines = [l for l in p.stdout.splitlines() if l.startswith(('VIOLATION', 'KNOWN-FINDING', '['))]
            print(f'== {c}: exit {p.returncode}')
            for l in lines: print('   ' + l[:220])
            if p.returncode not in (0, 1): print(p.stderr[-600:])
            rc_all = max(rc_all, p.returncode)
        return rc_all
    finally:
        subprocess.run(['git', '-C', '/repo', 'worktree', 'remove', '--force', wt])
        shutil.rmtree(wt, ignore_errors=True)
if __name__ == '__main__':
    sys.exit(main())
