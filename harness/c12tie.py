"""C12 — translator-level correspondence of the Lean compiler model (`compileFunL`, driver op `fpccompile`)
with the real `FPCoreCompiler`: the EMITTED TEXT is compared, not values.

Both cores are brought to an α-normal form: every bound variable (let / let* / while / for / tensor binders) is
renamed to `v<k>` in the order the binders are met, references are resolved by FPCore's scoping rules, the
properties of a `!` are sorted, numbers are exact fractions.  (The real passes rename the variables they bundle
and draw gensym names; the model keeps the source names and fixed temporaries — the two outputs differ by a
renaming of bound variables only.)  `WhileBundling`/`ForBundling`/one-armed `IfBundling` iterate a Python `set`:
the model takes the order as a parameter (per site: kind of statement + size of its body), the harness tries the
orders of every bundled set at every site (bounded) and accepts if one of them reproduces the real text.
"""
from __future__ import annotations
import itertools
from fractions import Fraction
from langexport import Unsupported
import fpy2 as fp
from fpy2.ast import fpyast as A

CMPS = {'<': 'lt', '<=': 'le', '>': 'gt', '>=': 'ge'}

# ------------------------------------------------------------------ tagged S-expressions
def parse(s: str):
    toks = s.replace('(', ' ( ').replace(')', ' ) ').split()
    pos = 0
    def rd():
        nonlocal pos
        t = toks[pos]; pos += 1
        if t == '(':
            out = []
            while toks[pos] != ')': out.append(rd())
            pos += 1
            return out
        return t
    out = rd()
    if pos != len(toks): raise ValueError('trailing tokens')
    return out

def dump(e) -> str:
    return e if isinstance(e, str) else '(' + ' '.join(dump(x) for x in e) + ')'

def norm_num(tok: str) -> str:
    if tok.startswith('Q'):
        n, d = tok[1:].split('/'); q = Fraction(int(n), int(d)); return f'Q{q.numerator}/{q.denominator}'
    return tok

def alpha(e, env=None, counter=None):
    """α-normal form of a tagged core expression"""
    env = env or {}
    counter = counter if counter is not None else itertools.count()
    def fresh(): return f'v{next(counter)}'
    def go(e, env):
        tag = e[0]
        if tag == 'var': return ['var', env.get(e[1], e[1])]
        if tag == 'num': return ['num', norm_num(e[1])]
        if tag == 'const': return e
        if tag in ('op', 'cmp', 'pred'): return [tag, e[1]] + [go(x, env) for x in e[2:]]
        if tag in ('and', 'or', 'not', 'array', 'ref', 'size', 'dim', 'if'): return [tag] + [go(x, env) for x in e[1:]]
        if tag == 'ann': return ['ann', sorted(e[1], key=dump), go(e[2], env)]
        if tag == 'let':
            vals = [go(v, env) for _, v in e[1]]
            env2 = dict(env); names = []
            for (x, _) in e[1]:
                n = fresh(); env2[x] = n; names.append(n)
            return ['let', [[n, v] for n, v in zip(names, vals)], go(e[2], env2)]
        if tag == 'letstar':
            env2 = dict(env); out = []
            for (x, v) in e[1]:
                vv = go(v, env2); n = fresh(); env2[x] = n; out.append([n, vv])
            return ['letstar', out, go(e[2], env2)]
        if tag in ('while', 'whilestar'):
            inits = [go(i, env) for _, i, _ in e[2]]
            env2 = dict(env); names = []
            for (x, _, _) in e[2]:
                n = fresh(); env2[x] = n; names.append(n)
            c = go(e[1], env2)
            upds = [go(u, env2) for _, _, u in e[2]]
            return [tag, c, [[n, i, u] for n, i, u in zip(names, inits, upds)], go(e[3], env2)]
        if tag in ('for', 'forstar'):
            dims = [go(v, env) for _, v in e[1]]
            inits = [go(i, env) for _, i, _ in e[2]]
            env2 = dict(env); dn = []; names = []
            for (x, _) in e[1]:
                n = fresh(); env2[x] = n; dn.append(n)
            for (x, _, _) in e[2]:
                n = fresh(); env2[x] = n; names.append(n)
            upds = [go(u, env2) for _, _, u in e[2]]
            return [tag, [[n, v] for n, v in zip(dn, dims)], [[n, i, u] for n, i, u in zip(names, inits, upds)], go(e[3], env2)]
        if tag == 'tensor':
            dims = [go(v, env) for _, v in e[1]]
            env2 = dict(env); dn = []
            for (x, _) in e[1]:
                n = fresh(); env2[x] = n; dn.append(n)
            return ['tensor', [[n, v] for n, v in zip(dn, dims)], go(e[2], env2)]
        raise Unsupported(f'alpha: {tag}')
    return go(e, env)

def canon_core(props_text: str, body_text: str) -> str:
    props = sorted(parse(props_text), key=dump)
    return dump(props) + ' ' + dump(alpha(parse(body_text)))

# ------------------------------------------------------------------ source AST -> the model's subset
def export_lprogram(fn, desc_tok, static_py):
    """`(params) decl (stmts)` of a function of the modelled subset + the sorted sets (>= 2 names) of variables that a
    loop / one-armed `if` bundles (`DefineUse.mutated_in` of the real analysis on the source AST): the keys of the
    order parameter `ord` of the model"""
    BIN = {A.Add: 'add', A.Sub: 'sub', A.Mul: 'mul', A.Div: 'div'}
    UN = {A.Neg: 'neg', A.Abs: 'fabs', A.Sqrt: 'sqrt'}
    from fpy2.analysis import DefineUse
    du = DefineUse.analyze(fn.ast)
    bundles: list[tuple[int, tuple[str, ...]]] = []
    dup = [False]
    def size(st):
        if isinstance(st, A.ContextStmt): return 1 + sizeL(st.body)
        if isinstance(st, A.IfStmt): return 1 + sizeL(st.ift) + sizeL(st.iff)
        if isinstance(st, (A.If1Stmt, A.WhileStmt, A.ForStmt)): return 1 + sizeL(st.body)
        return 1
    def sizeL(b): return sum(size(x) for x in b.stmts)
    def note(kind, body):
        """the site key of the model (`siteIf1` / `siteWhile` / `siteFor` of Model/FPCoreLoops.lean) + the sorted set"""
        k = (3 * sizeL(body) + kind, tuple(sorted(str(x) for x in du.mutated_in(body))))
        if len(k[1]) >= 2:
            if k in bundles: dup[0] = True
            else: bundles.append(k)
    def lit_of(e):
        q = Fraction(e.as_rational())
        if q == 0 and str(getattr(e, 'val', '')).startswith('-'): raise Unsupported('literal -0')
        return f'(lit Q{q.numerator}/{q.denominator})'
    def E(e):
        if isinstance(e, A.Var): return f'(var {e.name})'
        if isinstance(e, A.Round) and isinstance(e.arg, A.RationalVal): return lit_of(e.arg)
        if isinstance(e, A.Round): return f'(op round {E(e.arg)})'
        if isinstance(e, A.Fma): return f'(op fma {E(e.first)} {E(e.second)} {E(e.third)})'
        for cls, nm in BIN.items():
            if type(e) is cls: return f'(op {nm} {E(e.first)} {E(e.second)})'
        for cls, nm in UN.items():
            if type(e) is cls: return f'(op {nm} {E(e.arg)})'
        if isinstance(e, A.Compare) and len(e.ops) == 1 and e.ops[0].symbol() in CMPS:
            return f'(cmp {CMPS[e.ops[0].symbol()]} {E(e.args[0])} {E(e.args[1])})'
        if isinstance(e, A.TupleExpr): return '(tuple ' + ' '.join(E(x) for x in e.elts) + ')'
        raise Unsupported(f'model expr {type(e).__name__}')
    def B(b): return '(' + ' '.join(S(x) for x in b.stmts) + ')'
    def S(st):
        if isinstance(st, A.Assign) and isinstance(st.target, A.NamedId):
            return f'(assign {st.target} {E(st.expr)})'
        if isinstance(st, A.Assign) and isinstance(st.target, A.TupleBinding) and all(isinstance(x, A.NamedId) for x in st.target.elts):
            return '(tassign (' + ' '.join(str(x) for x in st.target.elts) + f') {E(st.expr)})'
        if isinstance(st, A.ContextStmt) and str(st.target) == '_':
            c = st.ctx.val if isinstance(st.ctx, A.ForeignVal) else static_py(st.ctx)
            return f'(with ({desc_tok(c)}) {B(st.body)})'
        if isinstance(st, A.IfStmt): return f'(if {E(st.cond)} {B(st.ift)} {B(st.iff)})'
        if isinstance(st, A.If1Stmt):
            note(0, st.body); return f'(if1 {E(st.cond)} {B(st.body)})'
        if isinstance(st, A.WhileStmt):
            note(1, st.body); return f'(while {E(st.cond)} {B(st.body)})'
        if isinstance(st, A.ForStmt) and isinstance(st.target, A.NamedId) and isinstance(st.iterable, A.Range1) \
                and isinstance(st.iterable.arg, A.Round) and isinstance(st.iterable.arg.arg, A.Integer) and st.iterable.arg.arg.val >= 0:
            note(2, st.body); return f'(for {st.target} {st.iterable.arg.arg.val} {B(st.body)})'
        if isinstance(st, A.ReturnStmt): return f'(return {E(st.expr)})'
        raise Unsupported(f'model stmt {type(st).__name__}')
    decl = '_' if fn.ast.ctx is None else '(' + desc_tok(fn.ast.ctx) + ')'
    params = ' '.join(str(a.name) for a in fn.ast.args)
    return f'({params}) {decl} {B(fn.ast.body)}', bundles, dup[0]

def perm_tables(keys: list[tuple[int, tuple[str, ...]]], limit=120):
    """all combinations of one permutation per (site, set), as table texts; None if more than `limit`"""
    total = 1
    for _, k in keys:
        f = 1
        for i in range(2, len(k) + 1): f *= i
        total *= f
        if total > limit: return None
    out = []
    for combo in itertools.product(*[list(itertools.permutations(k)) for _, k in keys]):
        out.append('(' + ' '.join(f'({site} (' + ' '.join(k) + ') (' + ' '.join(p) + '))' for (site, k), p in zip(keys, combo)) + ')')
    return out
