"""C17 — stochastic rounding picks a neighbour with the exact probability.
Scripted generator enumerates all 2^k draws; model gets the draw explicitly."""
from __future__ import annotations
import random
from numgen import *   # noqa
from numspec import fmt_of, spec_round_unbounded, prescribed, Fmt

PROP = 'C17'

class Scripted(random.Random):
    """getrandbits(k) returns the scripted value and counts the calls"""
    def __init__(self):
        super().__init__(0)
        self.value = 0; self.calls = 0; self.bits = None
    def getrandbits(self, k):
        self.calls += 1; self.bits = k
        return self.value & ((1 << k) - 1) if k > 0 else 0

def spec_count(d, x: Fraction, k: int, n=None):
    """(lo, hi, m): neighbours of |x| in the (unbounded-range) format and the number of draws (of 2^k)
    that must round away from zero: the distance past the lower neighbour in units of 2^-k of the gap,
    rounded as the context's mode says."""
    fmt = fmt_of(d)
    ax = abs(x); neg = x < 0
    u = fmt.ulp_exp(ax, n)
    t = ax / Fraction(2) ** u
    lo = t.numerator // t.denominator
    fr = t - lo
    if fr == 0: return lo, lo, 0, u
    w = fr * (1 << k)
    wl = w.numerator // w.denominator
    wf = w - wl
    m = wl if wf == 0 else prescribed(d['rm'], neg, wl, wf)
    return lo, lo + 1, m, u

def classify(d, x, k, m, away):
    """known-finding shapes"""
    if m == (1 << k) and away == 0:
        return 'F12'
    return None

def run(rep, tier, seed):
    R = Prng(seed, 'C17')
    nctx = 60 if tier == 'quick' else 600
    fams = ['mp', 'mps', 'mpb', 'ef', 'ieee', 'mpfix', 'mpbfix', 'fixed', 'smfixed']   # (ExpContext has no random bits)
    lines, meta = [], []
    groups = []   # (d, operand, n, k_eff, [(r, impl_line, calls)])
    for ci in range(nctx):
        d = rand_ctx(R, fams)
        kk = R.choice([1, 1, 2, 2, 3, 4, 5, None]) if tier == 'quick' else R.choice([1, 2, 3, 4, 5, 6, None])
        d['k'] = kk
        rng = Scripted()
        try:
            ctx = ctx_obj(d, rng=rng)
        except Exception:
            rep.count('ctx-rejected'); continue
        rep.count('fam:' + d['fam']); rep.count('k:' + str(kk))
        ct = ctx_tok(d)
        vals = breakpoints(R, d, count=3)
        R.shuffle(vals)
        # operand positions at fractions j/2^(k+2) of a gap
        fmt = fmt_of(d)
        extra = []
        for v in vals[:3]:
            if v == 0: continue
            u = fmt.ulp_exp(abs(v))
            base = (abs(v) / Fraction(2) ** u)
            base = Fraction(base.numerator // base.denominator) * Fraction(2) ** u
            kq = (kk if kk is not None else 3) + 2
            j = R.randint(0, (1 << kq))
            xx = base + Fraction(j, 1 << kq) * Fraction(2) ** u
            extra.append(xx if v > 0 else -xx)
            yy = base + Fraction(R.randint(1, 6), 7) * Fraction(2) ** u if R.random() < 0.5 else base + Fraction(R.choice([1, 2]), 3) * Fraction(2) ** u
            extra.append(yy if v > 0 else -yy)
        for x in (vals[:5] + extra):
            if x == 0: continue
            den = x.denominator
            dyadic = den & (den - 1) == 0
            if kk is None and (not dyadic or den.bit_length() > 12): continue   # k=None needs a finite digit string
            if not dyadic: rep.count('operand:non-dyadic (reaches the core through the round-to-odd intermediate)')
            o = R.choice([e for e in encodings(R, x, x < 0) if e[0] in ('R', 'F', 'Q', 'D')])
            n = None
            # learn how many bits the code asks for with one probe call
            rng.value = 0; rng.calls = 0; rng.bits = None
            try:
                ctx.round(operand_obj(o))
            except Exception:
                pass
            if rng.bits is None:
                keff = 0
            else:
                keff = rng.bits
            if keff > 7: continue
            outs = []
            for r in range(1 << keff):
                rng.value = r; rng.calls = 0
                try:
                    got = show_res(ctx.round(operand_obj(o)))
                except Exception as e:
                    got = 'err ' + err_name(e)
                outs.append((r, got, rng.calls))
                lines.append(f'round {ct} {operand_tok(o)} 0 {r}')
                meta.append((len(groups), r))
            groups.append((d, o, x, keff, outs))
    model = run_driver(lines)
    rep.cov['evaluations'] = len(lines)
    by_group = {}
    for (gi, r), mod, line in zip(meta, model, lines):
        by_group.setdefault(gi, []).append((r, mod, line))
    for gi, (d, o, x, keff, outs) in enumerate(groups):
        rep.distinct.add((ctx_tok(d), operand_tok(o)))
        mods = by_group.get(gi, [])
        # correspondence per draw
        for (r, got, calls), (r2, mod, line) in zip(outs, mods):
            if verdict_part(mod) != verdict_part(got):
                rep.broke('correspondence', 'C17.sround', f'line={line} impl={got} model={mod}')
        rep.sample({'ctx': ctx_tok(d), 'operand': operand_tok(o), 'draws': len(outs), 'first': outs[0][1] if outs else None})
        # Spec: neighbours, count, one draw
        fmt = fmt_of(d)
        lo, hi, m, u = spec_count(d, x, keff)
        g = Fraction(2) ** u
        neg = x < 0
        in_range = True
        if fmt.pos is not None:
            bound = -fmt.neg if neg else fmt.pos
            if hi * g > bound: in_range = False    # upper neighbour beyond the range: overflow handling, judged by C01
        away = 0
        for (r, got, calls) in outs:
            gp = parse_res(got)
            if calls != 1:
                rep.violation(f'{calls} draws consumed for one rounding of a finite non-zero operand',
                              {'ctx': d, 'operand': repr(o), 'draw': r, 'impl': got, 'finding': None})
            if gp[0] == 'err':
                if in_range:
                    rep.violation(f'unexpected error {gp[1]}', {'ctx': d, 'operand': repr(o), 'draw': r, 'impl': got, 'finding': None})
                continue
            if not in_range: continue
            val, _ = canon_value(gp[1])
            if not isinstance(val, Fraction):
                rep.violation(f'non-finite result {gp[1]} inside the range', {'ctx': d, 'operand': repr(o), 'draw': r, 'impl': got, 'finding': None}); continue
            mag = abs(val) / g
            if mag not in (lo, hi):
                rep.violation(f'result {val} is not one of the two neighbours {lo}*2^{u}, {hi}*2^{u}',
                              {'ctx': d, 'operand': repr(o), 'draw': r, 'impl': got, 'finding': None})
            if lo == hi and val != x:
                rep.violation(f'representable operand changed to {val}', {'ctx': d, 'operand': repr(o), 'draw': r, 'impl': got, 'finding': None})
            if lo != hi and mag == hi: away += 1
        if in_range and lo != hi and outs:
            rep.count('gap-position:%s' % ('carry(m=2^k)' if m == (1 << keff) else ('m=0' if m == 0 else 'interior')))
            if away != m:
                rep.violation(f'{away} of {1 << keff} draws round away from zero, Spec count is {m}',
                              {'ctx': d, 'operand': repr(o), 'value': str(x), 'k': keff, 'expected_away': m, 'got_away': away,
                               'finding': classify(d, x, keff, m, away)})
    rep.cov['rule'] = ('contexts of every family that accepts random bits with k in 1..6 or None; operands at breakpoints and at j/2^(k+2) fractions of a gap; '
                       'for each (context, operand) ALL 2^k scripted draws are enumerated on the real code and on the model; distinct = distinct (context, operand) groups')
    rep.cov['exhaustive_draws'] = True
