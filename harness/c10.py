"""
C10 — rounding-lowering rewrites leave the rounding function unchanged.

Three families of work items (run in parallel worker processes, each with its own PRNG stream derived from VERIF_SEED):
 (1) plain sites: for generated source contexts (all families, modes, overflow modes, NaN/inf options, substitutes) a module
     defining `with C: y = fp.round(x)` (and simple variants) is written to a temp dir;
 (2) embedded sites: the rounding sits inside a program that feeds the ANALYSES the rewrites consult (value classes, partial
     evaluation, reaching definitions): in each arm of `if`s on comparisons / isnan / isinf / isfinite / and / or / not, after
     assignments that fix the class of the operand, after another rounding, in loops, after assert / early return, under
     contexts computed at run time;
 (3) `elim_round` / `insert_round` on templates with pinned contexts and argument formats.
For (1) and (2) every real strategy (`unfold_special`, `unfold_neg_zero`, `unfold_overflow` (+`early_check`), `float_to_fixed`,
`rescale_fixed`) is applied alone and along every prefix of the documented lowering chains, and original and lowered programs
are compared on the REAL interpreter for operands at every boundary of the source format, NaN, +-inf, +-0 flowing through every arm.
  verdict (Spec oracle = the real interpreter on the ORIGINAL program): wherever the original returns a value the
     lowered program must return the same value (sign of zero, inf/NaN class included);
  refusals are counted per reason; an accepted context must be reproduced exactly;
  correspondence: the lowered program is exported to the Lean evaluator and must behave like the real interpreter; the constants
     `float_to_fixed` emits are checked against the instance the theorem prescribes and the number model is run at the emitted position.
"""
from __future__ import annotations
import importlib.util, os, shutil, sys, tempfile, math, signal, re
from fractions import Fraction
from numgen import *   # noqa
from langexport import Exporter, eval_line, run_real, Unsupported, show_val, ctx_tok, desc_of_ctx, num_tok
from numspec import floor_log2
import c10cov
import fpy2 as fp
from fpy2 import strategies as S
from fpy2.number import Float, RealFloat

PROP = 'C10'

_run_real = run_real
def run_real(fn, args, ctx=None, timeout_s=12):
    """`langexport.run_real` with a timeout that survives a loaded machine (16 workers)"""
    return _run_real(fn, args, ctx, timeout_s)

class LoweredExporter(Exporter):
    """`langexport.Exporter` + a context bound at module level (`with C_q:` where `C_q` is a Python global of the
    defining module) is exported as the context it denotes; program variables shadow nothing here because the
    generated programs never assign such a name"""
    def __init__(self):
        super().__init__()
        self.missing = set()

    def stmt(self, s):
        try:
            return super().stmt(s)
        except Unsupported as u:
            self.missing.add(str(u)); return '(pass)'

    def expr(self, e):
        from fpy2.ast import fpyast as A
        try:
            return self.expr1(e)
        except Unsupported as u:
            self.missing.add(str(u)); return '(bool 0)'

    def expr1(self, e):
        from fpy2.ast import fpyast as A
        # `fp.nan()` / `fp.inf()` evaluate to the Float itself, unrounded (ops.nan / ops.inf): a literal of the model
        if isinstance(e, A.IsNormal): raise Unsupported('pred isnormal (the evaluator has no context-free isnormal)')
        if isinstance(e, A.ConstNan): return '(num Fn0)'
        if isinstance(e, A.ConstInf): return '(num Fi0)'
        if isinstance(e, A.Var) and self.env is not None:
            nm = str(e.name)
            try:
                v = self.env[nm] if nm in self.env else None
            except Exception:
                v = None
            if isinstance(v, fp.Context):
                return '(ctx ' + ctx_tok(desc_of_ctx(v)) + ')'
            if isinstance(v, bool): return f'(bool {b01(v)})'
            if isinstance(v, (int, float, Fraction, Float, RealFloat)): return f'(num {num_tok(v)})'
            if v is not None and not callable(v) and nm.startswith('K_'): raise Unsupported('foreign value (module-level tuple / list / object)')
        return super().expr(e)

class Missing(Exception):
    def __init__(self, items): self.items = sorted(items)

def export_program(fn):
    """(entry, program) for the Lean evaluator; raises `Missing` with EVERY construct of the program the
    exporter / evaluator has no counterpart for (not only the first)"""
    ex = LoweredExporter()
    ex.add_function(fn)
    if ex.missing: raise Missing(ex.missing)
    return fn.ast.name, ex.program()

def try_export(rep, fn):
    try:
        entry, prog = export_program(fn)
        rep.count('export-ok')
        return entry, prog
    except Missing as m:
        rep.count('export-unsupported-programs')
        for it in m.items: rep.count('export-unsupported:' + it[:60])
    except Unsupported as e:
        rep.count('export-unsupported-programs'); rep.count('export-unsupported:' + str(e)[:60])
    except Exception as e:
        rep.count('export-error:' + type(e).__name__)
    return None, None

KIND_SRC = {'ieee': 'IEEE_754', 'maxval': 'MAX_VAL', 'negzero': 'NEG_ZERO', 'none': 'NONE'}

# ---------------------------------------------------------------- context -> source text

def _rf_py(x): return f'RealFloat(s={x[0]}, exp={x[1]}, c={x[2]})'
def _fv_py(v):
    if v is None: return 'None'
    if v[0] == 'fin': return f'Float(s={v[1]}, exp={v[2]}, c={v[3]})'
    if v[0] == 'inf': return f'Float(s={v[1]}, isinf=True)'
    return f'Float(s={v[1]}, isnan=True)'

def _num_fpy(x):
    """an exact dyadic (s, exp, c) as FPy literal text"""
    q = Fraction(x[2]) * Fraction(2) ** x[1]
    if x[0]: q = -q
    if q.denominator == 1: return str(q.numerator)
    return f'fp.rational({q.numerator}, {q.denominator})'

def ctx_text(d, fpy: bool):
    """constructor text of descriptor `d`: Python expression (fpy=False, usable at module level) or the
    text inside an FPy `with` (fpy=True); None when the FPy front end cannot write it (substitute values
    and a separate negative bound must be Python objects)"""
    f = d['fam']
    rm = f"fp.RM.{d['rm'].upper()}" if 'rm' in d else None
    ov = f"fp.OV.{d['ov'].upper()}" if 'ov' in d else None
    subs = ''
    if d.get('nv') is not None or d.get('iv') is not None:
        if fpy: return None
        subs = f", nan_value={_fv_py(d.get('nv'))}, inf_value={_fv_py(d.get('iv'))}"
    bound = (lambda x: _num_fpy(x)) if fpy else _rf_py
    if d.get('k'): subs += f", num_randbits={d['k']}"      # stochastic rounding: every lowering except `unfold_special` must refuse it
    if f == 'real': return 'fp.REAL'
    if f == 'mp': return f"fp.MPFloatContext({d['p']}, {rm}, enable_nan={d['en']}, enable_inf={d['ei']}{subs})"
    if f == 'mps': return f"fp.MPSFloatContext({d['p']}, {d['emin']}, {rm}, enable_nan={d['en']}, enable_inf={d['ei']}{subs})"
    if f == 'mpb':
        mirror = d['neg'] == (True, d['pos'][1], d['pos'][2])
        if fpy and not mirror: return None
        neg = '' if mirror else f", neg_maxval={bound(d['neg'])}"
        return f"fp.MPBFloatContext({d['p']}, {d['emin']}, {bound(d['pos'])}, {rm}, {ov}{neg}, enable_nan={d['en']}, enable_inf={d['ei']}{subs})"
    if f == 'ef':
        return f"fp.EFloatContext({d['es']}, {d['nbits']}, {d['inf']}, fp.EFloatNanKind.{KIND_SRC[d['kind']]}, {d['eoff']}, {rm}, {ov}{subs})"
    if f == 'ieee': return f"fp.IEEEContext({d['es']}, {d['nbits']}, {rm}, {ov})"
    if f == 'mpfix':
        return f"fp.MPFixedContext({d['nmin']}, {rm}, enable_nan={d['en']}, enable_inf={d['ei']}, enable_neg_zero={d['nz']}{subs})"
    if f == 'mpbfix':
        mirror = d['neg'] == (True, d['pos'][1], d['pos'][2])
        if fpy and not mirror: return None
        neg = '' if mirror else f", neg_maxval={bound(d['neg'])}"
        return (f"fp.MPBFixedContext({d['nmin']}, {bound(d['pos'])}, {rm}, {ov}{neg}, enable_nan={d['en']}, enable_inf={d['ei']}, "
                f"enable_neg_zero={d['nz']}{subs})")
    if f == 'exp':
        iv = f", inf_value={_fv_py(d.get('iv'))}" if d.get('iv') is not None else ''
        return f"fp.ExpContext({d['nbits']}, {d['eoff']}, {rm}, {ov}{iv})"
    if f == 'fixed': return f"fp.FixedContext({d['signed']}, {d['scale']}, {d['nbits']}, {rm}, {ov}{subs})"
    if f == 'smfixed': return f"fp.SMFixedContext({d['scale']}, {d['nbits']}, {rm}, {ov}{subs})"
    raise ValueError(f)

HEADER = 'import fpy2 as fp\nfrom fpy2.number import Float, RealFloat\n\n'
# every public name of fpy2, the module itself bound to no name
NOALIAS_HEADER = ('import fpy2 as _m\nglobals().update({k: getattr(_m, k) for k in dir(_m) if not k.startswith("_")})\ndel _m\n'
                  'from fpy2.number import Float, RealFloat\n\n')

VARIANTS = ('assign', 'return', 'prerounded', 'pair', 'mono')

def program_text(name, d, variant, form, R):
    """(module text, source text of the context).  form: 'call' (constructor written in the program) or
    'global' (context object bound at module level)"""
    head = HEADER; rnd = 'fp.round'; deco = '@fp.fpy'
    if form == 'call':
        cs = ctx_text(d, True); pre = ''
    elif form == 'attr':            # the context is an attribute of a module-level object
        cs = f'K_{name}.c'; pre = f'class K_{name}:\n    c = {ctx_text(d, False)}\n\n'
    elif form == 'with_params':     # ... the result of `with_params`
        cs = f'C_{name}'; pre = f'{cs} = ({ctx_text(d, False)}).with_params()\n\n'
    elif form == 'noalias':         # ... in a module that does not bind `fpy2` under a name (a rewrite then emits contexts as values)
        head = NOALIAS_HEADER; rnd = 'round'; deco = '@fpy'
        cs = f'C_{name}'; pre = f'{cs} = {ctx_text(d, False).replace("fp.", "")}\n\n'
    elif form == 'arg':             # ... an argument of the function: nothing about it is known before the call
        return head + f'{deco}\ndef {name}(x, c):\n    with c:\n        y = {rnd}(x)\n    return y\n', ctx_text(d, False)
    else:
        cs = f'C_{name}'; pre = f'{cs} = {ctx_text(d, False)}\n\n'
    if form != 'call' and variant == 'assign':
        body = f'    with {cs}:\n        y = {rnd}(x)\n    return y\n'
        return head + pre + f'{deco}\ndef {name}(x):\n' + body, ctx_text(d, False)
    if variant == 'mono':
        # typed argument, pinned to a format by `monomorphize` (step 1 of the documented recipe): the value-class
        # analysis then drops the branches the argument format rules out
        body = f'    with {cs}:\n        y = fp.round(x)\n    return y\n'
        return (HEADER + pre + f'@fp.fpy\ndef {name}(x: fp.Real) -> fp.Real:\n' + body,
                (ctx_text(d, True) if form == 'call' else ctx_text(d, False)))
    if variant == 'assign':
        body = f'    with {cs}:\n        y = fp.round(x)\n    return y\n'
    elif variant == 'return':
        body = f'    with {cs}:\n        return fp.round(x)\n'
    elif variant == 'prerounded':
        # the operand of the lowered rounding is itself a rounding result: finite (two's complement has no
        # NaN/inf), possibly zero -- the value-class analysis then drops the branches it proves dead
        sc = R.randint(-12, -2); nb = R.randint(10, 24)
        body = (f'    with fp.FixedContext(True, {sc}, {nb}, fp.RM.{R.choice(RMS).upper()}, fp.OV.SATURATE):\n        t = fp.round(x)\n'
                f'    with {cs}:\n        y = fp.round(t)\n    return y\n')
    else:
        body = f'    with {cs}:\n        a = fp.round(x)\n        b = fp.round(x)\n    return (a, b)\n'
    return HEADER + pre + f'@fp.fpy\ndef {name}(x):\n' + body, (ctx_text(d, True) if form == 'call' else ctx_text(d, False))

def load_module(path, name):
    spec = importlib.util.spec_from_file_location(name, path)
    mod = importlib.util.module_from_spec(spec)
    sys.modules[name] = mod
    spec.loader.exec_module(mod)
    return mod

# ---------------------------------------------------------------- contexts

def corpus():
    cs = []
    fl = dict(en=True, ei=True, nv=None, iv=None)
    fx = dict(en=False, ei=False, nv=None, iv=None)
    Z = ('fin', False, 0, 0); ONE = ('fin', False, 0, 1); M3 = ('fin', True, 0, 3)
    for rm in RMS:                                  # IEEE half, every mode
        cs.append(dict(fam='ieee', es=5, nbits=16, rm=rm, ov='overflow', k=0, must=(rm == 'rne')))
    cs.append(dict(fam='ieee', es=8, nbits=32, rm='rne', ov='overflow', k=0))
    cs.append(dict(fam='ieee', es=8, nbits=32, rm='rtz', ov='overflow', k=0))
    cs.append(dict(fam='ieee', es=5, nbits=16, rm='rne', ov='saturate', k=0))
    cs.append(dict(fam='ieee', es=4, nbits=8, rm='rna', ov='saturate', k=0))
    cs.append(dict(fam='ieee', es=3, nbits=6, rm='rne', ov='assert', k=0))
    i = 0
    for kind in ('ieee', 'maxval', 'negzero', 'none'):   # EFloat: each NaN kind, with / without inf, substitutes
        for inf in (True, False):
            i += 1
            cs.append(dict(fam='ef', es=4, nbits=8, inf=inf, kind=kind, eoff=0, rm=RMS[i % 8], ov='overflow', k=0, nv=None, iv=None))
            cs.append(dict(fam='ef', es=2, nbits=5, inf=inf, kind=kind, eoff=0, rm='rne', ov='overflow', k=0, nv=None, iv=None))
    cs.append(dict(fam='ef', es=4, nbits=8, inf=False, kind='none', eoff=0, rm='rne', ov='overflow', k=0, nv=Z, iv=None))
    cs.append(dict(fam='ef', es=4, nbits=8, inf=False, kind='none', eoff=0, rm='rne', ov='overflow', k=0, nv=ONE, iv=M3))
    cs.append(dict(fam='ef', es=3, nbits=6, inf=False, kind='maxval', eoff=0, rm='rtz', ov='overflow', k=0, nv=None, iv=ONE))
    cs.append(dict(fam='ef', es=3, nbits=6, inf=True, kind='ieee', eoff=2, rm='rne', ov='overflow', k=0, nv=None, iv=None))
    cs.append(dict(fam='ef', es=5, nbits=8, inf=True, kind='ieee', eoff=-3, rm='rtp', ov='saturate', k=0, nv=None, iv=None))
    cs.append(dict(fam='mp', p=11, rm='rne', k=0, **fl))
    cs.append(dict(fam='mp', p=1, rm='rna', k=0, **fl))
    cs.append(dict(fam='mp', p=4, rm='rto', k=0, en=False, ei=False, nv=ONE, iv=Z))
    cs.append(dict(fam='mps', p=11, emin=-14, rm='rne', k=0, **fl))
    cs.append(dict(fam='mps', p=3, emin=-2, rm='rtn', k=0, en=False, ei=True, nv=None, iv=None))
    cs.append(dict(fam='mps', p=3, emin=2, rm='raz', k=0, en=True, ei=False, nv=None, iv=('fin', False, 4, 1)))
    # MPB float: mirrored and asymmetric bounds, bound inside a binade
    for j, ov in enumerate(('overflow', 'saturate', 'assert')):
        cs.append(dict(fam='mpb', p=3, emin=-2, pos=(False, 0, 7), neg=(True, 0, 7), rm=RMS[j], ov=ov, k=0, **fl))
        cs.append(dict(fam='mpb', p=3, emin=-2, pos=(False, 0, 5), neg=(True, -1, 7), rm=RMS[j + 3], ov=ov, k=0, **fl))
    cs.append(dict(fam='mpb', p=4, emin=-3, pos=(False, 1, 13), neg=(True, 1, 13), rm='rne', ov='overflow', k=0, **fl))
    cs.append(dict(fam='mpb', p=4, emin=-3, pos=(False, 1, 13), neg=(True, 1, 13), rm='rne', ov='overflow', k=0, en=True, ei=False, nv=None, iv=ONE))
    cs.append(dict(fam='mpb', p=2, emin=0, pos=(False, 2, 3), neg=(True, 0, 1), rm='rtz', ov='overflow', k=0, en=False, ei=False, nv=None, iv=None))
    # two's complement / sign-magnitude with every overflow mode
    for j, ov in enumerate(('overflow', 'saturate', 'wrap', 'assert')):
        cs.append(dict(fam='fixed', signed=True, scale=-4, nbits=8, rm=RMS[j], ov=ov, k=0, nv=None, iv=None))
        cs.append(dict(fam='fixed', signed=False, scale=2, nbits=5, rm=RMS[j + 4], ov=ov, k=0, nv=None, iv=None))
        cs.append(dict(fam='smfixed', scale=-3, nbits=6, rm=RMS[(j + 2) % 8], ov=ov, k=0, nv=None, iv=None))
    cs.append(dict(fam='fixed', signed=True, scale=-16, nbits=32, rm='rne', ov='saturate', k=0, nv=None, iv=None))
    cs.append(dict(fam='fixed', signed=True, scale=-2, nbits=6, rm='rne', ov='saturate', k=0, nv=Z, iv=ONE))
    cs.append(dict(fam='smfixed', scale=0, nbits=4, rm='rtn', ov='saturate', k=0, nv=ONE, iv=Z))
    cs.append(dict(fam='fixed', signed=True, scale=0, nbits=8, rm='rna', ov='saturate', k=0, nv=None, iv=None))
    cs.append(dict(fam='exp', nbits=4, eoff=0, rm='rne', ov='overflow', iv=None))
    cs.append(dict(fam='exp', nbits=3, eoff=-2, rm='rtz', ov='saturate', iv=None))
    # MPFixed / MPBFixed: signed zero on/off, specials on/off, substitutes
    cs.append(dict(fam='mpfix', nmin=-9, rm='rne', k=0, nz=True, en=True, ei=True, nv=None, iv=None))
    cs.append(dict(fam='mpfix', nmin=-5, rm='rtp', k=0, nz=True, **fx))
    cs.append(dict(fam='mpfix', nmin=-5, rm='rtn', k=0, nz=False, **fx))
    cs.append(dict(fam='mpfix', nmin=-9, rm='rne', k=0, nz=False, **fx))
    cs.append(dict(fam='mpfix', nmin=-3, rm='rtz', k=0, nz=False, en=True, ei=True, nv=None, iv=None))
    cs.append(dict(fam='mpfix', nmin=2, rm='rne', k=0, nz=True, en=False, ei=False, nv=Z, iv=ONE))
    cs.append(dict(fam='mpfix', nmin=-3, rm='raz', k=0, nz=True, en=False, ei=False, nv=('nan', False), iv=('inf', False)))
    cs.append(dict(fam='mpfix', nmin=-3, rm='rne', k=0, nz=True, en=False, ei=False, nv=ONE, iv=('fin', False, 3, 1)))
    for j, ov in enumerate(('overflow', 'saturate', 'wrap', 'assert')):
        cs.append(dict(fam='mpbfix', nmin=-4, pos=(False, 0, 7), neg=(True, 0, 7), rm=RMS[j], ov=ov, k=0, nz=True, en=False, ei=True, nv=None, iv=None))
        cs.append(dict(fam='mpbfix', nmin=-3, pos=(False, -2, 21), neg=(True, -1, 5), rm=RMS[7 - j], ov=ov, k=0, nz=(j % 2 == 0), **fx))
    cs.append(dict(fam='mpbfix', nmin=-4, pos=(False, 0, 7), neg=(True, 0, 7), rm='rne', ov='overflow', k=0, nz=True, en=True, ei=False, nv=None, iv=('nan', False)))
    cs.append(dict(fam='mpbfix', nmin=-4, pos=(False, 0, 7), neg=(True, 0, 7), rm='rne', ov='overflow', k=0, nz=True, en=False, ei=False, nv=Z, iv=ONE))
    cs.append(dict(fam='mpbfix', nmin=-1, pos=(False, 0, 100), neg=(True, 0, 0), rm='rne', ov='saturate', k=0, nz=False, **fx))
    # a zero negative bound with a signed zero: a negative overflow saturates to +0 (found while proving `neg_zero_unfold`)
    cs.append(dict(fam='mpbfix', nmin=-1, pos=(False, 0, 100), neg=(True, 0, 0), rm='rne', ov='saturate', k=0, nz=True, must=True, **fx))
    cs.append(dict(fam='mpbfix', nmin=-3, pos=(False, -2, 21), neg=(True, 0, 0), rm='rtz', ov='overflow', k=0, nz=True, **fx))
    # a direction whose two sides overflow differently (RTN: +overflow saturates, -overflow goes to -inf; RTP the mirror image)
    for rm in ('rtn', 'rtp'):
        cs.append(dict(fam='mpbfix', nmin=-4, pos=(False, 0, 7), neg=(True, 0, 7), rm=rm, ov='overflow', k=0, nz=True, en=True, ei=True, nv=None, iv=None))
        cs.append(dict(fam='mpb', p=3, emin=-2, pos=(False, 0, 7), neg=(True, 0, 7), rm=rm, ov='overflow', k=0, **fl))
        cs.append(dict(fam='ieee', es=4, nbits=8, rm=rm, ov='overflow', k=0))
    # stochastic rounding (num_randbits != 0): refused by every rewrite but `unfold_special`, which only states the specials
    cs.append(dict(fam='ieee', es=5, nbits=16, rm='rne', ov='overflow', k=2, must=True))
    cs.append(dict(fam='mpbfix', nmin=-4, pos=(False, 0, 7), neg=(True, 0, 7), rm='rne', ov='saturate', k=3, nz=True, en=True, ei=True, nv=None, iv=None))
    cs.append(dict(fam='mpfix', nmin=-5, rm='rtz', k=2, nz=True, en=True, ei=True, nv=None, iv=None))
    cs.append(dict(fam='mps', p=5, emin=-6, rm='rne', k=1, en=True, ei=True, nv=None, iv=None))
    # a float format whose only values are the two zeros
    cs.append(dict(fam='ef', es=0, nbits=2, inf=False, kind='maxval', eoff=0, rm='raz', ov='saturate', k=0, nv=None, iv=None))
    # wrapping sign-magnitude format whose two overflow probes agree by coincidence
    cs.append(dict(fam='smfixed', scale=-4, nbits=3, rm='rtn', ov='wrap', k=0, nv=None, iv=None, must=True))
    return cs

# ---------------------------------------------------------------- operands

def _frac(x) -> Fraction:
    return x.as_rational() if hasattr(x, 'as_rational') else Fraction(x)

def edge_values(ctx, d, R):
    """exact magnitudes at the edges of the real context: around maxval (both signs), the first value past it,
    the early-check threshold infval, smallest magnitudes and their halves (tie), huge / tiny"""
    pts = set()
    def add(v):
        pts.add(v)
    for s in (False, True):
        try:
            m = ctx.maxval(s)
            mv = _frac(m)
        except Exception:
            continue
        try: iv = _frac(ctx.infval(s))
        except Exception: iv = None
        add(mv)
        if iv is not None and iv != mv:
            g = abs(iv - mv)
            for t in (Fraction(1, 4), Fraction(1, 2), Fraction(3, 4), 1, Fraction(3, 2), 2):
                add(mv + (iv - mv) * t)
            tiny = g / (1 << R.randint(10, 60))
            sg = 1 if iv > mv else -1
            for base in (mv, mv + (iv - mv) / 2, iv):
                add(base + sg * tiny); add(base - sg * tiny)
            add(mv - (iv - mv)); add(mv - (iv - mv) / 2); add(mv - (iv - mv) / 2 + sg * tiny); add(mv - (iv - mv) / 2 - sg * tiny)
        add(mv * 2); add(mv * 3); add(mv * (1 << 64)); add(mv * 1000 + Fraction(1, 3))
    for nm in ('minval', 'min_subnormal', 'min_normal', 'max_subnormal'):
        try:
            v = _frac(getattr(ctx, nm)())
        except Exception:
            continue
        for t in (1, Fraction(1, 2), Fraction(3, 2), Fraction(1, 4), Fraction(3, 4), 2, 3, Fraction(5, 2)):
            add(v * t); add(-v * t)
        tiny = v / (1 << R.randint(10, 60))
        add(v / 2 + tiny); add(v / 2 - tiny); add(-(v / 2 + tiny)); add(-(v / 2 - tiny)); add(v + tiny); add(v - tiny)
    for e in (200, -200, 1100, -1100):
        add(Fraction(2) ** e); add(-Fraction(2) ** e); add(Fraction(3) * Fraction(2) ** e)
    add(Fraction(1)); add(Fraction(-1)); add(Fraction(1, 3)); add(Fraction(-2, 3))
    return sorted(pts)

SPECIAL_OBJS = [('nan', float('nan')), ('-nan(Float)', None), ('inf', float('inf')), ('-inf', float('-inf')),
                ('+0', 0.0), ('-0', -0.0), ('0(int)', 0), ('0(Fraction)', Fraction(0)), ('-0(Float)', None), ('inf(Float)', None), ('nan(Float)', None)]

def special_operands():
    out = []
    for nm, v in SPECIAL_OBJS:
        if nm == '-nan(Float)': v = Float(isnan=True, s=True)
        elif nm == '-0(Float)': v = Float(c=0, s=True, exp=-7)
        elif nm == 'inf(Float)': v = Float(isinf=True)
        elif nm == 'nan(Float)': v = Float(isnan=True)
        out.append(v)
    return out

_CTX_SRC = {}      # id(context object passed as an argument) -> its source text

def operand_src(x) -> str:
    """Python source text of an operand (what a replay evaluates)"""
    if id(x) in _CTX_SRC: return _CTX_SRC[id(x)]
    if isinstance(x, Float):
        if x.isnan: return f'Float(s={x.s}, isnan=True)'
        if x.isinf: return f'Float(s={x.s}, isinf=True)'
        return f'Float(s={x.s}, exp={x.exp}, c={x.c})'
    if isinstance(x, list): return '[' + ', '.join(operand_src(v) for v in x) + ']'
    if isinstance(x, tuple): return '(' + ', '.join(operand_src(v) for v in x) + ',)'
    if isinstance(x, float):
        if math.isnan(x): return "float('nan')"
        if math.isinf(x): return "float('-inf')" if x < 0 else "float('inf')"
    return repr(x)

def as_operand(R, q: Fraction):
    """a Python value denoting exactly q: float / Fraction / Float / int (chosen at random among those possible)"""
    den = q.denominator
    opts = [q]
    if den & (den - 1) == 0:
        e = -(den.bit_length() - 1)
        opts.append(Float(s=q < 0, exp=e, c=abs(q.numerator)))
        sh = R.randint(1, 4)
        opts.append(Float(s=q < 0, exp=e - sh, c=abs(q.numerator) << sh))
        try:
            f = float(q)
            if not math.isinf(f) and Fraction(f) == q: opts += [f, f]
        except OverflowError:
            pass
        if den == 1: opts.append(int(q))
    return R.choice(opts)

def operands_for(R, d, ctx, n_break, n_edge):
    vals = breakpoints(R, d, count=3)
    R.shuffle(vals)
    vals = vals[:n_break]
    ev = edge_values(ctx, d, R)
    R.shuffle(ev)
    # always keep the immediate neighbourhood of the bounds
    vals += ev[:n_edge]
    ops = [as_operand(R, v) for v in vals]
    ops += [Fraction(1, 3), Fraction(-2, 3)]          # non-dyadic rationals (F35: `logb` under REAL)
    ops += [Float(s=True, exp=-200, c=1), Float(s=False, exp=-200, c=1)]   # round to zero from below / above in every format
    ops += special_operands()
    return ops

# ---------------------------------------------------------------- strategies

def st_special(f): return S.unfold_special(f)
def st_negzero(f): return S.unfold_neg_zero(f)
def st_overflow(f): return S.unfold_overflow(f)
def st_overflow_early(f): return S.unfold_overflow(f, early_check=True)
def st_f2f(f): return S.float_to_fixed(f)
def st_rescale(f): return S.rescale_fixed(f)
def st_simplify(f): return S.simplify(f)

STRATS = {'unfold_special': (st_special, S.unfold_special), 'unfold_neg_zero': (st_negzero, S.unfold_neg_zero),
          'unfold_overflow': (st_overflow, S.unfold_overflow), 'unfold_overflow[early]': (st_overflow_early, S.unfold_overflow),
          'float_to_fixed': (st_f2f, S.float_to_fixed), 'rescale_fixed': (st_rescale, S.rescale_fixed), 'simplify': (st_simplify, None)}

# the documented chains (docs/todos/native-lowering-roadmap.md "A recipe": special -> overflow -> float_to_fixed ->
# rescale_fixed -> simplify; docs/todos/rounding-operator-basis.md: special -> neg_zero -> overflow -> rescale_fixed for
# a fixed-point source; each strategy's docstring "Run ... afterwards")
CHAINS = {
    'float-recipe': ['unfold_special', 'unfold_overflow', 'float_to_fixed', 'rescale_fixed', 'simplify'],
    'fixed-recipe': ['unfold_special', 'unfold_neg_zero', 'unfold_overflow', 'rescale_fixed', 'simplify'],
    'all': ['unfold_special', 'unfold_overflow', 'unfold_neg_zero', 'float_to_fixed', 'rescale_fixed', 'simplify'],
    'early': ['unfold_special', 'unfold_overflow[early]', 'float_to_fixed', 'rescale_fixed'],
    'no-special': ['unfold_overflow', 'float_to_fixed', 'rescale_fixed'],
}

class Hang(BaseException):       # not an `Exception`: a pass that guards a step with `except Exception` must not swallow the time-out
    pass

def guarded(thunk, seconds=20):
    # CPU seconds of this process, not wall-clock: on a loaded machine a worker can be off the processor for a long time, and a
    # rewrite that takes milliseconds must not be reported as hanging (a genuine non-terminating pass burns CPU and is still caught)
    def on_alarm(signum, frame): raise Hang()
    old = signal.signal(signal.SIGVTALRM, on_alarm)
    signal.setitimer(signal.ITIMER_VIRTUAL, seconds, 1.0)        # and again every second, should one be swallowed all the same
    try:
        return thunk()
    finally:
        signal.setitimer(signal.ITIMER_VIRTUAL, 0); signal.signal(signal.SIGVTALRM, old)

def short_reason(r: str) -> str:
    return r.split(';')[0][:70]

def apply_one(rep, name, fn, tag):
    """apply strategy `name` (where=None) to fn.  Returns (new function or None, status)
    status: 'applied' (the program changed) | 'refused' (unchanged, the strategy lists a refusal) |
            'no-site' (unchanged, nothing listed) | 'error:<Type>'"""
    go, strat = STRATS[name]
    try:
        out = guarded(lambda: go(fn))
    except Hang:
        rep.count(f'hang:{name}'); rep.sample({'hang': name, 'program': describe(fn)}, cap=3); return None, 'error:Hang'
    except Exception as e:
        return None, f'error:{type(e).__name__}'
    if not out.ast.is_equiv(fn.ast):
        return out, 'applied'
    refs = []
    if strat is not None:
        # `strategies.refusals` does not take `early_check`; the listing is the one of the plain rewrite
        try:
            refs = guarded(lambda: S.refusals(strat, fn))
            for _, why in refs:
                rep.count(f'{tag}refused:{name}:{short_reason(why)}')
        except Hang:
            rep.count(f'hang:listing:{name}')
        except Exception as e:
            rep.count(f'listing-error:{name}:{type(e).__name__}')
    return out, ('refused' if refs else 'no-site')

def describe(fn):
    try: return fn.format()
    except Exception: return '<unprintable>'

def shape_of(d, strategy_seq, args, want, got, info=None):
    """the shape of a lowering violation (decides which listed finding, if any, it is an instance of)"""
    # non-dyadic rational operand: `float_to_fixed` computes `fp.logb(x)` under REAL, which refuses a
    # non-dyadic Fraction, while the original rounding accepts it
    if ('float_to_fixed' in strategy_seq and got == 'err ValueError'
            and any(isinstance(o, Fraction) and o.denominator & (o.denominator - 1) != 0 for o in args)):
        return 'float_to_fixed-logb-refuses-nondyadic-rational'
    # a wrapping bounded fixed-point format accepted by `unfold_overflow` (its probe of two magnitudes agreed by
    # coincidence); the documentation promises a refusal
    if any(n.startswith('unfold_overflow') for n in strategy_seq) and d.get('ov') == 'wrap':
        return 'unfold_overflow-accepts-wrapping-format'
    # a zero negative bound with a signed zero: a negative overflow lands on the range end `+0`, the emitted
    # `copysign` turns it into `-0` (`_sign_survives` does not refuse the context)
    if ('unfold_neg_zero' in strategy_seq and d.get('fam') == 'mpbfix' and d.get('neg', (True, 0, 1))[2] == 0
            and want != got and want.replace('(n zero 0)', '(n zero 1)') == got):
        return 'unfold_neg_zero-zero-negative-bound'
    # a float format whose only values are zeros (bound 0): `float_to_fixed` emits `MPBFixedContext(n, 0, ...)`, whose range
    # end is `+0` for either sign, while the source saturates a negative operand onto `-0`
    if 'float_to_fixed' in strategy_seq and d.get('fam') in ('ef', 'ieee', 'mpb') and want.replace('(n zero 1)', '(n zero 0)') == got:
        try:
            if ctx_obj(d).maxval().is_zero(): return 'float_to_fixed-zero-bound-format'
        except Exception:
            pass
    # the sign of a NaN, observed through `signbit` / `copysign` after `rescale_fixed` scaled the operand under REAL
    # (a REAL multiplication returns the canonical +NaN); NaN signs are otherwise not compared
    if (info and 'rescale_fixed' in strategy_seq and any(t in info['text'] for t in ('fp.signbit(', 'fp.copysign('))
            and (any(is_nan_operand(o) for o in args) or 'fp.nan()' in info['text'])):
        return 'rescale_fixed-drops-nan-sign'
    if info and info.get('kind') == 'embedded':
        return 'embedded-site:' + info['variant'].split(':', 1)[1] + ':' + strategy_seq[-1]
    return 'lowering-other:' + strategy_seq[-1]

# shape of a violation -> id of a listed finding (known_findings.json); a shape not in this table is reported
# with 'finding': None (an unlisted violation)
FINDING_OF_SHAPE = {
    'float_to_fixed-logb-refuses-nondyadic-rational': 'F35',
    'unfold_overflow-accepts-wrapping-format': 'F36',
    'unfold_neg_zero-zero-negative-bound': 'F37',
    'round-axis-exp-unbounded-target': 'F10',          # repaired in /repo (607d597); kept as a regression tag
    'round-axis-abs-asymmetric-bounds': 'F28',         # repaired (951959b)
    'round-axis-special-value-of-a-rounding-result': 'F30',   # repaired (b6c4d53)
    'float_to_fixed-zero-bound-format': 'C10-F5',
    'elim_round-logb-of-zero': 'C10-F6',
    'round-axis-neg-zero-from-exact-op': 'F29',        # C14's F29 (`__neg__` / `__mul__` and the sign of zero) reaching `insert_round`
}
PER_SHAPE = 3

def viol(rep, shape, what, d):
    """record a violation of the real code; every one is counted, at most PER_SHAPE replay records per shape
    (a worker keeps PER_SHAPE per work item, the parent re-applies the cap over the whole run)"""
    if shape == 'rescale_fixed-drops-nan-sign':
        # the SIGN of a NaN (observable only through signbit/copysign) is not part of "the same result" as the property
        # states it (NaN for NaN): counted, never judged
        rep.count('not-judged:nan-sign-observed-through-signbit'); return
    rep.count('violation:' + shape)
    if rep.hist['violation:' + shape] <= PER_SHAPE:
        if isinstance(rep, MiniRep):
            rep.viols.append((shape, what, d))
        else:
            d = dict(d); d['shape'] = shape; d['finding'] = FINDING_OF_SHAPE.get(shape)
            rep.violation(what, d)

# ---------------------------------------------------------------- float_to_fixed: emitted constants + model evaluation

def walk(node):
    """every AST node under `node` (dataclass-like fpy2 AST)"""
    from fpy2.ast import fpyast as A
    seen = []
    def go(n):
        if isinstance(n, (list, tuple)):
            for m in n: go(m)
            return
        if isinstance(n, A.Ast):
            seen.append(n)
            names = getattr(type(n), '__slots__', None) or list(getattr(n, '__dict__', {}))
            fields = set()
            for cls in type(n).__mro__:
                fields.update(getattr(cls, '__slots__', ()))
            fields.update(getattr(n, '__dict__', {}))
            for k in fields:
                if k in ('loc', 'fn', 'env', 'meta', 'func'): continue
                try: go(getattr(n, k))
                except AttributeError: pass
    go(node)
    return seen

def const_int(e):
    from fpy2.ast import fpyast as A
    if isinstance(e, A.Neg): return -const_int(e.arg)
    if isinstance(e, A.RationalVal):
        q = e.as_rational()
        if q.denominator == 1: return int(q)
    raise ValueError('not an integer constant')

def const_frac(e):
    from fpy2.ast import fpyast as A
    if isinstance(e, A.Neg): return -const_frac(e.arg)
    if isinstance(e, A.RationalVal): return Fraction(e.as_rational())
    raise ValueError('not a constant')

class F2FShape:
    """the constants of the program `float_to_fixed` emitted for `with C: y = round(x)`"""
    pass

def f2f_shape(xf):
    """parse the emitted program: P - 1, emin, EXP (subnormal position + 1), EXP clamp, EXPMAX clamp, and the two
    MPBFixedContext constructor calls.  Raises ValueError when the program does not have the documented shape."""
    from fpy2.ast import fpyast as A
    nodes = walk(xf.ast.body)
    sh = F2FShape()
    logbs = [n for n in nodes if isinstance(n, A.Logb)]
    if len(logbs) != 1: raise ValueError(f'{len(logbs)} logb')
    subs = [n for n in nodes if isinstance(n, A.Sub) and isinstance(n.first, A.Var) and str(n.first.name).startswith('e') and not str(n.first.name).startswith('exp')]
    if len(subs) != 1: raise ValueError('position expression')
    sh.pm1 = const_int(subs[0].second)
    maxs = [n for n in nodes if isinstance(n, A.Max)]
    mins = [n for n in nodes if isinstance(n, A.Min)]
    sh.expmin = const_int(maxs[0].args[1]) if maxs else None
    sh.expmax = const_int(mins[0].args[1]) if mins else None
    cmps = [n for n in nodes if isinstance(n, A.Compare) and len(n.args) == 2 and isinstance(n.args[0], A.Var) and str(n.args[0].name).startswith('e')
            and n.ops[0].symbol() == '<']
    sh.emin = const_int(cmps[0].args[1]) if cmps else None
    calls = [n for n in nodes if isinstance(n, A.Call) and isinstance(n.fn, type) and n.fn is fp.MPBFixedContext]
    sh.calls = calls
    sh.sub_nmin = None
    for c in calls:
        try: sh.sub_nmin = const_int(c.args[0])
        except ValueError: pass
    sh.dyn = [c for c in calls if isinstance(c.args[0], A.Sub)]
    if len(sh.dyn) != 1: raise ValueError('dynamic context')
    return sh

def call_desc(call, nmin, reach_exp):
    """descriptor (numcanon) of the MPBFixedContext an emitted constructor call builds at position `nmin`"""
    from fpy2.ast import fpyast as A
    kw = dict(call.kwargs)
    def enum_name(e): return e.attr.lower()
    rm = enum_name(kw['rm']) if 'rm' in kw else 'rne'
    ov = enum_name(kw['overflow']) if 'overflow' in kw else 'wrap'
    try:
        b = const_frac(call.args[1])
    except ValueError:
        b = Fraction(2) ** reach_exp          # `2 ** (exp + P)`: the reach of an unbounded source
    den = b.denominator
    pos = (False, -(den.bit_length() - 1), b.numerator)
    flag = lambda k, dflt: (kw[k].val if k in kw else dflt)
    iv = None
    if 'inf_value' in kw:
        iv = ('nan', False) if isinstance(kw['inf_value'], A.ConstNan) else None
    return dict(fam='mpbfix', nmin=nmin, pos=pos, neg=(True, pos[1], pos[2]), rm=rm, ov=ov, k=0, nz=flag('enable_neg_zero', True),
                en=flag('enable_nan', False), ei=flag('enable_inf', False), nv=None, iv=iv)

def f2f_tie(rep, xf, ctx, d, csrc, ops, results, lines, meta):
    """(i) the constants of the emitted program are the ones the theorem's right-hand side prescribes for the context;
    (ii) the model's rounding under the emitted MPBFixedContext at the emitted position is what the real lowered
    program returned (the Lean evaluator cannot run `logb` / a context built at run time, the number model can)"""
    try:
        sh = f2f_shape(xf)
    except Exception as e:
        rep.count(f'f2f-shape-unparsed:{type(e).__name__}'); return
    P = ctx.pmax
    want = {'pm1': P - 1, 'emin': getattr(ctx, 'emin', None), 'expmin': getattr(ctx, 'expmin', None),
            'expmax': (ctx.emax - P + 1) if hasattr(ctx, 'emax') and isinstance(ctx, (fp.EFloatContext, fp.MPBFloatContext)) else None,
            'sub_nmin': (ctx.expmin - 1) if getattr(ctx, 'expmin', None) is not None else None}
    got = {'pm1': sh.pm1, 'emin': sh.emin, 'expmin': sh.expmin, 'expmax': sh.expmax, 'sub_nmin': sh.sub_nmin}
    rep.count('f2f-constants-checked')
    if got != want:
        rep.broke('correspondence', 'C10.float_to_fixed-constants',
                  f'context {csrc}: emitted constants {got}, theorem instance {want}\n{describe(xf)}')
        return
    sub_call = next((c for c in sh.calls if c not in sh.dyn), None)
    for x, res in zip(ops, results):
        if isinstance(x, Float):
            if x.is_nar() or x.is_zero(): continue
            q = x.as_rational()
        elif isinstance(x, float):
            if math.isnan(x) or math.isinf(x) or x == 0: continue
            q = Fraction(x)
        else:
            q = Fraction(x)
            if q == 0: continue
        if q.denominator & (q.denominator - 1): continue
        e = floor_log2(abs(q))
        if sh.emin is not None and e < sh.emin:
            n = sh.sub_nmin; call = sub_call; reach = sh.emin
        else:
            pos = e - sh.pm1
            if sh.expmin is not None: pos = max(pos, sh.expmin)
            if sh.expmax is not None: pos = min(pos, sh.expmax)
            n = pos - 1; call = sh.dyn[0]; reach = pos + P
        try:
            dd = call_desc(call, n, reach)
        except Exception as ex:
            rep.count(f'f2f-call-unparsed:{type(ex).__name__}'); return
        lines.append(f'round {ctx_tok(dd)} {num_tok(x)} 0 0')
        meta.append(('f2f', f'float_to_fixed on {csrc}', repr(x), res, describe(xf)))

# ---------------------------------------------------------------- round elimination / insertion

ARG_FMTS = ['fp.FP32', 'fp.FP16', 'fp.IEEEContext(4, 8)', 'fp.IEEEContext(3, 6)', 'fp.FixedContext(True, -3, 8)', 'fp.FixedContext(False, 0, 6)',
            'fp.SMFixedContext(-2, 6)', 'fp.MPSFloatContext(5, -6)', 'fp.MPFloatContext(6)', 'fp.FP64', 'fp.EFloatContext(4, 8, False, fp.EFloatNanKind.MAX_VAL, 0)']
TARGETS = ['fp.MPFloatContext(11)', 'fp.MPFloatContext(3)', 'fp.MPFloatContext(24)', 'fp.FP32', 'fp.FP16', 'fp.FP64', 'fp.IEEEContext(4, 8)',
           'fp.MPSFloatContext(8, -10)', 'fp.MPSFloatContext(24, -149)', 'fp.FixedContext(True, -3, 8)', 'fp.FixedContext(True, -6, 24, fp.RM.RNE, fp.OV.SATURATE)',
           'fp.MPFixedContext(-4)', 'fp.MPFixedContext(-20)', 'fp.MPBFixedContext(-4, 31, fp.RM.RNE, fp.OV.SATURATE)', 'fp.SMFixedContext(-2, 7)',
           'fp.MPBFloatContext(8, -10, 1000)', 'fp.EFloatContext(4, 8, False, fp.EFloatNanKind.MAX_VAL, 0)',
           'fp.EFloatContext(4, 8, False, fp.EFloatNanKind.NEG_ZERO, 0)', 'fp.IEEEContext(8, 32, fp.RM.RTZ)']
BODIES = [  # (number of args, body with {C} = rounding context, {D} = second context)
    (1, 'with {C}:\n        y = fp.round(x)\n    return y'),
    (2, 'with {C}:\n        y = x * z\n    return y'),
    (2, 'with {C}:\n        y = x + z\n    return y'),
    (2, 'with {C}:\n        y = x - z\n    return y'),
    (1, 'with {C}:\n        y = -x\n    return y'),
    (1, 'with {C}:\n        y = abs(x)\n    return y'),
    (2, 'with {C}:\n        y = fp.round(x * z)\n    return y'),
    (2, 'with {D}:\n        t = x * z\n    with {C}:\n        y = fp.round(t) + x\n    return y'),
    (2, 'with {C}:\n        y = (x + z) * x\n    return y'),
    (1, 'with {D}:\n        t = fp.round(x)\n    with {C}:\n        y = fp.round(t)\n    return y'),
    (2, 'with {C}:\n        y = fp.round(x) if x < z else fp.round(z)\n    return y'),
]
EXACT_BODIES = [
    (2, 'with fp.REAL:\n        y = x * z\n    return y'),
    (2, 'with fp.REAL:\n        y = (x * x) + (z * z)\n    return y'),
    (1, 'with fp.REAL:\n        y = -x\n    return y'),
    (2, 'with fp.REAL:\n        t = x - z\n        y = abs(t)\n    return y'),
    (1, 'with fp.REAL:\n        y = fp.round(x)\n    return y'),
]

def members_of(R, argctx, n):
    """values representable in the argument format (the premise of format inference)"""
    out = []
    seeds = [Fraction(R.randint(-2000, 2000), 1 << R.randint(0, 12)) for _ in range(n)]
    seeds += [Fraction(1) + Fraction(1, 1 << 23), Fraction(1) + Fraction(1, 1 << 10), Fraction(3, 8), Fraction(-5, 4), Fraction(255), Fraction(1, 1 << 20),
              Fraction(2) ** 40 + 1, Fraction(16777217, 16777216), Fraction(1025, 1024)]
    for q in seeds:
        try:
            v = argctx.round(q)
        except Exception:
            continue
        out.append(v)
    for sp in (Float(isnan=True), Float(isinf=True), Float(isinf=True, s=True), Float(c=0, s=True), Float(c=0)):
        try: out.append(argctx.round(sp))
        except Exception: pass
    try:
        out.append(argctx.maxval()); out.append(argctx.maxval(True))
    except Exception: pass
    return out

MONO_FMTS = ['fp.FP32', 'fp.FP16', 'fp.FP64', 'fp.FixedContext(True, -8, 24, fp.RM.RNE, fp.OV.SATURATE)', 'fp.MPFixedContext(-10)',
             'fp.SMFixedContext(-6, 16, fp.RM.RNE, fp.OV.SATURATE)', 'fp.MPSFloatContext(12, -20)', 'fp.FixedContext(False, -2, 12, fp.RM.RTZ, fp.OV.SATURATE)',
             'fp.MPFixedContext(-12, enable_nan=True, enable_inf=True)']

def is_mp(text): return text.startswith('fp.MPFloatContext(')

def py_ctx(text):
    """the context a constructor text of TARGETS / ARG_FMTS denotes (bounds are `RealFloat`s on the Python side)"""
    t = text.replace('(8, -10, 1000)', '(8, -10, RealFloat.from_int(1000))').replace('(-4, 31,', '(-4, RealFloat.from_int(31),')
    return eval(t, {'fp': fp, 'RealFloat': RealFloat})

# shapes that broke `elim_round` / `insert_round` in the past: (insert?, body index, C, D, argument formats)
ROUND_AXIS_CORPUS = [
    (False, 0, 'fp.MPFloatContext(11)', 'fp.FP32', ['fp.FP32']),                                   # F10
    (False, 5, 'fp.FixedContext(True, -3, 8)', 'fp.FP32', ['fp.FixedContext(True, -3, 8)']),       # F28 (abs of the most negative value)
    (False, 9, 'fp.EFloatContext(4, 8, False, fp.EFloatNanKind.MAX_VAL, 0)', 'fp.IEEEContext(4, 8)',
     ['fp.EFloatContext(4, 8, False, fp.EFloatNanKind.MAX_VAL, 0)']),                               # F30 (overflow to an infinity the next format lacks)
    (True, 2, 'fp.FixedContext(True, -6, 24, fp.RM.RNE, fp.OV.SATURATE)', 'fp.FP32', ['fp.FixedContext(True, -3, 8)']),   # F29 (-(+0) = -0)
    (True, 0, 'fp.MPFloatContext(11)', 'fp.FP32', ['fp.FP32', 'fp.FP32']),                         # F10 through insert_round
]

# extra bodies for the rounding axis: the format of the operand is a JOIN over branches / loop iterations
BODIES += [
    (2, 'if z > 0:\n        t = x\n    else:\n        t = x * x\n    with {C}:\n        y = fp.round(t)\n    return y'),
    (2, 't = x\n    for i in range(3):\n        with {C}:\n            t = t * z\n    return t'),
    (2, 't = x\n    with {D}:\n        for i in range(2):\n            t = t + z\n    with {C}:\n        y = fp.round(t)\n    return y'),
    (1, 'if x > 0:\n        with {C}:\n            y = fp.round(x)\n    else:\n        with {C}:\n            y = -x\n    return y'),
    (2, 'with {C}:\n        t = fp.round(x)\n        y = fp.round(t + z)\n    return y'),
]

def round_axis_one(rep, R, tmp, pi, lines, meta):
    from fpy2.types import RealType
    if pi < len(ROUND_AXIS_CORPUS):
        insert, bi, C, D, afs = ROUND_AXIS_CORPUS[pi]
        nargs, body = (EXACT_BODIES if insert else BODIES)[bi]
    else:
        insert = R.random() < 0.35
        nargs, body = R.choice(EXACT_BODIES if insert else BODIES)
        C = R.choice(TARGETS); D = R.choice(TARGETS + ARG_FMTS)
        afs = [R.choice(ARG_FMTS) for _ in range(nargs)]
    name = f'r{pi}'
    params = ', '.join(f'{v}: fp.Real' for v in ('x', 'z')[:nargs])
    text = HEADER + f'@fp.fpy\ndef {name}({params}) -> fp.Real:\n    ' + body.format(C=C, D=D) + '\n'
    path = os.path.join(tmp, f'{name}.py')
    with open(path, 'w') as fh: fh.write(text)
    try:
        fn = getattr(load_module(path, f'fpyverif_C10_{name}'), name)
        argctxs = [py_ctx(a) for a in afs]
        pinned = guarded(lambda: S.monomorphize(fn, fp.FP64, [RealType(c) for c in argctxs]))
    except Exception as e:
        rep.count(f'round-axis:setup-rejected:{type(e).__name__}'); return
    target = py_ctx(C)
    sname = 'insert_round' if insert else 'elim_round'
    try:
        if insert:
            for _, why in S.refusals(S.insert_round, pinned, ctx=target):
                rep.count(f'refused:insert_round:{short_reason(why)}')
            xf = guarded(lambda: S.insert_round(pinned, target))
        else:
            xf = guarded(lambda: S.elim_round(pinned))
    except Hang:
        rep.count(f'hang:{sname}'); return
    except Exception as e:
        rep.count(f'declined:{sname}:{type(e).__name__}'); return
    changed = not xf.ast.is_equiv(pinned.ast)
    rep.count(f'{sname}:' + ('changed' if changed else 'unchanged'))
    if not changed: return
    rep.cov['programs'] = rep.cov.get('programs', 0) + 1
    entry, prog = try_export(rep, xf)
    desc = describe(xf)
    pools = [members_of(R, c, 6) for c in argctxs]
    if any(not p for p in pools): return
    trials = [tuple(p[-(j % len(p)) - 1] for p in pools) for j in range(8)]    # bounds, zeros and specials of each pool first
    trials += [tuple(R.choice(p) for p in pools) for _ in range(10)]
    for args in trials:
        want = run_real(pinned, args); got = run_real(xf, args)
        if want.startswith('timeout') or got.startswith('timeout'):
            rep.count('timeout'); continue
        rep.cov['evaluations'] += 1
        rep.distinct.add((text, sname, repr(args)))
        rep.count('round-axis:orig:' + want.split()[0])
        if want.startswith('ok') and got != want:
            # F10: `AbstractFormat.__le__` skips the precision test when the target has no least exponent
            # (MPFloatContext): a wider operand is "contained", the rounding is deleted / inserted wrongly
            if is_mp(C) or (is_mp(D) and '{D}' in body): shape = 'round-axis-exp-unbounded-target'
            elif 'abs(' in body: shape = 'round-axis-abs-asymmetric-bounds'
            elif any(t in want + got for t in ('nan', 'inf')): shape = 'round-axis-special-value-of-a-rounding-result'
            elif {want, got} == {'ok (n zero 0)', 'ok (n zero 1)'}: shape = 'round-axis-neg-zero-from-exact-op'
            else: shape = 'round-axis-other'
            viol(rep, shape, f'{sname}: original returns {want[:70]} but the rewritten program gives {got[:70]}',
                 {'ctx_src': C, 'second_ctx': D if '{D}' in body else None, 'strategy': sname,
                  'operand': args_src(args), 'arg_formats': afs,
                  'original': want, 'lowered': got, 'program': text, 'lowered_program': desc})
        if prog is not None and not got.startswith(('unsupported', 'timeout')):
            lines.append(eval_line(entry, prog, args, None, fuel=100000))
            meta.append(('eval', f'{sname} {C}', repr(args), got, desc))
    rep.sample({'strategy': sname, 'original': describe(pinned), 'rewritten': desc}, cap=16)

# ---------------------------------------------------------------- lowering a program and comparing it with the original

def is_nan_operand(o) -> bool:
    return (isinstance(o, float) and math.isnan(o)) or (isinstance(o, Float) and o.isnan)

def args_src(args) -> str:
    return '(' + ', '.join(operand_src(a) for a in args) + ',)'

def lower_and_compare(rep, R, fn, inputs, info, quick, lines, meta, ctx=None, max_model=None):
    """every strategy alone + every prefix of the documented chains on `fn`; original vs lowered on the real
    interpreter for every argument tuple of `inputs`; the lowered programs go to the Lean evaluator too.
    info: csrc, d, variant, form, arg_format, text."""
    accepted = rep.cov.setdefault('accepted_per_strategy', {})
    refused = rep.cov.setdefault('refused_per_strategy', {})
    csrc, d, variant, text = info['csrc'], info['d'], info['variant'], info['text']
    base = {}
    def original(args, key):
        if key not in base: base[key] = run_real(fn, args)
        return base[key]
    todo = {}    # tuple of names -> None; identical effective sequences are run once
    for nm in STRATS:
        if nm != 'simplify': todo[(nm,)] = None
    chains = list(CHAINS.items()) if not quick else [(k, v) for k, v in CHAINS.items() if k in ('float-recipe', 'fixed-recipe') or (not info.get('light') and R.random() < 0.4)]
    for _, seq in chains:
        for k in range(2, len(seq) + 1): todo[tuple(seq[:k])] = None
    done = {}    # sequence -> (Function | None, effective sequence)
    def build(seq):
        if seq in done: return done[seq]
        if len(seq) == 0:
            done[seq] = (fn, ()); return done[seq]
        prev, eff = build(seq[:-1])
        if prev is None:
            done[seq] = (None, eff); return done[seq]
        tag = '' if len(seq) == 1 else 'chain-'
        out, status = apply_one(rep, seq[-1], prev, tag)
        if len(seq) == 1:
            bucket = accepted if status == 'applied' else refused
            if status in ('applied', 'refused'):
                bucket[seq[0]] = bucket.get(seq[0], 0) + 1
        if status.startswith('error'):
            rep.count(f'{tag}strategy-error:{seq[-1]}:{status[6:]}')
            # a later step of a chain that cannot run on the output of an earlier one is recorded, not judged
            done[seq] = (None, eff); return done[seq]
        if status == 'applied' and not out.ast.is_equiv(prev.ast):
            done[seq] = (out, eff + (seq[-1],))
        else:
            done[seq] = (prev, eff)
        return done[seq]
    # an explicit `where`: the first site by index, the last by cursor (programs with several sites get a partial rewrite)
    extra = []
    if info.get('kind') == 'embedded' and R.random() < (0.5 if quick else 1.0):
        for nm, (go, strat) in STRATS.items():
            if strat is None or nm.endswith('[early]'): continue
            try:
                sites = guarded(lambda: S.sites(strat, fn))
                rep.count(f'sites:{nm}:{min(len(sites), 3)}')
                if not sites: continue
                for label, where in ((f'{nm}[where=0]', 0), (f'{nm}[where=cursor]', sites[-1])):
                    out = guarded(lambda: strat(fn, where))
                    if not out.ast.is_equiv(fn.ast): extra.append((label, out))
            except Hang:
                rep.count(f'hang:sites:{nm}')
            except Exception as e:
                rep.count(f'where-error:{nm}:{type(e).__name__}')
    seen_eff = set()
    worklist = [(seq, None) for seq in todo] + [((label,), xf) for label, xf in extra]
    seen_desc = set()
    for seq, given in worklist:
        if given is not None:
            xf, eff = given, seq
            key = xf.format()
            if key in seen_desc: continue
            seen_desc.add(key)
        else:
            xf, eff = build(seq)
        if xf is None or not eff or eff in seen_eff: continue
        seen_eff.add(eff)
        if given is None and len(eff) == 1: seen_desc.add(xf.format())
        sname = ' > '.join(eff)
        rep.count('lowered-programs'); rep.count('lowered-programs:' + info.get('kind', 'plain'))
        rep.count(f'chain-length:{len(eff)}')
        rep.cov['programs'] = rep.cov.get('programs', 0) + 1
        entry, prog = try_export(rep, xf)
        desc = None
        f2f_ops, f2f_res = [], []
        nmodel = 0
        for oi, args in enumerate(inputs):
            want = original(args, oi)
            if not want.startswith('ok'):
                rep.count('orig:' + want.split()[0] + (':' + want.split()[1] if ' ' in want else '')); continue
            got = run_real(xf, args)
            if not got.startswith('timeout'):
                f2f_ops.append(args[0]); f2f_res.append(got)
            rep.cov['evaluations'] += 1
            rep.distinct.add((csrc, variant, info.get('form'), info.get('what', ''), sname, repr(args)))
            rep.count('orig:ok')
            if got.startswith('timeout'):
                got = run_real(xf, args, None, 30)
                if got.startswith('timeout'): got = 'err DoesNotTerminate'
            if got != want:
                if desc is None: desc = describe(xf)
                shown = operand_src(args[0]) if len(args) == 1 else args_src(args)
                viol(rep, shape_of(d, eff, args, want, got, info),
                     f'{sname}: `{csrc}`{info.get("what_txt", "")} maps {shown} to {want[3:60]} but the lowered program gives {got[:60]}',
                     {'ctx_src': csrc, 'ctx': d, 'variant': variant, 'form': info.get('form'), 'arg_format': info.get('arg_format'), 'strategy': sname,
                      'operand': shown, 'original': want, 'lowered': got, 'program': text, 'lowered_program': desc})
                if got == 'err DoesNotTerminate': break        # one witness is enough: every further input costs another time-out
            if prog is not None and not got.startswith('unsupported') and (max_model is None or nmodel < max_model):
                if desc is None: desc = describe(xf)
                nmodel += 1
                lines.append(eval_line(entry, prog, args, None, fuel=100000))
                meta.append(('eval', f'{sname} on {csrc}', repr(args), got, desc))
        if eff == ('float_to_fixed',) and variant in ('assign', 'mono') and ctx is not None:
            f2f_tie(rep, xf, ctx, d, csrc, f2f_ops, f2f_res, lines, meta)
        if len(eff) >= 3: rep.sample({'ctx': csrc, 'strategy': sname, 'lowered': describe(xf)}, cap=6)

def plain_one(rep, R, tmp, ci, d, quick, lines, meta, seed):
    """`with C: y = round(x)` and its simple variants for one source context"""
    n_break, n_edge = (8, 14) if quick else (40, 70)
    try:
        ctx = ctx_obj(d)
    except Exception:
        rep.count('ctx-rejected'); return
    rep.count('fam:' + d['fam']); rep.count('rm:' + d.get('rm', '-'))
    # the source context reaches the passes written out as a constructor call AND as a value (module constant, attribute,
    # result of `with_params`, a module without a name for fpy2): the passes rebuild a context differently in the two cases
    writable = ctx_text(d, True) is not None
    first = 'call' if (writable and R.random() < 0.6) else 'global'
    second = R.choice([f for f in ('call' if writable else 'global', 'global', 'attr', 'with_params', 'noalias', 'arg') if f != first])
    variants = [('assign', first), ('assign', second), (VARIANTS[1 + (ci + seed) % 4], None)]     # every context also in one of: return / prerounded / pair / mono
    ops = None
    for vi, (variant, form) in enumerate(variants):
        if form is None: form = 'call' if (writable and R.random() < 0.6) else 'global'
        name = f'q{ci}{variant[0]}{vi}'
        text, csrc = program_text(name, d, variant, form, R)
        path = os.path.join(tmp, name + '.py')
        with open(path, 'w') as fh: fh.write(text)
        try:
            fn = getattr(load_module(path, f'fpyverif_C10_{seed}_{name}'), name)
        except Exception as e:
            rep.count(f'frontend-rejected:{type(e).__name__}'); continue
        rep.count('variant:' + variant); rep.count('form:' + form)
        if ops is None:
            ops = operands_for(R, d, ctx, n_break, n_edge)
            rep.cov.setdefault('nops', []).append(len(ops))
        if d.get('k'): ops = special_operands()       # a stochastic context: only the operands whose result does not depend on the draw
        argfmt = None; vops = ops
        if variant == 'mono':
            from fpy2.types import RealType
            argfmt = R.choice(MONO_FMTS)
            try:
                actx = py_ctx(argfmt)
                fn = guarded(lambda: S.monomorphize(fn, None, [RealType(actx)]))
            except Exception as e:
                rep.count(f'mono-rejected:{type(e).__name__}'); continue
            # the premise of a pinned argument format: the operand is one of its values
            vops = []
            for x in ops:
                try: vops.append(actx.round(x))
                except Exception: pass
            rep.count('mono:' + argfmt)
        if vi >= 1 and (quick or vi == 1): vops = vops[-(len(special_operands()) + 4 + 8):]      # the later forms: specials, the non-dyadic pair, a dozen edges
        if form == 'arg' and variant == 'assign': _CTX_SRC[id(ctx)] = csrc
        lower_and_compare(rep, R, fn, [((x, ctx) if (form == 'arg' and variant == 'assign') else (x,)) for x in vops],
                          {'csrc': csrc, 'd': d, 'variant': variant, 'form': form, 'arg_format': argfmt, 'text': text, 'kind': 'plain', 'light': vi == 1 or (quick and vi == 2)},
                          quick, lines, meta, ctx=ctx, max_model=0 if (form == 'arg' and variant == 'assign') else None)

# ---------------------------------------------------------------- roundings embedded in program contexts
#
# The lowering rewrites consult ANALYSES of the surrounding program: `ValueClassInfer` (which special values the operand can be:
# branches for NaN / inf / zero are dropped where the operand "cannot" be one), `PartialEval` (is the context statically
# known), `DefineUse` / reaching definitions.  A rounding alone in a function exercises none of that; these templates put the
# rounding site under guards, after assignments that fix the class of the operand, in loops, after other roundings.

LITS = ['1', '-1', '2.5', '0.5', '-3', '4', '6', '65504', '-0.25', '100']
CMP_OPS = ['==', '!=', '<', '<=', '>', '>=']

def rand_atom(R, v, w, L):
    k = R.randint(0, 13)
    op = R.choice(CMP_OPS)
    if k == 0: return f'{v} {op} 0'
    if k == 1: return f'{v} {op} {L}'
    if k == 2: return f'{v} {op} {w}'
    if k == 3: return f'{L} {op} {v}'
    if k == 4: return f'0 {op} {v}'
    if k == 5: return f'-{L.lstrip("-")} < {v} <= {L.lstrip("-")}'
    if k == 6: return f'fp.isnan({v})'
    if k == 7: return f'fp.isinf({v})'
    if k == 8: return f'fp.isfinite({v})'
    if k == 9: return f'fp.signbit({v})'
    if k == 10: return f'abs({v}) {op} {L.lstrip("-")}'
    if k == 11: return R.choice([f'{v} != {L}', f'fp.isnormal({v})'])          # the comparison a NaN satisfies
    if k == 12: return f'{v} != {w}'
    return f'{v} == {v}'                       # false exactly for a NaN

def rand_cond(R, v='x', w='z', L=None, depth=0):
    L = L or R.choice(LITS)
    k = R.random()
    if depth >= 2 or k < 0.5: return rand_atom(R, v, w, L)
    a = rand_cond(R, v, w, L, depth + 1)
    if k < 0.62: return f'not ({a})'
    b = rand_cond(R, v, w, R.choice(LITS), depth + 1)
    if k < 0.8: return f'({a}) and ({b})'
    if k < 0.95: return f'({a}) or ({b})'
    return f'not (({a}) and ({b}))'

PRE_EXPRS = ['abs(x)', 'x * x', '3', '0.5', '0', '-0.0', 'min(x, 4)', 'max(x, 0)', 'max(min(x, 8), -8)', '-x', 'x + 1', 'abs(x) + 1',
             'x - z', 'fp.sqrt(abs(x))', '(x if x > 0 else 1)', 'fp.copysign(x, z)', 'fp.nan()', 'fp.inf()', '-fp.inf()', 'x * 0', 'x - x',
             'abs(x) * 0.5', 'min(abs(x), abs(z))', 'max(x, z)', 'min(4, x)', 'max(0, x)', 'min(z, x)', '0 * x', 'x * z', 'x + z', 'z - x', 'abs(z)', 'fp.logb(x)', '2 ** x', '2 ** z', 'fp.exp2(z)',
             "fp.hexfloat('0x1.8p0')", 'fp.digits(3, -1, 2)', 'fp.fma(x, z, x)', 'fp.fma(x, 2, z)', 'fp.const_pi()', '1 / x', 'fp.fma(x, x, 1)', 'z', 'fp.floor(x)', '(0 if fp.isnan(x) else x)']

EMBED_KINDS = ['if2', 'if1', 'nested', 'elif', 'pre', 'pre-real', 'pre-guard', 'guard-pre', 'round-then', 'round-then-guard', 'seq', 'for', 'loop-phi',
               'while', 'scrub', 'other-guard', 'guard-modify', 'early-return', 'ifexpr', 'pe-static', 'pe-branch', 'ctx-var', 'ctx-var-branch', 'assert',
               'guard-else-chain', 'ne-sentinel', 'dyn-ctx', 'dyn-ctx', 'dyn-ctx', 'kw-ctx', 'kw-ctx', 'tuple-bind', 'list-ops', 'list-comp', 'two-sites',
               'multi-pre', 'multi-pre', 'multi-pre', 'multi-pre', 'class-ops', 'class-ops', 'class-ops', 'class-ops', 'class-ops', 'class-ops', 'class-ops', 'class-ops', 'class-ops']

# exact expressions that never raise under REAL, several per program and ALL of them within a few programs ('multi-pre'): which
# special-value classes the result of each operator can hold is what the lowerings consult before they shed a branch
SAFE_PRE = ['abs(x)', 'x * x', 'min(x, 4)', 'max(x, 0)', 'max(min(x, 8), -8)', '-x', 'x + 1', 'abs(x) + 1', 'x - z', '(x if x > 0 else 1)', 'fp.copysign(x, z)',
            'x * 0', 'x - x', 'abs(x) * 0.5', 'min(abs(x), abs(z))', 'max(x, z)', 'min(4, x)', 'max(0, x)', 'max(1, x)', 'min(z, x)', '0 * x', 'x * z', 'x + z', 'z - x', 'abs(z)',
            'fp.fma(x, z, x)', 'fp.fma(x, 2, z)', 'fp.fma(x, x, 1)', '(0 if fp.isnan(x) else x)', 'min(x, z, 1)', 'max(-1, z, x)', '-abs(x)', 'fp.inf() * z', 'x + fp.inf()',
            '(x if fp.isfinite(x) else 2)', '(1 if fp.isinf(x) else x) * z', 'fp.logb(x)', 'fp.logb(z) + 1']

# 'class-ops': operands whose class has been NARROWED (a guard, a substitution, a constant, a rounding into a format without the
# special) under every exact operator: the result can hold a class that neither operand does (0 * inf, inf - inf) or only one does
CLASS_ATOMS = ['(0 if fp.isnan({v}) else {v})', '(1 if fp.isinf({v}) else {v})', '({v} if fp.isfinite({v}) else 2)', '({v} if {v} != 0 else 1)', '{v}',
               '(0 if fp.isnan({v}) else {v})', 'fp.inf()', '0', '-fp.inf()', '(0 if {v} != {v} else {v})', 'abs({v})', '(3 if fp.isnan({v}) or fp.isinf({v}) else {v})', '-0.0', '2.5']
CLASS_OPS = ['a * b', 'a + b', 'a - b', 'min(a, b)', 'max(a, b)', '-a', 'abs(b)', 'fp.fma(a, b, a)', 'fp.fma(a, a, b)', '(a if z > 0 else b)', 'fp.copysign(a, b)', 'b - a',
             'min(b, a)', 'max(b, a)', 'a * a', 'b * a', 'a + a', 'a - a', 'max(a, b, 1)', 'min(1, a)', 'abs(a) * b', '(a * b) + a', 'fp.logb(a)', 'fp.logb(b) + a']

def embedded_body(R, C, D, kind=None, ordinal=0):
    """(kind, body text, number of arms tagged).  The function has arguments x, z and returns (result, arm)."""
    L = R.choice(LITS)
    rnd = lambda v, tgt, ctx, ind: f'{ind}with {ctx}:\n{ind}    {tgt} = fp.round({v})\n'
    k = kind or R.choice(EMBED_KINDS + ['if2', 'if2', 'guard-pre', 'guard-pre', 'pre-real', 'pre-real', 'round-then', 'ne-sentinel'])
    I = '    '
    if k == 'if2':
        c = rand_cond(R, L=L)
        b = (f'{I}if {c}:\n{I}    arm = 1\n' + rnd('x', 'y', C, I * 2) + f'{I}else:\n{I}    arm = 2\n' + rnd('x', 'y', R.choice([C, C, D]), I * 2))
    elif k == 'ne-sentinel':
        # the sentinel idiom: a value the caller passes through untouched
        other = R.choice([L, L, 'z'])
        b = (f'{I}if x != {other}:\n{I}    arm = 1\n' + rnd('x', 'y', C, I * 2) + f'{I}else:\n{I}    arm = 2\n{I}    y = {other}\n')
    elif k == 'if1':
        c = rand_cond(R, L=L)
        b = f'{I}y = 0\n{I}arm = 0\n{I}if {c}:\n{I}    arm = 1\n' + rnd('x', 'y', C, I * 2)
    elif k == 'nested':
        c1, c2 = rand_cond(R, L=L), rand_cond(R)
        b = (f'{I}if {c1}:\n{I}    if {c2}:\n{I}        arm = 1\n' + rnd('x', 'y', C, I * 3) + f'{I}    else:\n{I}        arm = 2\n' + rnd('x', 'y', C, I * 3)
             + f'{I}else:\n{I}    arm = 3\n' + rnd('x', 'y', D, I * 2))
    elif k == 'elif':
        c1, c2 = rand_atom(R, 'x', 'z', L), rand_atom(R, 'x', 'z', R.choice(LITS))
        b = (f'{I}if {c1}:\n{I}    arm = 1\n' + rnd('x', 'y', C, I * 2) + f'{I}elif {c2}:\n{I}    arm = 2\n' + rnd('x', 'y', C, I * 2)
             + f'{I}else:\n{I}    arm = 3\n' + rnd('x', 'y', C, I * 2))
    elif k in ('pre', 'pre-real'):
        # the class of an exact result is only known under a context the analysis knows: REAL (exact) or a concrete one
        e = R.choice(PRE_EXPRS)
        w = 'fp.REAL' if k == 'pre-real' else R.choice([None, None, D, 'fp.FP32'])
        asg = f'{I}with {w}:\n{I}    t = {e}\n' if w else f'{I}t = {e}\n'
        b = asg + f'{I}arm = 0\n' + rnd('t', 'y', C, I)
    elif k == 'pre-guard':
        e = R.choice(PRE_EXPRS); c = rand_cond(R, 't', 'x', L)
        w = R.choice([None, 'fp.REAL', 'fp.REAL'])
        asg = f'{I}with {w}:\n{I}    t = {e}\n' if w else f'{I}t = {e}\n'
        b = (asg + f'{I}if {c}:\n{I}    arm = 1\n' + rnd('t', 'y', C, I * 2) + f'{I}else:\n{I}    arm = 2\n' + rnd('t', 'y', C, I * 2))
    elif k == 'guard-pre':
        # a guard fixes part of the class of x, an exact operation on it follows, the result is rounded
        c = rand_cond(R, L=L)
        e1, e2 = R.choice(PRE_EXPRS), R.choice(PRE_EXPRS)
        w = R.choice(['fp.REAL', 'fp.REAL', D, None])
        def asg(e, ind): return (f'{ind}with {w}:\n{ind}    t = {e}\n' if w else f'{ind}t = {e}\n')
        b = (f'{I}if {c}:\n{I}    arm = 1\n' + asg(e1, I * 2) + rnd('t', 'y', C, I * 2) + f'{I}else:\n{I}    arm = 2\n' + asg(e2, I * 2) + rnd('t', 'y', C, I * 2))
    elif k == 'round-then':
        b = rnd('x', 't', D, I) + f'{I}arm = 0\n' + rnd('t', 'y', C, I)
    elif k == 'round-then-guard':
        c = rand_cond(R, 't', 'x', L)
        b = rnd('x', 't', D, I) + (f'{I}if {c}:\n{I}    arm = 1\n' + rnd('t', 'y', C, I * 2) + f'{I}else:\n{I}    arm = 2\n' + rnd('x', 'y', C, I * 2))
    elif k == 'seq':
        b = rnd('x', 'a', C, I) + rnd('a', 'y', D, I) + f'{I}arm = 0\n{I}y = y + a * 0\n' if R.random() < 0.3 else rnd('x', 'a', C, I) + rnd('a', 'y', D, I) + f'{I}arm = 0\n'
    elif k == 'for':
        b = f'{I}t = x\n{I}arm = 0\n{I}for i in range(3):\n' + rnd('t', 't', C, I * 2) + f'{I}    t = t * 2 - z\n{I}y = t\n'
    elif k == 'loop-phi':
        # first iteration: a constant; later ones: the argument (the class of `t` at the rounding is a join over the back edge)
        b = f'{I}t = {L}\n{I}y = 0\n{I}arm = 0\n{I}for i in range(2):\n' + rnd('t', 'y', C, I * 2) + f'{I}    t = x\n'
    elif k == 'while':
        c = rand_cond(R, 't', 'z', L)
        b = (f'{I}i = 0\n{I}t = x\n{I}arm = 0\n{I}while i < 2:\n{I}    if {c}:\n{I}        arm = arm + 1\n' + rnd('t', 't', C, I * 3)
             + f'{I}    t = t - z\n{I}    i = i + 1\n{I}y = t\n')
    elif k == 'scrub':
        tst = R.choice(['fp.isnan(x)', 'fp.isinf(x)', 'not fp.isfinite(x)', 'x == 0', 'x != x'])
        b = f'{I}if {tst}:\n{I}    t = {L}\n{I}    arm = 1\n{I}else:\n{I}    t = x\n{I}    arm = 2\n' + rnd('t', 'y', C, I)
    elif k == 'other-guard':
        c = rand_cond(R, 'z', 'x', L)
        b = (f'{I}if {c}:\n{I}    arm = 1\n' + rnd('x', 'y', C, I * 2) + f'{I}else:\n{I}    arm = 2\n' + rnd('x', 'y', C, I * 2))
    elif k == 'guard-modify':
        c = rand_cond(R, L=L)
        m = R.choice([f'x - {L}', 'x * z', '-x', 'x - x', f'min(x, {L})', 'x * 0'])
        b = (f'{I}if {c}:\n{I}    arm = 1\n{I}    t = {m}\n' + rnd('t', 'y', C, I * 2) + f'{I}else:\n{I}    arm = 2\n{I}    t = z\n' + rnd('t', 'y', C, I * 2))
    elif k == 'early-return':
        tst = R.choice(['fp.isnan(x)', 'fp.isinf(x)', 'x == 0', f'x > {L}', f'x != {L}'])
        b = f'{I}if {tst}:\n{I}    return (z, 1)\n{I}arm = 2\n' + rnd('x', 'y', C, I)
    elif k == 'ifexpr':
        c = rand_atom(R, 'x', 'z', L)
        ie = R.choice([f'x if {c} else {L}', f'{L} if {c} else x', f'x if {c} else z', f'{L} if {c} else -x'])
        b = f'{I}t = {ie}\n{I}arm = 0\n' + rnd('t', 'y', C, I)
    elif k == 'pe-static':
        b = f'{I}p = 5\n{I}q = p + 3\n{I}arm = 0\n{I}with fp.IEEEContext(4, q):\n{I}    y = fp.round(x)\n'
    elif k == 'pe-branch':
        b = f'{I}p = 11\n{I}arm = 1\n{I}if z > 0:\n{I}    p = 4\n{I}    arm = 2\n{I}with fp.MPSFloatContext(p, -6):\n{I}    y = fp.round(x)\n'
    elif k == 'ctx-var':
        b = f'{I}c = {C}\n{I}arm = 0\n{I}with c:\n{I}    y = fp.round(x)\n'
    elif k == 'ctx-var-branch':
        b = f'{I}c = {C}\n{I}arm = 1\n{I}if z > 0:\n{I}    c = {D}\n{I}    arm = 2\n{I}with c:\n{I}    y = fp.round(x)\n'
    elif k == 'assert':
        tst = R.choice(['not fp.isnan(x)', 'fp.isfinite(x)', 'x != 0', f'x != {L}', 'x > 0', f'x <= {L}'])
        b = f'{I}assert {tst}\n{I}arm = 0\n' + rnd('x', 'y', C, I)
    elif k == 'multi-pre':
        n = 6
        es = [SAFE_PRE[(n * ordinal + i) % len(SAFE_PRE)] for i in range(n)]
        b = (f'{I}with fp.REAL:\n' + ''.join(f'{I}    t{i} = {e}\n' for i, e in enumerate(es)) + f'{I}arm = 0\n'
             + ''.join(rnd(f't{i}', f'y{i}', C if i % 3 else R.choice([C, D]), I) for i in range(n)) + f'{I}y = ({", ".join(f"y{i}" for i in range(n))})\n')
    elif k == 'class-ops':
        # program number `ordinal`: the pair of narrowed operands number ordinal // 3 under one third of the operators
        pairs = [(0, 0), (6, 0), (2, 2), (11, 11), (1, 1), (4, 7), (3, 8), (2, 4), (0, 7), (12, 0), (9, 10), (13, 1)]
        ia, ib = pairs[(ordinal // 3) % len(pairs)]
        third = (len(CLASS_OPS) + 2) // 3
        ops = CLASS_OPS[(ordinal % 3) * third:(ordinal % 3 + 1) * third]
        b = (f'{I}with fp.REAL:\n{I}    a = {CLASS_ATOMS[ia].format(v="x")}\n{I}    b = {CLASS_ATOMS[ib].format(v="z")}\n'
             + ''.join(f'{I}    t{i} = {e}\n' for i, e in enumerate(ops)) + f'{I}arm = 0\n'
             + ''.join(rnd(f't{i}', f'y{i}', C, I) for i in range(len(ops))) + f'{I}y = ({", ".join(f"y{i}" for i in range(len(ops)))})\n')
    elif k == 'dyn-ctx':
        # a fixed-point context whose POSITION is only known at run time (what `float_to_fixed` emits): `rescale_fixed` shifts it
        # symbolically; the other rewrites must refuse it
        n1, n2 = R.choice(['-3', '-6', '2', '0']), R.choice(['-5', '-1', '1'])
        head = R.choice([f'{I}n = {n1}\n{I}if z > 0:\n{I}    n = {n2}\n', f'{I}n = {n1} if z > 0 else {n2}\n', f'{I}with fp.REAL:\n{I}    n = fp.round(min(max(z, -6), 3))\n{I}    n = fp.floor(n)\n'])
        calls = ['fp.MPFixedContext(n)', 'fp.MPFixedContext(n - 1)', 'fp.MPFixedContext(n - 1, enable_neg_zero=False)', 'fp.MPFixedContext(nmin=n)',
                         'fp.FixedContext(True, n, 8, fp.RM.RNE, fp.OV.SATURATE)', 'fp.FixedContext(True, scale=n, nbits=8)', 'fp.SMFixedContext(n, 6, fp.RM.RTZ, fp.OV.SATURATE)',
                         'fp.MPBFixedContext(n - 1, 2 ** (n + 3), fp.RM.RNE, fp.OV.SATURATE)', 'fp.MPBFixedContext(n - 1, 2 ** (3 + n), overflow=fp.OV.OVERFLOW, enable_inf=True)',
                         'fp.MPBFixedContext(n - 1, 8, fp.RM.RNE, fp.OV.SATURATE)', 'fp.MPBFixedContext(n - 1, maxval=8, overflow=fp.OV.SATURATE)',
                         'fp.MPFixedContext(n, enable_inf=True, inf_value=fp.inf())', 'fp.MPFixedContext(n - 1, enable_nan=True, nan_value=fp.nan())',
                         'fp.MPFixedContext(n - 1, inf_value=z)', 'fp.MPFixedContext(0 - 1)', 'fp.MPFloatContext(n + 8)', 'fp.MPSFloatContext(5, n)',
                         'fp.MPBFixedContext(n - 1, 2 ** (n + 3), fp.RM.RTZ, fp.OV.WRAP)']
        pick = [calls[(4 * ordinal + i) % len(calls)] for i in range(4)]       # every written form appears within a few programs
        b = head + f'{I}arm = 0\n' + ''.join(f'{I}with {c}:\n{I}    y{i} = fp.round(x)\n' for i, c in enumerate(pick)) + f'{I}y = (y0, y1, y2, y3)\n'
    elif k == 'kw-ctx':
        # statically known contexts written with keyword arguments (a rewrite that edits the written form must find the argument)
        calls = ['fp.FixedContext(True, scale=-4, nbits=8)', 'fp.FixedContext(signed=True, scale=-4, nbits=8, rm=fp.RM.RNE, overflow=fp.OV.SATURATE)',
                         'fp.MPFixedContext(nmin=-5, enable_neg_zero=False)', 'fp.MPFixedContext(-5, rm=fp.RM.RTN, enable_nan=True, enable_inf=True)',
                         'fp.MPBFixedContext(nmin=-4, maxval=7, overflow=fp.OV.SATURATE)', 'fp.MPBFixedContext(-4, 7, overflow=fp.OV.OVERFLOW, enable_inf=True, enable_neg_zero=False)',
                         'fp.SMFixedContext(scale=-3, nbits=6, overflow=fp.OV.SATURATE)', 'fp.IEEEContext(es=5, nbits=16, rm=fp.RM.RTZ)', 'fp.MPSFloatContext(pmax=6, emin=-4, enable_nan=False)',
                         'fp.MPFloatContext(pmax=5, enable_inf=False)', 'fp.MPBFloatContext(4, -3, maxval=26, overflow=fp.OV.SATURATE)',
                         'fp.MPBFixedContext(-4, maxval=7, rm=fp.RM.RTP, overflow=fp.OV.WRAP)']
        pick = [calls[(4 * ordinal + i) % len(calls)] for i in range(4)]
        b = f'{I}arm = 0\n' + ''.join(f'{I}with {c}:\n{I}    y{i} = fp.round(x)\n' for i, c in enumerate(pick)) + f'{I}y = (y0, y1, y2, y3)\n'
    elif k == 'tuple-bind':
        e1, e2 = R.choice(PRE_EXPRS), R.choice(PRE_EXPRS)
        b = (f'{I}with fp.REAL:\n{I}    a, b = ({e1}, {e2})\n{I}    _, c = (z, a)\n{I}p = (1, 2)\n{I}if z > 0:\n{I}    p = (1, 2)\n{I}u, v = p\n{I}arm = 0\n'
             + rnd('c', 'y', C, I) + rnd('b', 'y2', D, I) + f'{I}y = y + y2 * u\n')
    elif k == 'list-ops':
        e1 = R.choice(PRE_EXPRS)
        b = (f'{I}with fp.REAL:\n{I}    xs = [x, z, {e1}, 1]\n{I}    xs[1] = {R.choice(["0", "abs(z)", "x"])}\n{I}    us = xs[1:3]\n{I}    t = xs[{R.choice([0, 2])}]\n{I}    s = sum(us)\n{I}    m = {R.choice(["max(us)", "min(xs)", "max(x, z)"])}\n'
             f'{I}arm = 0\n' + rnd('t', 'y', C, I) + rnd('s', 'y2', C, I) + rnd('m', 'y3', D, I) + f'{I}y = y + y2 + y3\n')
    elif k == 'list-comp':
        e1 = R.choice(['abs(v)', 'v * v', '-v', 'v + 1', 'max(v, 0)', 'fp.fma(v, v, 1)'])
        b = (f'{I}with fp.REAL:\n{I}    ys = [{e1} for v in [x, z]]\n{I}    t = ys[0]\n{I}    u = ys[1]\n{I}arm = 0\n' + rnd('t', 'y', C, I) + rnd('u', 'y2', C, I)
             + f'{I}for i, v in enumerate(ys):\n{I}    y = y + v * 0\n{I}for a, c in zip(ys, ys):\n{I}    y2 = y2 + (a - c)\n{I}for i in range(len(ys)):\n{I}    y = y + 0\n{I}y = y + y2\n')
    elif k == 'two-sites':
        # several lowerable blocks in one program: a `where=` index or cursor must pick exactly one of them
        c = rand_cond(R, L=L)
        b = (rnd('x', 'a', C, I) + f'{I}if {c}:\n{I}    arm = 1\n' + rnd('z', 'b', D, I * 2) + f'{I}else:\n{I}    arm = 2\n' + rnd('a', 'b', D, I * 2) + rnd('b', 'y', C, I) + f'{I}y = y + a * 0\n')
    else:   # guard-else-chain: the FAILED comparison (a NaN fails every ordering and `==`)
        op = R.choice(['<', '<=', '>', '>=', '=='])
        b = (f'{I}if x {op} {L}:\n{I}    arm = 1\n{I}    y = x\n{I}else:\n{I}    arm = 2\n' + rnd('x', 'y', C, I * 2))
    return k, b + f'{I}return (y, arm)\n', L

# contexts the embedded sites round under: where a dropped branch is visible (a format that substitutes a value for NaN / inf,
# a float lowered through `logb`, a fixed-point format that refuses specials)
EMBED_CTXS = [
    dict(fam='ieee', es=5, nbits=16, rm='rne', ov='overflow', k=0),
    dict(fam='ieee', es=5, nbits=16, rm='rtz', ov='overflow', k=0),
    dict(fam='ieee', es=4, nbits=8, rm='rna', ov='saturate', k=0),
    dict(fam='ef', es=2, nbits=4, inf=False, kind='none', eoff=0, rm='rne', ov='overflow', k=0, nv=None, iv=None),          # MX_E2M1: NaN -> 6
    dict(fam='ef', es=4, nbits=8, inf=False, kind='maxval', eoff=0, rm='rne', ov='overflow', k=0, nv=None, iv=None),        # E4M3: inf -> NaN
    dict(fam='ef', es=4, nbits=8, inf=False, kind='none', eoff=0, rm='rne', ov='overflow', k=0, nv=('fin', False, 0, 1), iv=('fin', True, 0, 3)),
    dict(fam='ef', es=3, nbits=6, inf=True, kind='negzero', eoff=0, rm='rne', ov='overflow', k=0, nv=None, iv=None),
    dict(fam='mps', p=11, emin=-14, rm='rne', k=0, en=True, ei=True, nv=None, iv=None),
    dict(fam='mps', p=3, emin=-2, rm='rtn', k=0, en=False, ei=False, nv=('fin', False, 0, 1), iv=('fin', False, 3, 1)),
    dict(fam='mp', p=5, rm='rne', k=0, en=True, ei=True, nv=None, iv=None),
    dict(fam='mpb', p=4, emin=-3, pos=(False, 1, 13), neg=(True, 1, 13), rm='rne', ov='overflow', k=0, en=True, ei=True, nv=None, iv=None),
    dict(fam='mpb', p=4, emin=-3, pos=(False, 1, 13), neg=(True, 1, 13), rm='rtn', ov='overflow', k=0, en=False, ei=True, nv=('fin', False, 0, 0), iv=None),
    dict(fam='fixed', signed=True, scale=-4, nbits=8, rm='rne', ov='saturate', k=0, nv=('fin', False, 0, 0), iv=('fin', False, 0, 1)),
    dict(fam='fixed', signed=True, scale=-4, nbits=8, rm='rtz', ov='saturate', k=0, nv=None, iv=None),
    dict(fam='smfixed', scale=-3, nbits=6, rm='rne', ov='saturate', k=0, nv=None, iv=None),
    dict(fam='mpfix', nmin=-5, rm='rne', k=0, nz=True, en=True, ei=True, nv=None, iv=None),
    dict(fam='mpfix', nmin=-3, rm='rtp', k=0, nz=True, en=False, ei=False, nv=('fin', False, 0, 1), iv=('fin', False, 3, 1)),
    dict(fam='mpbfix', nmin=-4, pos=(False, 0, 7), neg=(True, 0, 7), rm='rne', ov='overflow', k=0, nz=True, en=False, ei=True, nv=('fin', False, 0, 1), iv=None),
    dict(fam='mpbfix', nmin=-4, pos=(False, 0, 7), neg=(True, 0, 7), rm='rtn', ov='overflow', k=0, nz=True, en=True, ei=True, nv=None, iv=None),
    dict(fam='mpbfix', nmin=-3, pos=(False, -2, 21), neg=(True, 0, 0), rm='rtz', ov='overflow', k=0, nz=False, en=False, ei=False, nv=None, iv=None),
]

# the shapes the seeded-change experiments showed to be needed, always present (kind, condition / expression, context index)
EMBED_FIXED = [
    ('ne-lit', 'x != 1', 0), ('ne-lit', 'x != 1', 3), ('ne-var', 'x != z', 0), ('ne-var', 'z != x', 3),
    ('ne-lit', 'not (x == 2.5)', 5), ('ne-lit', '1 != x', 12), ('ne-lit', 'x != 1 and x != 4', 3), ('ne-lit', 'x != 1 or x > 3', 0),
]
NAN_SIGN_BODY = ('    with {C}:\n        t = fp.round(x)\n    if fp.signbit(t):\n        arm = 1\n        y = 1\n    else:\n        arm = 2\n        y = 2\n'
                 '    return (y, arm)\n')

def embedded_inputs(R, ctx, d, L, n_edge):
    """argument pairs (x, z): specials, the literal and its neighbours, the edges of the format; z from a small pool that
    includes NaN and x itself -- every arm of every template is reached by some pair"""
    Lq = Fraction(L)
    xs = special_operands()
    for q in (Lq, -Lq, Lq + Fraction(1, 1 << 20), Lq - Fraction(1, 1 << 20), Fraction(3, 2), Fraction(-9, 4), Fraction(1, 1 << 30),
              -Fraction(10) ** 30, Fraction(8), Fraction(1)):
        xs.append(as_operand(R, q))
    ev = edge_values(ctx, d, R)
    R.shuffle(ev)
    xs += [as_operand(R, v) for v in ev[:n_edge] if v.denominator & (v.denominator - 1) == 0]
    zpool = [1.0, float('nan'), 0.0, -1.0, float('inf'), 2.5, -0.0, float(Lq) if abs(Lq) < 1e300 else 1.0]
    out = []
    nspecial = len(special_operands())
    for i, x in enumerate(xs):
        zs = [R.choice(zpool)] + ([R.choice(zpool)] if R.random() < 0.4 else [])
        if i < nspecial: zs = [float('nan'), float('inf'), 0.0, 1.0, R.choice(zpool)]   # a special x meets every class of z
        if R.random() < 0.3: zs.append(x)
        seen = set()
        for z in zs:
            if repr(z) in seen: continue
            seen.add(repr(z)); out.append((x, z))
    return out

def embedded_one(rep, R, tmp, ei, quick, lines, meta, seed):
    fixed = EMBED_FIXED[ei] if ei < len(EMBED_FIXED) else None
    d = dict(EMBED_CTXS[fixed[2]] if fixed else R.choice(EMBED_CTXS + [add_substitutes(R, rand_ctx(R)) for _ in range(6)]))
    j = ei - len(EMBED_FIXED)
    n_k = len(EMBED_KINDS)
    fixed_kind = EMBED_KINDS[j % n_k] if 0 <= j < 2 * n_k else None
    if fixed_kind is not None:
        # what a site does with its operand's class depends on the family of the site's context: the first round over the kinds
        # pairs every kind with a FLOAT context (what `float_to_fixed` / `unfold_special` lower), the second with a FIXED-POINT
        # one (`unfold_overflow` / `unfold_neg_zero` / `rescale_fixed`); the contexts cycle within their group
        grp = [c for c in EMBED_CTXS if (c['fam'] in ('ieee', 'mps', 'mp', 'mpb', 'ef')) == (j < n_k)]
        if fixed_kind in ('multi-pre', 'class-ops') and R.random() < 0.6: grp = [c for c in EMBED_CTXS if c['fam'] in ('ieee', 'mps', 'mp', 'mpb')]
        d = dict(grp[(j + seed) % len(grp)])
    d2 = dict(R.choice(EMBED_CTXS))
    try:
        ctx = ctx_obj(d); ctx_obj(d2)
    except Exception:
        rep.count('ctx-rejected'); return
    name = f'e{ei}'
    pre = ''
    def ctext(dd, tag):
        nonlocal pre
        t = ctx_text(dd, True)
        if t is not None and R.random() < 0.6: return t
        pre += f'{tag}_{name} = {ctx_text(dd, False)}\n'
        return f'{tag}_{name}'
    C, D = ctext(d, 'C'), ctext(d2, 'D')
    if fixed:
        kind, cond, _ = fixed
        I = '    '
        body = (f'{I}if {cond}:\n{I}    arm = 1\n{I}    with {C}:\n{I}        y = fp.round(x)\n{I}else:\n{I}    arm = 2\n{I}    y = x\n{I}return (y, arm)\n')
        if kind == 'nan-sign': body = NAN_SIGN_BODY.format(C=C)
        L = '1'
    else:
        # every kind of site appears in every run (two rounds over the list; the kinds that cycle through a list of forms are told their ordinal), the rest is drawn at random
        ordinal = ((j // n_k) * EMBED_KINDS.count(fixed_kind) + EMBED_KINDS[:j % n_k].count(fixed_kind)) if fixed_kind else R.randint(0, 9)
        kind, body, L = embedded_body(R, C, D, fixed_kind, ordinal)
    text = HEADER + pre + ('\n' if pre else '') + f'@fp.fpy\ndef {name}(x, z):\n' + body
    path = os.path.join(tmp, name + '.py')
    with open(path, 'w') as fh: fh.write(text)
    try:
        fn = getattr(load_module(path, f'fpyverif_C10_{seed}_{name}'), name)
    except Exception as e:
        rep.count(f'embedded:frontend-rejected:{kind}:{type(e).__name__}'); return
    rep.count('embedded:' + kind)
    csrc = ctx_text(d, False)
    inputs = embedded_inputs(R, ctx, d, L, 8 if quick else 20)
    if kind in ('multi-pre', 'class-ops'):
        reps = [float('nan'), float('inf'), -float('inf'), 0.0, -0.0, 1.5, -2.25, 65536.0]
        have = {repr(a) for a in inputs}
        inputs += [(a, b) for a in reps for b in reps if repr((a, b)) not in have]
    if '2 **' in body or 'exp2' in body:
        # 2 ** z with |z| >= 2^30 leaves the exponent range of the MPFR back end (C02's known finding C02-F3): not this property's business
        def small(v):
            try: return (isinstance(v, float) and (v != v or abs(v) == float('inf'))) or (isinstance(v, Float) and v.is_nar()) or abs(Fraction(v) if not isinstance(v, Float) else v.as_rational()) < 2 ** 20
            except Exception: return True
        inputs = [a for a in inputs if all(small(v) for v in a)]
    # which arms do the inputs reach (on the original program)?
    arms = set()
    for a in inputs:
        r = run_real(fn, a)
        if r.startswith('ok (t '): arms.add(r.rsplit('(n ', 1)[-1])
    rep.count(f'embedded:arms-reached:{len(arms)}')
    lower_and_compare(rep, R, fn, inputs,
                      {'csrc': csrc, 'd': d, 'variant': 'embedded:' + kind, 'form': None, 'arg_format': None, 'text': text, 'kind': 'embedded',
                       'what': text, 'what_txt': f' inside `{kind}`'},
                      quick, lines, meta, ctx=None, max_model=10 if quick else 30)

# ---------------------------------------------------------------- typed programs: elim_round / insert_round driven by format inference
#
# `elim_round` deletes (and `insert_round` adds) roundings that FORMAT INFERENCE proves to be identities.  What it can prove depends
# on the formats of the arguments, so these programs have TYPED arguments of every family -- two's-complement SINTn / UINTn, scaled
# fixed point, sign-magnitude, unbounded fixed point with and without a negative zero, asymmetric bounded formats, low- and
# high-precision floats -- every operator between them, and rounding contexts RELATED to the argument formats: the argument's own
# format back again (a round trip through another format), a wider and a narrower member of the same family, each with every
# overflow mode, besides unrelated ones.  Inputs sit at both extremes of each argument format and in pairs that drive the exact
# result out of the target range on either side.

def T_tc(signed, scale, nbits, rm='RTZ', ov='WRAP'): return ('tc', dict(signed=signed, scale=scale, nbits=nbits, rm=rm, ov=ov))
def T_sm(scale, nbits, rm='RNE', ov='SATURATE'): return ('sm', dict(scale=scale, nbits=nbits, rm=rm, ov=ov))
def T_mpfix(nmin, rm='RNE', nz=True, en=False, ei=False): return ('mpfix', dict(nmin=nmin, rm=rm, nz=nz, en=en, ei=ei))
def T_mpbfix(nmin, pos, neg, rm='RNE', ov='SATURATE', nz=True): return ('mpbfix', dict(nmin=nmin, pos=pos, neg=neg, rm=rm, ov=ov, nz=nz))
def T_ieee(es, nbits, rm='RNE', ov='OVERFLOW'): return ('ieee', dict(es=es, nbits=nbits, rm=rm, ov=ov))
def T_mp(p, rm='RNE'): return ('mp', dict(p=p, rm=rm))
def T_mps(p, emin, rm='RNE'): return ('mps', dict(p=p, emin=emin, rm=rm))
def T_mpb(p, emin, pos, neg, rm='RNE', ov='OVERFLOW'): return ('mpb', dict(p=p, emin=emin, pos=pos, neg=neg, rm=rm, ov=ov))
def T_mpk(p, k, rm='RNE'): return ('mpk', dict(p=p, k=k, rm=rm))
def T_exp(nbits, eoff=0, rm='RNE', ov='OVERFLOW'): return ('exp', dict(nbits=nbits, eoff=eoff, rm=rm, ov=ov))
def T_ef(es, nbits, inf, kind, rm='RNE', ov='OVERFLOW'): return ('ef', dict(es=es, nbits=nbits, inf=inf, kind=kind, rm=rm, ov=ov))

_TC_NAMES = {(True, 8): 'fp.SINT8', (False, 8): 'fp.UINT8', (True, 16): 'fp.SINT16', (False, 16): 'fp.UINT16', (True, 32): 'fp.SINT32', (False, 32): 'fp.UINT32'}

def _rfi(q):
    """RealFloat text of a dyadic given as (numerator, exp)"""
    n, e = q
    return f'RealFloat(s={n < 0}, exp={e}, c={abs(n)})'

def spec_text(spec, named=False):
    """(Python text, is the text also valid inside an FPy program)"""
    k, p = spec
    rm = f"fp.RM.{p['rm']}" if 'rm' in p else ''
    ov = f"fp.OV.{p['ov']}" if 'ov' in p else ''
    if k == 'tc':
        if named and p['scale'] == 0 and p['rm'] == 'RTZ' and p['ov'] == 'WRAP' and (p['signed'], p['nbits']) in _TC_NAMES:
            return _TC_NAMES[(p['signed'], p['nbits'])], True
        return f"fp.FixedContext({p['signed']}, {p['scale']}, {p['nbits']}, {rm}, {ov})", True
    if k == 'sm': return f"fp.SMFixedContext({p['scale']}, {p['nbits']}, {rm}, {ov})", True
    if k == 'mpfix':
        if named and p == dict(nmin=-1, rm='RTZ', nz=False, en=False, ei=False): return 'fp.INTEGER', True
        return f"fp.MPFixedContext({p['nmin']}, {rm}, enable_nan={p['en']}, enable_inf={p['ei']}, enable_neg_zero={p['nz']})", True
    if k == 'mpbfix':
        return (f"fp.MPBFixedContext({p['nmin']}, {_rfi(p['pos'])}, {rm}, {ov}, neg_maxval={_rfi(p['neg'])}, enable_neg_zero={p['nz']})", False)
    if k == 'ieee':
        if named and p['rm'] == 'RNE' and p['ov'] == 'OVERFLOW' and (p['es'], p['nbits']) in ((5, 16), (8, 32), (11, 64)):
            return {16: 'fp.FP16', 32: 'fp.FP32', 64: 'fp.FP64'}[p['nbits']], True
        return f"fp.IEEEContext({p['es']}, {p['nbits']}, {rm}, {ov})", True
    if k == 'mp': return f"fp.MPFloatContext({p['p']}, {rm})", True
    if k == 'mps': return f"fp.MPSFloatContext({p['p']}, {p['emin']}, {rm})", True
    if k == 'mpb': return f"fp.MPBFloatContext({p['p']}, {p['emin']}, {_rfi(p['pos'])}, {rm}, {ov}, neg_maxval={_rfi(p['neg'])})", False
    if k == 'mpk': return f"fp.MPFloatContext({p['p']}, {rm}, {p['k']})", True      # stochastic rounding
    if k == 'exp': return f"fp.ExpContext({p['nbits']}, {p['eoff']}, {rm}, {ov})", True
    if k == 'ef': return f"fp.EFloatContext({p['es']}, {p['nbits']}, {p['inf']}, fp.EFloatNanKind.{p['kind']}, 0, {rm}, {ov})", True
    raise ValueError(k)

def spec_obj(spec):
    return eval(spec_text(spec)[0], {'fp': fp, 'RealFloat': RealFloat})

TYPED_ARGS = [
    T_tc(True, 0, 8), T_tc(False, 0, 8), T_tc(True, 0, 16), T_tc(False, 0, 16), T_tc(True, 0, 32), T_tc(True, -3, 8), T_tc(False, -2, 6), T_tc(True, 2, 6),
    T_tc(True, -8, 24, 'RNE', 'SATURATE'), T_sm(-2, 6), T_sm(0, 8), T_mpfix(-1, 'RTZ', False), T_mpfix(-4), T_mpfix(-4, 'RNE', False), T_mpfix(-6, 'RNE', True, True, True),
    T_mpbfix(-3, (21, -2), (-5, -1)), T_mpbfix(-1, (100, 0), (0, 0), 'RNE', 'SATURATE', False),
    T_ieee(5, 16), T_ieee(8, 32), T_ieee(11, 64), T_ieee(4, 8), T_ieee(3, 6), T_ieee(5, 16, 'RTZ', 'SATURATE'), T_mp(6), T_mp(24), T_mps(5, -6), T_mps(11, -14),
    T_mpb(4, -3, (13, 1), (-7, 0)), T_ef(4, 8, False, 'MAX_VAL'), T_ef(3, 6, True, 'NEG_ZERO'), T_ef(2, 4, False, 'NONE'), T_exp(4), T_exp(3, -2, 'RTZ', 'SATURATE'),
]
RMS_U = ['RNE', 'RNA', 'RTP', 'RTN', 'RTZ', 'RAZ', 'RTO', 'RTE']
OVS_FIX = ['WRAP', 'SATURATE', 'OVERFLOW', 'ASSERT']
OVS_FLT = ['OVERFLOW', 'SATURATE', 'ASSERT']

def related(R, spec):
    """a rounding context related to an argument format: itself, itself with another overflow mode / rounding mode, a wider or a
    narrower member of its family, the other signedness"""
    k, p = spec
    q = dict(p)
    how = R.choice(['same', 'ov', 'ov', 'wider', 'wider', 'narrower', 'rm', 'flip', 'as-mpb', 'as-mpb'])
    if how == 'as-mpb' and k in ('tc', 'sm'):
        # the same bounds stated through the general bounded fixed-point class instead of the two's-complement / sign-magnitude one
        hi = (1 << (p['nbits'] - 1)) - 1 if (k == 'sm' or p['signed']) else (1 << p['nbits']) - 1
        lo = -hi if k == 'sm' else (-(1 << (p['nbits'] - 1)) if p['signed'] else 0)
        return ('mpbfix', dict(nmin=p['scale'] - 1, pos=(hi, p['scale']), neg=(lo, p['scale']), rm=R.choice(['RNE', p['rm']]),
                               ov=R.choice(OVS_FIX), nz=R.choice([True, True, False])))
    if how == 'as-mpb' and k == 'ieee':
        c = spec_obj(spec); m = c.maxval().as_real()
        return ('mpb', dict(p=c.pmax, emin=c.emin, pos=(m.c, m.exp), neg=(-m.c, m.exp), rm=p['rm'], ov=R.choice(OVS_FLT)))
    if 'ov' in q and how in ('ov', 'wider', 'narrower', 'flip'):
        q['ov'] = R.choice(OVS_FIX if k in ('tc', 'sm', 'mpbfix') else OVS_FLT)
    if how == 'rm' and 'rm' in q: q['rm'] = R.choice(RMS_U)
    if how == 'wider':
        if k in ('tc', 'sm'): q['nbits'] += R.choice([1, 8]); q['scale'] -= R.choice([0, 0, 2])
        elif k == 'ieee': q['nbits'] += R.choice([2, 8]); q['es'] += R.choice([0, 1])
        elif k in ('mp', 'mps', 'mpb'): q['p'] += R.choice([1, 8])
        elif k in ('mpfix', 'mpbfix'): q['nmin'] -= 3
    if how == 'narrower':
        if k in ('tc', 'sm'): q['nbits'] = max(2, q['nbits'] - R.choice([1, 3])); q['scale'] += R.choice([0, 0, 1])
        elif k == 'ieee' and q['nbits'] - q['es'] > 3: q['nbits'] -= 2
        elif k in ('mp', 'mps', 'mpb'): q['p'] = max(1, q['p'] - R.choice([1, 3]))
        elif k in ('mpfix', 'mpbfix'):
            q['nmin'] += 2
            if k == 'mpbfix':        # the bounds must be members of the coarser grid
                u = Fraction(2) ** (q['nmin'] + 1)
                regrid = lambda ne: (int(abs(Fraction(ne[0]) * Fraction(2) ** ne[1]) / u) * (1 if ne[0] >= 0 else -1), q['nmin'] + 1)
                q['pos'], q['neg'] = regrid(q['pos']), regrid(q['neg'])
    if how == 'flip':
        if k == 'tc': q['signed'] = not q['signed']
        elif k == 'mpfix': q['nz'] = not q['nz']
    return (k, q)

def rand_target(R, argspecs):
    if R.random() < 0.65: return related(R, R.choice(argspecs))
    s = R.choice(TYPED_ARGS)
    return related(R, s) if R.random() < 0.5 else s

def typed_expr(R, vars_, depth=0):
    """a random expression over the typed arguments: every operator the rounding axis knows"""
    v = lambda: R.choice(vars_)
    if depth >= 2 or (depth > 0 and R.random() < 0.45):
        return R.choice([v(), v(), v(), R.choice(['1', '2', '0.5', '3', '0', '-1', '255', '0.25'])])
    a, b = typed_expr(R, vars_, depth + 1), typed_expr(R, vars_, depth + 1)
    k = R.randint(0, 12)
    if k == 0: return f'({a} + {b})'
    if k == 1: return f'({a} - {b})'
    if k == 2: return f'({a} - {b})'
    if k == 3: return f'({a} * {b})'
    if k == 4: return f'(-{a})'
    if k == 5: return f'abs({a})'
    if k == 6: return f'min({a}, {b})'
    if k == 7: return f'max({a}, {b})'
    if k == 8: return f'fp.fma({a}, {b}, {typed_expr(R, vars_, depth + 1)})'
    if k == 9: return f'fp.round({a})'
    if k == 10: return f'fp.cast({a})'
    if k == 11: return f'({a} + {b})'
    return f'({a} * {b})'

def binop_expr(R, vars_):
    a, b = R.choice(vars_), R.choice(vars_)
    return R.choice([f'{a} + {b}', f'{a} - {b}', f'{b} - {a}', f'{a} * {b}', f'-{a}', f'abs({a})', f'min({a}, {b})', f'max({a}, {b})',
                     f'fp.fma({a}, {b}, {R.choice(vars_)})', f'{a} - 1', f'1 - {a}', f'{a} * 2', f'{a} + {a}', f'abs({a} - {b})'])

TYPED_SHAPES = ['op', 'op', 'op-tree', 'roundtrip', 'roundtrip', 'op-then-round', 'op-then-cast', 'real-then-round', 'two-ops', 'branch-join', 'loop-acc',
                'loop-for-list', 'listcomp', 'ifexpr', 'nested-with', 'while-acc', 'tuple-bind', 'literal-set', 'minmax-clamp', 'if1-update',
                'unary-misc', 'list-typed', 'call', 'assert-bool', 'foreign-const', 'set-arith', 'while-cond', 'while-cond', 'fit-store', 'fit-store', 'fit-store', 'fit-store', 'fit-store', 'fit-store', 'fit-store', 'fit-store', 'list-misc', 'unary-misc', 'foreign-const', 'list-arg', 'list-arg', 'tuple-arg', 'outer-scope', 'outer-scope', 'clamp-float', 'clamp-float', 'inner-finer', 'inner-finer']

def typed_body(R, shape, vars_, C, D, ordinal=0):
    I = '    '
    e = lambda: binop_expr(R, vars_)
    x, z = vars_[0], vars_[-1]
    if shape == 'op': return f'{I}with {C}:\n{I}    y = {e()}\n{I}return y\n'
    if shape == 'op-tree': return f'{I}with {C}:\n{I}    y = {typed_expr(R, vars_)}\n{I}return y\n'
    if shape == 'roundtrip': return f'{I}with {C}:\n{I}    t = fp.round({x})\n{I}with {D}:\n{I}    y = fp.round(t)\n{I}return y\n'
    if shape == 'op-then-round': return f'{I}with {C}:\n{I}    t = {e()}\n{I}with {D}:\n{I}    y = fp.round(t)\n{I}return y\n'
    if shape == 'op-then-cast': return f'{I}with {C}:\n{I}    t = {e()}\n{I}with {D}:\n{I}    y = fp.cast(t)\n{I}return y\n'
    if shape == 'real-then-round': return f'{I}with fp.REAL:\n{I}    t = {typed_expr(R, vars_, 1)}\n{I}with {C}:\n{I}    y = fp.round(t)\n{I}return y\n'
    if shape == 'two-ops': return f'{I}with {C}:\n{I}    t = {e()}\n{I}    y = {binop_expr(R, ["t", z])}\n{I}return y\n'
    if shape == 'branch-join':
        return (f'{I}if {x} > {z}:\n{I}    with {C}:\n{I}        t = {e()}\n{I}else:\n{I}    with {D}:\n{I}        t = {e()}\n'
                f'{I}with {C}:\n{I}    y = fp.round(t)\n{I}return y\n')
    if shape == 'loop-acc': return f'{I}t = {x}\n{I}for i in range(3):\n{I}    with {C}:\n{I}        t = {binop_expr(R, ["t", z])}\n{I}return t\n'
    if shape == 'loop-for-list':
        return f'{I}t = {x}\n{I}for v in [{x}, {z}, 1]:\n{I}    with {C}:\n{I}        t = {binop_expr(R, ["t", "v"])}\n{I}return t\n'
    if shape == 'listcomp':
        return f'{I}with {C}:\n{I}    ys = [fp.round({binop_expr(R, ["v", z])}) for v in [{x}, {z}]]\n{I}with {D}:\n{I}    y = ys[0] + ys[1]\n{I}return y\n'
    if shape == 'ifexpr': return f'{I}with {C}:\n{I}    y = fp.round({x}) if {x} < {z} else {e()}\n{I}return y\n'
    if shape == 'nested-with': return f'{I}with {D}:\n{I}    t = {e()}\n{I}    with {C}:\n{I}        u = fp.round(t)\n{I}    y = {binop_expr(R, ["u", "t"])}\n{I}return y\n'
    if shape == 'while-acc':
        return f'{I}i = 0\n{I}t = {x}\n{I}while i < 2:\n{I}    with {C}:\n{I}        t = {binop_expr(R, ["t", z])}\n{I}    i = i + 1\n{I}return t\n'
    if shape == 'while-cond':      # arithmetic in the loop CONDITION (re-evaluated every iteration: it must never be hoisted out of the loop)
        cnt = R.choice(['fp.SINT8', 'fp.UINT8', 'fp.FixedContext(True, 0, 6, fp.RM.RTZ, fp.OV.SATURATE)'])
        cond = R.choice(['(i + 1) <= {n}', '(i * 2) < {n}', '(i - {n}) < 0', '-i > -{n}', 'abs(i - {n}) > 0', '(i + 1) <= {n} and (i + i) < 9'])
        return (f'{I}with {C}:\n{I}    i = 0\n{I}    t = {x}\n{I}    while {cond.format(n=R.choice([2, 3]))}:\n{I}        t = {binop_expr(R, ["t", z])}\n{I}        with {cnt}:\n{I}            i = i + 1\n{I}return t\n')
    if shape == 'tuple-bind': return f'{I}with {C}:\n{I}    a, b = ({e()}, {e()})\n{I}with {D}:\n{I}    y = a - b\n{I}return y\n'
    if shape == 'literal-set':
        lit = R.choice(['1', '0.5', '3', '-2', '0', 'fp.hexfloat(\'0x1.8p1\')', 'fp.rational(3, 4)', 'fp.digits(5, -1, 2)', '100'])
        return f'{I}with fp.REAL:\n{I}    k = {lit}\n{I}    t = k * 2\n{I}with {C}:\n{I}    y = fp.round(t) + {x}\n{I}return y\n'
    if shape == 'minmax-clamp': return f'{I}with {C}:\n{I}    t = max(min({x}, {R.choice(["100", "1", z])}), {R.choice(["-100", "0", "-1"])})\n{I}    y = fp.round(t)\n{I}return y\n'
    if shape == 'if1-update': return f'{I}with {C}:\n{I}    y = fp.round({x})\n{I}if {x} < {z}:\n{I}    with {D}:\n{I}        y = {binop_expr(R, ["y", z])}\n{I}return y\n'
    if shape == 'unary-misc':
        us = [f'fp.logb({x})', f'fp.exp2({z})', f'2 ** {x}', f'fp.sqrt(abs({x}))', f'fp.floor({x})', f'fp.ceil({x})', f'fp.trunc({z})', 'fp.const_pi()',
              f'fp.logb({x}) + 1', f'{x} * (2 ** {z})', f'fp.copysign({x}, {z})', f'fp.fmin({x}, {z})', f'fp.exp2({x}) * {z}', f'fp.logb({z}) - fp.logb({x})', f'fp.roundint({x})', f'fp.nearbyint({z})']
        # four of them per program, all of them within four programs
        pick = [us[(4 * ordinal + i) % len(us)] for i in range(4)]
        return (f'{I}with {C}:\n' + ''.join(f'{I}    t{i} = {u}\n' for i, u in enumerate(pick)) + f'{I}with {D}:\n' + ''.join(f'{I}    y{i} = fp.round(t{i})\n' for i in range(4))
                + f'{I}    y = (y0 + y1) + (y2 + y3)\n{I}return y\n')
    if shape == 'inner-finer':     # the result is a member of the argument's format, an operand of the outermost operation is not
        es = [f'({x} + 0.5) * 2', f'({x} * 0.5) * 2', f'({x} * 3) - ({x} * 2)', f'({x} - 0.5) + 0.5', f'(({x} + {z}) * 0.5) * 2', f'({x} * 0.25) * 4', f'({x} * {x}) - ({x} * {x})',
              f'abs({x} * 0.5) * 2', f'-({x} * 0.5) * 2', f'min({x} * 0.5, 1) * 2', f'fp.fma({x} * 0.5, 2, 0)', f'({x} * 256) * 0.00390625', f'({x} + {z}) - {z}', f'max({x} - 0.25, 0) * 4']
        pick = [es[(4 * ordinal + i) % len(es)] for i in range(4)]
        return (f'{I}with fp.REAL:\n' + ''.join(f'{I}    t{i} = {e}\n' for i, e in enumerate(pick)) + f'{I}with {D}:\n' + ''.join(f'{I}    y{i} = fp.round(t{i})\n' for i in range(4))
                + f'{I}with fp.REAL:\n{I}    y = (y0 + y1) + (y2 + y3)\n{I}return y\n')
    if shape == 'outer-scope':     # no `with` around the operations: the context of the decorator (or of the pinning) rounds them
        return f'{I}t = {e()}\n{I}u = {binop_expr(R, ["t", z])}\n{I}with {C}:\n{I}    v = fp.round(u)\n{I}y = v + {x}\n{I}return y\n'
    if shape == 'clamp-float':     # a float operand (NaN and infinities included) clamped into the range of a fixed-point target
        lo, hi = R.choice([('-4', '4'), ('0', '7'), ('-1', '1'), ('-128', '127'), ('0', '255')])
        cl = R.choice([f'max(min({x}, {hi}), {lo})', f'min(max({x}, {lo}), {hi})', f'min({hi}, max({lo}, {x}))'])
        post = R.choice(['', ' * 2', ' + 1', ' - 1', ' * 0.5'])
        return f'{I}with fp.REAL:\n{I}    t = {cl}{post}\n{I}with {C}:\n{I}    y = fp.round(t)\n{I}return y\n'
    if shape == 'list-arg':        # the first argument is a LIST of members of its format
        bo = R.choice(['t + v', 't - v', 'max(t, v)', 'min(t, v)', 'v - t', 'abs(v) + t'])
        return (f'{I}with {C}:\n{I}    t = {x}[0]\n{I}    for v in {x}:\n{I}        t = {bo}\n{I}    s = {R.choice([f"sum({x})", f"max({x})", f"{x}[1] * {x}[2]", f"{x}[len({x}) - 1]"])}\n'
                f'{I}with {D}:\n{I}    y = fp.round(t) + fp.round(s)\n{I}return y\n')
    if shape == 'tuple-arg':       # the first argument is a PAIR
        return (f'{I}a, b = {x}\n{I}with {C}:\n{I}    t = {binop_expr(R, ["a", "b"])}\n{I}    u = {binop_expr(R, ["a", "b", z])}\n{I}with {D}:\n{I}    y = fp.round(t) - fp.round(u)\n{I}return y\n')
    if shape == 'list-misc':
        return (f'{I}with {C}:\n{I}    xs = [{x}, {z}, 1]\n{I}    n = len(xs)\n{I}    d = fp.dim(xs)\n{I}    s0 = fp.size(xs, 0)\n{I}    t = {x}\n{I}    for i in range(1, 3):\n{I}        t = t + xs[i] * i\n'
                f'{I}    _, c = ({x}, {z})\n{I}    for j in range(2):\n{I}        t = t - j\n{I}    t = t + n + d + s0 - c\n{I}with {D}:\n{I}    y = fp.round(t)\n{I}return y\n')
    if shape == 'list-typed':
        return (f'{I}with {C}:\n{I}    xs = [{x}, {z}, {e()}, 1]\n{I}    s = sum(xs)\n{I}    m = {R.choice(["max(xs)", "min(xs)"])}\n{I}    us = xs[0:2]\n{I}    ys = fp.empty(2)\n'
                f'{I}    ys[0] = {x}\n{I}    ys[1] = m\n{I}    t = s\n{I}    for i in range(len(us)):\n{I}        t = t - us[i]\n{I}    for i, v in enumerate(xs):\n{I}        t = max(t, v)\n'
                f'{I}    for a, b in zip(ys, us):\n{I}        t = t + (a - b)\n{I}with {D}:\n{I}    y = fp.round(t)\n{I}return y\n')
    if shape == 'call':
        return f'{I}with {C}:\n{I}    t = HELPER({x}) + {z}\n{I}with {D}:\n{I}    y = fp.round(t) - HELPER({z})\n{I}return y\n'
    if shape == 'assert-bool':
        return (f'{I}b = {x} <= {z}\n{I}assert {x} == {x}\n{I}pass\n{I}with {C}:\n{I}    t = {e()}\n{I}if b and not ({x} < 0):\n{I}    with {D}:\n{I}        t = fp.round(t)\n{I}return t\n')
    if shape == 'foreign-const':
        ks = ['K_INT', 'K_FLOAT', 'K_FRAC', 'K_FV', 'K_RF', 'ka', 'K_LIST[1]', 'K_NS.c']
        pick = [ks[(4 * ordinal + i) % len(ks)] for i in range(4)]
        return (f'{I}with fp.REAL:\n{I}    ka, kb = K_TUP\n' + ''.join(f'{I}    t{i} = {x} * {k}\n' for i, k in enumerate(pick)) + f'{I}    if K_BOOL:\n{I}        t0 = t0 + 1\n{I}with {C}:\n'
                + ''.join(f'{I}    y{i} = fp.round(t{i})\n' for i in range(4)) + f'{I}with fp.REAL:\n{I}    y = (y0 + y1) + (y2 + y3)\n{I}return y\n')
    if shape == 'set-arith':
        a, b = R.choice(['1', '3', '-2', '0.5', '0', '-0.0']), R.choice(['2', '-1', '0.25', '0', '4'])
        op = R.choice(['+', '-', '*'])
        return (f'{I}with fp.REAL:\n{I}    k = {a}\n{I}    j = {b}\n{I}    t = (k {op} j) * 1\n{I}    u = -t\n{I}    w2 = abs(u) + max(k, j)\n{I}with {C}:\n{I}    y = fp.round(w2) + fp.round(t)\n{I}with {D}:\n{I}    y = y * {x}\n{I}return y\n')
    raise ValueError(shape)

# ---- targets fitted to the EXACT range of the value they store
#
# The rounding axis deletes a rounding when it can prove that every value of the operand's format is a member of the target.  The
# sharpest test of the bound arithmetic behind that proof is a target whose bounds are the exact range of the stored expression --
# computed HERE, by interval arithmetic that shares nothing with the analysis -- and the same target one notch tighter on either
# side, fed with the inputs that attain both ends of the range.

def _fit_range(spec):
    """(lo, hi, quantum exponent) of a bounded fixed-point argument format"""
    c = spec_obj(spec)
    k, p = spec
    def bound(sgn):
        try: return c.maxval(sgn).as_rational()
        except ValueError: return Fraction(0)           # a format without values on that side of zero
    return bound(True), bound(False), (p['scale'] if k in ('tc', 'sm') else p['nmin'] + 1)

def _q(e): return Fraction(2) ** e

FIT_OPS = ['min-k', 'max-k', 'k-min', 'k-max', 'clamp', 'clamp2', 'clamp3', 'min', 'max', 'add', 'sub', 'neg', 'abs', 'mul-k', 'mul', 'fma', 'add-k', 'k-sub']
FIT_HOWS = ['exact', 'hi-1', 'lo+1', 'tc-fit', 'exact', 'hi+1', 'tc-fit-1', 'lo-1', 'coarser', 'exact', 'finer']

def fit_expr(R, leaves, depth=0, top=None):
    """(text, lo, hi, quantum exponent, constants used): an expression over bounded operands with its exact range"""
    def leaf():
        return R.choice(leaves) + ([],)
    def const_near(lo, hi, q):
        cands = [lo + _q(q), hi - _q(q), (lo + hi) / 2 // _q(q) * _q(q), Fraction(0), Fraction(1), Fraction(-1), hi, lo, hi / 2 // _q(q) * _q(q), Fraction(5), Fraction(100), Fraction(-20)]
        k = R.choice(cands)
        qq = q
        while k % _q(qq) != 0: qq -= 1
        txt = str(int(k)) if k.denominator == 1 else repr(float(k))
        return (txt, k, k, qq, [k])
    if depth >= 2 or (depth == 1 and R.random() < 0.5): return leaf()
    a = fit_expr(R, leaves, depth + 1)
    op = top if (top and depth == 0) else R.choice(FIT_OPS + ['sub'])
    ta, la, ha, qa, ka = a
    if op in ('min-k', 'max-k', 'k-min', 'k-max', 'add-k', 'k-sub', 'mul-k', 'clamp', 'clamp2', 'clamp3'):
        tk, k, _, qk, kk = const_near(la, ha, qa)
        q = min(qa, qk)
        if op == 'min-k': return (f'min({ta}, {tk})', min(la, k), min(ha, k), q, ka + kk)
        if op == 'k-min': return (f'min({tk}, {ta})', min(la, k), min(ha, k), q, ka + kk)
        if op == 'max-k': return (f'max({ta}, {tk})', max(la, k), max(ha, k), q, ka + kk)
        if op == 'k-max': return (f'max({tk}, {ta})', max(la, k), max(ha, k), q, ka + kk)
        if op == 'add-k': return (f'({ta} + {tk})', la + k, ha + k, q, ka + kk)
        if op == 'k-sub': return (f'({tk} - {ta})', k - ha, k - la, q, ka + kk)
        if op == 'mul-k':
            m = R.choice([2, 3, -1, -2, 4])
            lo, hi = sorted((la * m, ha * m))
            return (f'({ta} * {m})', lo, hi, qa, ka)
        tk2, k2, _, qk2, kk2 = const_near(la, ha, qa)
        LO, HI = sorted((k, k2)); tLO, tHI = (tk, tk2) if k <= k2 else (tk2, tk)
        q = min(qa, qk, qk2)
        lo, hi = max(min(la, HI), LO), max(min(ha, HI), LO)
        if op == 'clamp': return (f'max(min({ta}, {tHI}), {tLO})', lo, hi, q, ka + kk + kk2)
        if op == 'clamp2': return (f'min(max({ta}, {tLO}), {tHI})', min(max(la, LO), HI), min(max(ha, LO), HI), q, ka + kk + kk2)
        return (f'max({tLO}, min({tHI}, {ta}))', lo, hi, q, ka + kk + kk2)
    if op == 'neg': return (f'(-{ta})', -ha, -la, qa, ka)
    if op == 'abs':
        lo = la if la >= 0 else (-ha if ha <= 0 else Fraction(0))
        return (f'abs({ta})', lo, max(abs(la), abs(ha)), qa, ka)
    b = fit_expr(R, leaves, depth + 1)
    tb, lb, hb, qb, kb = b
    q = min(qa, qb)
    if op == 'min': return (f'min({ta}, {tb})', min(la, lb), min(ha, hb), q, ka + kb)
    if op == 'max': return (f'max({ta}, {tb})', max(la, lb), max(ha, hb), q, ka + kb)
    if op == 'add': return (f'({ta} + {tb})', la + lb, ha + hb, q, ka + kb)
    if op == 'sub': return (f'({ta} - {tb})', la - hb, ha - lb, q, ka + kb)
    ps = [la * lb, la * hb, ha * lb, ha * hb]
    if op == 'mul': return (f'({ta} * {tb})', min(ps), max(ps), qa + qb, ka + kb)
    c = R.choice(leaves) + ([],)
    tc_, lc, hc, qc, kc = c
    return (f'fp.fma({ta}, {tb}, {tc_})', min(ps) + lc, max(ps) + hc, min(qa + qb, qc), ka + kb + kc)

def fit_target(R, lo, hi, q, how=None):
    """(how, spec): a fixed-point target that holds [lo, hi] exactly, or one notch short of it on one side"""
    how = how or R.choice(['exact', 'exact', 'hi-1', 'lo+1', 'hi+1', 'lo-1', 'coarser', 'tc-fit', 'tc-fit', 'tc-fit-1', 'finer'])
    u = _q(q)
    if how.startswith('tc-fit'):
        signed = lo < 0
        n = 1
        def fits(n): return (-(1 << (n - 1)) * u <= lo and hi <= ((1 << (n - 1)) - 1) * u) if signed else hi <= ((1 << n) - 1) * u
        while not fits(n) and n < 80: n += 1
        if how == 'tc-fit-1': n = max(1 if not signed else 2, n - 1)
        return how, T_tc(signed, q, max(n, 2 if signed else 1), R.choice(RMS_U), R.choice(OVS_FIX))
    nmin = q - 1
    if how == 'hi-1': hi -= u
    if how == 'lo+1': lo += u
    if how == 'hi+1': hi += u
    if how == 'lo-1': lo -= u
    if how == 'coarser': nmin += 1; u *= 2; hi = hi // u * u; lo = -((-lo) // u * u)
    if how == 'finer': nmin -= 2; u /= 4
    hi, lo = max(hi, Fraction(0)), min(lo, Fraction(0))
    return how, T_mpbfix(nmin, (int(hi / u), nmin + 1), (int(lo / u), nmin + 1), R.choice(RMS_U), R.choice(OVS_FIX), R.choice([True, True, True, False]))

FIT_GUARD_FORMS = ['lt', 'le', 'gt', 'ge', 'lt-r', 'le-r', 'gt-r', 'ge-r', 'not-gt', 'not-lt', 'and', 'or', 'and2', 'or2', 'eq', 'ne', 'chain', 'not-and', 'not-or']

def fit_guard(R, leaves, form=None):
    """(condition text, ranges of the operands where it holds, ranges where it fails): comparisons of an operand against constants of
    its grid -- the analysis narrows an operand's bound inside a guarded branch, and the exact narrowed range is computed here"""
    v, lo, hi, q = leaves[0]
    u = _q(q)
    def grid_const():
        k = R.choice([lo + u, hi - u, Fraction(0), (lo + hi) / 2 // u * u, hi / 2 // u * u, lo / 2 // u * u, u, -u, hi, lo, Fraction(1), Fraction(5), Fraction(-3)])
        return k // u * u
    def txt(k): return str(int(k)) if k.denominator == 1 else repr(float(k))
    K = grid_const()
    full = {v: (lo, hi)}
    def rng(a, b): return (max(a, lo), min(b, hi))
    form = form or R.choice(FIT_GUARD_FORMS)
    k = txt(K)
    if form == 'lt': return f'{v} < {k}', {v: rng(lo, K - u)}, {v: rng(K, hi)}
    if form == 'le': return f'{v} <= {k}', {v: rng(lo, K)}, {v: rng(K + u, hi)}
    if form == 'gt': return f'{v} > {k}', {v: rng(K + u, hi)}, {v: rng(lo, K)}
    if form == 'ge': return f'{v} >= {k}', {v: rng(K, hi)}, {v: rng(lo, K - u)}
    if form == 'lt-r': return f'{k} < {v}', {v: rng(K + u, hi)}, {v: rng(lo, K)}
    if form == 'le-r': return f'{k} <= {v}', {v: rng(K, hi)}, {v: rng(lo, K - u)}
    if form == 'gt-r': return f'{k} > {v}', {v: rng(lo, K - u)}, {v: rng(K, hi)}
    if form == 'ge-r': return f'{k} >= {v}', {v: rng(lo, K)}, {v: rng(K + u, hi)}
    if form == 'not-gt': return f'not ({v} > {k})', {v: rng(lo, K)}, {v: rng(K + u, hi)}
    if form == 'not-lt': return f'not ({v} < {k})', {v: rng(K, hi)}, {v: rng(lo, K - u)}
    if form == 'eq': return f'{v} == {k}', {v: rng(K, K)}, full
    if form == 'ne': return f'{v} != {k}', full, {v: rng(K, K)}
    K2 = grid_const()
    LO, HI = sorted((K, K2))
    if form == 'and': return f'{v} < {txt(HI)} and {v} > {txt(LO)}', {v: rng(LO + u, HI - u)}, full
    if form == 'or': return f'{v} > {txt(HI)} or {v} < {txt(LO)}', full, {v: rng(LO, HI)}
    if form == 'not-and': return f'not ({v} <= {txt(HI)} and {v} >= {txt(LO)})', full, {v: rng(LO, HI)}
    if form == 'not-or': return f'not ({v} >= {txt(HI)} or {v} <= {txt(LO)})', {v: rng(LO + u, HI - u)}, full
    if form == 'chain': return f'{txt(LO)} <= {v} <= {txt(HI)}', {v: rng(LO, HI)}, full
    if len(leaves) > 1:
        w, lw, hw, qw = leaves[1]
        uw = _q(qw)
        Kw = R.choice([lw + uw, hw - uw, Fraction(0), hw / 2 // uw * uw]) // uw * uw
        fullw = {v: (lo, hi), w: (lw, hw)}
        if form == 'and2': return f'{v} <= {k} and {w} >= {txt(Kw)}', {v: rng(lo, K), w: (max(Kw, lw), hw)}, fullw
        return f'{v} > {k} or {w} < {txt(Kw)}', fullw, {v: rng(lo, K), w: (max(Kw, lw), hw)}
    return f'{v} < {k}', {v: rng(lo, K - u)}, {v: rng(K, hi)}

FIT_ARGS = None
def fit_program(R, nargs, ordinal=0):
    """(argument specs, target spec, body with {C}, constants of the expression, tag)"""
    global FIT_ARGS
    if FIT_ARGS is None: FIT_ARGS = [s for s in TYPED_ARGS if s[0] in ('tc', 'sm', 'mpbfix')]
    a0 = R.choice(FIT_ARGS)
    aspecs = [a0] + [a0 if R.random() < 0.5 else R.choice(FIT_ARGS) for _ in range(nargs - 1)]
    leaves = []
    for v, sp in zip(['x', 'z', 'w'], aspecs):
        lo, hi, q = _fit_range(sp)
        leaves.append((v, lo, hi, q))
    I = '    '
    if ordinal % 3 == 2:
        # guarded stores: each target is fitted to the range the operands have INSIDE the branch; four guards per program, every
        # form of guard within five programs
        body, consts, extra_targets, hows = '', [], [], []
        for gi in range(4):
            form = FIT_GUARD_FORMS[(4 * (ordinal // 3) + gi) % len(FIT_GUARD_FORMS)]
            if form in ('and2', 'or2') and len(leaves) < 2: form = R.choice(['and', 'or'])
            for _ in range(20):
                cond, then_r, else_r = fit_guard(R, leaves, form)
                which = R.choice(['then', 'else']) if form not in ('and', 'not-or', 'and2', 'eq', 'chain') else R.choice(['then', 'then', 'then', 'else'])
                if form in ('or', 'not-and', 'or2', 'ne'): which = R.choice(['else', 'else', 'else', 'then'])
                nar = then_r if which == 'then' else else_r
                if all(a <= b for a, b in nar.values()): break
            else:
                nar = {}
            nleaves = [(v, nar.get(v, (lo, hi))[0], nar.get(v, (lo, hi))[1], q) for v, lo, hi, q in leaves]
            if R.random() < 0.4: text, lo, hi, q, ks = nleaves[0] + ([],)
            else: text, lo, hi, q, ks = fit_expr(R, nleaves, 1)
            how, tgt = fit_target(R, lo, hi, q)
            extra_targets.append(tgt); hows.append(how)
            fitted = f'{I}    with fp.REAL:\n{I}        t{gi} = {text}\n{I}    with {{F{gi}}}:\n{I}        y{gi} = fp.round(t{gi})\n'
            other = f'{I}    with {{D}}:\n{I}        y{gi} = fp.round(x)\n'
            body += f'{I}if {cond}:\n' + (fitted if which == 'then' else other) + f'{I}else:\n' + (other if which == 'then' else fitted)
            consts += ks + [lo, hi] + [b for r in (then_r, else_r) for ab in r.values() for b in ab]
        body += f'{I}with fp.REAL:\n{I}    y = (y0 + y1) + (y2 + y3)\n{I}return y\n'
        return aspecs, extra_targets[0], body, consts, 'guards', extra_targets
    # four stores per program, each into a target fitted to its own expression; the top-level operator and the kind of fit cycle, so
    # every operator meets an exact / a tighter / a two's-complement fit within a few programs
    k = ordinal - ordinal // 3          # the ordinal among the unguarded programs
    body, consts, targets = '', [], []
    style = R.choice(['real', 'real', 'direct', 'chain'])
    for gi in range(4):
        top = FIT_OPS[(4 * k + gi) % len(FIT_OPS)]
        for _ in range(20):
            text, lo, hi, q, ks = fit_expr(R, leaves, 0, top)
            if hi - lo < Fraction(2) ** 70 and q > -60: break
        how, tgt = fit_target(R, lo, hi, q, FIT_HOWS[(k + gi) % len(FIT_HOWS)] if gi < 3 else None)
        targets.append(tgt); consts += ks + [lo, hi]
        if style == 'direct' and gi % 2: body += f'{I}with {{F{gi}}}:\n{I}    y{gi} = {text}\n'
        elif style == 'chain' and gi % 2: body += f'{I}with fp.REAL:\n{I}    t{gi} = {text}\n{I}with {{F{gi}}}:\n{I}    u{gi} = fp.round(t{gi})\n{I}with {{D}}:\n{I}    y{gi} = fp.round(u{gi})\n'
        else: body += f'{I}with fp.REAL:\n{I}    t{gi} = {text}\n{I}with {{F{gi}}}:\n{I}    y{gi} = fp.round(t{gi})\n'
    body += f'{I}with fp.REAL:\n{I}    y = (y0 + y1) + (y2 + y3)\n{I}return y\n'
    return aspecs, targets[0], body, consts, 'stores', targets

TYPED_MODULE_CONSTS = ('K_INT = 3\nK_FLOAT = 0.75\nfrom fractions import Fraction as _Fr\nK_FRAC = _Fr(5, 4)\nK_FV = Float(s=False, exp=-1, c=3)\nK_RF = RealFloat(s=True, exp=0, c=2)\n'
                       'K_TUP = (2, 5)\nK_LIST = [1, 7]\nK_BOOL = True\nclass K_NS:\n    c = 6\n')

# programs that broke the rounding axis in the past, always present: (shape, body, argument specs, C, D, pass)
TYPED_FIXED = [
    ('roundtrip', None, [T_tc(True, 0, 16)], T_ieee(5, 16), T_tc(True, 0, 16, 'RNE', 'SATURATE')),       # int16 -> FP16 -> saturating int16
    ('roundtrip', None, [T_tc(True, 0, 8)], T_ieee(3, 6), T_tc(True, 0, 8, 'RNE', 'WRAP')),
    ('roundtrip', None, [T_tc(True, 0, 16)], T_ieee(5, 16), T_mpbfix(-1, (32767, 0), (-32768, 0), 'RNE', 'SATURATE', True)),
    ('roundtrip', None, [T_tc(False, 0, 8)], T_ieee(3, 6), T_mpbfix(-1, (255, 0), (0, 0), 'RNE', 'WRAP', True)),
    ('op', 'x - z', [T_tc(False, 0, 8), T_tc(False, 0, 8)], T_tc(False, 0, 16), None),                      # uint8 - uint8 under uint16 (wraps)
    ('op', 'x - z', [T_tc(False, 0, 8), T_tc(False, 0, 8)], T_tc(False, 0, 16, 'RNE', 'SATURATE'), None),
    ('op', 'abs(x)', [T_tc(True, -3, 8)], T_tc(True, -3, 8), None),                                          # F28
    ('op', '-x', [T_tc(True, 0, 8)], T_tc(True, 0, 8, 'RTZ', 'SATURATE'), None),
    ('roundtrip', None, [T_ieee(8, 32)], T_mp(11), T_ieee(8, 32)),                                           # F10
    ('roundtrip', None, [T_ef(4, 8, False, 'MAX_VAL')], T_ieee(4, 8), T_ef(4, 8, False, 'MAX_VAL')),         # F30
]

def typed_members(R, actx, others, extra=()):
    """values of the argument format: both extremes first, then zeros, the smallest magnitudes, the neighbours of the extremes, the
    bounds of the other contexts of the program brought into the format, and random members"""
    out, seen = [], set()
    def add(v):
        try:
            r = actx.round(v)
        except Exception:
            return
        key = (r.isnan, r.isinf, r.s, None if r.is_nar() else r.as_rational())
        if key not in seen:
            seen.add(key); out.append(r)
    for s in (False, True):
        try: add(actx.maxval(s))
        except Exception: pass
    add(Float(c=0)); add(Float(c=0, s=True))
    for nm in ('minval', 'min_subnormal'):
        try:
            m = getattr(actx, nm)(); add(m); add(-m.as_rational())
        except Exception: pass
    try:
        mx, mn = actx.maxval().as_rational(), actx.maxval(True).as_rational()
        ulp = abs(mx) / 64 if mx else Fraction(1)
        for v in (mx - ulp, mn + ulp, mx / 2, mn / 2, mx - 1, mn + 1): add(v)
    except Exception: pass
    for o in others:
        for s in (False, True):
            try:
                b = o.maxval(s).as_rational()
                for v in (b, b - Fraction(1, 2), b + Fraction(1, 2), b * Fraction(2047, 2048), b * Fraction(4095, 4096)): add(v)
            except Exception: pass
    for sp in (Float(isnan=True), Float(isinf=True), Float(isinf=True, s=True)): add(sp)
    extremes = out[:6]
    for v in extra: add(v)
    for _ in range(10): add(Fraction(R.randint(-3000, 3000), 1 << R.randint(0, 10)))
    for q in (Fraction(1), Fraction(-1), Fraction(3), Fraction(5), Fraction(3, 8), Fraction(1) + Fraction(1, 1 << 23), Fraction(16777217, 16777216)): add(q)
    return extremes, out

_UNARY_MINUS = re.compile(r'(^|[(=,\[\s])-\s*[a-z(]')

def typed_shape_of(texts, body, want, got, args=(), label=''):
    # C10-F6: `logb` of a ZERO operand under a context without infinities, its result then subtracted/added exactly: `elim_round`
    # hoists the exact operation to REAL and drops the later rounding, although the source context had clamped logb(0)
    if 'elim_round' in label and 'fp.logb(' in body and any(getattr(a, 'is_zero', lambda: False)() if not isinstance(a, (int, float)) else a == 0 for a in args):
        return 'elim_round-logb-of-zero'
    if any(t.startswith('fp.MPFloatContext(') for t in texts): mp = True
    else: mp = False
    if want.replace('(n zero 0)', '(n zero Z)').replace('(n zero 1)', '(n zero Z)') == got.replace('(n zero 0)', '(n zero Z)').replace('(n zero 1)', '(n zero Z)'):
        # only the sign of a zero differs: C14's F29 where the zero comes out of an exact negation / product
        if _UNARY_MINUS.search(body) or '*' in body or 'fma' in body: return 'round-axis-neg-zero-from-exact-op'
        return 'round-axis-zero-sign'
    if mp: return 'round-axis-exp-unbounded-target'
    if 'abs(' in body: return 'round-axis-abs-asymmetric-bounds'
    if any(t in want + got for t in ('nan', 'inf')): return 'round-axis-special-value-of-a-rounding-result'
    return 'round-axis-other'

def typed_one(rep, R, tmp, ti, quick, lines, meta):
    from fpy2.types import RealType
    ordinal = 0
    if ti < len(TYPED_FIXED):
        shape, fixed_body, aspecs, Cs, Ds = TYPED_FIXED[ti]
        Ds = Ds or Cs
    else:
        j = ti - len(TYPED_FIXED)
        n_s = len(TYPED_SHAPES)
        shape = TYPED_SHAPES[j % n_s] if j < 2 * n_s else R.choice(TYPED_SHAPES)
        ordinal = ((j // n_s) * TYPED_SHAPES.count(shape) + TYPED_SHAPES[:j % n_s].count(shape)) if j < 2 * n_s else R.randint(0, 7)
        fixed_body = None
        nargs = R.choice([1, 2, 2, 2, 3])
        if shape in ('list-arg', 'tuple-arg'): nargs = max(nargs, 2)
        a0 = R.choice(TYPED_ARGS)
        aspecs = [a0] + [a0 if R.random() < 0.5 else R.choice(TYPED_ARGS) for _ in range(nargs - 1)]
        Cs = rand_target(R, aspecs)
        fit = None; fit_extra = []
        if shape == 'fit-store':
            aspecs, Cs, fit_body, fit_consts, fit_how, fit_extra = fit_program(R, nargs, ordinal)
            fit = True
        if shape == 'inner-finer':
            aspecs = [R.choice([a for a in TYPED_ARGS if a[0] in ('tc', 'sm', 'mpfix', 'mpbfix')]) for _ in aspecs]
            Cs = related(R, aspecs[0]) if R.random() < 0.5 else aspecs[0]        # `insert_round` is aimed at the argument's own format (or a relative)
        if shape == 'while-cond':
            # the counter's format is narrow, the loop's context holds every value of the condition's arithmetic
            Cs = R.choice([T_tc(True, 0, 16, R.choice(RMS_U), R.choice(OVS_FIX)), T_tc(True, 0, 32), T_mpfix(-1, 'RTZ', False), T_ieee(8, 32), T_ieee(11, 64), T_mpfix(-4)])
        if shape == 'clamp-float':
            fl = [a for a in TYPED_ARGS if a[0] in ('ieee', 'mps', 'mp', 'ef', 'mpb')]
            aspecs = [R.choice(fl) for _ in aspecs]
            Cs = R.choice([T_mpbfix(-30, (1 << 38, -30), (-(1 << 38), -30), R.choice(RMS_U), R.choice(OVS_FIX), R.choice([True, False])),
                           T_tc(True, -24, 40, R.choice(RMS_U), R.choice(OVS_FIX)), T_mpfix(-30, 'RNE', True, R.choice([True, False]), R.choice([True, False])),
                           T_mpfix(-12, 'RTZ', R.choice([True, False])), T_tc(True, -8, 24, 'RNE', 'SATURATE'), T_sm(-10, 20)])
        Ds = related(R, aspecs[0]) if shape in ('roundtrip',) or R.random() < 0.5 else rand_target(R, aspecs)
    vars_ = ['x', 'z', 'w'][:len(aspecs)]
    name = f't{ti}'
    pre, used = '', {}
    def ctext(spec, tag):
        nonlocal pre
        t, writable = spec_text(spec, named=R.random() < 0.5)
        if writable and R.random() < 0.55: return t
        if t not in used:
            used[t] = f'{tag}_{name}'; pre += f'{tag}_{name} = {t}\n'
        return used[t]
    C, D = ctext(Cs, 'C'), ctext(Ds, 'D')
    if fixed_body is not None:
        body = f'    with {C}:\n        y = {fixed_body}\n    return y\n'
    elif shape == 'fit-store':
        body = fit_body.replace('{C}', C).replace('{D}', D)
        for gi, tsp in enumerate(fit_extra): body = body.replace('{F%d}' % gi, ctext(tsp, f'F{gi}'))
        rep.count('typed:fit-target:' + fit_how)
    else:
        try:
            body = typed_body(R, shape, vars_, C, D, ordinal)
        except Exception as e:
            rep.count(f'typed:body-error:{type(e).__name__}'); return
    outer = R.choice(['real', 'real', 'fp64', 'mono64', 'none'])
    deco = {'real': '@fp.fpy(ctx=fp.REAL)', 'fp64': '@fp.fpy(ctx=fp.FP64)', 'mono64': '@fp.fpy', 'none': '@fp.fpy'}[outer]
    agg = {'list-arg': 'list', 'tuple-arg': 'tuple'}.get(shape) if fixed_body is None else None
    ann = {None: 'fp.Real', 'list': 'list[fp.Real]', 'tuple': 'tuple[fp.Real, fp.Real]'}
    params = ', '.join(f'{v}: {ann[agg if i == 0 else None]}' for i, v in enumerate(vars_))
    if shape == 'foreign-const': pre += TYPED_MODULE_CONSTS
    if shape == 'call':
        hb = R.choice(['a * a', 'abs(a)', '-a', 'a + 1', 'fp.round(a)'])
        pre += f'@fp.fpy\ndef h_{name}(a: fp.Real) -> fp.Real:\n    with {D}:\n        r = {hb}\n    return r\n'
        body = body.replace('HELPER', f'h_{name}')
    text = HEADER + pre + ('\n' if pre else '') + f'{deco}\ndef {name}({params}) -> fp.Real:\n' + body
    path = os.path.join(tmp, f'{name}.py')
    with open(path, 'w') as fh: fh.write(text)
    try:
        fn = getattr(load_module(path, f'fpyverif_C10_{name}'), name)
    except Exception as e:
        rep.count(f'typed:frontend-rejected:{shape}:{type(e).__name__}'); return
    try:
        argctxs = [spec_obj(s) for s in aspecs]
        octx = [spec_obj(Cs), spec_obj(Ds)] + ([spec_obj(t) for t in fit_extra[1:]] if shape == 'fit-store' and fixed_body is None else [])
        from fpy2.types import ListType, TupleType
        atypes = [RealType(c) for c in argctxs]
        if agg == 'list': atypes[0] = ListType(atypes[0])
        if agg == 'tuple': atypes[0] = TupleType(atypes[0], atypes[0])
        pinned = guarded(lambda: S.monomorphize(fn, fp.FP64 if outer == 'mono64' else None, atypes))
    except Exception as e:
        rep.count(f'typed:setup-rejected:{shape}:{type(e).__name__}:{str(e)[:80]}'); return
    rep.count('typed:' + shape)
    texts = [spec_text(Cs)[0], spec_text(Ds)[0]]
    afs = [spec_text(s)[0] for s in aspecs]
    # the rewrites: elim_round, insert_round into related targets, and the documented follow-ups (simplify; one after the other)
    variants = []
    def attempt(label, thunk, base):
        try:
            xf = guarded(thunk)
        except Hang:
            rep.count(f'hang:{label}'); rep.sample({'hang': label, 'program': text, 'arg_formats': afs}, cap=4); return None
        except Exception as e:
            rep.count(f'declined:{label.split("[")[0]}:{type(e).__name__}'); return None
        if xf.ast.is_equiv(base.ast):
            rep.count(f'{label.split("[")[0]}:unchanged'); return None
        rep.count(f'{label.split("[")[0]}:changed')
        variants.append((label, xf)); return xf
    er = attempt('elim_round', lambda: S.elim_round(pinned), pinned)
    if er is not None: attempt('elim_round > simplify', lambda: S.simplify(er), er)
    tspecs = [Cs, Ds, related(R, aspecs[0])]
    if R.random() < 0.2: tspecs[1] = T_mpk(R.choice([3, 8, 24]), R.choice([1, 3]))     # a stochastic target: `insert_round` must refuse it
    for tk, tsp in enumerate(tspecs[: (2 if quick else 3)]):
        try:
            tctx = spec_obj(tsp)
        except Exception:
            continue
        ttxt = spec_text(tsp)[0]
        try:
            for _, why in S.refusals(S.insert_round, pinned, ctx=tctx): rep.count(f'refused:insert_round:{short_reason(why)}')
        except Exception as e:
            rep.count(f'listing-error:insert_round:{type(e).__name__}')
        ir = attempt(f'insert_round[{ttxt}]', lambda: S.insert_round(pinned, tctx), pinned)
        if ir is not None and tk == 0:
            attempt(f'insert_round[{ttxt}] > elim_round', lambda: S.elim_round(ir), ir)
        if tk == 0:
            try:
                st = guarded(lambda: S.sites(S.insert_round, pinned, ctx=tctx))
                rep.count(f'sites:insert_round:{min(len(st), 3)}')
                if len(st) >= 1:
                    attempt(f'insert_round@0[{ttxt}]', lambda: S.insert_round(pinned, tctx, 0), pinned)
                    attempt(f'insert_round@last[{ttxt}]', lambda: S.insert_round(pinned, tctx, st[-1]), pinned)
                rf = guarded(lambda: S.refusals(S.insert_round, pinned, ctx=tctx))
                if rf:
                    # a refused point named by a cursor: the rewrite must say why and leave the program alone
                    try:
                        out = guarded(lambda: S.insert_round(pinned, tctx, rf[0][0]))
                        if not out.ast.is_equiv(pinned.ast): variants.append((f'insert_round@refused[{ttxt}]', out)); rep.count('insert_round:rewrote-a-refused-point')
                    except Hang: raise
                    except Exception as e: rep.count(f'insert_round:refused-point-named:{type(e).__name__}')
            except Hang:
                rep.count('hang:sites:insert_round')
            except Exception as e:
                rep.count(f'where-error:insert_round:{type(e).__name__}')
    if not variants: return
    extra = []
    if shape == 'fit-store' and fixed_body is None:
        for k in fit_consts: extra += [k, k + 1, k - 1]
    pools = [typed_members(R, c, octx, extra) for c in argctxs]
    if any(not p[1] for p in pools): return
    cap = 6 if len(pools) <= 2 else 4
    import itertools
    trials = list(itertools.product(*[p[0][:cap] for p in pools]))
    trials += [tuple(R.choice(p[1]) for p in pools) for _ in range(14)]
    if extra:
        # the constants of a fitted expression (and their neighbours) in every argument position, against the extremes of the others
        for pi, c in enumerate(argctxs):
            seen_v = set()
            for v in extra:
                try: r = c.round(v)
                except Exception: continue
                if r.is_nar() or r.as_rational() in seen_v: continue
                seen_v.add(r.as_rational())
                if len(seen_v) > 12: break
                trials.append(tuple(r if j == pi else R.choice(p[0][:4]) for j, p in enumerate(pools)))
    if agg == 'list': trials = [([a[0], R.choice(pools[0][1]), R.choice(pools[0][0][:4])],) + tuple(a[1:]) for a in trials]
    if agg == 'tuple': trials = [((a[0], R.choice(pools[0][0][:4] + pools[0][1])),) + tuple(a[1:]) for a in trials]
    if '2 **' in body or 'exp2' in body:
        # an exponent of thirty bits makes the ORIGINAL run for minutes (and leaves the exponent range of the MPFR back end, C02-F3)
        def small(v):
            if isinstance(v, (list, tuple)): return all(small(u) for u in v)
            return v.is_nar() or abs(v.as_rational()) < 4096
        trials = [a for a in trials if all(small(v) for v in a)]
    base = {}
    slow = 0
    for label, xf in variants:
        if slow > 3: rep.count('typed:abandoned-slow-original'); break
        rep.cov['programs'] = rep.cov.get('programs', 0) + 1
        rep.count('lowered-programs:typed')
        entry, prog = try_export(rep, xf)
        desc = None; nmodel = 0
        sname = label.split('[')[0] + (label.split(']')[1] if ']' in label else '')
        for ai, args in enumerate(trials):
            if ai not in base: base[ai] = run_real(pinned, args)
            want = base[ai]
            if not want.startswith('ok'):
                rep.count('typed:orig:' + want.split()[0])
                if want.startswith('timeout'):
                    slow += 1
                    if slow > 3: break
                continue
            got = run_real(xf, args)
            if got.startswith('timeout'):
                got = run_real(xf, args, None, 30)       # a loaded machine, or a rewritten program that no longer terminates?
                if got.startswith('timeout'): got = 'err DoesNotTerminate'
            rep.cov['evaluations'] += 1
            rep.distinct.add((text, label, repr(args)))
            rep.count('typed:orig:ok')
            if got != want:
                if desc is None: desc = describe(xf)
                viol(rep, typed_shape_of(texts, body, want, got, args, label),
                     f'{label}: arguments {args_src(args)} of formats {afs}: original returns {want[:70]} but the rewritten program gives {got[:70]}',
                     {'ctx_src': label.split('[')[1].split(']')[0] if '[' in label else texts[0], 'second_ctx': texts[1], 'strategy': label, 'operand': args_src(args),
                      'arg_formats': afs, 'outer': outer, 'original': want, 'lowered': got, 'program': text, 'lowered_program': desc, 'typed': True, 'aggregate': agg})
                if got == 'err DoesNotTerminate': break        # one witness is enough: every further input costs another time-out
            if prog is not None and agg is None and nmodel < (8 if quick else 30):
                if desc is None: desc = describe(xf)
                nmodel += 1
                lines.append(eval_line(entry, prog, args, None, fuel=100000))
                meta.append(('eval', f'{label} (typed)', repr(args), got, desc))
    rep.sample({'strategy': variants[0][0], 'original': describe(pinned), 'rewritten': describe(variants[0][1])}, cap=4)


# ---------------------------------------------------------------- work items, run in parallel

class MiniRep:
    """what a worker records for one work item (merged into the Report by the parent)"""
    def __init__(self):
        self.hist = {}; self.cov = {'evaluations': 0, 'samples': []}; self.distinct = set(); self.broken = []; self.viols = []
    def count(self, key, n=1): self.hist[key] = self.hist.get(key, 0) + n
    def sample(self, s, cap=12):
        if len(self.cov['samples']) < cap: self.cov['samples'].append(s)
    def violation(self, what, d): self.viols.append((what, d))
    def broke(self, kind, name, detail): self.broken.append((kind, name, detail))

_TMP = None

def do_item(item):
    kind, idx, payload, seed, tier = item
    quick = tier == 'quick'
    rep = MiniRep()
    R = Prng(seed, f'C10:{kind}:{idx}')
    lines, meta = [], []
    tmp = os.path.join(_TMP, f'{kind}{idx}')
    os.makedirs(tmp, exist_ok=True)
    import time as _time
    t0 = _time.process_time()
    try:
        if kind == 'plain': plain_one(rep, R, tmp, idx, payload, quick, lines, meta, seed)
        elif kind == 'emb': embedded_one(rep, R, tmp, idx, quick, lines, meta, seed)
        elif kind == 'typed': typed_one(rep, R, tmp, idx, quick, lines, meta)
        else: round_axis_one(rep, R, tmp, idx, lines, meta)
    except Hang:
        rep.count(f'hang:unattributed:{kind}')
    except Exception:
        import traceback
        rep.broke('harness', f'C10.{kind}[{idx}]', traceback.format_exc())
    rep.count(f'cpu-seconds:{kind}', round(_time.process_time() - t0, 2))
    return (kind, idx, rep.hist, rep.cov, rep.distinct, rep.broken, rep.viols, lines, meta)

def run(rep, tier, seed):
    global _TMP
    import multiprocessing
    R = Prng(seed, 'C10')
    quick = tier == 'quick'
    n_rand = 12 if quick else 450
    ctxs = [d for d in corpus()]      # the whole corpus in both tiers (one context per acceptance / refusal rule of each strategy)
    for _ in range(n_rand):
        ctxs.append(add_substitutes(R, rand_ctx(R)))
    n_emb = len(EMBED_FIXED) + (110 if quick else 1500)
    n_axis = len(ROUND_AXIS_CORPUS) + (40 if quick else 400)
    n_typed = len(TYPED_FIXED) + (160 if quick else 3000)
    items = ([('plain', i, d, seed, tier) for i, d in enumerate(ctxs)] + [('emb', i, None, seed, tier) for i in range(n_emb)]
             + [('axis', i, None, seed, tier) for i in range(n_axis)] + [('typed', i, None, seed, tier) for i in range(n_typed)])
    only = os.environ.get('VERIF_C10_ONLY')      # debugging: restrict to some families of work items, e.g. `typed,axis`
    if only: items = [it for it in items if it[0] in only.split(',')]
    _TMP = tempfile.mkdtemp(prefix='fpyverif_C10_', dir='/var/tmp')
    jobs = int(os.environ.get('VERIF_JOBS', '0') or 0) or min(16, os.cpu_count() or 1)
    measure = os.environ.get('VERIF_C10_COVERAGE', '1') != '0'
    covdir = os.path.join(_TMP, 'coverage'); os.makedirs(covdir)
    results = []
    try:
        # own worker processes (not a Pool): each starts a coverage tracer, pulls item indices from a queue, and saves its
        # tracer data before it exits
        mp = multiprocessing.get_context('fork')
        tasks, out = mp.Queue(), mp.Queue()
        for i in range(len(items)): tasks.put(i)
        for _ in range(jobs): tasks.put(None)
        def worker():
            import faulthandler
            faulthandler.register(signal.SIGUSR1, all_threads=False)     # `kill -USR1 <worker>` prints where a worker is
            if measure: c10cov.start(covdir)
            try:
                while True:
                    i = tasks.get()
                    if i is None: break
                    out.put(do_item(items[i]))
            finally:
                if measure: c10cov.stop()
                out.put(None)
        procs = [mp.Process(target=worker) for _ in range(jobs)]
        for p in procs: p.start()
        live = jobs
        import queue as _queue
        while live:
            try:
                r = out.get(timeout=30)
            except _queue.Empty:
                if not any(p.is_alive() for p in procs): break       # every worker is gone (one was killed before its sentinel)
                continue
            if r is None: live -= 1
            else: results.append(r)
        for p in procs: p.join()
        if measure:
            try:
                rep.cov['code_coverage'] = c10cov.summarize(covdir)
            except Exception as e:
                rep.cov['code_coverage'] = {'error': f'{type(e).__name__}: {e}'}
    finally:
        shutil.rmtree(_TMP, ignore_errors=True)
    if len(results) != len(items):
        rep.broke('harness', 'C10.workers', f'{len(items) - len(results)} work items were lost (a worker died)')
    order = {'plain': 0, 'emb': 1, 'axis': 2, 'typed': 3}
    results.sort(key=lambda r: (order[r[0]], r[1]))
    lines, meta, nops = [], [], []
    recorded = {}
    for kind, idx, hist, cov, distinct, broken, viols, ls, ms in results:
        for k, v in hist.items(): rep.count(k, v)
        rep.cov['evaluations'] += cov.get('evaluations', 0)
        rep.cov['programs'] = rep.cov.get('programs', 0) + cov.get('programs', 0)
        for key in ('accepted_per_strategy', 'refused_per_strategy'):
            tgt = rep.cov.setdefault(key, {})
            for k, v in cov.get(key, {}).items(): tgt[k] = tgt.get(k, 0) + v
        nops += cov.get('nops', [])
        for s in cov.get('samples', []): rep.sample(s, cap=14)
        rep.distinct |= distinct
        for b in broken: rep.broke(*b)
        for shape, what, d in viols:
            recorded[shape] = recorded.get(shape, 0) + 1
            if recorded[shape] <= PER_SHAPE:
                d = dict(d); d['shape'] = shape; d['finding'] = FINDING_OF_SHAPE.get(shape)
                rep.violation(what, d)
        lines += ls; meta += ms
    # correspondence: the Lean evaluator on the lowered programs
    model = run_driver(lines)
    rep.cov['traces_model_vs_impl'] = len(lines)
    for line, (kind, what, x, got, desc), m in zip(lines, meta, model):
        if m.startswith('bad-'):
            rep.count('model-unsupported:' + m[:40]); continue
        if kind == 'f2f':
            # number model of the emitted rounding (value only: a program does not observe flags)
            rep.count('f2f-model-evaluations')
            mp = parse_res(m)
            mv = 'err ' + mp[1] if mp[0] == 'err' else f'ok (n {mp[1]})'
            if mv != got:
                rep.broke('correspondence', 'C10.float_to_fixed-model', f'{what}\n{desc}\noperand={x}\nimpl ={got}\nmodel={mv}\nline={line}')
            continue
        if m != got:
            rep.broke('correspondence', 'C10.eval-lowered', f'{what}\n{desc}\noperand={x}\nimpl ={got}\nmodel={m}\nline={line}')
    rep.cov['operands_per_context'] = {'min': min(nops) if nops else 0, 'max': max(nops) if nops else 0,
                                       'mean': round(sum(nops) / len(nops), 1) if nops else 0}
    rep.cov['contexts'] = len(nops)
    rep.cov['jobs'] = jobs
    rep.cov['rule'] = ('(1) plain sites: source contexts = fixed corpus (IEEE half in all 8 modes, single, EFloat with each NaN kind x inf on/off x substitutes x shifted exponent, '
                       'MPS/MPB floats with mirrored and asymmetric bounds, two\'s-complement / sign-magnitude / MPFixed / MPBFixed with every overflow mode, ExpContext, '
                       'signed zero on/off, finite and non-finite substitutes) + seeded random small contexts of all families; variants: assign, returned round, '
                       'pre-rounded operand, two rounds in a block, monomorphized argument; context written as a constructor call or bound at module level; '
                       '(2) embedded sites: the rounding inside each arm of `if`/`elif`/nested `if` on random conditions (==, !=, <, <=, >, >= against 0, non-zero literals, another '
                       'variable, chains, isnan/isinf/isfinite/signbit, and/or/not), after assignments fixing the class of the operand (abs, squares, literals, min/max, NaN scrubbing, '
                       'if-expressions), after another rounding under a second context, two lowerable roundings in sequence, in for/while loops (incl. a loop-carried operand), after '
                       'assert / early return, under contexts computed or selected at run time (partial evaluation); inputs (x, z): NaN, +-inf, +-0, the literal and its neighbours, '
                       'the edges of the format, z incl. NaN and x itself (arms reached are counted); '
                       'every strategy alone (unfold_overflow also with early_check) and every prefix of the documented chains on all of them; '
                       '(3) elim_round / insert_round (+ simplify, + one after the other) on programs with TYPED arguments of every family (SINTn/UINTn, scaled / sign-magnitude / unbounded / asymmetric fixed point, '
                       'low- and high-precision floats, EFloat, ExpContext), every operator (add, sub, mul, neg, abs, min/max, fma, round, cast, logb, exp2, pow, sum, list / tuple operations, calls, foreign constants), '
                       'rounding contexts related to the argument formats (the format itself back again, wider / narrower members of the family, the general bounded class with the same bounds, every overflow mode), '
                       'inputs at both extremes of every argument format and all pairs of them; (4) contexts reach the passes written out AND as values (module constant, attribute, with_params, module without a name '
                       'for fpy2, keyword arguments, positions known only at run time), explicit `where=` index / cursor; (5) code coverage of the passes and their analyses is measured every run (rep.cov.code_coverage); '
                       'operands of (1): breakpoints of the format, neighbourhood of +-maxval, the first value past it, infval, ties, subnormal seam, huge/tiny, specials, non-dyadic rationals; '
                       'distinct = distinct (context text, program, effective strategy sequence, arguments)')
    rep.assumptions += ['the oracle for each lowered program is the real interpreter on the original program (the property is an equivalence of two real programs)',
                        'NaN sign is not compared (canonical form `nan`)',
                        'a later chain step that raises on the output of an earlier step is recorded (strategy-error) and not judged',
                        'work items draw from per-item PRNG streams derived from VERIF_SEED, so the run does not depend on the number of worker processes']


def _apply_label(fn, label):
    """re-apply a recorded strategy label: `a > b`, `a[where=0]`, `a[where=cursor]`, `insert_round[<ctx>] > elim_round`"""
    xf = fn
    for part in label.split(' > '):
        part = part.strip()
        if part.startswith('insert_round'):
            head = part.split('[')[0]
            tctx = eval(part[len(head) + 1:-1], {'fp': fp, 'RealFloat': RealFloat})
            if head == 'insert_round': xf = S.insert_round(xf, tctx)
            elif head == 'insert_round@0': xf = S.insert_round(xf, tctx, 0)
            elif head == 'insert_round@last': xf = S.insert_round(xf, tctx, S.sites(S.insert_round, xf, ctx=tctx)[-1])
            else: xf = S.insert_round(xf, tctx, S.refusals(S.insert_round, xf, ctx=tctx)[0][0])
        elif part == 'elim_round': xf = S.elim_round(xf)
        elif part.endswith('[where=0]'): xf = STRATS[part[:-9]][1](xf, 0)
        elif part.endswith('[where=cursor]'):
            strat = STRATS[part[:-14]][1]
            xf = strat(xf, S.sites(strat, xf)[-1])
        else: xf = STRATS[part][0](xf)
    return xf

def replay(rep, data):
    """re-run the recorded violations on the current tree: ./check C10 --replay replays/C10-<seed>-<tier>.json"""
    from fpy2.types import RealType
    env = {'Fraction': Fraction, 'Float': Float, 'RealFloat': RealFloat, 'fp': fp, 'float': float}
    tmp = tempfile.mkdtemp(prefix='fpyverif_C10_replay_', dir='/var/tmp')
    still = 0
    try:
        for i, v in enumerate(data.get('violations', [])):
            if 'program' not in v:
                print(f'[{i}] not a C10 violation record'); continue
            m = re.findall(r'^def (\w+)\(', v['program'], re.M)
            path = os.path.join(tmp, f'rp{i}.py')
            with open(path, 'w') as fh: fh.write(v['program'])
            try:
                fn = getattr(load_module(path, f'fpyverif_C10_replay_{i}'), m[-1])
                x = eval(v['operand'], env)
                args = x if isinstance(x, tuple) else (x,)
                if v.get('typed'):
                    cx = {'fp': fp, 'RealFloat': RealFloat}
                    from fpy2.types import ListType, TupleType
                    ats = [RealType(eval(a, cx)) for a in v['arg_formats']]
                    if v.get('aggregate') == 'list': ats[0] = ListType(ats[0])
                    if v.get('aggregate') == 'tuple': ats[0] = TupleType(ats[0], ats[0])
                    fn = S.monomorphize(fn, fp.FP64 if v.get('outer') == 'mono64' else None, ats)
                    xf = _apply_label(fn, v['strategy'])
                elif v['strategy'] in ('elim_round', 'insert_round'):
                    fn = S.monomorphize(fn, fp.FP64, [RealType(py_ctx(a)) for a in v['arg_formats']])
                    xf = S.elim_round(fn) if v['strategy'] == 'elim_round' else S.insert_round(fn, py_ctx(v['ctx_src']))
                else:
                    if v.get('arg_format'):
                        fn = S.monomorphize(fn, None, [RealType(py_ctx(v['arg_format']))])
                    xf = _apply_label(fn, v['strategy'])
                want = run_real(fn, args); got = run_real(xf, args)
            except Exception as e:
                print(f'[{i}] {v.get("shape")}: replay failed: {type(e).__name__}: {e}'); continue
            same = (want == got) or not want.startswith('ok')
            still += 0 if same else 1
            print(f'[{i}] {v.get("shape")} | {v["strategy"][:60]} on {v["ctx_src"][:80]} | operand {v["operand"][:70]}: original {want[:60]}, lowered {got[:60]} -> '
                  + ('no longer differs' if same else 'STILL DIFFERS'))
    finally:
        shutil.rmtree(tmp, ignore_errors=True)
    print(f'{still} recorded violation(s) still reproduce')
    sys.exit(1 if still else 0)
