"""
C10 — rounding-lowering rewrites leave the rounding function unchanged.

For generated source contexts (all families, modes, overflow modes, NaN/inf options, substitutes) a module
defining `with C: y = fp.round(x)` (and variants) is written to a temp dir, every real strategy
(`unfold_special`, `unfold_neg_zero`, `unfold_overflow` (+`early_check`), `float_to_fixed`, `rescale_fixed`) is
applied alone and along every prefix of the documented lowering chains, and `q(x)` is compared with
`lowered(x)` on the REAL interpreter for operands at every boundary of the source format.
  verdict (Spec oracle = the real interpreter on the ORIGINAL program): wherever the original returns a value the
     lowered program must return the same value (sign of zero, inf/NaN class included);
  refusals are counted per reason; an accepted context must be reproduced exactly;
  `elim_round` / `insert_round` on templates with pinned contexts and argument formats must not change results;
  correspondence: the lowered program is exported to the Lean evaluator and must behave like the real interpreter.
"""
from __future__ import annotations
import importlib.util, os, shutil, sys, tempfile, math, signal
from fractions import Fraction
from numgen import *   # noqa
from langexport import Exporter, eval_line, run_real, Unsupported, show_val, ctx_tok, desc_of_ctx, num_tok
from numspec import floor_log2
import fpy2 as fp
from fpy2 import strategies as S
from fpy2.number import Float, RealFloat

PROP = 'C10'

class LoweredExporter(Exporter):
    """`langexport.Exporter` + a context bound at module level (`with C_q:` where `C_q` is a Python global of the
    defining module) is exported as the context it denotes; program variables shadow nothing here because the
    generated programs never assign such a name"""
    def __init__(self):
        super().__init__()
        self.missing = set()

    def stmt(self, s):
        try:
            return super().stmt(s)
        except Unsupported as u:
            self.missing.add(str(u)); return '(pass)'

    def expr(self, e):
        from fpy2.ast import fpyast as A
        try:
            return self.expr1(e)
        except Unsupported as u:
            self.missing.add(str(u)); return '(bool 0)'

    def expr1(self, e):
        from fpy2.ast import fpyast as A
        # `fp.nan()` / `fp.inf()` evaluate to the Float itself, unrounded (ops.nan / ops.inf): a literal of the model
        if isinstance(e, A.ConstNan): return '(num Fn0)'
        if isinstance(e, A.ConstInf): return '(num Fi0)'
        if isinstance(e, A.Var) and self.env is not None:
            nm = str(e.name)
            try:
                v = self.env[nm] if nm in self.env else None
            except Exception:
                v = None
            if isinstance(v, fp.Context):
                return '(ctx ' + ctx_tok(desc_of_ctx(v)) + ')'
        return super().expr(e)

class Missing(Exception):
    def __init__(self, items): self.items = sorted(items)

def export_program(fn):
    """(entry, program) for the Lean evaluator; raises `Missing` with EVERY construct of the program the
    exporter / evaluator has no counterpart for (not only the first)"""
    ex = LoweredExporter()
    ex.add_function(fn)
    if ex.missing: raise Missing(ex.missing)
    return fn.ast.name, ex.program()

def try_export(rep, fn):
    try:
        entry, prog = export_program(fn)
        rep.count('export-ok')
        return entry, prog
    except Missing as m:
        rep.count('export-unsupported-programs')
        for it in m.items: rep.count('export-unsupported:' + it[:60])
    except Unsupported as e:
        rep.count('export-unsupported-programs'); rep.count('export-unsupported:' + str(e)[:60])
    except Exception as e:
        rep.count('export-error:' + type(e).__name__)
    return None, None

KIND_SRC = {'ieee': 'IEEE_754', 'maxval': 'MAX_VAL', 'negzero': 'NEG_ZERO', 'none': 'NONE'}

# ---------------------------------------------------------------- context -> source text

def _rf_py(x): return f'RealFloat(s={x[0]}, exp={x[1]}, c={x[2]})'
def _fv_py(v):
    if v is None: return 'None'
    if v[0] == 'fin': return f'Float(s={v[1]}, exp={v[2]}, c={v[3]})'
    if v[0] == 'inf': return f'Float(s={v[1]}, isinf=True)'
    return f'Float(s={v[1]}, isnan=True)'

def _num_fpy(x):
    """an exact dyadic (s, exp, c) as FPy literal text"""
    q = Fraction(x[2]) * Fraction(2) ** x[1]
    if x[0]: q = -q
    if q.denominator == 1: return str(q.numerator)
    return f'fp.rational({q.numerator}, {q.denominator})'

def ctx_text(d, fpy: bool):
    """constructor text of descriptor `d`: Python expression (fpy=False, usable at module level) or the
    text inside an FPy `with` (fpy=True); None when the FPy front end cannot write it (substitute values
    and a separate negative bound must be Python objects)"""
    f = d['fam']
    rm = f"fp.RM.{d['rm'].upper()}" if 'rm' in d else None
    ov = f"fp.OV.{d['ov'].upper()}" if 'ov' in d else None
    subs = ''
    if d.get('nv') is not None or d.get('iv') is not None:
        if fpy: return None
        subs = f", nan_value={_fv_py(d.get('nv'))}, inf_value={_fv_py(d.get('iv'))}"
    bound = (lambda x: _num_fpy(x)) if fpy else _rf_py
    if f == 'real': return 'fp.REAL'
    if f == 'mp': return f"fp.MPFloatContext({d['p']}, {rm}, enable_nan={d['en']}, enable_inf={d['ei']}{subs})"
    if f == 'mps': return f"fp.MPSFloatContext({d['p']}, {d['emin']}, {rm}, enable_nan={d['en']}, enable_inf={d['ei']}{subs})"
    if f == 'mpb':
        mirror = d['neg'] == (True, d['pos'][1], d['pos'][2])
        if fpy and not mirror: return None
        neg = '' if mirror else f", neg_maxval={bound(d['neg'])}"
        return f"fp.MPBFloatContext({d['p']}, {d['emin']}, {bound(d['pos'])}, {rm}, {ov}{neg}, enable_nan={d['en']}, enable_inf={d['ei']}{subs})"
    if f == 'ef':
        return f"fp.EFloatContext({d['es']}, {d['nbits']}, {d['inf']}, fp.EFloatNanKind.{KIND_SRC[d['kind']]}, {d['eoff']}, {rm}, {ov}{subs})"
    if f == 'ieee': return f"fp.IEEEContext({d['es']}, {d['nbits']}, {rm}, {ov})"
    if f == 'mpfix':
        return f"fp.MPFixedContext({d['nmin']}, {rm}, enable_nan={d['en']}, enable_inf={d['ei']}, enable_neg_zero={d['nz']}{subs})"
    if f == 'mpbfix':
        mirror = d['neg'] == (True, d['pos'][1], d['pos'][2])
        if fpy and not mirror: return None
        neg = '' if mirror else f", neg_maxval={bound(d['neg'])}"
        return (f"fp.MPBFixedContext({d['nmin']}, {bound(d['pos'])}, {rm}, {ov}{neg}, enable_nan={d['en']}, enable_inf={d['ei']}, "
                f"enable_neg_zero={d['nz']}{subs})")
    if f == 'exp':
        iv = f", inf_value={_fv_py(d.get('iv'))}" if d.get('iv') is not None else ''
        return f"fp.ExpContext({d['nbits']}, {d['eoff']}, {rm}, {ov}{iv})"
    if f == 'fixed': return f"fp.FixedContext({d['signed']}, {d['scale']}, {d['nbits']}, {rm}, {ov}{subs})"
    if f == 'smfixed': return f"fp.SMFixedContext({d['scale']}, {d['nbits']}, {rm}, {ov}{subs})"
    raise ValueError(f)

HEADER = 'import fpy2 as fp\nfrom fpy2.number import Float, RealFloat\n\n'

VARIANTS = ('assign', 'return', 'prerounded', 'pair', 'mono')

def program_text(name, d, variant, form, R):
    """(module text, source text of the context).  form: 'call' (constructor written in the program) or
    'global' (context object bound at module level)"""
    if form == 'call':
        cs = ctx_text(d, True); pre = ''
    else:
        cs = f'C_{name}'; pre = f'{cs} = {ctx_text(d, False)}\n\n'
    if variant == 'mono':
        # typed argument, pinned to a format by `monomorphize` (step 1 of the documented recipe): the value-class
        # analysis then drops the branches the argument format rules out
        body = f'    with {cs}:\n        y = fp.round(x)\n    return y\n'
        return (HEADER + pre + f'@fp.fpy\ndef {name}(x: fp.Real) -> fp.Real:\n' + body,
                (ctx_text(d, True) if form == 'call' else ctx_text(d, False)))
    if variant == 'assign':
        body = f'    with {cs}:\n        y = fp.round(x)\n    return y\n'
    elif variant == 'return':
        body = f'    with {cs}:\n        return fp.round(x)\n'
    elif variant == 'prerounded':
        # the operand of the lowered rounding is itself a rounding result: finite (two's complement has no
        # NaN/inf), possibly zero -- the value-class analysis then drops the branches it proves dead
        sc = R.randint(-12, -2); nb = R.randint(10, 24)
        body = (f'    with fp.FixedContext(True, {sc}, {nb}, fp.RM.{R.choice(RMS).upper()}, fp.OV.SATURATE):\n        t = fp.round(x)\n'
                f'    with {cs}:\n        y = fp.round(t)\n    return y\n')
    else:
        body = f'    with {cs}:\n        a = fp.round(x)\n        b = fp.round(x)\n    return (a, b)\n'
    return HEADER + pre + f'@fp.fpy\ndef {name}(x):\n' + body, (ctx_text(d, True) if form == 'call' else ctx_text(d, False))

def load_module(path, name):
    spec = importlib.util.spec_from_file_location(name, path)
    mod = importlib.util.module_from_spec(spec)
    sys.modules[name] = mod
    spec.loader.exec_module(mod)
    return mod

# ---------------------------------------------------------------- contexts

def corpus():
    cs = []
    fl = dict(en=True, ei=True, nv=None, iv=None)
    fx = dict(en=False, ei=False, nv=None, iv=None)
    Z = ('fin', False, 0, 0); ONE = ('fin', False, 0, 1); M3 = ('fin', True, 0, 3)
    for rm in RMS:                                  # IEEE half, every mode
        cs.append(dict(fam='ieee', es=5, nbits=16, rm=rm, ov='overflow', k=0, must=(rm == 'rne')))
    cs.append(dict(fam='ieee', es=8, nbits=32, rm='rne', ov='overflow', k=0))
    cs.append(dict(fam='ieee', es=8, nbits=32, rm='rtz', ov='overflow', k=0))
    cs.append(dict(fam='ieee', es=5, nbits=16, rm='rne', ov='saturate', k=0))
    cs.append(dict(fam='ieee', es=4, nbits=8, rm='rna', ov='saturate', k=0))
    cs.append(dict(fam='ieee', es=3, nbits=6, rm='rne', ov='assert', k=0))
    i = 0
    for kind in ('ieee', 'maxval', 'negzero', 'none'):   # EFloat: each NaN kind, with / without inf, substitutes
        for inf in (True, False):
            i += 1
            cs.append(dict(fam='ef', es=4, nbits=8, inf=inf, kind=kind, eoff=0, rm=RMS[i % 8], ov='overflow', k=0, nv=None, iv=None))
            cs.append(dict(fam='ef', es=2, nbits=5, inf=inf, kind=kind, eoff=0, rm='rne', ov='overflow', k=0, nv=None, iv=None))
    cs.append(dict(fam='ef', es=4, nbits=8, inf=False, kind='none', eoff=0, rm='rne', ov='overflow', k=0, nv=Z, iv=None))
    cs.append(dict(fam='ef', es=4, nbits=8, inf=False, kind='none', eoff=0, rm='rne', ov='overflow', k=0, nv=ONE, iv=M3))
    cs.append(dict(fam='ef', es=3, nbits=6, inf=False, kind='maxval', eoff=0, rm='rtz', ov='overflow', k=0, nv=None, iv=ONE))
    cs.append(dict(fam='ef', es=3, nbits=6, inf=True, kind='ieee', eoff=2, rm='rne', ov='overflow', k=0, nv=None, iv=None))
    cs.append(dict(fam='ef', es=5, nbits=8, inf=True, kind='ieee', eoff=-3, rm='rtp', ov='saturate', k=0, nv=None, iv=None))
    cs.append(dict(fam='mp', p=11, rm='rne', k=0, **fl))
    cs.append(dict(fam='mp', p=1, rm='rna', k=0, **fl))
    cs.append(dict(fam='mp', p=4, rm='rto', k=0, en=False, ei=False, nv=ONE, iv=Z))
    cs.append(dict(fam='mps', p=11, emin=-14, rm='rne', k=0, **fl))
    cs.append(dict(fam='mps', p=3, emin=-2, rm='rtn', k=0, en=False, ei=True, nv=None, iv=None))
    cs.append(dict(fam='mps', p=3, emin=2, rm='raz', k=0, en=True, ei=False, nv=None, iv=('fin', False, 4, 1)))
    # MPB float: mirrored and asymmetric bounds, bound inside a binade
    for j, ov in enumerate(('overflow', 'saturate', 'assert')):
        cs.append(dict(fam='mpb', p=3, emin=-2, pos=(False, 0, 7), neg=(True, 0, 7), rm=RMS[j], ov=ov, k=0, **fl))
        cs.append(dict(fam='mpb', p=3, emin=-2, pos=(False, 0, 5), neg=(True, -1, 7), rm=RMS[j + 3], ov=ov, k=0, **fl))
    cs.append(dict(fam='mpb', p=4, emin=-3, pos=(False, 1, 13), neg=(True, 1, 13), rm='rne', ov='overflow', k=0, **fl))
    cs.append(dict(fam='mpb', p=4, emin=-3, pos=(False, 1, 13), neg=(True, 1, 13), rm='rne', ov='overflow', k=0, en=True, ei=False, nv=None, iv=ONE))
    cs.append(dict(fam='mpb', p=2, emin=0, pos=(False, 2, 3), neg=(True, 0, 1), rm='rtz', ov='overflow', k=0, en=False, ei=False, nv=None, iv=None))
    # two's complement / sign-magnitude with every overflow mode
    for j, ov in enumerate(('overflow', 'saturate', 'wrap', 'assert')):
        cs.append(dict(fam='fixed', signed=True, scale=-4, nbits=8, rm=RMS[j], ov=ov, k=0, nv=None, iv=None))
        cs.append(dict(fam='fixed', signed=False, scale=2, nbits=5, rm=RMS[j + 4], ov=ov, k=0, nv=None, iv=None))
        cs.append(dict(fam='smfixed', scale=-3, nbits=6, rm=RMS[(j + 2) % 8], ov=ov, k=0, nv=None, iv=None))
    cs.append(dict(fam='fixed', signed=True, scale=-16, nbits=32, rm='rne', ov='saturate', k=0, nv=None, iv=None))
    cs.append(dict(fam='fixed', signed=True, scale=-2, nbits=6, rm='rne', ov='saturate', k=0, nv=Z, iv=ONE))
    cs.append(dict(fam='smfixed', scale=0, nbits=4, rm='rtn', ov='saturate', k=0, nv=ONE, iv=Z))
    cs.append(dict(fam='fixed', signed=True, scale=0, nbits=8, rm='rna', ov='saturate', k=0, nv=None, iv=None))
    cs.append(dict(fam='exp', nbits=4, eoff=0, rm='rne', ov='overflow', iv=None))
    cs.append(dict(fam='exp', nbits=3, eoff=-2, rm='rtz', ov='saturate', iv=None))
    # MPFixed / MPBFixed: signed zero on/off, specials on/off, substitutes
    cs.append(dict(fam='mpfix', nmin=-9, rm='rne', k=0, nz=True, en=True, ei=True, nv=None, iv=None))
    cs.append(dict(fam='mpfix', nmin=-5, rm='rtp', k=0, nz=True, **fx))
    cs.append(dict(fam='mpfix', nmin=-5, rm='rtn', k=0, nz=False, **fx))
    cs.append(dict(fam='mpfix', nmin=2, rm='rne', k=0, nz=True, en=False, ei=False, nv=Z, iv=ONE))
    cs.append(dict(fam='mpfix', nmin=-3, rm='raz', k=0, nz=True, en=False, ei=False, nv=('nan', False), iv=('inf', False)))
    cs.append(dict(fam='mpfix', nmin=-3, rm='rne', k=0, nz=True, en=False, ei=False, nv=ONE, iv=('fin', False, 3, 1)))
    for j, ov in enumerate(('overflow', 'saturate', 'wrap', 'assert')):
        cs.append(dict(fam='mpbfix', nmin=-4, pos=(False, 0, 7), neg=(True, 0, 7), rm=RMS[j], ov=ov, k=0, nz=True, en=False, ei=True, nv=None, iv=None))
        cs.append(dict(fam='mpbfix', nmin=-3, pos=(False, -2, 21), neg=(True, -1, 5), rm=RMS[7 - j], ov=ov, k=0, nz=(j % 2 == 0), **fx))
    cs.append(dict(fam='mpbfix', nmin=-4, pos=(False, 0, 7), neg=(True, 0, 7), rm='rne', ov='overflow', k=0, nz=True, en=True, ei=False, nv=None, iv=('nan', False)))
    cs.append(dict(fam='mpbfix', nmin=-4, pos=(False, 0, 7), neg=(True, 0, 7), rm='rne', ov='overflow', k=0, nz=True, en=False, ei=False, nv=Z, iv=ONE))
    cs.append(dict(fam='mpbfix', nmin=-1, pos=(False, 0, 100), neg=(True, 0, 0), rm='rne', ov='saturate', k=0, nz=False, **fx))
    # a zero negative bound with a signed zero: a negative overflow saturates to +0 (found while proving `neg_zero_unfold`)
    cs.append(dict(fam='mpbfix', nmin=-1, pos=(False, 0, 100), neg=(True, 0, 0), rm='rne', ov='saturate', k=0, nz=True, must=True, **fx))
    cs.append(dict(fam='mpbfix', nmin=-3, pos=(False, -2, 21), neg=(True, 0, 0), rm='rtz', ov='overflow', k=0, nz=True, **fx))
    # wrapping sign-magnitude format whose two overflow probes agree by coincidence
    cs.append(dict(fam='smfixed', scale=-4, nbits=3, rm='rtn', ov='wrap', k=0, nv=None, iv=None, must=True))
    return cs

# ---------------------------------------------------------------- operands

def _frac(x) -> Fraction:
    return x.as_rational() if hasattr(x, 'as_rational') else Fraction(x)

def edge_values(ctx, d, R):
    """exact magnitudes at the edges of the real context: around maxval (both signs), the first value past it,
    the early-check threshold infval, smallest magnitudes and their halves (tie), huge / tiny"""
    pts = set()
    def add(v):
        pts.add(v)
    for s in (False, True):
        try:
            m = ctx.maxval(s)
            mv = _frac(m)
        except Exception:
            continue
        try: iv = _frac(ctx.infval(s))
        except Exception: iv = None
        add(mv)
        if iv is not None and iv != mv:
            g = abs(iv - mv)
            for t in (Fraction(1, 4), Fraction(1, 2), Fraction(3, 4), 1, Fraction(3, 2), 2):
                add(mv + (iv - mv) * t)
            tiny = g / (1 << R.randint(10, 60))
            sg = 1 if iv > mv else -1
            for base in (mv, mv + (iv - mv) / 2, iv):
                add(base + sg * tiny); add(base - sg * tiny)
            add(mv - (iv - mv)); add(mv - (iv - mv) / 2); add(mv - (iv - mv) / 2 + sg * tiny); add(mv - (iv - mv) / 2 - sg * tiny)
        add(mv * 2); add(mv * 3); add(mv * (1 << 64)); add(mv * 1000 + Fraction(1, 3))
    for nm in ('minval', 'min_subnormal', 'min_normal', 'max_subnormal'):
        try:
            v = _frac(getattr(ctx, nm)())
        except Exception:
            continue
        for t in (1, Fraction(1, 2), Fraction(3, 2), Fraction(1, 4), Fraction(3, 4), 2, 3, Fraction(5, 2)):
            add(v * t); add(-v * t)
        tiny = v / (1 << R.randint(10, 60))
        add(v / 2 + tiny); add(v / 2 - tiny); add(-(v / 2 + tiny)); add(-(v / 2 - tiny)); add(v + tiny); add(v - tiny)
    for e in (200, -200, 1100, -1100):
        add(Fraction(2) ** e); add(-Fraction(2) ** e); add(Fraction(3) * Fraction(2) ** e)
    add(Fraction(1)); add(Fraction(-1)); add(Fraction(1, 3)); add(Fraction(-2, 3))
    return sorted(pts)

SPECIAL_OBJS = [('nan', float('nan')), ('-nan(Float)', None), ('inf', float('inf')), ('-inf', float('-inf')),
                ('+0', 0.0), ('-0', -0.0), ('0(int)', 0), ('0(Fraction)', Fraction(0)), ('-0(Float)', None), ('inf(Float)', None), ('nan(Float)', None)]

def special_operands():
    out = []
    for nm, v in SPECIAL_OBJS:
        if nm == '-nan(Float)': v = Float(isnan=True, s=True)
        elif nm == '-0(Float)': v = Float(c=0, s=True, exp=-7)
        elif nm == 'inf(Float)': v = Float(isinf=True)
        elif nm == 'nan(Float)': v = Float(isnan=True)
        out.append(v)
    return out

def operand_src(x) -> str:
    """Python source text of an operand (what a replay evaluates)"""
    if isinstance(x, Float):
        if x.isnan: return f'Float(s={x.s}, isnan=True)'
        if x.isinf: return f'Float(s={x.s}, isinf=True)'
        return f'Float(s={x.s}, exp={x.exp}, c={x.c})'
    if isinstance(x, float):
        if math.isnan(x): return "float('nan')"
        if math.isinf(x): return "float('-inf')" if x < 0 else "float('inf')"
    return repr(x)

def as_operand(R, q: Fraction):
    """a Python value denoting exactly q: float / Fraction / Float / int (chosen at random among those possible)"""
    den = q.denominator
    opts = [q]
    if den & (den - 1) == 0:
        e = -(den.bit_length() - 1)
        opts.append(Float(s=q < 0, exp=e, c=abs(q.numerator)))
        sh = R.randint(1, 4)
        opts.append(Float(s=q < 0, exp=e - sh, c=abs(q.numerator) << sh))
        try:
            f = float(q)
            if not math.isinf(f) and Fraction(f) == q: opts += [f, f]
        except OverflowError:
            pass
        if den == 1: opts.append(int(q))
    return R.choice(opts)

def operands_for(R, d, ctx, n_break, n_edge):
    vals = breakpoints(R, d, count=3)
    R.shuffle(vals)
    vals = vals[:n_break]
    ev = edge_values(ctx, d, R)
    R.shuffle(ev)
    # always keep the immediate neighbourhood of the bounds
    vals += ev[:n_edge]
    ops = [as_operand(R, v) for v in vals]
    ops += [Fraction(1, 3), Fraction(-2, 3)]          # non-dyadic rationals (F35: `logb` under REAL)
    ops += special_operands()
    return ops

# ---------------------------------------------------------------- strategies

def st_special(f): return S.unfold_special(f)
def st_negzero(f): return S.unfold_neg_zero(f)
def st_overflow(f): return S.unfold_overflow(f)
def st_overflow_early(f): return S.unfold_overflow(f, early_check=True)
def st_f2f(f): return S.float_to_fixed(f)
def st_rescale(f): return S.rescale_fixed(f)
def st_simplify(f): return S.simplify(f)

STRATS = {'unfold_special': (st_special, S.unfold_special), 'unfold_neg_zero': (st_negzero, S.unfold_neg_zero),
          'unfold_overflow': (st_overflow, S.unfold_overflow), 'unfold_overflow[early]': (st_overflow_early, S.unfold_overflow),
          'float_to_fixed': (st_f2f, S.float_to_fixed), 'rescale_fixed': (st_rescale, S.rescale_fixed), 'simplify': (st_simplify, None)}

# the documented chains (docs/todos/native-lowering-roadmap.md "A recipe": special -> overflow -> float_to_fixed ->
# rescale_fixed -> simplify; docs/todos/rounding-operator-basis.md: special -> neg_zero -> overflow -> rescale_fixed for
# a fixed-point source; each strategy's docstring "Run ... afterwards")
CHAINS = {
    'float-recipe': ['unfold_special', 'unfold_overflow', 'float_to_fixed', 'rescale_fixed', 'simplify'],
    'fixed-recipe': ['unfold_special', 'unfold_neg_zero', 'unfold_overflow', 'rescale_fixed', 'simplify'],
    'all': ['unfold_special', 'unfold_overflow', 'unfold_neg_zero', 'float_to_fixed', 'rescale_fixed', 'simplify'],
    'early': ['unfold_special', 'unfold_overflow[early]', 'float_to_fixed', 'rescale_fixed'],
    'no-special': ['unfold_overflow', 'float_to_fixed', 'rescale_fixed'],
}

class Hang(Exception):
    pass

def guarded(thunk, seconds=20):
    def on_alarm(signum, frame): raise Hang()
    old = signal.signal(signal.SIGALRM, on_alarm)
    signal.alarm(seconds)
    try:
        return thunk()
    finally:
        signal.alarm(0); signal.signal(signal.SIGALRM, old)

def short_reason(r: str) -> str:
    return r.split(';')[0][:70]

def apply_one(rep, name, fn, tag):
    """apply strategy `name` (where=None) to fn.  Returns (new function or None, status)
    status: 'applied' (the program changed) | 'refused' (unchanged, the strategy lists a refusal) |
            'no-site' (unchanged, nothing listed) | 'error:<Type>'"""
    go, strat = STRATS[name]
    try:
        out = guarded(lambda: go(fn))
    except Hang:
        rep.count(f'hang:{name}'); return None, 'error:Hang'
    except Exception as e:
        return None, f'error:{type(e).__name__}'
    if not out.ast.is_equiv(fn.ast):
        return out, 'applied'
    refs = []
    if strat is not None:
        # `strategies.refusals` does not take `early_check`; the listing is the one of the plain rewrite
        try:
            refs = guarded(lambda: S.refusals(strat, fn))
            for _, why in refs:
                rep.count(f'{tag}refused:{name}:{short_reason(why)}')
        except Hang:
            rep.count(f'hang:listing:{name}')
        except Exception as e:
            rep.count(f'listing-error:{name}:{type(e).__name__}')
    return out, ('refused' if refs else 'no-site')

def describe(fn):
    try: return fn.format()
    except Exception: return '<unprintable>'

def shape_of(d, strategy_seq, operand, want, got):
    """the shape of a lowering violation (decides which listed finding, if any, it is an instance of)"""
    # non-dyadic rational operand: `float_to_fixed` computes `fp.logb(x)` under REAL, which refuses a
    # non-dyadic Fraction, while the original rounding accepts it
    if ('float_to_fixed' in strategy_seq and isinstance(operand, Fraction)
            and operand.denominator & (operand.denominator - 1) != 0 and got == 'err ValueError'):
        return 'float_to_fixed-logb-refuses-nondyadic-rational'
    # a wrapping bounded fixed-point format accepted by `unfold_overflow` (its probe of two magnitudes agreed by
    # coincidence); the documentation promises a refusal
    if any(n.startswith('unfold_overflow') for n in strategy_seq) and d.get('ov') == 'wrap':
        return 'unfold_overflow-accepts-wrapping-format'
    # a zero negative bound with a signed zero: a negative overflow lands on the range end `+0`, the emitted
    # `copysign` turns it into `-0` (`_sign_survives` does not refuse the context)
    if ('unfold_neg_zero' in strategy_seq and d.get('fam') == 'mpbfix' and d.get('neg', (True, 0, 1))[2] == 0
            and want != got and want.replace('(n zero 0)', '(n zero 1)') == got):
        return 'unfold_neg_zero-zero-negative-bound'
    return 'lowering-other:' + strategy_seq[-1]

# shape of a violation -> id of a listed finding (known_findings.json); a shape not in this table is reported
# with 'finding': None (an unlisted violation)
FINDING_OF_SHAPE = {
    'float_to_fixed-logb-refuses-nondyadic-rational': 'F35',
    'unfold_overflow-accepts-wrapping-format': 'F36',
    'unfold_neg_zero-zero-negative-bound': 'F37',
    'round-axis-exp-unbounded-target': 'F10',          # repaired in /repo (607d597); kept as a regression tag
    'round-axis-abs-asymmetric-bounds': 'F28',         # repaired (951959b)
    'round-axis-special-value-of-a-rounding-result': 'F30',   # repaired (b6c4d53)
    'round-axis-neg-zero-from-exact-op': 'F29',        # C14's F29 (`__neg__` / `__mul__` and the sign of zero) reaching `insert_round`
}
PER_SHAPE = 3

def viol(rep, shape, what, d):
    """record a violation of the real code; every one is counted, at most PER_SHAPE replay records per shape"""
    rep.count('violation:' + shape)
    d = dict(d); d['shape'] = shape; d['finding'] = FINDING_OF_SHAPE.get(shape)
    if rep.hist['violation:' + shape] <= PER_SHAPE:
        rep.violation(what, d)

# ---------------------------------------------------------------- float_to_fixed: emitted constants + model evaluation

def walk(node):
    """every AST node under `node` (dataclass-like fpy2 AST)"""
    from fpy2.ast import fpyast as A
    seen = []
    def go(n):
        if isinstance(n, (list, tuple)):
            for m in n: go(m)
            return
        if isinstance(n, A.Ast):
            seen.append(n)
            names = getattr(type(n), '__slots__', None) or list(getattr(n, '__dict__', {}))
            fields = set()
            for cls in type(n).__mro__:
                fields.update(getattr(cls, '__slots__', ()))
            fields.update(getattr(n, '__dict__', {}))
            for k in fields:
                if k in ('loc', 'fn', 'env', 'meta', 'func'): continue
                try: go(getattr(n, k))
                except AttributeError: pass
    go(node)
    return seen

def const_int(e):
    from fpy2.ast import fpyast as A
    if isinstance(e, A.Neg): return -const_int(e.arg)
    if isinstance(e, A.RationalVal):
        q = e.as_rational()
        if q.denominator == 1: return int(q)
    raise ValueError('not an integer constant')

def const_frac(e):
    from fpy2.ast import fpyast as A
    if isinstance(e, A.Neg): return -const_frac(e.arg)
    if isinstance(e, A.RationalVal): return Fraction(e.as_rational())
    raise ValueError('not a constant')

class F2FShape:
    """the constants of the program `float_to_fixed` emitted for `with C: y = round(x)`"""
    pass

def f2f_shape(xf):
    """parse the emitted program: P - 1, emin, EXP (subnormal position + 1), EXP clamp, EXPMAX clamp, and the two
    MPBFixedContext constructor calls.  Raises ValueError when the program does not have the documented shape."""
    from fpy2.ast import fpyast as A
    nodes = walk(xf.ast.body)
    sh = F2FShape()
    logbs = [n for n in nodes if isinstance(n, A.Logb)]
    if len(logbs) != 1: raise ValueError(f'{len(logbs)} logb')
    subs = [n for n in nodes if isinstance(n, A.Sub) and isinstance(n.first, A.Var) and str(n.first.name).startswith('e') and not str(n.first.name).startswith('exp')]
    if len(subs) != 1: raise ValueError('position expression')
    sh.pm1 = const_int(subs[0].second)
    maxs = [n for n in nodes if isinstance(n, A.Max)]
    mins = [n for n in nodes if isinstance(n, A.Min)]
    sh.expmin = const_int(maxs[0].args[1]) if maxs else None
    sh.expmax = const_int(mins[0].args[1]) if mins else None
    cmps = [n for n in nodes if isinstance(n, A.Compare) and len(n.args) == 2 and isinstance(n.args[0], A.Var) and str(n.args[0].name).startswith('e')
            and n.ops[0].symbol() == '<']
    sh.emin = const_int(cmps[0].args[1]) if cmps else None
    calls = [n for n in nodes if isinstance(n, A.Call) and isinstance(n.fn, type) and n.fn is fp.MPBFixedContext]
    sh.calls = calls
    sh.sub_nmin = None
    for c in calls:
        try: sh.sub_nmin = const_int(c.args[0])
        except ValueError: pass
    sh.dyn = [c for c in calls if isinstance(c.args[0], A.Sub)]
    if len(sh.dyn) != 1: raise ValueError('dynamic context')
    return sh

def call_desc(call, nmin, reach_exp):
    """descriptor (numcanon) of the MPBFixedContext an emitted constructor call builds at position `nmin`"""
    from fpy2.ast import fpyast as A
    kw = dict(call.kwargs)
    def enum_name(e): return e.attr.lower()
    rm = enum_name(kw['rm']) if 'rm' in kw else 'rne'
    ov = enum_name(kw['overflow']) if 'overflow' in kw else 'wrap'
    try:
        b = const_frac(call.args[1])
    except ValueError:
        b = Fraction(2) ** reach_exp          # `2 ** (exp + P)`: the reach of an unbounded source
    den = b.denominator
    pos = (False, -(den.bit_length() - 1), b.numerator)
    flag = lambda k, dflt: (kw[k].val if k in kw else dflt)
    iv = None
    if 'inf_value' in kw:
        iv = ('nan', False) if isinstance(kw['inf_value'], A.ConstNan) else None
    return dict(fam='mpbfix', nmin=nmin, pos=pos, neg=(True, pos[1], pos[2]), rm=rm, ov=ov, k=0, nz=flag('enable_neg_zero', True),
                en=flag('enable_nan', False), ei=flag('enable_inf', False), nv=None, iv=iv)

def f2f_tie(rep, xf, ctx, d, csrc, ops, results, lines, meta):
    """(i) the constants of the emitted program are the ones the theorem's right-hand side prescribes for the context;
    (ii) the model's rounding under the emitted MPBFixedContext at the emitted position is what the real lowered
    program returned (the Lean evaluator cannot run `logb` / a context built at run time, the number model can)"""
    try:
        sh = f2f_shape(xf)
    except Exception as e:
        rep.count(f'f2f-shape-unparsed:{type(e).__name__}'); return
    P = ctx.pmax
    want = {'pm1': P - 1, 'emin': getattr(ctx, 'emin', None), 'expmin': getattr(ctx, 'expmin', None),
            'expmax': (ctx.emax - P + 1) if hasattr(ctx, 'emax') and isinstance(ctx, (fp.EFloatContext, fp.MPBFloatContext)) else None,
            'sub_nmin': (ctx.expmin - 1) if getattr(ctx, 'expmin', None) is not None else None}
    got = {'pm1': sh.pm1, 'emin': sh.emin, 'expmin': sh.expmin, 'expmax': sh.expmax, 'sub_nmin': sh.sub_nmin}
    rep.count('f2f-constants-checked')
    if got != want:
        rep.broke('correspondence', 'C10.float_to_fixed-constants',
                  f'context {csrc}: emitted constants {got}, theorem instance {want}\n{describe(xf)}')
        return
    sub_call = next((c for c in sh.calls if c not in sh.dyn), None)
    for x, res in zip(ops, results):
        if isinstance(x, Float):
            if x.is_nar() or x.is_zero(): continue
            q = x.as_rational()
        elif isinstance(x, float):
            if math.isnan(x) or math.isinf(x) or x == 0: continue
            q = Fraction(x)
        else:
            q = Fraction(x)
            if q == 0: continue
        if q.denominator & (q.denominator - 1): continue
        e = floor_log2(abs(q))
        if sh.emin is not None and e < sh.emin:
            n = sh.sub_nmin; call = sub_call; reach = sh.emin
        else:
            pos = e - sh.pm1
            if sh.expmin is not None: pos = max(pos, sh.expmin)
            if sh.expmax is not None: pos = min(pos, sh.expmax)
            n = pos - 1; call = sh.dyn[0]; reach = pos + P
        try:
            dd = call_desc(call, n, reach)
        except Exception as ex:
            rep.count(f'f2f-call-unparsed:{type(ex).__name__}'); return
        lines.append(f'round {ctx_tok(dd)} {num_tok(x)} 0 0')
        meta.append(('f2f', f'float_to_fixed on {csrc}', repr(x), res, xf))

# ---------------------------------------------------------------- round elimination / insertion

ARG_FMTS = ['fp.FP32', 'fp.FP16', 'fp.IEEEContext(4, 8)', 'fp.IEEEContext(3, 6)', 'fp.FixedContext(True, -3, 8)', 'fp.FixedContext(False, 0, 6)',
            'fp.SMFixedContext(-2, 6)', 'fp.MPSFloatContext(5, -6)', 'fp.MPFloatContext(6)', 'fp.FP64', 'fp.EFloatContext(4, 8, False, fp.EFloatNanKind.MAX_VAL, 0)']
TARGETS = ['fp.MPFloatContext(11)', 'fp.MPFloatContext(3)', 'fp.MPFloatContext(24)', 'fp.FP32', 'fp.FP16', 'fp.FP64', 'fp.IEEEContext(4, 8)',
           'fp.MPSFloatContext(8, -10)', 'fp.MPSFloatContext(24, -149)', 'fp.FixedContext(True, -3, 8)', 'fp.FixedContext(True, -6, 24, fp.RM.RNE, fp.OV.SATURATE)',
           'fp.MPFixedContext(-4)', 'fp.MPFixedContext(-20)', 'fp.MPBFixedContext(-4, 31, fp.RM.RNE, fp.OV.SATURATE)', 'fp.SMFixedContext(-2, 7)',
           'fp.MPBFloatContext(8, -10, 1000)', 'fp.EFloatContext(4, 8, False, fp.EFloatNanKind.MAX_VAL, 0)',
           'fp.EFloatContext(4, 8, False, fp.EFloatNanKind.NEG_ZERO, 0)', 'fp.IEEEContext(8, 32, fp.RM.RTZ)']
BODIES = [  # (number of args, body with {C} = rounding context, {D} = second context)
    (1, 'with {C}:\n        y = fp.round(x)\n    return y'),
    (2, 'with {C}:\n        y = x * z\n    return y'),
    (2, 'with {C}:\n        y = x + z\n    return y'),
    (2, 'with {C}:\n        y = x - z\n    return y'),
    (1, 'with {C}:\n        y = -x\n    return y'),
    (1, 'with {C}:\n        y = abs(x)\n    return y'),
    (2, 'with {C}:\n        y = fp.round(x * z)\n    return y'),
    (2, 'with {D}:\n        t = x * z\n    with {C}:\n        y = fp.round(t) + x\n    return y'),
    (2, 'with {C}:\n        y = (x + z) * x\n    return y'),
    (1, 'with {D}:\n        t = fp.round(x)\n    with {C}:\n        y = fp.round(t)\n    return y'),
    (2, 'with {C}:\n        y = fp.round(x) if x < z else fp.round(z)\n    return y'),
]
EXACT_BODIES = [
    (2, 'with fp.REAL:\n        y = x * z\n    return y'),
    (2, 'with fp.REAL:\n        y = (x * x) + (z * z)\n    return y'),
    (1, 'with fp.REAL:\n        y = -x\n    return y'),
    (2, 'with fp.REAL:\n        t = x - z\n        y = abs(t)\n    return y'),
    (1, 'with fp.REAL:\n        y = fp.round(x)\n    return y'),
]

def members_of(R, argctx, n):
    """values representable in the argument format (the premise of format inference)"""
    out = []
    seeds = [Fraction(R.randint(-2000, 2000), 1 << R.randint(0, 12)) for _ in range(n)]
    seeds += [Fraction(1) + Fraction(1, 1 << 23), Fraction(1) + Fraction(1, 1 << 10), Fraction(3, 8), Fraction(-5, 4), Fraction(255), Fraction(1, 1 << 20),
              Fraction(2) ** 40 + 1, Fraction(16777217, 16777216), Fraction(1025, 1024)]
    for q in seeds:
        try:
            v = argctx.round(q)
        except Exception:
            continue
        out.append(v)
    for sp in (Float(isnan=True), Float(isinf=True), Float(isinf=True, s=True), Float(c=0, s=True), Float(c=0)):
        try: out.append(argctx.round(sp))
        except Exception: pass
    try:
        out.append(argctx.maxval()); out.append(argctx.maxval(True))
    except Exception: pass
    return out

MONO_FMTS = ['fp.FP32', 'fp.FP16', 'fp.FP64', 'fp.FixedContext(True, -8, 24, fp.RM.RNE, fp.OV.SATURATE)', 'fp.MPFixedContext(-10)',
             'fp.SMFixedContext(-6, 16, fp.RM.RNE, fp.OV.SATURATE)', 'fp.MPSFloatContext(12, -20)', 'fp.FixedContext(False, -2, 12, fp.RM.RTZ, fp.OV.SATURATE)',
             'fp.MPFixedContext(-12, enable_nan=True, enable_inf=True)']

def is_mp(text): return text.startswith('fp.MPFloatContext(')

def py_ctx(text):
    """the context a constructor text of TARGETS / ARG_FMTS denotes (bounds are `RealFloat`s on the Python side)"""
    t = text.replace('(8, -10, 1000)', '(8, -10, RealFloat.from_int(1000))').replace('(-4, 31,', '(-4, RealFloat.from_int(31),')
    return eval(t, {'fp': fp, 'RealFloat': RealFloat})

# shapes that broke `elim_round` / `insert_round` in the past: (insert?, body index, C, D, argument formats)
ROUND_AXIS_CORPUS = [
    (False, 0, 'fp.MPFloatContext(11)', 'fp.FP32', ['fp.FP32']),                                   # F10
    (False, 5, 'fp.FixedContext(True, -3, 8)', 'fp.FP32', ['fp.FixedContext(True, -3, 8)']),       # F28 (abs of the most negative value)
    (False, 9, 'fp.EFloatContext(4, 8, False, fp.EFloatNanKind.MAX_VAL, 0)', 'fp.IEEEContext(4, 8)',
     ['fp.EFloatContext(4, 8, False, fp.EFloatNanKind.MAX_VAL, 0)']),                               # F30 (overflow to an infinity the next format lacks)
    (True, 2, 'fp.FixedContext(True, -6, 24, fp.RM.RNE, fp.OV.SATURATE)', 'fp.FP32', ['fp.FixedContext(True, -3, 8)']),   # F29 (-(+0) = -0)
    (True, 0, 'fp.MPFloatContext(11)', 'fp.FP32', ['fp.FP32', 'fp.FP32']),                         # F10 through insert_round
]

def run_round_axis(rep, R, tmp, n_prog, lines, meta):
    from fpy2.types import RealType
    env = {'fp': fp}
    for pi in range(n_prog + len(ROUND_AXIS_CORPUS)):
        if pi < len(ROUND_AXIS_CORPUS):
            insert, bi, C, D, afs = ROUND_AXIS_CORPUS[pi]
            nargs, body = (EXACT_BODIES if insert else BODIES)[bi]
        else:
            insert = R.random() < 0.4
            nargs, body = R.choice(EXACT_BODIES if insert else BODIES)
            C = R.choice(TARGETS); D = R.choice(TARGETS + ARG_FMTS)
            afs = [R.choice(ARG_FMTS) for _ in range(nargs)]
        name = f'r{pi}'
        params = ', '.join(f'{v}: fp.Real' for v in ('x', 'z')[:nargs])
        text = HEADER + f'@fp.fpy\ndef {name}({params}) -> fp.Real:\n    ' + body.format(C=C, D=D) + '\n'
        path = os.path.join(tmp, f'{name}.py')
        with open(path, 'w') as fh: fh.write(text)
        try:
            fn = getattr(load_module(path, f'fpyverif_C10_{name}'), name)
            argctxs = [py_ctx(a) for a in afs]
            pinned = guarded(lambda: S.monomorphize(fn, fp.FP64, [RealType(c) for c in argctxs]))
        except Exception as e:
            rep.count(f'round-axis:setup-rejected:{type(e).__name__}'); continue
        target = py_ctx(C)
        sname = 'insert_round' if insert else 'elim_round'
        try:
            if insert:
                for _, why in S.refusals(S.insert_round, pinned, ctx=target):
                    rep.count(f'refused:insert_round:{short_reason(why)}')
                xf = guarded(lambda: S.insert_round(pinned, target))
            else:
                xf = guarded(lambda: S.elim_round(pinned))
        except Hang:
            rep.count(f'hang:{sname}'); continue
        except Exception as e:
            rep.count(f'declined:{sname}:{type(e).__name__}'); continue
        changed = not xf.ast.is_equiv(pinned.ast)
        rep.count(f'{sname}:' + ('changed' if changed else 'unchanged'))
        if not changed: continue
        rep.cov['programs'] = rep.cov.get('programs', 0) + 1
        entry, prog = try_export(rep, xf)
        pools = [members_of(R, c, 6) for c in argctxs]
        if any(not p for p in pools): continue
        trials = [tuple(p[-(j % len(p)) - 1] for p in pools) for j in range(8)]    # bounds, zeros and specials of each pool first
        trials += [tuple(R.choice(p) for p in pools) for _ in range(10)]
        for args in trials:
            want = run_real(pinned, args); got = run_real(xf, args)
            rep.cov['evaluations'] += 1
            rep.distinct.add((text, sname, repr(args)))
            rep.count('round-axis:orig:' + want.split()[0])
            if want.startswith('ok') and got != want:
                # F10: `AbstractFormat.__le__` skips the precision test when the target has no least exponent
                # (MPFloatContext): a wider operand is "contained", the rounding is deleted / inserted wrongly
                if is_mp(C) or (is_mp(D) and '{D}' in body): shape = 'round-axis-exp-unbounded-target'
                elif 'abs(' in body: shape = 'round-axis-abs-asymmetric-bounds'
                elif any(t in want + got for t in ('nan', 'inf')): shape = 'round-axis-special-value-of-a-rounding-result'
                elif {want, got} == {'ok (n zero 0)', 'ok (n zero 1)'}: shape = 'round-axis-neg-zero-from-exact-op'
                else: shape = 'round-axis-other'
                viol(rep, shape, f'{sname}: original returns {want[:70]} but the rewritten program gives {got[:70]}',
                     {'ctx_src': C, 'second_ctx': D if '{D}' in body else None, 'strategy': sname,
                      'operand': '(' + ', '.join(operand_src(a) for a in args) + ',)', 'arg_formats': afs,
                      'original': want, 'lowered': got, 'program': text, 'lowered_program': describe(xf)})
            if prog is not None and not got.startswith(('unsupported', 'timeout')):
                lines.append(eval_line(entry, prog, args, None, fuel=100000))
                meta.append(('eval', f'{sname} {C}', repr(args), got, xf))
        if changed: rep.sample({'strategy': sname, 'original': describe(pinned), 'rewritten': describe(xf)}, cap=16)

# ---------------------------------------------------------------- main

def run(rep, tier, seed):
    R = Prng(seed, 'C10')
    quick = tier == 'quick'
    n_rand = 30 if quick else 450
    n_break, n_edge = (10, 20) if quick else (40, 70)
    ctxs = [('corpus', d) for d in corpus()]
    if quick:   # the corpus is large: a seeded half of it per quick run, all of it in the thorough tier
        keep = [c for c in ctxs if R.random() < 0.35 or c[1].get('must')]
        ctxs = keep
    for _ in range(n_rand):
        ctxs.append(('rand', add_substitutes(R, rand_ctx(R))))
    tmp = tempfile.mkdtemp(prefix='fpyverif_C10_', dir='/var/tmp')
    lines, meta = [], []
    accepted = rep.cov.setdefault('accepted_per_strategy', {})
    refused = rep.cov.setdefault('refused_per_strategy', {})
    nops = []
    try:
        for ci, (origin, d) in enumerate(ctxs):
            try:
                ctx = ctx_obj(d)
            except Exception:
                rep.count('ctx-rejected'); continue
            rep.count('fam:' + d['fam']); rep.count('rm:' + d.get('rm', '-'))
            variants = ['assign'] + ([R.choice(VARIANTS[1:])] if R.random() < 0.5 else [])
            ops = None
            for variant in variants:
                form = 'call' if (ctx_text(d, True) is not None and R.random() < 0.6) else 'global'
                name = f'q{ci}{variant[0]}'
                text, csrc = program_text(name, d, variant, form, R)
                path = os.path.join(tmp, name + '.py')
                with open(path, 'w') as fh: fh.write(text)
                try:
                    fn = getattr(load_module(path, f'fpyverif_C10_{seed}_{name}'), name)
                except Exception as e:
                    rep.count(f'frontend-rejected:{type(e).__name__}'); continue
                rep.count('variant:' + variant); rep.count('form:' + form)
                if ops is None:
                    ops = operands_for(R, d, ctx, n_break, n_edge)
                    nops.append(len(ops))
                argfmt = None; vops = ops
                if variant == 'mono':
                    from fpy2.types import RealType
                    argfmt = R.choice(MONO_FMTS)
                    try:
                        actx = py_ctx(argfmt)
                        fn = guarded(lambda: S.monomorphize(fn, None, [RealType(actx)]))
                    except Exception as e:
                        rep.count(f'mono-rejected:{type(e).__name__}'); continue
                    # the premise of a pinned argument format: the operand is one of its values
                    vops = []
                    for x in ops:
                        try: vops.append(actx.round(x))
                        except Exception: pass
                    rep.count('mono:' + argfmt)
                base = {}
                def original(x, key):
                    if key not in base: base[key] = run_real(fn, (x,))
                    return base[key]
                # every strategy alone + every prefix of the documented chains; identical sequences are run once
                todo = {}    # tuple of names -> None
                for nm in STRATS:
                    if nm != 'simplify': todo[(nm,)] = None
                chains = list(CHAINS.items()) if not quick else [(k, v) for k, v in CHAINS.items() if k in ('float-recipe', 'fixed-recipe') or R.random() < 0.4]
                for _, seq in chains:
                    for k in range(2, len(seq) + 1): todo[tuple(seq[:k])] = None
                done = {}    # sequence -> (Function | None, effective sequence)
                def build(seq):
                    if seq in done: return done[seq]
                    if len(seq) == 0:
                        done[seq] = (fn, ()); return done[seq]
                    prev, eff = build(seq[:-1])
                    if prev is None:
                        done[seq] = (None, eff); return done[seq]
                    tag = '' if len(seq) == 1 else 'chain-'
                    out, status = apply_one(rep, seq[-1], prev, tag)
                    if len(seq) == 1:
                        bucket = accepted if status == 'applied' else refused
                        if status in ('applied', 'refused'):
                            bucket[seq[0]] = bucket.get(seq[0], 0) + 1
                    if status.startswith('error'):
                        rep.count(f'{tag}strategy-error:{seq[-1]}:{status[6:]}')
                        # a later step of a chain that cannot run on the output of an earlier one is a defect of
                        # the composed chain only if the documentation promises it; recorded, not judged
                        done[seq] = (None, eff); return done[seq]
                    if status == 'applied' and not out.ast.is_equiv(prev.ast):
                        done[seq] = (out, eff + (seq[-1],))
                    else:
                        done[seq] = (prev, eff)
                    return done[seq]
                seen_eff = set()
                for seq in todo:
                    xf, eff = build(seq)
                    if xf is None or not eff or eff in seen_eff: continue
                    seen_eff.add(eff)
                    sname = ' > '.join(eff)
                    rep.count('lowered-programs')
                    rep.count(f'chain-length:{len(eff)}')
                    rep.cov['programs'] = rep.cov.get('programs', 0) + 1
                    entry, prog = try_export(rep, xf)
                    f2f_ops, f2f_res = [], []
                    for oi, x in enumerate(vops):
                        want = original(x, oi)
                        if not want.startswith('ok'):
                            rep.count('orig:' + want.split()[0] + (':' + want.split()[1] if ' ' in want else '')); continue
                        got = run_real(xf, (x,))
                        f2f_ops.append(x); f2f_res.append(got)
                        rep.cov['evaluations'] += 1
                        rep.distinct.add((csrc, variant, sname, repr(x)))
                        rep.count('orig:ok')
                        if got.startswith('timeout'):
                            rep.count('timeout'); continue
                        if got != want:
                            viol(rep, shape_of(d, eff, x, want, got),
                                 f'{sname}: `{csrc}` maps {x!r} to {want[3:60]} but the lowered program gives {got[:60]}',
                                 {'ctx_src': csrc, 'ctx': d, 'variant': variant, 'form': form, 'arg_format': argfmt, 'strategy': sname, 'operand': operand_src(x),
                                  'original': want, 'lowered': got, 'program': text, 'lowered_program': describe(xf)})
                        if prog is not None and not got.startswith('unsupported'):
                            lines.append(eval_line(entry, prog, (x,), None, fuel=100000))
                            meta.append(('eval', f'{sname} on {csrc}', repr(x), got, xf))
                    if eff == ('float_to_fixed',) and variant in ('assign', 'mono'):
                        f2f_tie(rep, xf, ctx, d, csrc, f2f_ops, f2f_res, lines, meta)
                    if len(eff) >= 3: rep.sample({'ctx': csrc, 'strategy': sname, 'lowered': describe(xf)}, cap=6)
        run_round_axis(rep, R, tmp, 45 if quick else 800, lines, meta)
        # correspondence: the Lean evaluator on the lowered programs
        model = run_driver(lines)
        rep.cov['traces_model_vs_impl'] = len(lines)
        for line, (kind, what, x, got, xf), m in zip(lines, meta, model):
            if m.startswith('bad-'):
                rep.count('model-unsupported:' + m[:40]); continue
            if kind == 'f2f':
                # number model of the emitted rounding (value only: a program does not observe flags)
                rep.count('f2f-model-evaluations')
                mp = parse_res(m)
                mv = 'err ' + mp[1] if mp[0] == 'err' else f'ok (n {mp[1]})'
                if mv != got:
                    rep.broke('correspondence', 'C10.float_to_fixed-model',
                              f'{what}\n{describe(xf)}\noperand={x}\nimpl ={got}\nmodel={mv}\nline={line}')
                continue
            if m != got:
                rep.broke('correspondence', 'C10.eval-lowered',
                          f'{what}\n{describe(xf)}\noperand={x}\nimpl ={got}\nmodel={m}\nline={line}')
    finally:
        shutil.rmtree(tmp, ignore_errors=True)
    rep.cov['operands_per_context'] = {'min': min(nops) if nops else 0, 'max': max(nops) if nops else 0,
                                       'mean': round(sum(nops) / len(nops), 1) if nops else 0}
    rep.cov['contexts'] = len(nops)
    rep.cov['rule'] = ('source contexts: fixed corpus (IEEE half in all 8 modes, single, EFloat with each NaN kind x inf on/off x substitutes x shifted exponent, '
                       'MPS/MPB floats with mirrored and asymmetric bounds, two\'s-complement / sign-magnitude / MPFixed / MPBFixed with every overflow mode, '
                       'signed zero on/off, finite and non-finite substitutes) + seeded random small contexts of all families; program variants: assign, returned round, '
                       'pre-rounded operand, two rounds in a block; context written as a constructor call or bound at module level; every strategy alone (unfold_overflow '
                       'also with early_check) and every prefix of the documented chains; operands: breakpoints of the format, neighbourhood of +-maxval, the first value past it, '
                       'infval, ties, subnormal seam, huge/tiny, +-0, +-inf, NaN as float/Fraction/Float/int, non-dyadic rationals; '
                       'elim_round / insert_round on templates monomorphized to argument formats, inputs are members of those formats; '
                       'distinct = distinct (context text, variant, effective strategy sequence, operand)')
    rep.assumptions += ['the oracle for each lowered program is the real interpreter on the original program (the property is an equivalence of two real programs)',
                        'NaN sign is not compared (canonical form `nan`)',
                        'a later chain step that raises on the output of an earlier step is recorded (strategy-error) and not judged']


def replay(rep, data):
    """re-run the recorded violations on the current tree: ./check C10 --replay replays/C10-<seed>-<tier>.json"""
    import re
    from fpy2.types import RealType
    env = {'Fraction': Fraction, 'Float': Float, 'RealFloat': RealFloat, 'fp': fp, 'float': float}
    tmp = tempfile.mkdtemp(prefix='fpyverif_C10_replay_', dir='/var/tmp')
    still = 0
    try:
        for i, v in enumerate(data.get('violations', [])):
            if 'program' not in v:
                print(f'[{i}] not a C10 violation record'); continue
            m = re.search(r'def (\w+)\(', v['program'])
            path = os.path.join(tmp, f'rp{i}.py')
            with open(path, 'w') as fh: fh.write(v['program'])
            try:
                fn = getattr(load_module(path, f'fpyverif_C10_replay_{i}'), m.group(1))
                x = eval(v['operand'], env)
                if v['strategy'] in ('elim_round', 'insert_round'):
                    fn = S.monomorphize(fn, fp.FP64, [RealType(py_ctx(a)) for a in v['arg_formats']])
                    xf = S.elim_round(fn) if v['strategy'] == 'elim_round' else S.insert_round(fn, py_ctx(v['ctx_src']))
                    args = x
                else:
                    if v.get('arg_format'):
                        fn = S.monomorphize(fn, None, [RealType(py_ctx(v['arg_format']))])
                    xf = fn
                    for nm in v['strategy'].split(' > '):
                        xf = STRATS[nm][0](xf)
                    args = (x,)
                want = run_real(fn, args); got = run_real(xf, args)
            except Exception as e:
                print(f'[{i}] {v.get("shape")}: replay failed: {type(e).__name__}: {e}'); continue
            same = (want == got) or not want.startswith('ok')
            still += 0 if same else 1
            print(f'[{i}] {v.get("shape")} | {v["strategy"]} on {v["ctx_src"][:90]} | operand {v["operand"][:70]}: original {want}, lowered {got} -> '
                  + ('no longer differs' if same else 'STILL DIFFERS'))
    finally:
        shutil.rmtree(tmp, ignore_errors=True)
    print(f'{still} recorded violation(s) still reproduce')
    sys.exit(1 if still else 0)
