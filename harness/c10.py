"""
C10 — rounding-lowering rewrites leave the rounding function unchanged.

Three families of work items (run in parallel worker processes, each with its own PRNG stream derived from VERIF_SEED):
 (1) plain sites: for generated source contexts (all families, modes, overflow modes, NaN/inf options, substitutes) a module
     defining `with C: y = fp.round(x)` (and simple variants) is written to a temp dir;
 (2) embedded sites: the rounding sits inside a program that feeds the ANALYSES the rewrites consult (value classes, partial
     evaluation, reaching definitions): in each arm of `if`s on comparisons / isnan / isinf / isfinite / and / or / not, after
     assignments that fix the class of the operand, after another rounding, in loops, after assert / early return, under
     contexts computed at run time;
 (3) `elim_round` / `insert_round` on templates with pinned contexts and argument formats.
For (1) and (2) every real strategy (`unfold_special`, `unfold_neg_zero`, `unfold_overflow` (+`early_check`), `float_to_fixed`,
`rescale_fixed`) is applied alone and along every prefix of the documented lowering chains, and original and lowered programs
are compared on the REAL interpreter for operands at every boundary of the source format, NaN, +-inf, +-0 flowing through every arm.
  verdict (Spec oracle = the real interpreter on the ORIGINAL program): wherever the original returns a value the
     lowered program must return the same value (sign of zero, inf/NaN class included);
  refusals are counted per reason; an accepted context must be reproduced exactly;
  correspondence: the lowered program is exported to the Lean evaluator and must behave like the real interpreter; the constants
     `float_to_fixed` emits are checked against the instance the theorem prescribes and the number model is run at the emitted position.
"""
from __future__ import annotations
import importlib.util, os, shutil, sys, tempfile, math, signal
from fractions import Fraction
from numgen import *   # noqa
from langexport import Exporter, eval_line, run_real, Unsupported, show_val, ctx_tok, desc_of_ctx, num_tok
from numspec import floor_log2
import fpy2 as fp
from fpy2 import strategies as S
from fpy2.number import Float, RealFloat

PROP = 'C10'

_run_real = run_real
def run_real(fn, args, ctx=None, timeout_s=12):
    """`langexport.run_real` with a timeout that survives a loaded machine (16 workers)"""
    return _run_real(fn, args, ctx, timeout_s)

class LoweredExporter(Exporter):
    """`langexport.Exporter` + a context bound at module level (`with C_q:` where `C_q` is a Python global of the
    defining module) is exported as the context it denotes; program variables shadow nothing here because the
    generated programs never assign such a name"""
    def __init__(self):
        super().__init__()
        self.missing = set()

    def stmt(self, s):
        try:
            return super().stmt(s)
        except Unsupported as u:
            self.missing.add(str(u)); return '(pass)'

    def expr(self, e):
        from fpy2.ast import fpyast as A
        try:
            return self.expr1(e)
        except Unsupported as u:
            self.missing.add(str(u)); return '(bool 0)'

    def expr1(self, e):
        from fpy2.ast import fpyast as A
        # `fp.nan()` / `fp.inf()` evaluate to the Float itself, unrounded (ops.nan / ops.inf): a literal of the model
        if isinstance(e, A.ConstNan): return '(num Fn0)'
        if isinstance(e, A.ConstInf): return '(num Fi0)'
        if isinstance(e, A.Var) and self.env is not None:
            nm = str(e.name)
            try:
                v = self.env[nm] if nm in self.env else None
            except Exception:
                v = None
            if isinstance(v, fp.Context):
                return '(ctx ' + ctx_tok(desc_of_ctx(v)) + ')'
        return super().expr(e)

class Missing(Exception):
    def __init__(self, items): self.items = sorted(items)

def export_program(fn):
    """(entry, program) for the Lean evaluator; raises `Missing` with EVERY construct of the program the
    exporter / evaluator has no counterpart for (not only the first)"""
    ex = LoweredExporter()
    ex.add_function(fn)
    if ex.missing: raise Missing(ex.missing)
    return fn.ast.name, ex.program()

def try_export(rep, fn):
    try:
        entry, prog = export_program(fn)
        rep.count('export-ok')
        return entry, prog
    except Missing as m:
        rep.count('export-unsupported-programs')
        for it in m.items: rep.count('export-unsupported:' + it[:60])
    except Unsupported as e:
        rep.count('export-unsupported-programs'); rep.count('export-unsupported:' + str(e)[:60])
    except Exception as e:
        rep.count('export-error:' + type(e).__name__)
    return None, None

KIND_SRC = {'ieee': 'IEEE_754', 'maxval': 'MAX_VAL', 'negzero': 'NEG_ZERO', 'none': 'NONE'}

# ---------------------------------------------------------------- context -> source text

def _rf_py(x): return f'RealFloat(s={x[0]}, exp={x[1]}, c={x[2]})'
def _fv_py(v):
    if v is None: return 'None'
    if v[0] == 'fin': return f'Float(s={v[1]}, exp={v[2]}, c={v[3]})'
    if v[0] == 'inf': return f'Float(s={v[1]}, isinf=True)'
    return f'Float(s={v[1]}, isnan=True)'

def _num_fpy(x):
    """an exact dyadic (s, exp, c) as FPy literal text"""
    q = Fraction(x[2]) * Fraction(2) ** x[1]
    if x[0]: q = -q
    if q.denominator == 1: return str(q.numerator)
    return f'fp.rational({q.numerator}, {q.denominator})'

def ctx_text(d, fpy: bool):
    """constructor text of descriptor `d`: Python expression (fpy=False, usable at module level) or the
    text inside an FPy `with` (fpy=True); None when the FPy front end cannot write it (substitute values
    and a separate negative bound must be Python objects)"""
    f = d['fam']
    rm = f"fp.RM.{d['rm'].upper()}" if 'rm' in d else None
    ov = f"fp.OV.{d['ov'].upper()}" if 'ov' in d else None
    subs = ''
    if d.get('nv') is not None or d.get('iv') is not None:
        if fpy: return None
        subs = f", nan_value={_fv_py(d.get('nv'))}, inf_value={_fv_py(d.get('iv'))}"
    bound = (lambda x: _num_fpy(x)) if fpy else _rf_py
    if f == 'real': return 'fp.REAL'
    if f == 'mp': return f"fp.MPFloatContext({d['p']}, {rm}, enable_nan={d['en']}, enable_inf={d['ei']}{subs})"
    if f == 'mps': return f"fp.MPSFloatContext({d['p']}, {d['emin']}, {rm}, enable_nan={d['en']}, enable_inf={d['ei']}{subs})"
    if f == 'mpb':
        mirror = d['neg'] == (True, d['pos'][1], d['pos'][2])
        if fpy and not mirror: return None
        neg = '' if mirror else f", neg_maxval={bound(d['neg'])}"
        return f"fp.MPBFloatContext({d['p']}, {d['emin']}, {bound(d['pos'])}, {rm}, {ov}{neg}, enable_nan={d['en']}, enable_inf={d['ei']}{subs})"
    if f == 'ef':
        return f"fp.EFloatContext({d['es']}, {d['nbits']}, {d['inf']}, fp.EFloatNanKind.{KIND_SRC[d['kind']]}, {d['eoff']}, {rm}, {ov}{subs})"
    if f == 'ieee': return f"fp.IEEEContext({d['es']}, {d['nbits']}, {rm}, {ov})"
    if f == 'mpfix':
        return f"fp.MPFixedContext({d['nmin']}, {rm}, enable_nan={d['en']}, enable_inf={d['ei']}, enable_neg_zero={d['nz']}{subs})"
    if f == 'mpbfix':
        mirror = d['neg'] == (True, d['pos'][1], d['pos'][2])
        if fpy and not mirror: return None
        neg = '' if mirror else f", neg_maxval={bound(d['neg'])}"
        return (f"fp.MPBFixedContext({d['nmin']}, {bound(d['pos'])}, {rm}, {ov}{neg}, enable_nan={d['en']}, enable_inf={d['ei']}, "
                f"enable_neg_zero={d['nz']}{subs})")
    if f == 'exp':
        iv = f", inf_value={_fv_py(d.get('iv'))}" if d.get('iv') is not None else ''
        return f"fp.ExpContext({d['nbits']}, {d['eoff']}, {rm}, {ov}{iv})"
    if f == 'fixed': return f"fp.FixedContext({d['signed']}, {d['scale']}, {d['nbits']}, {rm}, {ov}{subs})"
    if f == 'smfixed': return f"fp.SMFixedContext({d['scale']}, {d['nbits']}, {rm}, {ov}{subs})"
    raise ValueError(f)

HEADER = 'import fpy2 as fp\nfrom fpy2.number import Float, RealFloat\n\n'

VARIANTS = ('assign', 'return', 'prerounded', 'pair', 'mono')

def program_text(name, d, variant, form, R):
    """(module text, source text of the context).  form: 'call' (constructor written in the program) or
    'global' (context object bound at module level)"""
    if form == 'call':
        cs = ctx_text(d, True); pre = ''
    else:
        cs = f'C_{name}'; pre = f'{cs} = {ctx_text(d, False)}\n\n'
    if variant == 'mono':
        # typed argument, pinned to a format by `monomorphize` (step 1 of the documented recipe): the value-class
        # analysis then drops the branches the argument format rules out
        body = f'    with {cs}:\n        y = fp.round(x)\n    return y\n'
        return (HEADER + pre + f'@fp.fpy\ndef {name}(x: fp.Real) -> fp.Real:\n' + body,
                (ctx_text(d, True) if form == 'call' else ctx_text(d, False)))
    if variant == 'assign':
        body = f'    with {cs}:\n        y = fp.round(x)\n    return y\n'
    elif variant == 'return':
        body = f'    with {cs}:\n        return fp.round(x)\n'
    elif variant == 'prerounded':
        # the operand of the lowered rounding is itself a rounding result: finite (two's complement has no
        # NaN/inf), possibly zero -- the value-class analysis then drops the branches it proves dead
        sc = R.randint(-12, -2); nb = R.randint(10, 24)
        body = (f'    with fp.FixedContext(True, {sc}, {nb}, fp.RM.{R.choice(RMS).upper()}, fp.OV.SATURATE):\n        t = fp.round(x)\n'
                f'    with {cs}:\n        y = fp.round(t)\n    return y\n')
    else:
        body = f'    with {cs}:\n        a = fp.round(x)\n        b = fp.round(x)\n    return (a, b)\n'
    return HEADER + pre + f'@fp.fpy\ndef {name}(x):\n' + body, (ctx_text(d, True) if form == 'call' else ctx_text(d, False))

def load_module(path, name):
    spec = importlib.util.spec_from_file_location(name, path)
    mod = importlib.util.module_from_spec(spec)
    sys.modules[name] = mod
    spec.loader.exec_module(mod)
    return mod

# ---------------------------------------------------------------- contexts

def corpus():
    cs = []
    fl = dict(en=True, ei=True, nv=None, iv=None)
    fx = dict(en=False, ei=False, nv=None, iv=None)
    Z = ('fin', False, 0, 0); ONE = ('fin', False, 0, 1); M3 = ('fin', True, 0, 3)
    for rm in RMS:                                  # IEEE half, every mode
        cs.append(dict(fam='ieee', es=5, nbits=16, rm=rm, ov='overflow', k=0, must=(rm == 'rne')))
    cs.append(dict(fam='ieee', es=8, nbits=32, rm='rne', ov='overflow', k=0))
    cs.append(dict(fam='ieee', es=8, nbits=32, rm='rtz', ov='overflow', k=0))
    cs.append(dict(fam='ieee', es=5, nbits=16, rm='rne', ov='saturate', k=0))
    cs.append(dict(fam='ieee', es=4, nbits=8, rm='rna', ov='saturate', k=0))
    cs.append(dict(fam='ieee', es=3, nbits=6, rm='rne', ov='assert', k=0))
    i = 0
    for kind in ('ieee', 'maxval', 'negzero', 'none'):   # EFloat: each NaN kind, with / without inf, substitutes
        for inf in (True, False):
            i += 1
            cs.append(dict(fam='ef', es=4, nbits=8, inf=inf, kind=kind, eoff=0, rm=RMS[i % 8], ov='overflow', k=0, nv=None, iv=None))
            cs.append(dict(fam='ef', es=2, nbits=5, inf=inf, kind=kind, eoff=0, rm='rne', ov='overflow', k=0, nv=None, iv=None))
    cs.append(dict(fam='ef', es=4, nbits=8, inf=False, kind='none', eoff=0, rm='rne', ov='overflow', k=0, nv=Z, iv=None))
    cs.append(dict(fam='ef', es=4, nbits=8, inf=False, kind='none', eoff=0, rm='rne', ov='overflow', k=0, nv=ONE, iv=M3))
    cs.append(dict(fam='ef', es=3, nbits=6, inf=False, kind='maxval', eoff=0, rm='rtz', ov='overflow', k=0, nv=None, iv=ONE))
    cs.append(dict(fam='ef', es=3, nbits=6, inf=True, kind='ieee', eoff=2, rm='rne', ov='overflow', k=0, nv=None, iv=None))
    cs.append(dict(fam='ef', es=5, nbits=8, inf=True, kind='ieee', eoff=-3, rm='rtp', ov='saturate', k=0, nv=None, iv=None))
    cs.append(dict(fam='mp', p=11, rm='rne', k=0, **fl))
    cs.append(dict(fam='mp', p=1, rm='rna', k=0, **fl))
    cs.append(dict(fam='mp', p=4, rm='rto', k=0, en=False, ei=False, nv=ONE, iv=Z))
    cs.append(dict(fam='mps', p=11, emin=-14, rm='rne', k=0, **fl))
    cs.append(dict(fam='mps', p=3, emin=-2, rm='rtn', k=0, en=False, ei=True, nv=None, iv=None))
    cs.append(dict(fam='mps', p=3, emin=2, rm='raz', k=0, en=True, ei=False, nv=None, iv=('fin', False, 4, 1)))
    # MPB float: mirrored and asymmetric bounds, bound inside a binade
    for j, ov in enumerate(('overflow', 'saturate', 'assert')):
        cs.append(dict(fam='mpb', p=3, emin=-2, pos=(False, 0, 7), neg=(True, 0, 7), rm=RMS[j], ov=ov, k=0, **fl))
        cs.append(dict(fam='mpb', p=3, emin=-2, pos=(False, 0, 5), neg=(True, -1, 7), rm=RMS[j + 3], ov=ov, k=0, **fl))
    cs.append(dict(fam='mpb', p=4, emin=-3, pos=(False, 1, 13), neg=(True, 1, 13), rm='rne', ov='overflow', k=0, **fl))
    cs.append(dict(fam='mpb', p=4, emin=-3, pos=(False, 1, 13), neg=(True, 1, 13), rm='rne', ov='overflow', k=0, en=True, ei=False, nv=None, iv=ONE))
    cs.append(dict(fam='mpb', p=2, emin=0, pos=(False, 2, 3), neg=(True, 0, 1), rm='rtz', ov='overflow', k=0, en=False, ei=False, nv=None, iv=None))
    # two's complement / sign-magnitude with every overflow mode
    for j, ov in enumerate(('overflow', 'saturate', 'wrap', 'assert')):
        cs.append(dict(fam='fixed', signed=True, scale=-4, nbits=8, rm=RMS[j], ov=ov, k=0, nv=None, iv=None))
        cs.append(dict(fam='fixed', signed=False, scale=2, nbits=5, rm=RMS[j + 4], ov=ov, k=0, nv=None, iv=None))
        cs.append(dict(fam='smfixed', scale=-3, nbits=6, rm=RMS[(j + 2) % 8], ov=ov, k=0, nv=None, iv=None))
    cs.append(dict(fam='fixed', signed=True, scale=-16, nbits=32, rm='rne', ov='saturate', k=0, nv=None, iv=None))
    cs.append(dict(fam='fixed', signed=True, scale=-2, nbits=6, rm='rne', ov='saturate', k=0, nv=Z, iv=ONE))
    cs.append(dict(fam='smfixed', scale=0, nbits=4, rm='rtn', ov='saturate', k=0, nv=ONE, iv=Z))
    cs.append(dict(fam='fixed', signed=True, scale=0, nbits=8, rm='rna', ov='saturate', k=0, nv=None, iv=None))
    cs.append(dict(fam='exp', nbits=4, eoff=0, rm='rne', ov='overflow', iv=None))
    cs.append(dict(fam='exp', nbits=3, eoff=-2, rm='rtz', ov='saturate', iv=None))
    # MPFixed / MPBFixed: signed zero on/off, specials on/off, substitutes
    cs.append(dict(fam='mpfix', nmin=-9, rm='rne', k=0, nz=True, en=True, ei=True, nv=None, iv=None))
    cs.append(dict(fam='mpfix', nmin=-5, rm='rtp', k=0, nz=True, **fx))
    cs.append(dict(fam='mpfix', nmin=-5, rm='rtn', k=0, nz=False, **fx))
    cs.append(dict(fam='mpfix', nmin=2, rm='rne', k=0, nz=True, en=False, ei=False, nv=Z, iv=ONE))
    cs.append(dict(fam='mpfix', nmin=-3, rm='raz', k=0, nz=True, en=False, ei=False, nv=('nan', False), iv=('inf', False)))
    cs.append(dict(fam='mpfix', nmin=-3, rm='rne', k=0, nz=True, en=False, ei=False, nv=ONE, iv=('fin', False, 3, 1)))
    for j, ov in enumerate(('overflow', 'saturate', 'wrap', 'assert')):
        cs.append(dict(fam='mpbfix', nmin=-4, pos=(False, 0, 7), neg=(True, 0, 7), rm=RMS[j], ov=ov, k=0, nz=True, en=False, ei=True, nv=None, iv=None))
        cs.append(dict(fam='mpbfix', nmin=-3, pos=(False, -2, 21), neg=(True, -1, 5), rm=RMS[7 - j], ov=ov, k=0, nz=(j % 2 == 0), **fx))
    cs.append(dict(fam='mpbfix', nmin=-4, pos=(False, 0, 7), neg=(True, 0, 7), rm='rne', ov='overflow', k=0, nz=True, en=True, ei=False, nv=None, iv=('nan', False)))
    cs.append(dict(fam='mpbfix', nmin=-4, pos=(False, 0, 7), neg=(True, 0, 7), rm='rne', ov='overflow', k=0, nz=True, en=False, ei=False, nv=Z, iv=ONE))
    cs.append(dict(fam='mpbfix', nmin=-1, pos=(False, 0, 100), neg=(True, 0, 0), rm='rne', ov='saturate', k=0, nz=False, **fx))
    # a zero negative bound with a signed zero: a negative overflow saturates to +0 (found while proving `neg_zero_unfold`)
    cs.append(dict(fam='mpbfix', nmin=-1, pos=(False, 0, 100), neg=(True, 0, 0), rm='rne', ov='saturate', k=0, nz=True, must=True, **fx))
    cs.append(dict(fam='mpbfix', nmin=-3, pos=(False, -2, 21), neg=(True, 0, 0), rm='rtz', ov='overflow', k=0, nz=True, **fx))
    # a direction whose two sides overflow differently (RTN: +overflow saturates, -overflow goes to -inf; RTP the mirror image)
    for rm in ('rtn', 'rtp'):
        cs.append(dict(fam='mpbfix', nmin=-4, pos=(False, 0, 7), neg=(True, 0, 7), rm=rm, ov='overflow', k=0, nz=True, en=True, ei=True, nv=None, iv=None))
        cs.append(dict(fam='mpb', p=3, emin=-2, pos=(False, 0, 7), neg=(True, 0, 7), rm=rm, ov='overflow', k=0, **fl))
        cs.append(dict(fam='ieee', es=4, nbits=8, rm=rm, ov='overflow', k=0))
    # a float format whose only values are the two zeros
    cs.append(dict(fam='ef', es=0, nbits=2, inf=False, kind='maxval', eoff=0, rm='raz', ov='saturate', k=0, nv=None, iv=None))
    # wrapping sign-magnitude format whose two overflow probes agree by coincidence
    cs.append(dict(fam='smfixed', scale=-4, nbits=3, rm='rtn', ov='wrap', k=0, nv=None, iv=None, must=True))
    return cs

# ---------------------------------------------------------------- operands

def _frac(x) -> Fraction:
    return x.as_rational() if hasattr(x, 'as_rational') else Fraction(x)

def edge_values(ctx, d, R):
    """exact magnitudes at the edges of the real context: around maxval (both signs), the first value past it,
    the early-check threshold infval, smallest magnitudes and their halves (tie), huge / tiny"""
    pts = set()
    def add(v):
        pts.add(v)
    for s in (False, True):
        try:
            m = ctx.maxval(s)
            mv = _frac(m)
        except Exception:
            continue
        try: iv = _frac(ctx.infval(s))
        except Exception: iv = None
        add(mv)
        if iv is not None and iv != mv:
            g = abs(iv - mv)
            for t in (Fraction(1, 4), Fraction(1, 2), Fraction(3, 4), 1, Fraction(3, 2), 2):
                add(mv + (iv - mv) * t)
            tiny = g / (1 << R.randint(10, 60))
            sg = 1 if iv > mv else -1
            for base in (mv, mv + (iv - mv) / 2, iv):
                add(base + sg * tiny); add(base - sg * tiny)
            add(mv - (iv - mv)); add(mv - (iv - mv) / 2); add(mv - (iv - mv) / 2 + sg * tiny); add(mv - (iv - mv) / 2 - sg * tiny)
        add(mv * 2); add(mv * 3); add(mv * (1 << 64)); add(mv * 1000 + Fraction(1, 3))
    for nm in ('minval', 'min_subnormal', 'min_normal', 'max_subnormal'):
        try:
            v = _frac(getattr(ctx, nm)())
        except Exception:
            continue
        for t in (1, Fraction(1, 2), Fraction(3, 2), Fraction(1, 4), Fraction(3, 4), 2, 3, Fraction(5, 2)):
            add(v * t); add(-v * t)
        tiny = v / (1 << R.randint(10, 60))
        add(v / 2 + tiny); add(v / 2 - tiny); add(-(v / 2 + tiny)); add(-(v / 2 - tiny)); add(v + tiny); add(v - tiny)
    for e in (200, -200, 1100, -1100):
        add(Fraction(2) ** e); add(-Fraction(2) ** e); add(Fraction(3) * Fraction(2) ** e)
    add(Fraction(1)); add(Fraction(-1)); add(Fraction(1, 3)); add(Fraction(-2, 3))
    return sorted(pts)

SPECIAL_OBJS = [('nan', float('nan')), ('-nan(Float)', None), ('inf', float('inf')), ('-inf', float('-inf')),
                ('+0', 0.0), ('-0', -0.0), ('0(int)', 0), ('0(Fraction)', Fraction(0)), ('-0(Float)', None), ('inf(Float)', None), ('nan(Float)', None)]

def special_operands():
    out = []
    for nm, v in SPECIAL_OBJS:
        if nm == '-nan(Float)': v = Float(isnan=True, s=True)
        elif nm == '-0(Float)': v = Float(c=0, s=True, exp=-7)
        elif nm == 'inf(Float)': v = Float(isinf=True)
        elif nm == 'nan(Float)': v = Float(isnan=True)
        out.append(v)
    return out

def operand_src(x) -> str:
    """Python source text of an operand (what a replay evaluates)"""
    if isinstance(x, Float):
        if x.isnan: return f'Float(s={x.s}, isnan=True)'
        if x.isinf: return f'Float(s={x.s}, isinf=True)'
        return f'Float(s={x.s}, exp={x.exp}, c={x.c})'
    if isinstance(x, float):
        if math.isnan(x): return "float('nan')"
        if math.isinf(x): return "float('-inf')" if x < 0 else "float('inf')"
    return repr(x)

def as_operand(R, q: Fraction):
    """a Python value denoting exactly q: float / Fraction / Float / int (chosen at random among those possible)"""
    den = q.denominator
    opts = [q]
    if den & (den - 1) == 0:
        e = -(den.bit_length() - 1)
        opts.append(Float(s=q < 0, exp=e, c=abs(q.numerator)))
        sh = R.randint(1, 4)
        opts.append(Float(s=q < 0, exp=e - sh, c=abs(q.numerator) << sh))
        try:
            f = float(q)
            if not math.isinf(f) and Fraction(f) == q: opts += [f, f]
        except OverflowError:
            pass
        if den == 1: opts.append(int(q))
    return R.choice(opts)

def operands_for(R, d, ctx, n_break, n_edge):
    vals = breakpoints(R, d, count=3)
    R.shuffle(vals)
    vals = vals[:n_break]
    ev = edge_values(ctx, d, R)
    R.shuffle(ev)
    # always keep the immediate neighbourhood of the bounds
    vals += ev[:n_edge]
    ops = [as_operand(R, v) for v in vals]
    ops += [Fraction(1, 3), Fraction(-2, 3)]          # non-dyadic rationals (F35: `logb` under REAL)
    ops += special_operands()
    return ops

# ---------------------------------------------------------------- strategies

def st_special(f): return S.unfold_special(f)
def st_negzero(f): return S.unfold_neg_zero(f)
def st_overflow(f): return S.unfold_overflow(f)
def st_overflow_early(f): return S.unfold_overflow(f, early_check=True)
def st_f2f(f): return S.float_to_fixed(f)
def st_rescale(f): return S.rescale_fixed(f)
def st_simplify(f): return S.simplify(f)

STRATS = {'unfold_special': (st_special, S.unfold_special), 'unfold_neg_zero': (st_negzero, S.unfold_neg_zero),
          'unfold_overflow': (st_overflow, S.unfold_overflow), 'unfold_overflow[early]': (st_overflow_early, S.unfold_overflow),
          'float_to_fixed': (st_f2f, S.float_to_fixed), 'rescale_fixed': (st_rescale, S.rescale_fixed), 'simplify': (st_simplify, None)}

# the documented chains (docs/todos/native-lowering-roadmap.md "A recipe": special -> overflow -> float_to_fixed ->
# rescale_fixed -> simplify; docs/todos/rounding-operator-basis.md: special -> neg_zero -> overflow -> rescale_fixed for
# a fixed-point source; each strategy's docstring "Run ... afterwards")
CHAINS = {
    'float-recipe': ['unfold_special', 'unfold_overflow', 'float_to_fixed', 'rescale_fixed', 'simplify'],
    'fixed-recipe': ['unfold_special', 'unfold_neg_zero', 'unfold_overflow', 'rescale_fixed', 'simplify'],
    'all': ['unfold_special', 'unfold_overflow', 'unfold_neg_zero', 'float_to_fixed', 'rescale_fixed', 'simplify'],
    'early': ['unfold_special', 'unfold_overflow[early]', 'float_to_fixed', 'rescale_fixed'],
    'no-special': ['unfold_overflow', 'float_to_fixed', 'rescale_fixed'],
}

class Hang(Exception):
    pass

def guarded(thunk, seconds=20):
    def on_alarm(signum, frame): raise Hang()
    old = signal.signal(signal.SIGALRM, on_alarm)
    signal.alarm(seconds)
    try:
        return thunk()
    finally:
        signal.alarm(0); signal.signal(signal.SIGALRM, old)

def short_reason(r: str) -> str:
    return r.split(';')[0][:70]

def apply_one(rep, name, fn, tag):
    """apply strategy `name` (where=None) to fn.  Returns (new function or None, status)
    status: 'applied' (the program changed) | 'refused' (unchanged, the strategy lists a refusal) |
            'no-site' (unchanged, nothing listed) | 'error:<Type>'"""
    go, strat = STRATS[name]
    try:
        out = guarded(lambda: go(fn))
    except Hang:
        rep.count(f'hang:{name}'); return None, 'error:Hang'
    except Exception as e:
        return None, f'error:{type(e).__name__}'
    if not out.ast.is_equiv(fn.ast):
        return out, 'applied'
    refs = []
    if strat is not None:
        # `strategies.refusals` does not take `early_check`; the listing is the one of the plain rewrite
        try:
            refs = guarded(lambda: S.refusals(strat, fn))
            for _, why in refs:
                rep.count(f'{tag}refused:{name}:{short_reason(why)}')
        except Hang:
            rep.count(f'hang:listing:{name}')
        except Exception as e:
            rep.count(f'listing-error:{name}:{type(e).__name__}')
    return out, ('refused' if refs else 'no-site')

def describe(fn):
    try: return fn.format()
    except Exception: return '<unprintable>'

def shape_of(d, strategy_seq, args, want, got, info=None):
    """the shape of a lowering violation (decides which listed finding, if any, it is an instance of)"""
    # non-dyadic rational operand: `float_to_fixed` computes `fp.logb(x)` under REAL, which refuses a
    # non-dyadic Fraction, while the original rounding accepts it
    if ('float_to_fixed' in strategy_seq and got == 'err ValueError'
            and any(isinstance(o, Fraction) and o.denominator & (o.denominator - 1) != 0 for o in args)):
        return 'float_to_fixed-logb-refuses-nondyadic-rational'
    # a wrapping bounded fixed-point format accepted by `unfold_overflow` (its probe of two magnitudes agreed by
    # coincidence); the documentation promises a refusal
    if any(n.startswith('unfold_overflow') for n in strategy_seq) and d.get('ov') == 'wrap':
        return 'unfold_overflow-accepts-wrapping-format'
    # a zero negative bound with a signed zero: a negative overflow lands on the range end `+0`, the emitted
    # `copysign` turns it into `-0` (`_sign_survives` does not refuse the context)
    if ('unfold_neg_zero' in strategy_seq and d.get('fam') == 'mpbfix' and d.get('neg', (True, 0, 1))[2] == 0
            and want != got and want.replace('(n zero 0)', '(n zero 1)') == got):
        return 'unfold_neg_zero-zero-negative-bound'
    # a float format whose only values are zeros (bound 0): `float_to_fixed` emits `MPBFixedContext(n, 0, ...)`, whose range
    # end is `+0` for either sign, while the source saturates a negative operand onto `-0`
    if 'float_to_fixed' in strategy_seq and d.get('fam') in ('ef', 'ieee', 'mpb') and want.replace('(n zero 1)', '(n zero 0)') == got:
        try:
            if ctx_obj(d).maxval().is_zero(): return 'float_to_fixed-zero-bound-format'
        except Exception:
            pass
    # the sign of a NaN, observed through `signbit` / `copysign` after `rescale_fixed` scaled the operand under REAL
    # (a REAL multiplication returns the canonical +NaN); NaN signs are otherwise not compared
    if (info and 'rescale_fixed' in strategy_seq and any(t in info['text'] for t in ('fp.signbit(', 'fp.copysign('))
            and (any(is_nan_operand(o) for o in args) or 'fp.nan()' in info['text'])):
        return 'rescale_fixed-drops-nan-sign'
    if info and info.get('kind') == 'embedded':
        return 'embedded-site:' + info['variant'].split(':', 1)[1] + ':' + strategy_seq[-1]
    return 'lowering-other:' + strategy_seq[-1]

# shape of a violation -> id of a listed finding (known_findings.json); a shape not in this table is reported
# with 'finding': None (an unlisted violation)
FINDING_OF_SHAPE = {
    'float_to_fixed-logb-refuses-nondyadic-rational': 'F35',
    'unfold_overflow-accepts-wrapping-format': 'F36',
    'unfold_neg_zero-zero-negative-bound': 'F37',
    'round-axis-exp-unbounded-target': 'F10',          # repaired in /repo (607d597); kept as a regression tag
    'round-axis-abs-asymmetric-bounds': 'F28',         # repaired (951959b)
    'round-axis-special-value-of-a-rounding-result': 'F30',   # repaired (b6c4d53)
    'float_to_fixed-zero-bound-format': 'C10-F5',
    'round-axis-neg-zero-from-exact-op': 'F29',        # C14's F29 (`__neg__` / `__mul__` and the sign of zero) reaching `insert_round`
}
PER_SHAPE = 3

def viol(rep, shape, what, d):
    """record a violation of the real code; every one is counted, at most PER_SHAPE replay records per shape
    (a worker keeps PER_SHAPE per work item, the parent re-applies the cap over the whole run)"""
    if shape == 'rescale_fixed-drops-nan-sign':
        # the SIGN of a NaN (observable only through signbit/copysign) is not part of "the same result" as the property
        # states it (NaN for NaN): counted, never judged
        rep.count('not-judged:nan-sign-observed-through-signbit'); return
    rep.count('violation:' + shape)
    if rep.hist['violation:' + shape] <= PER_SHAPE:
        if isinstance(rep, MiniRep):
            rep.viols.append((shape, what, d))
        else:
            d = dict(d); d['shape'] = shape; d['finding'] = FINDING_OF_SHAPE.get(shape)
            rep.violation(what, d)

# ---------------------------------------------------------------- float_to_fixed: emitted constants + model evaluation

def walk(node):
    """every AST node under `node` (dataclass-like fpy2 AST)"""
    from fpy2.ast import fpyast as A
    seen = []
    def go(n):
        if isinstance(n, (list, tuple)):
            for m in n: go(m)
            return
        if isinstance(n, A.Ast):
            seen.append(n)
            names = getattr(type(n), '__slots__', None) or list(getattr(n, '__dict__', {}))
            fields = set()
            for cls in type(n).__mro__:
                fields.update(getattr(cls, '__slots__', ()))
            fields.update(getattr(n, '__dict__', {}))
            for k in fields:
                if k in ('loc', 'fn', 'env', 'meta', 'func'): continue
                try: go(getattr(n, k))
                except AttributeError: pass
    go(node)
    return seen

def const_int(e):
    from fpy2.ast import fpyast as A
    if isinstance(e, A.Neg): return -const_int(e.arg)
    if isinstance(e, A.RationalVal):
        q = e.as_rational()
        if q.denominator == 1: return int(q)
    raise ValueError('not an integer constant')

def const_frac(e):
    from fpy2.ast import fpyast as A
    if isinstance(e, A.Neg): return -const_frac(e.arg)
    if isinstance(e, A.RationalVal): return Fraction(e.as_rational())
    raise ValueError('not a constant')

class F2FShape:
    """the constants of the program `float_to_fixed` emitted for `with C: y = round(x)`"""
    pass

def f2f_shape(xf):
    """parse the emitted program: P - 1, emin, EXP (subnormal position + 1), EXP clamp, EXPMAX clamp, and the two
    MPBFixedContext constructor calls.  Raises ValueError when the program does not have the documented shape."""
    from fpy2.ast import fpyast as A
    nodes = walk(xf.ast.body)
    sh = F2FShape()
    logbs = [n for n in nodes if isinstance(n, A.Logb)]
    if len(logbs) != 1: raise ValueError(f'{len(logbs)} logb')
    subs = [n for n in nodes if isinstance(n, A.Sub) and isinstance(n.first, A.Var) and str(n.first.name).startswith('e') and not str(n.first.name).startswith('exp')]
    if len(subs) != 1: raise ValueError('position expression')
    sh.pm1 = const_int(subs[0].second)
    maxs = [n for n in nodes if isinstance(n, A.Max)]
    mins = [n for n in nodes if isinstance(n, A.Min)]
    sh.expmin = const_int(maxs[0].args[1]) if maxs else None
    sh.expmax = const_int(mins[0].args[1]) if mins else None
    cmps = [n for n in nodes if isinstance(n, A.Compare) and len(n.args) == 2 and isinstance(n.args[0], A.Var) and str(n.args[0].name).startswith('e')
            and n.ops[0].symbol() == '<']
    sh.emin = const_int(cmps[0].args[1]) if cmps else None
    calls = [n for n in nodes if isinstance(n, A.Call) and isinstance(n.fn, type) and n.fn is fp.MPBFixedContext]
    sh.calls = calls
    sh.sub_nmin = None
    for c in calls:
        try: sh.sub_nmin = const_int(c.args[0])
        except ValueError: pass
    sh.dyn = [c for c in calls if isinstance(c.args[0], A.Sub)]
    if len(sh.dyn) != 1: raise ValueError('dynamic context')
    return sh

def call_desc(call, nmin, reach_exp):
    """descriptor (numcanon) of the MPBFixedContext an emitted constructor call builds at position `nmin`"""
    from fpy2.ast import fpyast as A
    kw = dict(call.kwargs)
    def enum_name(e): return e.attr.lower()
    rm = enum_name(kw['rm']) if 'rm' in kw else 'rne'
    ov = enum_name(kw['overflow']) if 'overflow' in kw else 'wrap'
    try:
        b = const_frac(call.args[1])
    except ValueError:
        b = Fraction(2) ** reach_exp          # `2 ** (exp + P)`: the reach of an unbounded source
    den = b.denominator
    pos = (False, -(den.bit_length() - 1), b.numerator)
    flag = lambda k, dflt: (kw[k].val if k in kw else dflt)
    iv = None
    if 'inf_value' in kw:
        iv = ('nan', False) if isinstance(kw['inf_value'], A.ConstNan) else None
    return dict(fam='mpbfix', nmin=nmin, pos=pos, neg=(True, pos[1], pos[2]), rm=rm, ov=ov, k=0, nz=flag('enable_neg_zero', True),
                en=flag('enable_nan', False), ei=flag('enable_inf', False), nv=None, iv=iv)

def f2f_tie(rep, xf, ctx, d, csrc, ops, results, lines, meta):
    """(i) the constants of the emitted program are the ones the theorem's right-hand side prescribes for the context;
    (ii) the model's rounding under the emitted MPBFixedContext at the emitted position is what the real lowered
    program returned (the Lean evaluator cannot run `logb` / a context built at run time, the number model can)"""
    try:
        sh = f2f_shape(xf)
    except Exception as e:
        rep.count(f'f2f-shape-unparsed:{type(e).__name__}'); return
    P = ctx.pmax
    want = {'pm1': P - 1, 'emin': getattr(ctx, 'emin', None), 'expmin': getattr(ctx, 'expmin', None),
            'expmax': (ctx.emax - P + 1) if hasattr(ctx, 'emax') and isinstance(ctx, (fp.EFloatContext, fp.MPBFloatContext)) else None,
            'sub_nmin': (ctx.expmin - 1) if getattr(ctx, 'expmin', None) is not None else None}
    got = {'pm1': sh.pm1, 'emin': sh.emin, 'expmin': sh.expmin, 'expmax': sh.expmax, 'sub_nmin': sh.sub_nmin}
    rep.count('f2f-constants-checked')
    if got != want:
        rep.broke('correspondence', 'C10.float_to_fixed-constants',
                  f'context {csrc}: emitted constants {got}, theorem instance {want}\n{describe(xf)}')
        return
    sub_call = next((c for c in sh.calls if c not in sh.dyn), None)
    for x, res in zip(ops, results):
        if isinstance(x, Float):
            if x.is_nar() or x.is_zero(): continue
            q = x.as_rational()
        elif isinstance(x, float):
            if math.isnan(x) or math.isinf(x) or x == 0: continue
            q = Fraction(x)
        else:
            q = Fraction(x)
            if q == 0: continue
        if q.denominator & (q.denominator - 1): continue
        e = floor_log2(abs(q))
        if sh.emin is not None and e < sh.emin:
            n = sh.sub_nmin; call = sub_call; reach = sh.emin
        else:
            pos = e - sh.pm1
            if sh.expmin is not None: pos = max(pos, sh.expmin)
            if sh.expmax is not None: pos = min(pos, sh.expmax)
            n = pos - 1; call = sh.dyn[0]; reach = pos + P
        try:
            dd = call_desc(call, n, reach)
        except Exception as ex:
            rep.count(f'f2f-call-unparsed:{type(ex).__name__}'); return
        lines.append(f'round {ctx_tok(dd)} {num_tok(x)} 0 0')
        meta.append(('f2f', f'float_to_fixed on {csrc}', repr(x), res, describe(xf)))

# ---------------------------------------------------------------- round elimination / insertion

ARG_FMTS = ['fp.FP32', 'fp.FP16', 'fp.IEEEContext(4, 8)', 'fp.IEEEContext(3, 6)', 'fp.FixedContext(True, -3, 8)', 'fp.FixedContext(False, 0, 6)',
            'fp.SMFixedContext(-2, 6)', 'fp.MPSFloatContext(5, -6)', 'fp.MPFloatContext(6)', 'fp.FP64', 'fp.EFloatContext(4, 8, False, fp.EFloatNanKind.MAX_VAL, 0)']
TARGETS = ['fp.MPFloatContext(11)', 'fp.MPFloatContext(3)', 'fp.MPFloatContext(24)', 'fp.FP32', 'fp.FP16', 'fp.FP64', 'fp.IEEEContext(4, 8)',
           'fp.MPSFloatContext(8, -10)', 'fp.MPSFloatContext(24, -149)', 'fp.FixedContext(True, -3, 8)', 'fp.FixedContext(True, -6, 24, fp.RM.RNE, fp.OV.SATURATE)',
           'fp.MPFixedContext(-4)', 'fp.MPFixedContext(-20)', 'fp.MPBFixedContext(-4, 31, fp.RM.RNE, fp.OV.SATURATE)', 'fp.SMFixedContext(-2, 7)',
           'fp.MPBFloatContext(8, -10, 1000)', 'fp.EFloatContext(4, 8, False, fp.EFloatNanKind.MAX_VAL, 0)',
           'fp.EFloatContext(4, 8, False, fp.EFloatNanKind.NEG_ZERO, 0)', 'fp.IEEEContext(8, 32, fp.RM.RTZ)']
BODIES = [  # (number of args, body with {C} = rounding context, {D} = second context)
    (1, 'with {C}:\n        y = fp.round(x)\n    return y'),
    (2, 'with {C}:\n        y = x * z\n    return y'),
    (2, 'with {C}:\n        y = x + z\n    return y'),
    (2, 'with {C}:\n        y = x - z\n    return y'),
    (1, 'with {C}:\n        y = -x\n    return y'),
    (1, 'with {C}:\n        y = abs(x)\n    return y'),
    (2, 'with {C}:\n        y = fp.round(x * z)\n    return y'),
    (2, 'with {D}:\n        t = x * z\n    with {C}:\n        y = fp.round(t) + x\n    return y'),
    (2, 'with {C}:\n        y = (x + z) * x\n    return y'),
    (1, 'with {D}:\n        t = fp.round(x)\n    with {C}:\n        y = fp.round(t)\n    return y'),
    (2, 'with {C}:\n        y = fp.round(x) if x < z else fp.round(z)\n    return y'),
]
EXACT_BODIES = [
    (2, 'with fp.REAL:\n        y = x * z\n    return y'),
    (2, 'with fp.REAL:\n        y = (x * x) + (z * z)\n    return y'),
    (1, 'with fp.REAL:\n        y = -x\n    return y'),
    (2, 'with fp.REAL:\n        t = x - z\n        y = abs(t)\n    return y'),
    (1, 'with fp.REAL:\n        y = fp.round(x)\n    return y'),
]

def members_of(R, argctx, n):
    """values representable in the argument format (the premise of format inference)"""
    out = []
    seeds = [Fraction(R.randint(-2000, 2000), 1 << R.randint(0, 12)) for _ in range(n)]
    seeds += [Fraction(1) + Fraction(1, 1 << 23), Fraction(1) + Fraction(1, 1 << 10), Fraction(3, 8), Fraction(-5, 4), Fraction(255), Fraction(1, 1 << 20),
              Fraction(2) ** 40 + 1, Fraction(16777217, 16777216), Fraction(1025, 1024)]
    for q in seeds:
        try:
            v = argctx.round(q)
        except Exception:
            continue
        out.append(v)
    for sp in (Float(isnan=True), Float(isinf=True), Float(isinf=True, s=True), Float(c=0, s=True), Float(c=0)):
        try: out.append(argctx.round(sp))
        except Exception: pass
    try:
        out.append(argctx.maxval()); out.append(argctx.maxval(True))
    except Exception: pass
    return out

MONO_FMTS = ['fp.FP32', 'fp.FP16', 'fp.FP64', 'fp.FixedContext(True, -8, 24, fp.RM.RNE, fp.OV.SATURATE)', 'fp.MPFixedContext(-10)',
             'fp.SMFixedContext(-6, 16, fp.RM.RNE, fp.OV.SATURATE)', 'fp.MPSFloatContext(12, -20)', 'fp.FixedContext(False, -2, 12, fp.RM.RTZ, fp.OV.SATURATE)',
             'fp.MPFixedContext(-12, enable_nan=True, enable_inf=True)']

def is_mp(text): return text.startswith('fp.MPFloatContext(')

def py_ctx(text):
    """the context a constructor text of TARGETS / ARG_FMTS denotes (bounds are `RealFloat`s on the Python side)"""
    t = text.replace('(8, -10, 1000)', '(8, -10, RealFloat.from_int(1000))').replace('(-4, 31,', '(-4, RealFloat.from_int(31),')
    return eval(t, {'fp': fp, 'RealFloat': RealFloat})

# shapes that broke `elim_round` / `insert_round` in the past: (insert?, body index, C, D, argument formats)
ROUND_AXIS_CORPUS = [
    (False, 0, 'fp.MPFloatContext(11)', 'fp.FP32', ['fp.FP32']),                                   # F10
    (False, 5, 'fp.FixedContext(True, -3, 8)', 'fp.FP32', ['fp.FixedContext(True, -3, 8)']),       # F28 (abs of the most negative value)
    (False, 9, 'fp.EFloatContext(4, 8, False, fp.EFloatNanKind.MAX_VAL, 0)', 'fp.IEEEContext(4, 8)',
     ['fp.EFloatContext(4, 8, False, fp.EFloatNanKind.MAX_VAL, 0)']),                               # F30 (overflow to an infinity the next format lacks)
    (True, 2, 'fp.FixedContext(True, -6, 24, fp.RM.RNE, fp.OV.SATURATE)', 'fp.FP32', ['fp.FixedContext(True, -3, 8)']),   # F29 (-(+0) = -0)
    (True, 0, 'fp.MPFloatContext(11)', 'fp.FP32', ['fp.FP32', 'fp.FP32']),                         # F10 through insert_round
]

# extra bodies for the rounding axis: the format of the operand is a JOIN over branches / loop iterations
BODIES += [
    (2, 'if z > 0:\n        t = x\n    else:\n        t = x * x\n    with {C}:\n        y = fp.round(t)\n    return y'),
    (2, 't = x\n    for i in range(3):\n        with {C}:\n            t = t * z\n    return t'),
    (2, 't = x\n    with {D}:\n        for i in range(2):\n            t = t + z\n    with {C}:\n        y = fp.round(t)\n    return y'),
    (1, 'if x > 0:\n        with {C}:\n            y = fp.round(x)\n    else:\n        with {C}:\n            y = -x\n    return y'),
    (2, 'with {C}:\n        t = fp.round(x)\n        y = fp.round(t + z)\n    return y'),
]

def round_axis_one(rep, R, tmp, pi, lines, meta):
    from fpy2.types import RealType
    if pi < len(ROUND_AXIS_CORPUS):
        insert, bi, C, D, afs = ROUND_AXIS_CORPUS[pi]
        nargs, body = (EXACT_BODIES if insert else BODIES)[bi]
    else:
        insert = R.random() < 0.35
        nargs, body = R.choice(EXACT_BODIES if insert else BODIES)
        C = R.choice(TARGETS); D = R.choice(TARGETS + ARG_FMTS)
        afs = [R.choice(ARG_FMTS) for _ in range(nargs)]
    name = f'r{pi}'
    params = ', '.join(f'{v}: fp.Real' for v in ('x', 'z')[:nargs])
    text = HEADER + f'@fp.fpy\ndef {name}({params}) -> fp.Real:\n    ' + body.format(C=C, D=D) + '\n'
    path = os.path.join(tmp, f'{name}.py')
    with open(path, 'w') as fh: fh.write(text)
    try:
        fn = getattr(load_module(path, f'fpyverif_C10_{name}'), name)
        argctxs = [py_ctx(a) for a in afs]
        pinned = guarded(lambda: S.monomorphize(fn, fp.FP64, [RealType(c) for c in argctxs]))
    except Exception as e:
        rep.count(f'round-axis:setup-rejected:{type(e).__name__}'); return
    target = py_ctx(C)
    sname = 'insert_round' if insert else 'elim_round'
    try:
        if insert:
            for _, why in S.refusals(S.insert_round, pinned, ctx=target):
                rep.count(f'refused:insert_round:{short_reason(why)}')
            xf = guarded(lambda: S.insert_round(pinned, target))
        else:
            xf = guarded(lambda: S.elim_round(pinned))
    except Hang:
        rep.count(f'hang:{sname}'); return
    except Exception as e:
        rep.count(f'declined:{sname}:{type(e).__name__}'); return
    changed = not xf.ast.is_equiv(pinned.ast)
    rep.count(f'{sname}:' + ('changed' if changed else 'unchanged'))
    if not changed: return
    rep.cov['programs'] = rep.cov.get('programs', 0) + 1
    entry, prog = try_export(rep, xf)
    desc = describe(xf)
    pools = [members_of(R, c, 6) for c in argctxs]
    if any(not p for p in pools): return
    trials = [tuple(p[-(j % len(p)) - 1] for p in pools) for j in range(8)]    # bounds, zeros and specials of each pool first
    trials += [tuple(R.choice(p) for p in pools) for _ in range(10)]
    for args in trials:
        want = run_real(pinned, args); got = run_real(xf, args)
        if want.startswith('timeout') or got.startswith('timeout'):
            rep.count('timeout'); continue
        rep.cov['evaluations'] += 1
        rep.distinct.add((text, sname, repr(args)))
        rep.count('round-axis:orig:' + want.split()[0])
        if want.startswith('ok') and got != want:
            # F10: `AbstractFormat.__le__` skips the precision test when the target has no least exponent
            # (MPFloatContext): a wider operand is "contained", the rounding is deleted / inserted wrongly
            if is_mp(C) or (is_mp(D) and '{D}' in body): shape = 'round-axis-exp-unbounded-target'
            elif 'abs(' in body: shape = 'round-axis-abs-asymmetric-bounds'
            elif any(t in want + got for t in ('nan', 'inf')): shape = 'round-axis-special-value-of-a-rounding-result'
            elif {want, got} == {'ok (n zero 0)', 'ok (n zero 1)'}: shape = 'round-axis-neg-zero-from-exact-op'
            else: shape = 'round-axis-other'
            viol(rep, shape, f'{sname}: original returns {want[:70]} but the rewritten program gives {got[:70]}',
                 {'ctx_src': C, 'second_ctx': D if '{D}' in body else None, 'strategy': sname,
                  'operand': args_src(args), 'arg_formats': afs,
                  'original': want, 'lowered': got, 'program': text, 'lowered_program': desc})
        if prog is not None and not got.startswith(('unsupported', 'timeout')):
            lines.append(eval_line(entry, prog, args, None, fuel=100000))
            meta.append(('eval', f'{sname} {C}', repr(args), got, desc))
    rep.sample({'strategy': sname, 'original': describe(pinned), 'rewritten': desc}, cap=16)

# ---------------------------------------------------------------- lowering a program and comparing it with the original

def is_nan_operand(o) -> bool:
    return (isinstance(o, float) and math.isnan(o)) or (isinstance(o, Float) and o.isnan)

def args_src(args) -> str:
    return '(' + ', '.join(operand_src(a) for a in args) + ',)'

def lower_and_compare(rep, R, fn, inputs, info, quick, lines, meta, ctx=None, max_model=None):
    """every strategy alone + every prefix of the documented chains on `fn`; original vs lowered on the real
    interpreter for every argument tuple of `inputs`; the lowered programs go to the Lean evaluator too.
    info: csrc, d, variant, form, arg_format, text."""
    accepted = rep.cov.setdefault('accepted_per_strategy', {})
    refused = rep.cov.setdefault('refused_per_strategy', {})
    csrc, d, variant, text = info['csrc'], info['d'], info['variant'], info['text']
    base = {}
    def original(args, key):
        if key not in base: base[key] = run_real(fn, args)
        return base[key]
    todo = {}    # tuple of names -> None; identical effective sequences are run once
    for nm in STRATS:
        if nm != 'simplify': todo[(nm,)] = None
    chains = list(CHAINS.items()) if not quick else [(k, v) for k, v in CHAINS.items() if k in ('float-recipe', 'fixed-recipe') or R.random() < 0.4]
    for _, seq in chains:
        for k in range(2, len(seq) + 1): todo[tuple(seq[:k])] = None
    done = {}    # sequence -> (Function | None, effective sequence)
    def build(seq):
        if seq in done: return done[seq]
        if len(seq) == 0:
            done[seq] = (fn, ()); return done[seq]
        prev, eff = build(seq[:-1])
        if prev is None:
            done[seq] = (None, eff); return done[seq]
        tag = '' if len(seq) == 1 else 'chain-'
        out, status = apply_one(rep, seq[-1], prev, tag)
        if len(seq) == 1:
            bucket = accepted if status == 'applied' else refused
            if status in ('applied', 'refused'):
                bucket[seq[0]] = bucket.get(seq[0], 0) + 1
        if status.startswith('error'):
            rep.count(f'{tag}strategy-error:{seq[-1]}:{status[6:]}')
            # a later step of a chain that cannot run on the output of an earlier one is recorded, not judged
            done[seq] = (None, eff); return done[seq]
        if status == 'applied' and not out.ast.is_equiv(prev.ast):
            done[seq] = (out, eff + (seq[-1],))
        else:
            done[seq] = (prev, eff)
        return done[seq]
    seen_eff = set()
    for seq in todo:
        xf, eff = build(seq)
        if xf is None or not eff or eff in seen_eff: continue
        seen_eff.add(eff)
        sname = ' > '.join(eff)
        rep.count('lowered-programs'); rep.count('lowered-programs:' + info.get('kind', 'plain'))
        rep.count(f'chain-length:{len(eff)}')
        rep.cov['programs'] = rep.cov.get('programs', 0) + 1
        entry, prog = try_export(rep, xf)
        desc = None
        f2f_ops, f2f_res = [], []
        nmodel = 0
        for oi, args in enumerate(inputs):
            want = original(args, oi)
            if not want.startswith('ok'):
                rep.count('orig:' + want.split()[0] + (':' + want.split()[1] if ' ' in want else '')); continue
            got = run_real(xf, args)
            if not got.startswith('timeout'):
                f2f_ops.append(args[0]); f2f_res.append(got)
            rep.cov['evaluations'] += 1
            rep.distinct.add((csrc, variant, info.get('what', ''), sname, repr(args)))
            rep.count('orig:ok')
            if got.startswith('timeout'):
                rep.count('timeout'); continue
            if got != want:
                if desc is None: desc = describe(xf)
                shown = operand_src(args[0]) if len(args) == 1 else args_src(args)
                viol(rep, shape_of(d, eff, args, want, got, info),
                     f'{sname}: `{csrc}`{info.get("what_txt", "")} maps {shown} to {want[3:60]} but the lowered program gives {got[:60]}',
                     {'ctx_src': csrc, 'ctx': d, 'variant': variant, 'form': info.get('form'), 'arg_format': info.get('arg_format'), 'strategy': sname,
                      'operand': shown, 'original': want, 'lowered': got, 'program': text, 'lowered_program': desc})
            if prog is not None and not got.startswith('unsupported') and (max_model is None or nmodel < max_model):
                if desc is None: desc = describe(xf)
                nmodel += 1
                lines.append(eval_line(entry, prog, args, None, fuel=100000))
                meta.append(('eval', f'{sname} on {csrc}', repr(args), got, desc))
        if eff == ('float_to_fixed',) and variant in ('assign', 'mono') and ctx is not None:
            f2f_tie(rep, xf, ctx, d, csrc, f2f_ops, f2f_res, lines, meta)
        if len(eff) >= 3: rep.sample({'ctx': csrc, 'strategy': sname, 'lowered': describe(xf)}, cap=6)

def plain_one(rep, R, tmp, ci, d, quick, lines, meta, seed):
    """`with C: y = round(x)` and its simple variants for one source context"""
    n_break, n_edge = (10, 20) if quick else (40, 70)
    try:
        ctx = ctx_obj(d)
    except Exception:
        rep.count('ctx-rejected'); return
    rep.count('fam:' + d['fam']); rep.count('rm:' + d.get('rm', '-'))
    variants = ['assign'] + ([R.choice(VARIANTS[1:])] if R.random() < 0.5 else [])
    ops = None
    for variant in variants:
        form = 'call' if (ctx_text(d, True) is not None and R.random() < 0.6) else 'global'
        name = f'q{ci}{variant[0]}'
        text, csrc = program_text(name, d, variant, form, R)
        path = os.path.join(tmp, name + '.py')
        with open(path, 'w') as fh: fh.write(text)
        try:
            fn = getattr(load_module(path, f'fpyverif_C10_{seed}_{name}'), name)
        except Exception as e:
            rep.count(f'frontend-rejected:{type(e).__name__}'); continue
        rep.count('variant:' + variant); rep.count('form:' + form)
        if ops is None:
            ops = operands_for(R, d, ctx, n_break, n_edge)
            rep.cov.setdefault('nops', []).append(len(ops))
        argfmt = None; vops = ops
        if variant == 'mono':
            from fpy2.types import RealType
            argfmt = R.choice(MONO_FMTS)
            try:
                actx = py_ctx(argfmt)
                fn = guarded(lambda: S.monomorphize(fn, None, [RealType(actx)]))
            except Exception as e:
                rep.count(f'mono-rejected:{type(e).__name__}'); continue
            # the premise of a pinned argument format: the operand is one of its values
            vops = []
            for x in ops:
                try: vops.append(actx.round(x))
                except Exception: pass
            rep.count('mono:' + argfmt)
        lower_and_compare(rep, R, fn, [(x,) for x in vops],
                          {'csrc': csrc, 'd': d, 'variant': variant, 'form': form, 'arg_format': argfmt, 'text': text, 'kind': 'plain'},
                          quick, lines, meta, ctx=ctx)

# ---------------------------------------------------------------- roundings embedded in program contexts
#
# The lowering rewrites consult ANALYSES of the surrounding program: `ValueClassInfer` (which special values the operand can be:
# branches for NaN / inf / zero are dropped where the operand "cannot" be one), `PartialEval` (is the context statically
# known), `DefineUse` / reaching definitions.  A rounding alone in a function exercises none of that; these templates put the
# rounding site under guards, after assignments that fix the class of the operand, in loops, after other roundings.

LITS = ['1', '-1', '2.5', '0.5', '-3', '4', '6', '65504', '-0.25', '100']
CMP_OPS = ['==', '!=', '<', '<=', '>', '>=']

def rand_atom(R, v, w, L):
    k = R.randint(0, 13)
    op = R.choice(CMP_OPS)
    if k == 0: return f'{v} {op} 0'
    if k == 1: return f'{v} {op} {L}'
    if k == 2: return f'{v} {op} {w}'
    if k == 3: return f'{L} {op} {v}'
    if k == 4: return f'0 {op} {v}'
    if k == 5: return f'-{L.lstrip("-")} < {v} <= {L.lstrip("-")}'
    if k == 6: return f'fp.isnan({v})'
    if k == 7: return f'fp.isinf({v})'
    if k == 8: return f'fp.isfinite({v})'
    if k == 9: return f'fp.signbit({v})'
    if k == 10: return f'abs({v}) {op} {L.lstrip("-")}'
    if k == 11: return f'{v} != {L}'          # the comparison a NaN satisfies
    if k == 12: return f'{v} != {w}'
    return f'{v} == {v}'                       # false exactly for a NaN

def rand_cond(R, v='x', w='z', L=None, depth=0):
    L = L or R.choice(LITS)
    k = R.random()
    if depth >= 2 or k < 0.5: return rand_atom(R, v, w, L)
    a = rand_cond(R, v, w, L, depth + 1)
    if k < 0.62: return f'not ({a})'
    b = rand_cond(R, v, w, R.choice(LITS), depth + 1)
    if k < 0.8: return f'({a}) and ({b})'
    if k < 0.95: return f'({a}) or ({b})'
    return f'not (({a}) and ({b}))'

PRE_EXPRS = ['abs(x)', 'x * x', '3', '0.5', '0', '-0.0', 'min(x, 4)', 'max(x, 0)', 'max(min(x, 8), -8)', '-x', 'x + 1', 'abs(x) + 1',
             'x - z', 'fp.sqrt(abs(x))', '(x if x > 0 else 1)', 'fp.copysign(x, z)', 'fp.nan()', 'fp.inf()', '-fp.inf()', 'x * 0', 'x - x',
             'abs(x) * 0.5', 'min(abs(x), abs(z))', 'max(x, z)', 'min(4, x)', 'max(0, x)', 'min(z, x)', '0 * x', 'x * z', 'x + z', 'z - x', 'abs(z)', '1 / x', 'fp.fma(x, x, 1)', 'z', 'fp.floor(x)', '(0 if fp.isnan(x) else x)']

EMBED_KINDS = ['if2', 'if1', 'nested', 'elif', 'pre', 'pre-real', 'pre-guard', 'guard-pre', 'round-then', 'round-then-guard', 'seq', 'for', 'loop-phi',
               'while', 'scrub', 'other-guard', 'guard-modify', 'early-return', 'ifexpr', 'pe-static', 'pe-branch', 'ctx-var', 'ctx-var-branch', 'assert',
               'guard-else-chain', 'ne-sentinel']

def embedded_body(R, C, D, kind=None):
    """(kind, body text, number of arms tagged).  The function has arguments x, z and returns (result, arm)."""
    L = R.choice(LITS)
    rnd = lambda v, tgt, ctx, ind: f'{ind}with {ctx}:\n{ind}    {tgt} = fp.round({v})\n'
    k = kind or R.choice(EMBED_KINDS + ['if2', 'if2', 'guard-pre', 'guard-pre', 'pre-real', 'pre-real', 'round-then', 'ne-sentinel'])
    I = '    '
    if k == 'if2':
        c = rand_cond(R, L=L)
        b = (f'{I}if {c}:\n{I}    arm = 1\n' + rnd('x', 'y', C, I * 2) + f'{I}else:\n{I}    arm = 2\n' + rnd('x', 'y', R.choice([C, C, D]), I * 2))
    elif k == 'ne-sentinel':
        # the sentinel idiom: a value the caller passes through untouched
        other = R.choice([L, L, 'z'])
        b = (f'{I}if x != {other}:\n{I}    arm = 1\n' + rnd('x', 'y', C, I * 2) + f'{I}else:\n{I}    arm = 2\n{I}    y = {other}\n')
    elif k == 'if1':
        c = rand_cond(R, L=L)
        b = f'{I}y = 0\n{I}arm = 0\n{I}if {c}:\n{I}    arm = 1\n' + rnd('x', 'y', C, I * 2)
    elif k == 'nested':
        c1, c2 = rand_cond(R, L=L), rand_cond(R)
        b = (f'{I}if {c1}:\n{I}    if {c2}:\n{I}        arm = 1\n' + rnd('x', 'y', C, I * 3) + f'{I}    else:\n{I}        arm = 2\n' + rnd('x', 'y', C, I * 3)
             + f'{I}else:\n{I}    arm = 3\n' + rnd('x', 'y', D, I * 2))
    elif k == 'elif':
        c1, c2 = rand_atom(R, 'x', 'z', L), rand_atom(R, 'x', 'z', R.choice(LITS))
        b = (f'{I}if {c1}:\n{I}    arm = 1\n' + rnd('x', 'y', C, I * 2) + f'{I}elif {c2}:\n{I}    arm = 2\n' + rnd('x', 'y', C, I * 2)
             + f'{I}else:\n{I}    arm = 3\n' + rnd('x', 'y', C, I * 2))
    elif k in ('pre', 'pre-real'):
        # the class of an exact result is only known under a context the analysis knows: REAL (exact) or a concrete one
        e = R.choice(PRE_EXPRS)
        w = 'fp.REAL' if k == 'pre-real' else R.choice([None, None, D, 'fp.FP32'])
        asg = f'{I}with {w}:\n{I}    t = {e}\n' if w else f'{I}t = {e}\n'
        b = asg + f'{I}arm = 0\n' + rnd('t', 'y', C, I)
    elif k == 'pre-guard':
        e = R.choice(PRE_EXPRS); c = rand_cond(R, 't', 'x', L)
        w = R.choice([None, 'fp.REAL', 'fp.REAL'])
        asg = f'{I}with {w}:\n{I}    t = {e}\n' if w else f'{I}t = {e}\n'
        b = (asg + f'{I}if {c}:\n{I}    arm = 1\n' + rnd('t', 'y', C, I * 2) + f'{I}else:\n{I}    arm = 2\n' + rnd('t', 'y', C, I * 2))
    elif k == 'guard-pre':
        # a guard fixes part of the class of x, an exact operation on it follows, the result is rounded
        c = rand_cond(R, L=L)
        e1, e2 = R.choice(PRE_EXPRS), R.choice(PRE_EXPRS)
        w = R.choice(['fp.REAL', 'fp.REAL', D, None])
        def asg(e, ind): return (f'{ind}with {w}:\n{ind}    t = {e}\n' if w else f'{ind}t = {e}\n')
        b = (f'{I}if {c}:\n{I}    arm = 1\n' + asg(e1, I * 2) + rnd('t', 'y', C, I * 2) + f'{I}else:\n{I}    arm = 2\n' + asg(e2, I * 2) + rnd('t', 'y', C, I * 2))
    elif k == 'round-then':
        b = rnd('x', 't', D, I) + f'{I}arm = 0\n' + rnd('t', 'y', C, I)
    elif k == 'round-then-guard':
        c = rand_cond(R, 't', 'x', L)
        b = rnd('x', 't', D, I) + (f'{I}if {c}:\n{I}    arm = 1\n' + rnd('t', 'y', C, I * 2) + f'{I}else:\n{I}    arm = 2\n' + rnd('x', 'y', C, I * 2))
    elif k == 'seq':
        b = rnd('x', 'a', C, I) + rnd('a', 'y', D, I) + f'{I}arm = 0\n{I}y = y + a * 0\n' if R.random() < 0.3 else rnd('x', 'a', C, I) + rnd('a', 'y', D, I) + f'{I}arm = 0\n'
    elif k == 'for':
        b = f'{I}t = x\n{I}arm = 0\n{I}for i in range(3):\n' + rnd('t', 't', C, I * 2) + f'{I}    t = t * 2 - z\n{I}y = t\n'
    elif k == 'loop-phi':
        # first iteration: a constant; later ones: the argument (the class of `t` at the rounding is a join over the back edge)
        b = f'{I}t = {L}\n{I}y = 0\n{I}arm = 0\n{I}for i in range(2):\n' + rnd('t', 'y', C, I * 2) + f'{I}    t = x\n'
    elif k == 'while':
        c = rand_cond(R, 't', 'z', L)
        b = (f'{I}i = 0\n{I}t = x\n{I}arm = 0\n{I}while i < 2:\n{I}    if {c}:\n{I}        arm = arm + 1\n' + rnd('t', 't', C, I * 3)
             + f'{I}    t = t - z\n{I}    i = i + 1\n{I}y = t\n')
    elif k == 'scrub':
        tst = R.choice(['fp.isnan(x)', 'fp.isinf(x)', 'not fp.isfinite(x)', 'x == 0', 'x != x'])
        b = f'{I}if {tst}:\n{I}    t = {L}\n{I}    arm = 1\n{I}else:\n{I}    t = x\n{I}    arm = 2\n' + rnd('t', 'y', C, I)
    elif k == 'other-guard':
        c = rand_cond(R, 'z', 'x', L)
        b = (f'{I}if {c}:\n{I}    arm = 1\n' + rnd('x', 'y', C, I * 2) + f'{I}else:\n{I}    arm = 2\n' + rnd('x', 'y', C, I * 2))
    elif k == 'guard-modify':
        c = rand_cond(R, L=L)
        m = R.choice([f'x - {L}', 'x * z', '-x', 'x - x', f'min(x, {L})', 'x * 0'])
        b = (f'{I}if {c}:\n{I}    arm = 1\n{I}    t = {m}\n' + rnd('t', 'y', C, I * 2) + f'{I}else:\n{I}    arm = 2\n{I}    t = z\n' + rnd('t', 'y', C, I * 2))
    elif k == 'early-return':
        tst = R.choice(['fp.isnan(x)', 'fp.isinf(x)', 'x == 0', f'x > {L}', f'x != {L}'])
        b = f'{I}if {tst}:\n{I}    return (z, 1)\n{I}arm = 2\n' + rnd('x', 'y', C, I)
    elif k == 'ifexpr':
        c = rand_atom(R, 'x', 'z', L)
        ie = R.choice([f'x if {c} else {L}', f'{L} if {c} else x', f'x if {c} else z', f'{L} if {c} else -x'])
        b = f'{I}t = {ie}\n{I}arm = 0\n' + rnd('t', 'y', C, I)
    elif k == 'pe-static':
        b = f'{I}p = 5\n{I}q = p + 3\n{I}arm = 0\n{I}with fp.IEEEContext(4, q):\n{I}    y = fp.round(x)\n'
    elif k == 'pe-branch':
        b = f'{I}p = 11\n{I}arm = 1\n{I}if z > 0:\n{I}    p = 4\n{I}    arm = 2\n{I}with fp.MPSFloatContext(p, -6):\n{I}    y = fp.round(x)\n'
    elif k == 'ctx-var':
        b = f'{I}c = {C}\n{I}arm = 0\n{I}with c:\n{I}    y = fp.round(x)\n'
    elif k == 'ctx-var-branch':
        b = f'{I}c = {C}\n{I}arm = 1\n{I}if z > 0:\n{I}    c = {D}\n{I}    arm = 2\n{I}with c:\n{I}    y = fp.round(x)\n'
    elif k == 'assert':
        tst = R.choice(['not fp.isnan(x)', 'fp.isfinite(x)', 'x != 0', f'x != {L}', 'x > 0', f'x <= {L}'])
        b = f'{I}assert {tst}\n{I}arm = 0\n' + rnd('x', 'y', C, I)
    else:   # guard-else-chain: the FAILED comparison (a NaN fails every ordering and `==`)
        op = R.choice(['<', '<=', '>', '>=', '=='])
        b = (f'{I}if x {op} {L}:\n{I}    arm = 1\n{I}    y = x\n{I}else:\n{I}    arm = 2\n' + rnd('x', 'y', C, I * 2))
    return k, b + f'{I}return (y, arm)\n', L

# contexts the embedded sites round under: where a dropped branch is visible (a format that substitutes a value for NaN / inf,
# a float lowered through `logb`, a fixed-point format that refuses specials)
EMBED_CTXS = [
    dict(fam='ieee', es=5, nbits=16, rm='rne', ov='overflow', k=0),
    dict(fam='ieee', es=5, nbits=16, rm='rtz', ov='overflow', k=0),
    dict(fam='ieee', es=4, nbits=8, rm='rna', ov='saturate', k=0),
    dict(fam='ef', es=2, nbits=4, inf=False, kind='none', eoff=0, rm='rne', ov='overflow', k=0, nv=None, iv=None),          # MX_E2M1: NaN -> 6
    dict(fam='ef', es=4, nbits=8, inf=False, kind='maxval', eoff=0, rm='rne', ov='overflow', k=0, nv=None, iv=None),        # E4M3: inf -> NaN
    dict(fam='ef', es=4, nbits=8, inf=False, kind='none', eoff=0, rm='rne', ov='overflow', k=0, nv=('fin', False, 0, 1), iv=('fin', True, 0, 3)),
    dict(fam='ef', es=3, nbits=6, inf=True, kind='negzero', eoff=0, rm='rne', ov='overflow', k=0, nv=None, iv=None),
    dict(fam='mps', p=11, emin=-14, rm='rne', k=0, en=True, ei=True, nv=None, iv=None),
    dict(fam='mps', p=3, emin=-2, rm='rtn', k=0, en=False, ei=False, nv=('fin', False, 0, 1), iv=('fin', False, 3, 1)),
    dict(fam='mp', p=5, rm='rne', k=0, en=True, ei=True, nv=None, iv=None),
    dict(fam='mpb', p=4, emin=-3, pos=(False, 1, 13), neg=(True, 1, 13), rm='rne', ov='overflow', k=0, en=True, ei=True, nv=None, iv=None),
    dict(fam='mpb', p=4, emin=-3, pos=(False, 1, 13), neg=(True, 1, 13), rm='rtn', ov='overflow', k=0, en=False, ei=True, nv=('fin', False, 0, 0), iv=None),
    dict(fam='fixed', signed=True, scale=-4, nbits=8, rm='rne', ov='saturate', k=0, nv=('fin', False, 0, 0), iv=('fin', False, 0, 1)),
    dict(fam='fixed', signed=True, scale=-4, nbits=8, rm='rtz', ov='saturate', k=0, nv=None, iv=None),
    dict(fam='smfixed', scale=-3, nbits=6, rm='rne', ov='saturate', k=0, nv=None, iv=None),
    dict(fam='mpfix', nmin=-5, rm='rne', k=0, nz=True, en=True, ei=True, nv=None, iv=None),
    dict(fam='mpfix', nmin=-3, rm='rtp', k=0, nz=True, en=False, ei=False, nv=('fin', False, 0, 1), iv=('fin', False, 3, 1)),
    dict(fam='mpbfix', nmin=-4, pos=(False, 0, 7), neg=(True, 0, 7), rm='rne', ov='overflow', k=0, nz=True, en=False, ei=True, nv=('fin', False, 0, 1), iv=None),
    dict(fam='mpbfix', nmin=-4, pos=(False, 0, 7), neg=(True, 0, 7), rm='rtn', ov='overflow', k=0, nz=True, en=True, ei=True, nv=None, iv=None),
    dict(fam='mpbfix', nmin=-3, pos=(False, -2, 21), neg=(True, 0, 0), rm='rtz', ov='overflow', k=0, nz=False, en=False, ei=False, nv=None, iv=None),
]

# the shapes the seeded-change experiments showed to be needed, always present (kind, condition / expression, context index)
EMBED_FIXED = [
    ('ne-lit', 'x != 1', 0), ('ne-lit', 'x != 1', 3), ('ne-var', 'x != z', 0), ('ne-var', 'z != x', 3),
    ('ne-lit', 'not (x == 2.5)', 5), ('ne-lit', '1 != x', 12), ('ne-lit', 'x != 1 and x != 4', 3), ('ne-lit', 'x != 1 or x > 3', 0),
]
NAN_SIGN_BODY = ('    with {C}:\n        t = fp.round(x)\n    if fp.signbit(t):\n        arm = 1\n        y = 1\n    else:\n        arm = 2\n        y = 2\n'
                 '    return (y, arm)\n')

def embedded_inputs(R, ctx, d, L, n_edge):
    """argument pairs (x, z): specials, the literal and its neighbours, the edges of the format; z from a small pool that
    includes NaN and x itself -- every arm of every template is reached by some pair"""
    Lq = Fraction(L)
    xs = special_operands()
    for q in (Lq, -Lq, Lq + Fraction(1, 1 << 20), Lq - Fraction(1, 1 << 20), Fraction(3, 2), Fraction(-9, 4), Fraction(1, 1 << 30),
              -Fraction(10) ** 30, Fraction(8), Fraction(1)):
        xs.append(as_operand(R, q))
    ev = edge_values(ctx, d, R)
    R.shuffle(ev)
    xs += [as_operand(R, v) for v in ev[:n_edge] if v.denominator & (v.denominator - 1) == 0]
    zpool = [1.0, float('nan'), 0.0, -1.0, float('inf'), 2.5, -0.0, float(Lq) if abs(Lq) < 1e300 else 1.0]
    out = []
    nspecial = len(special_operands())
    for i, x in enumerate(xs):
        zs = [R.choice(zpool), R.choice(zpool)]
        if i < nspecial: zs = [float('nan'), float('inf'), 0.0, 1.0, R.choice(zpool)]   # a special x meets every class of z
        if R.random() < 0.3: zs.append(x)
        seen = set()
        for z in zs:
            if repr(z) in seen: continue
            seen.add(repr(z)); out.append((x, z))
    return out

def embedded_one(rep, R, tmp, ei, quick, lines, meta, seed):
    fixed = EMBED_FIXED[ei] if ei < len(EMBED_FIXED) else None
    d = dict(EMBED_CTXS[fixed[2]] if fixed else R.choice(EMBED_CTXS + [add_substitutes(R, rand_ctx(R)) for _ in range(6)]))
    d2 = dict(R.choice(EMBED_CTXS))
    try:
        ctx = ctx_obj(d); ctx_obj(d2)
    except Exception:
        rep.count('ctx-rejected'); return
    name = f'e{ei}'
    pre = ''
    def ctext(dd, tag):
        nonlocal pre
        t = ctx_text(dd, True)
        if t is not None and R.random() < 0.6: return t
        pre += f'{tag}_{name} = {ctx_text(dd, False)}\n'
        return f'{tag}_{name}'
    C, D = ctext(d, 'C'), ctext(d2, 'D')
    if fixed:
        kind, cond, _ = fixed
        I = '    '
        body = (f'{I}if {cond}:\n{I}    arm = 1\n{I}    with {C}:\n{I}        y = fp.round(x)\n{I}else:\n{I}    arm = 2\n{I}    y = x\n{I}return (y, arm)\n')
        if kind == 'nan-sign': body = NAN_SIGN_BODY.format(C=C)
        L = '1'
    else:
        # every kind of site appears in every run (three rounds over the list), the rest is drawn at random
        j = ei - len(EMBED_FIXED)
        kind, body, L = embedded_body(R, C, D, EMBED_KINDS[j % len(EMBED_KINDS)] if j < 3 * len(EMBED_KINDS) else None)
    text = HEADER + pre + ('\n' if pre else '') + f'@fp.fpy\ndef {name}(x, z):\n' + body
    path = os.path.join(tmp, name + '.py')
    with open(path, 'w') as fh: fh.write(text)
    try:
        fn = getattr(load_module(path, f'fpyverif_C10_{seed}_{name}'), name)
    except Exception as e:
        rep.count(f'embedded:frontend-rejected:{kind}:{type(e).__name__}'); return
    rep.count('embedded:' + kind)
    csrc = ctx_text(d, False)
    inputs = embedded_inputs(R, ctx, d, L, 8 if quick else 20)
    # which arms do the inputs reach (on the original program)?
    arms = set()
    for a in inputs:
        r = run_real(fn, a)
        if r.startswith('ok (t '): arms.add(r.rsplit('(n ', 1)[-1])
    rep.count(f'embedded:arms-reached:{len(arms)}')
    lower_and_compare(rep, R, fn, inputs,
                      {'csrc': csrc, 'd': d, 'variant': 'embedded:' + kind, 'form': None, 'arg_format': None, 'text': text, 'kind': 'embedded',
                       'what': text, 'what_txt': f' inside `{kind}`'},
                      quick, lines, meta, ctx=None, max_model=10 if quick else 30)

# ---------------------------------------------------------------- work items, run in parallel

class MiniRep:
    """what a worker records for one work item (merged into the Report by the parent)"""
    def __init__(self):
        self.hist = {}; self.cov = {'evaluations': 0, 'samples': []}; self.distinct = set(); self.broken = []; self.viols = []
    def count(self, key, n=1): self.hist[key] = self.hist.get(key, 0) + n
    def sample(self, s, cap=12):
        if len(self.cov['samples']) < cap: self.cov['samples'].append(s)
    def violation(self, what, d): self.viols.append((what, d))
    def broke(self, kind, name, detail): self.broken.append((kind, name, detail))

_TMP = None

def do_item(item):
    kind, idx, payload, seed, tier = item
    quick = tier == 'quick'
    rep = MiniRep()
    R = Prng(seed, f'C10:{kind}:{idx}')
    lines, meta = [], []
    tmp = os.path.join(_TMP, f'{kind}{idx}')
    os.makedirs(tmp, exist_ok=True)
    try:
        if kind == 'plain': plain_one(rep, R, tmp, idx, payload, quick, lines, meta, seed)
        elif kind == 'emb': embedded_one(rep, R, tmp, idx, quick, lines, meta, seed)
        else: round_axis_one(rep, R, tmp, idx, lines, meta)
    except Exception:
        import traceback
        rep.broke('harness', f'C10.{kind}[{idx}]', traceback.format_exc())
    return (kind, idx, rep.hist, rep.cov, rep.distinct, rep.broken, rep.viols, lines, meta)

def run(rep, tier, seed):
    global _TMP
    import multiprocessing
    R = Prng(seed, 'C10')
    quick = tier == 'quick'
    n_rand = 30 if quick else 450
    ctxs = [d for d in corpus()]      # the whole corpus in both tiers (one context per acceptance / refusal rule of each strategy)
    for _ in range(n_rand):
        ctxs.append(add_substitutes(R, rand_ctx(R)))
    n_emb = len(EMBED_FIXED) + (120 if quick else 1500)
    n_axis = len(ROUND_AXIS_CORPUS) + (60 if quick else 800)
    items = ([('plain', i, d, seed, tier) for i, d in enumerate(ctxs)] + [('emb', i, None, seed, tier) for i in range(n_emb)]
             + [('axis', i, None, seed, tier) for i in range(n_axis)])
    _TMP = tempfile.mkdtemp(prefix='fpyverif_C10_', dir='/var/tmp')
    jobs = int(os.environ.get('VERIF_JOBS', '0') or 0) or min(16, os.cpu_count() or 1)
    results = []
    try:
        if jobs > 1:
            with multiprocessing.get_context('fork').Pool(jobs) as pool:
                for r in pool.imap_unordered(do_item, items, chunksize=1): results.append(r)
        else:
            results = [do_item(it) for it in items]
    finally:
        shutil.rmtree(_TMP, ignore_errors=True)
    order = {'plain': 0, 'emb': 1, 'axis': 2}
    results.sort(key=lambda r: (order[r[0]], r[1]))
    lines, meta, nops = [], [], []
    recorded = {}
    for kind, idx, hist, cov, distinct, broken, viols, ls, ms in results:
        for k, v in hist.items(): rep.count(k, v)
        rep.cov['evaluations'] += cov.get('evaluations', 0)
        rep.cov['programs'] = rep.cov.get('programs', 0) + cov.get('programs', 0)
        for key in ('accepted_per_strategy', 'refused_per_strategy'):
            tgt = rep.cov.setdefault(key, {})
            for k, v in cov.get(key, {}).items(): tgt[k] = tgt.get(k, 0) + v
        nops += cov.get('nops', [])
        for s in cov.get('samples', []): rep.sample(s, cap=14)
        rep.distinct |= distinct
        for b in broken: rep.broke(*b)
        for shape, what, d in viols:
            recorded[shape] = recorded.get(shape, 0) + 1
            if recorded[shape] <= PER_SHAPE:
                d = dict(d); d['shape'] = shape; d['finding'] = FINDING_OF_SHAPE.get(shape)
                rep.violation(what, d)
        lines += ls; meta += ms
    # correspondence: the Lean evaluator on the lowered programs
    model = run_driver(lines)
    rep.cov['traces_model_vs_impl'] = len(lines)
    for line, (kind, what, x, got, desc), m in zip(lines, meta, model):
        if m.startswith('bad-'):
            rep.count('model-unsupported:' + m[:40]); continue
        if kind == 'f2f':
            # number model of the emitted rounding (value only: a program does not observe flags)
            rep.count('f2f-model-evaluations')
            mp = parse_res(m)
            mv = 'err ' + mp[1] if mp[0] == 'err' else f'ok (n {mp[1]})'
            if mv != got:
                rep.broke('correspondence', 'C10.float_to_fixed-model', f'{what}\n{desc}\noperand={x}\nimpl ={got}\nmodel={mv}\nline={line}')
            continue
        if m != got:
            rep.broke('correspondence', 'C10.eval-lowered', f'{what}\n{desc}\noperand={x}\nimpl ={got}\nmodel={m}\nline={line}')
    rep.cov['operands_per_context'] = {'min': min(nops) if nops else 0, 'max': max(nops) if nops else 0,
                                       'mean': round(sum(nops) / len(nops), 1) if nops else 0}
    rep.cov['contexts'] = len(nops)
    rep.cov['jobs'] = jobs
    rep.cov['rule'] = ('(1) plain sites: source contexts = fixed corpus (IEEE half in all 8 modes, single, EFloat with each NaN kind x inf on/off x substitutes x shifted exponent, '
                       'MPS/MPB floats with mirrored and asymmetric bounds, two\'s-complement / sign-magnitude / MPFixed / MPBFixed with every overflow mode, ExpContext, '
                       'signed zero on/off, finite and non-finite substitutes) + seeded random small contexts of all families; variants: assign, returned round, '
                       'pre-rounded operand, two rounds in a block, monomorphized argument; context written as a constructor call or bound at module level; '
                       '(2) embedded sites: the rounding inside each arm of `if`/`elif`/nested `if` on random conditions (==, !=, <, <=, >, >= against 0, non-zero literals, another '
                       'variable, chains, isnan/isinf/isfinite/signbit, and/or/not), after assignments fixing the class of the operand (abs, squares, literals, min/max, NaN scrubbing, '
                       'if-expressions), after another rounding under a second context, two lowerable roundings in sequence, in for/while loops (incl. a loop-carried operand), after '
                       'assert / early return, under contexts computed or selected at run time (partial evaluation); inputs (x, z): NaN, +-inf, +-0, the literal and its neighbours, '
                       'the edges of the format, z incl. NaN and x itself (arms reached are counted); '
                       'every strategy alone (unfold_overflow also with early_check) and every prefix of the documented chains on all of them; '
                       '(3) elim_round / insert_round on templates (straight-line, branches, loops) monomorphized to argument formats, inputs are members of those formats; '
                       'operands of (1): breakpoints of the format, neighbourhood of +-maxval, the first value past it, infval, ties, subnormal seam, huge/tiny, specials, non-dyadic rationals; '
                       'distinct = distinct (context text, program, effective strategy sequence, arguments)')
    rep.assumptions += ['the oracle for each lowered program is the real interpreter on the original program (the property is an equivalence of two real programs)',
                        'NaN sign is not compared (canonical form `nan`)',
                        'a later chain step that raises on the output of an earlier step is recorded (strategy-error) and not judged',
                        'work items draw from per-item PRNG streams derived from VERIF_SEED, so the run does not depend on the number of worker processes']


def replay(rep, data):
    """re-run the recorded violations on the current tree: ./check C10 --replay replays/C10-<seed>-<tier>.json"""
    import re
    from fpy2.types import RealType
    env = {'Fraction': Fraction, 'Float': Float, 'RealFloat': RealFloat, 'fp': fp, 'float': float}
    tmp = tempfile.mkdtemp(prefix='fpyverif_C10_replay_', dir='/var/tmp')
    still = 0
    try:
        for i, v in enumerate(data.get('violations', [])):
            if 'program' not in v:
                print(f'[{i}] not a C10 violation record'); continue
            m = re.search(r'def (\w+)\(', v['program'])
            path = os.path.join(tmp, f'rp{i}.py')
            with open(path, 'w') as fh: fh.write(v['program'])
            try:
                fn = getattr(load_module(path, f'fpyverif_C10_replay_{i}'), m.group(1))
                x = eval(v['operand'], env)
                if v['strategy'] in ('elim_round', 'insert_round'):
                    fn = S.monomorphize(fn, fp.FP64, [RealType(py_ctx(a)) for a in v['arg_formats']])
                    xf = S.elim_round(fn) if v['strategy'] == 'elim_round' else S.insert_round(fn, py_ctx(v['ctx_src']))
                    args = x
                else:
                    if v.get('arg_format'):
                        fn = S.monomorphize(fn, None, [RealType(py_ctx(v['arg_format']))])
                    xf = fn
                    for nm in v['strategy'].split(' > '):
                        xf = STRATS[nm][0](xf)
                    args = x if isinstance(x, tuple) else (x,)
                want = run_real(fn, args); got = run_real(xf, args)
            except Exception as e:
                print(f'[{i}] {v.get("shape")}: replay failed: {type(e).__name__}: {e}'); continue
            same = (want == got) or not want.startswith('ok')
            still += 0 if same else 1
            print(f'[{i}] {v.get("shape")} | {v["strategy"]} on {v["ctx_src"][:90]} | operand {v["operand"][:70]}: original {want}, lowered {got} -> '
                  + ('no longer differs' if same else 'STILL DIFFERS'))
    finally:
        shutil.rmtree(tmp, ignore_errors=True)
    print(f'{still} recorded violation(s) still reproduce')
    sys.exit(1 if still else 0)
