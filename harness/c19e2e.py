"""C19, end-to-end half: do the edit logs, listings and cursors of the REAL passes name exactly what they say?

Generated @fp.fpy programs in which every statement carries a unique literal constant (>= 100001) and
every call site a distinct helper name + a unique literal, so a statement / call is recognisable by
content after any rewrite.  The oracle never uses the forwarding arithmetic of fpy2:

  step oracle (every application f -> g of every pass, judged from g.edits alone):
    O1  the reported edits are in range / disjoint and applying them top-down to f's statement tree
        gives g's tree: same block lengths, same statement kinds where a statement is "kept";
    O2  a kept statement keeps exactly its own tags (unless reported in exprs_rewritten: then a subset);
    O3  every occurrence in g of a tag of f sits where the log says its statement went: on the image of
        its (kept) statement, or inside the run that replaced its statement (or an enclosing one), or in
        an insertion put right before its statement when that statement's expressions were rewritten;
    O4  an empty log <=> the body text did not change;
    O5  forward(StmtCursor p): kept -> the very node; replaced -> exactly the replacing run;
        deleted / under a replaced statement -> TransformReferenceError.  Expression cursors of listed
        sites forward to an expression with the same tags or raise.
  aiming oracle (every aimable pass incl. user Rewrite rules):
    D1  sites(...) are in visit order, disjoint from refusals, and account for every candidate;
    D2  where=None touches every listed site and nothing that is not (at or beneath) a listed site;
    D3  where=i: exactly the i-th listed site is transformed, recognised by TAG (statement sites: the
        one edit sits on it; expression sites: the site's signature (operator/callee + literals)
        is the one that disappears / gets wrapped, every other listed signature survives), and
        where=<cursor sites[i]> gives the identical program and log;
    D4  where in {-1, k, k+5} -> TransformReferenceError, True -> TypeError;
    D5  a statement cursor aims at the listed sites at or beneath it (and `within` lists them).
  chains: cursors taken on f0, 1-3 passes (aimable, edit-reporting, opaque), Function.forward judged
        by composing the per-step provenances; an earlier cursor used as `where` hits the descendant.
  structure (after EVERY application): the result AST is a TREE -- no node object at two program points
        (a function symbol / type annotation is no program point) -- and shares no statement / compound
        expression with the program it was given (`close` documents that it does).
  multiplicity: user rules whose right-hand side uses a pattern variable 0, 1, 2, 3 times (statement and
        expression rules), then a second pass aimed at each copy separately by index and by cursor: by
        POSITION exactly that copy changes.  Rules over every statement / expression form the matcher
        and the applier know (if / for / while / with / indexed assignment / assert / return /
        comprehension / literal / call / ternary / conditional / list reference), `repeat=2`.
  contract: what is not a name is rejected by kind (expression cursor to a statement-sited pass, cursors
        of another program, `within` of an expression, find / find_all(within), regions and their members,
        wrong types).
  measurement: c19.py runs the quick tier under coverage.py (branch=True) over fpy2/rewrite, transform/
        {cursor,path,utils}.py and fpy2/strategies and reports in rep.cov['code_coverage'] the functions
        and branches never executed.
"""
from __future__ import annotations
import importlib, os, re, sys, time, traceback
from collections import Counter

import fpy2 as fp
from fpy2 import strategies as st
from fpy2.ast import fpyast as A
from fpy2.function import Function
from fpy2.rewrite import Rewrite, find_all
from fpy2.transform import (BlockCursor, StmtCursor, ExprCursor, TransformReferenceError, TransformError,
                            TransformDeclined, ForUnrollStrategy, SplitLoopStrategy)
from fpy2.types import RealType

TAG0 = 100001

def H():
    return sys.modules['c19']

# ---------------------------------------------------------------------------
# generated module text

HELPERS = '''
K1 = 3.0
K2 = 5.0

@fp.fpy
def h1(a: fp.Real) -> fp.Real:
    return a * a

@fp.fpy
def h2(a: fp.Real) -> fp.Real:
    t = a * 3
    return t + 1

@fp.fpy
def h3(a: fp.Real) -> fp.Real:
    t = a * 5
    u = t + a
    return u * 2

@fp.fpy
def h4(a: fp.Real) -> fp.Real:
    return a + 7

@fp.fpy
def h5(a: fp.Real) -> fp.Real:
    s = a * a
    return s * a

@fp.fpy
def h6(a: fp.Real) -> fp.Real:
    r = a + 2
    q = r * r
    return q + a

@fp.fpy
def h7(a: fp.Real, b: fp.Real) -> fp.Real:
    m = a * b
    return m + a

@fp.pattern
def pair_l(a, b, c, d):
    y = a - c
    z = b - d

@fp.pattern
def pair_r3(a, b, c, d):
    y = a - c
    z = b - d
    z = z + y

@fp.pattern
def pair_r1(a, b, c, d):
    z = (a - c) + (b - d)

@fp.pattern
def tri_l(a, b, c, d, e, g):
    y = a - c
    z = b - d
    w = e - g

@fp.pattern
def tri_r2(a, b, c, d, e, g):
    y = (a - c) + (b - d)
    w = e - g

@fp.pattern
def one_l(a, c):
    y = a - c

@fp.pattern
def one_r2(a, c):
    y = a
    y = y - c

@fp.pattern
def one_r1(a, c):
    y = a + (-c)

@fp.pattern
def one_a0(a, c):
    y = -c

@fp.pattern
def one_a2(a, c):
    y = (a + a) - c

@fp.pattern
def one_a3(a, c):
    y = ((a + a) + a) - c

@fp.pattern
def one_c2(a, c):
    y = (a - c) - c

@fp.pattern
def r_if(a, c):
    if a > c:
        y = a - c
    else:
        y = c - a

@fp.pattern
def r_for(a, c):
    for y in [a, a]:
        y = y - c

@fp.pattern
def r_comp(a, c):
    y = [y - c for y in [a, a]]

@fp.pattern
def r_assert(a, c):
    assert a > c
    y = a - c

@fp.pattern
def r_while(a, c):
    y = a - c
    while y > c:
        y = y - c

@fp.pattern
def lit_l(a):
    y = a * 2

@fp.pattern
def lit_r(a):
    y = a + a

@fp.pattern
def if_l(a, c, d):
    if a > c:
        y = a - d
    else:
        y = d - a

@fp.pattern
def if_r(a, c, d):
    y = a - d

@fp.pattern
def while_l(y, c, d):
    while y < c:
        y = y + d

@fp.pattern
def while_r(y, c, d):
    if y < c:
        y = y + d
        while y < c:
            y = y + d

@fp.pattern
def assert_l(a, c):
    assert a > c

@fp.pattern
def assert_r(a, c):
    assert c < a

@fp.pattern
def ret_l(a, c):
    return a + c

@fp.pattern
def ret_r(a, c):
    return c + a

@fp.pattern
def neg_l(a):
    -a

@fp.pattern
def neg_r(a):
    0 - a

@fp.pattern
def comp_l(a, c):
    [e - c for e in a]

@fp.pattern
def comp_r(a, c):
    [e + (-c) for e in a]

@fp.pattern
def for_l(a, c, d):
    for i in [a, c]:
        y = i - d

@fp.pattern
def for_r(a, c, d):
    y = a - d
    y = c - d

@fp.pattern
def ctx_l(a, c):
    with fp.REAL:
        y = a - c

@fp.pattern
def ctx_r(a, c):
    with fp.REAL:
        with fp.REAL:
            y = a - c

@fp.pattern
def idx_l(v, a, c, d):
    v[a] = c - d

@fp.pattern
def idx_r(v, a, c, d):
    v[a] = c
    v[a] = v[a] - d

@fp.pattern
def fma_l(a, b, c):
    fp.fma(a, b, c)

@fp.pattern
def fma_r(a, b, c):
    a * b + c

@fp.pattern
def call_l(a):
    h1(a)

@fp.pattern
def call_r(a):
    a * a

@fp.pattern
def ife_l(a, b, c, d):
    (a if b > c else d)

@fp.pattern
def ife_r(a, b, c, d):
    (d if b <= c else a)

@fp.pattern
def ref_l(a, b, c):
    [a, b][c]

@fp.pattern
def ref_r(a, b, c):
    [b, a][c]

@fp.pattern
def e_l(a, c):
    a - c

@fp.pattern
def e_a0(a, c):
    -c

@fp.pattern
def e_a2(a, c):
    (a + a) + (-c)

@fp.pattern
def e_a3(a, c):
    ((a + a) + a) + (-c)

@fp.pattern
def e_r(a, c):
    a + (-c)
'''

NHELP = 6

class Gen:
    """source text of tagged programs"""
    def __init__(self, R, tags):
        self.R = R; self.tags = tags
    def t(self):
        return next(self.tags)
    def h(self):
        return f'h{self.R.randint(1, NHELP)}'
    def call(self, arg=None):
        R = self.R
        arg = arg or R.choice(['acc', 'x'])
        k = R.random()
        if k < 0.6: return f'{self.h()}({arg} + {self.t()})'
        if k < 0.8:
            a, b = R.sample(range(1, NHELP + 1), 2)
            return f'h{a}(h{b}({arg} + {self.t()}))'
        return f'{self.h()}({arg} - {self.t()})'
    def expr(self, arg=None):
        """an expression with sites of the expression-sited passes"""
        R = self.R
        k = R.random()
        if k < 0.35: return self.call(arg)
        if k < 0.45: return f'h7({self.call(arg)}, {self.call("x")})'
        if k < 0.5: return f'({self.call(arg)} if acc > {self.call("x")} else {self.call("x")})'
        if k < 0.55: return f'[{self.call(arg)}, x][{self.call("x")} * 0]'
        if k < 0.6: return f'({self.call(arg)} + {self.call(arg)})'
        if k < 0.7: return f'({arg or "acc"} - {self.t()})'
        if k < 0.8: return f'({self.call(arg)} - {self.t()})'
        return f'({arg or "x"} + {self.t()})'

    def general(self, name):
        R = self.R
        L = ['@fp.fpy(ctx=fp.REAL)', f'def {name}(xs: list[fp.Real], x: fp.Real) -> fp.Real:',
             f'    acc = x + {self.t()}', '    ys = [x, x, acc]']
        budget = [R.randint(6, 16)]
        def pair(pad, n=2):
            a = R.choice(['acc', 'x', self.call('x'), f'(x - {self.t()})'])
            for k in range(n):
                L.append(f'{pad}{"uwv"[k]}{self.t()} = {a if k % 2 == 0 else "x"} - {self.t()}')
        def block(ind, depth):
            pad = '    ' * ind
            for _ in range(R.randint(1, 4)):
                budget[0] -= 1
                k = R.random()
                if depth >= 3 or budget[0] <= 0 or k < 0.12:
                    L.append(f'{pad}acc = acc + {R.choice(["", "", "K1 + ", "K2 + "])}{self.t()}')
                elif k < 0.26:
                    L.append(f'{pad}acc = acc + {self.expr()}')
                elif k < 0.42:
                    m = R.random()
                    if m < 0.6: pair(pad)
                    elif m < 0.67: pair(pad, 3)
                    elif m < 0.95:
                        pair(pad); L.append(f'{pad}acc = acc + {self.t()}'); pair(pad)
                    else:
                        pair(pad); pair(pad)
                elif k < 0.52:
                    L.append(f'{pad}ys[{self.expr("x")}] = {self.expr()}')
                elif k < 0.64:
                    it = R.choice(['xs', f'[{self.expr("x")}, acc + {self.t()}]', f'[x + {self.t()}, x, acc]',
                                   f'[x + {self.t()}, x, acc, x]', f'[{self.call("x")}, x]'])
                    L.append(f'{pad}for a{depth} in {it}:')
                    block(ind + 1, depth + 1)
                elif k < 0.73:
                    L.append(f'{pad}while acc < {R.choice([str(self.t()), self.call("x"), "(x - %d)" % self.t()])}:')
                    block(ind + 1, depth + 1)
                elif k < 0.8:
                    L.append(f'{pad}if acc > {self.expr("x")}:')
                    block(ind + 1, depth + 1)
                    L.append(f'{pad}else:')
                    block(ind + 1, depth + 1)
                elif k < 0.85:
                    L.append(f'{pad}if acc > {self.expr("x")}:')
                    block(ind + 1, depth + 1)
                elif k < 0.94:
                    ctx = R.choice(['fp.FP16', 'fp.FP32', 'fp.FP64', 'fp.FixedContext(True, -4, 12)', 'fp.REAL', 'fp.FP16',
                                    'fp.IEEEContext(5, 16, fp.RM.RNE)', 'fp.MPFixedContext(-4, fp.RM.RTZ)'])
                    L.append(f'{pad}with {ctx}:')
                    pv = None
                    for _ in range(R.choice([1, 1, 2])):
                        pv = f'p{self.t()}'
                        L.append(f'{pad}    {pv} = fp.round({R.choice(["acc", "x"])})')
                    if R.random() < 0.5:
                        L.append(f'{pad}q{self.t()} = {pv} * {pv}')
                else:
                    if R.random() < 0.5:
                        L.append(f'{pad}z{self.t()} = [{self.call("e")} for e in xs]')
                    else:
                        L.append(f'{pad}z{self.t()} = [e - {self.t()} for e in [{self.call("x")}, x]]')
        while budget[0] > 0:
            block(1, 0)
        # shapes every program has: two matches of the statement rules in ONE block with a statement between and after,
        # an indexed assignment with a site in the index and in the value, a loop whose iterable holds sites
        must = [lambda: (pair('    '), L.append(f'    acc = acc + {self.t()}'), pair('    '), L.append(f'    acc = acc + {self.t()}')),
                lambda: L.append(f'    ys[{self.call("x")}] = {self.call()}'),
                lambda: (L.append(f'    for b0 in [{self.call("x")}, (acc - {self.t()})]:'), L.append(f'        acc = acc + b0 + {self.t()}'),
                         L.append(f'    acc = acc + {self.t()}'))]
        R.shuffle(must)
        for m in must[:R.choice([2, 3, 3])]: m()
        baits = [lambda: L.append(f'    d{self.t()} = ({R.choice(["x", self.call("x")])} - {self.t()}) * 2'),
                 lambda: self.bait_if(L),
                 lambda: (L.append(f'    while acc < {self.t()}:'), L.append(f'        acc = acc + {self.t()}')),
                 lambda: L.append(f'    acc = acc - (-({R.choice(["x", self.call("x")])} + {self.t()}))'),
                 lambda: L.append(f'    m{self.t()} = [e - {self.t()} for e in [{self.call("x")}, x]]'),
                 lambda: (L.append(f'    for j0 in [x + {self.t()}, acc]:'), L.append(f'        g{self.t()} = j0 - {self.t()}')),
                 lambda: (L.append(f'    with fp.REAL:'), L.append(f'        k{self.t()} = x - {self.t()}')),
                 lambda: L.append(f'    ys[x - {self.t()}] = acc - {self.t()}'),
                 lambda: L.append(f'    acc = fp.fma(acc, {self.call("x")}, {self.t()})'),
                 lambda: L.append(f'    assert acc > {R.choice([str(self.t()), self.call("x")])}'),
                 lambda: L.append(f'    s{self.t()} = ys[{self.call("x")} * 0:2]'),
                 lambda: L.append(f'    acc = acc + h1(x + {self.t()}) + h1({self.call("x")})')]
        R.shuffle(baits)
        for m in baits[:R.choice([4, 5, 6])]: m()
        L.append(f'    return acc + {self.expr()}')
        return '\n'.join(L) + '\n'

    def bait_if(self, L):
        v, d = f'v{self.t()}', self.t()
        L.append(f'    if acc > {self.t()}:'); L.append(f'        {v} = acc - {d}')
        L.append('    else:'); L.append(f'        {v} = {d} - acc')

    def mono(self, name):
        """exact operations on FP32 arguments under REAL: sites of insert_round(FP64) once monomorphized"""
        R = self.R
        L = ['@fp.fpy(ctx=fp.FP64)', f'def {name}(x: fp.Real, y: fp.Real) -> fp.Real:', '    with fp.REAL:',
             f'        acc = x * {self.t()}', '        ys = [x, y, acc]']
        def op(v=None):
            v = v or R.choice('xy')
            k = R.random()
            if k < 0.35: return f'{v} * {self.t()}'
            if k < 0.5: return f'abs({v} * {self.t()})'
            if k < 0.65: return f'-({v} * {self.t()})'
            if k < 0.85: return f'({v} * {self.t()}) * ({R.choice("xy")} * {self.t()})'
            return f'x * y'
        budget = [R.randint(4, 10)]
        def block(ind, depth):
            pad = '    ' * ind
            for _ in range(R.randint(1, 3)):
                budget[0] -= 1
                k = R.random()
                if depth >= 2 or budget[0] <= 0 or k < 0.35:
                    L.append(f'{pad}{"bcdk"[R.randrange(4)]}{self.t()} = {op()}')
                elif k < 0.5:
                    L.append(f'{pad}ys[abs({R.choice("xy")} * {self.t()}) * 0] = {op()}')
                elif k < 0.65:
                    L.append(f'{pad}for v{depth} in [{op()}, {op()}]:')
                    block(ind + 1, depth + 1)
                elif k < 0.75:
                    L.append(f'{pad}if {op()} > {self.t()}:')
                    block(ind + 1, depth + 1)
                    L.append(f'{pad}else:')
                    block(ind + 1, depth + 1)
                elif k < 0.85:
                    L.append(f'{pad}while abs(x * {self.t()}) < {self.t()}:')
                    block(ind + 1, depth + 1)
                else:
                    L.append(f'{pad}z{self.t()} = [e * {self.t()} for e in [{op()}, y]]')
        while budget[0] > 0:
            block(2, 0)
        must = [lambda: (L.append(f'        for w0 in [{op()}, {op()}]:'), L.append(f'            m{self.t()} = {op()}'),
                         L.append(f'        n{self.t()} = {op()}'), L.append(f'        n{self.t()} = {op()}')),
                lambda: L.append(f'        ys[abs({R.choice("xy")} * {self.t()}) * 0] = {R.choice("xy")} * {self.t()}')]
        R.shuffle(must)
        for m in must[:R.choice([1, 2, 2])]: m()
        L.append('    return acc')
        return '\n'.join(L) + '\n'

# ---------------------------------------------------------------------------
# tags, by walking the AST (not the printed text)

def _children(node):
    for cls in type(node).__mro__:
        for s in getattr(cls, '__slots__', ()):
            if s in ('_loc', 'fn'): continue
            v = getattr(node, s, None)
            yield from _flat(v)

def _flat(v):
    if isinstance(v, A.Ast):
        yield v
    elif isinstance(v, (list, tuple)):
        for x in v: yield from _flat(x)

def call_name(e):
    fn = getattr(e, 'fn', None)
    nm = getattr(fn, 'name', None)
    if isinstance(nm, str): return nm
    f = e.func
    while isinstance(f, A.Attribute): f = f.value
    return str(getattr(f, 'name', f))

def expr_tags(e, out=None):
    """Counter of tags in an expression tree"""
    out = Counter() if out is None else out
    if isinstance(e, A.Integer) and TAG0 <= e.val < TAG0 + 10 ** 6: out[('n', e.val)] += 1
    elif isinstance(e, A.Decnum):
        try:
            v = float(e.val)
            if TAG0 <= v < TAG0 + 10 ** 6 and v == int(v): out[('n', int(v))] += 1
        except ValueError: pass
    elif isinstance(e, A.Call):
        nm = call_name(e)
        if re.fullmatch(r'h\d+', nm): out[('c', nm)] += 1
    for c in _children(e):
        if isinstance(c, (A.StmtBlock, A.Stmt)): continue
        expr_tags(c, out)
    return out

_OWN = {}
def own_tags(s):
    """tags of a statement's own expressions (not of the blocks it holds); literal tags only"""
    hit = _OWN.get(id(s))
    if hit is not None and hit[0] is s: return hit[1]
    out = _own_tags(s)
    if len(_OWN) > 200000: _OWN.clear()
    _OWN[id(s)] = (s, out)
    return out

def _own_tags(s):
    out = Counter()
    for c in _children(s):
        if isinstance(c, (A.StmtBlock, A.Stmt)): continue
        expr_tags(c, out)
    return Counter({k: v for k, v in out.items() if k[0] == 'n'})

def subtree_nodes(n):
    """statement nodes of a harness shape node, itself included"""
    yield n
    for _, sub in H().children(n):
        for c in sub: yield from subtree_nodes(c)

def sig(e):
    """signature of an expression node: operator / callee + the literal tags inside"""
    nm = call_name(e) if isinstance(e, A.Call) else type(e).__name__
    return (nm, frozenset(k[1] for k in expr_tags(e) if k[0] == 'n'))

def all_exprs(func):
    """every expression node of a FuncDef, with the statement that owns it"""
    def ex(e, s):
        yield e, s
        for c in _children(e):
            if isinstance(c, A.Expr): yield from ex(c, s)
    def blk(b):
        for s in b.stmts:
            for c in _children(s):
                if isinstance(c, A.Expr): yield from ex(c, s)
                elif isinstance(c, A.StmtBlock): yield from blk(c)
    yield from blk(func.body)

def all_nodes(func):
    """every Ast node reachable from a FuncDef's body, with a readable path"""
    stack = [(func.body, 'body')]
    while stack:
        n, where = stack.pop()
        yield n, where
        for cls in type(n).__mro__:
            for sl in getattr(cls, '__slots__', ()):
                if sl in ('_loc', 'fn', 'func', 'type'): continue   # a function symbol / annotation is no program point
                v = getattr(n, sl, None)
                if isinstance(v, A.Ast): stack.append((v, f'{where}.{sl}'))
                elif isinstance(v, (list, tuple)):
                    for i, x in enumerate(v):
                        if isinstance(x, A.Ast): stack.append((x, f'{where}.{sl}[{i}]'))
                        elif isinstance(x, (list, tuple)):
                            for y in x:
                                if isinstance(y, A.Ast): stack.append((y, f'{where}.{sl}[{i}]'))

def tree_check(rep, name, f, g, replay):
    """the result of a pass is a TREE: no node object sits at two program points; and (counted, then judged by
    kind) which nodes it shares with the program it was given"""
    seen = {}
    dup = []
    for n, where in all_nodes(g.ast):
        if id(n) in seen and seen[id(n)][0] is n:
            dup.append((type(n).__name__, seen[id(n)][1], where))
        else:
            seen[id(n)] = (n, where)
    rep.count('e2e:tree-checked')
    if dup:
        rep.violation(f'{name}: the result is not a tree: one {dup[0][0]} node `{_fmt(seen, dup[0])}` sits at {dup[0][1]} and at {dup[0][2]}'
                      f' ({len(dup)} shared nodes); aiming by cursor compares nodes by identity', dict(replay, shared=[list(d) for d in dup[:6]]))
    if f.ast is not g.ast:
        big = []
        for n, where in all_nodes(f.ast):
            if id(n) in seen and seen[id(n)][0] is n:
                leaf = isinstance(n, (A.Var, A.ValueExpr, A.Attribute)) or not any(True for _ in _children(n))
                rep.count(f'e2e:tree:shared-with-input:{name.split("(")[0]}:{"leaf" if leaf else type(n).__name__}')
                if not leaf: big.append((type(n).__name__, where))
        # `close` documents that it prepends to the very statements it was given
        if big and not name.startswith('close'):
            rep.violation(f'{name}: the result shares the {big[0][0]} at {big[0][1]} (and {len(big) - 1} more nodes) with the program it was given',
                          dict(replay, shared=[list(b) for b in big[:6]]))
    return dup

def _fmt(seen, d):
    for n, w in seen.values():
        if w == d[1]:
            try: return n.format()
            except Exception: return type(n).__name__   # noqa
    return d[0]

def body_text(func):
    return '\n'.join(s.format() for s in func.body.stmts)

# ---------------------------------------------------------------------------
# the step oracle

class Step:
    """what one application f -> g did, as the Spec reads its reported log"""
    __slots__ = ('f', 'g', 'edits', 'prov', 'runs', 'S', 'T', 'newprov', 'dirty', 'ok')

def analyse_step(rep, name, f, g, replay):
    """O1..O4.  Returns a Step (ok=False when the log does not even describe the tree)."""
    h = H()
    stp = Step(); stp.f, stp.g, stp.ok = f, g, False
    S, T = h.shape(f.ast.body), h.shape(g.ast.body)
    stp.S, stp.T = S, T
    tree_check(rep, name, f, g, replay)
    log = g.edits
    edits = h.real_edits(log)
    stp.edits = edits
    rp = dict(replay, edits=str(log.edits), exprs_rewritten=[h.path_tok(h.unreal_sp(p)) for p in log.exprs_rewritten])
    if log.source is not f.ast or log.result is not g.ast:
        rep.violation(f'{name}: the log is not a log from this program to its result', rp); return stp
    if not h.py_wf(S, edits):
        rep.violation(f'{name}: the pass reported edits that are out of range or overlap', rp); return stp
    Rt, prov, runs = h.spec_apply(S, edits, lambda pos: [('L', ('FRESH', pos))] * edits[pos][3])
    stp.prov, stp.runs = prov, runs
    dirty = {h.unreal_sp(p) for p in log.exprs_rewritten}
    stp.dirty = dirty
    bad = []
    newprov = {}     # new path -> ('kept', old path) | ('fresh', pos)
    inv = {v[1]: k for k, v in prov.items() if v[0] == 'kept'}
    def mark_fresh(n, q, pos):
        newprov[q] = ('fresh', pos)
        for fld, sub in h.children(n):
            for j, c in enumerate(sub): mark_fresh(c, (q[0] + ((q[1], fld),), j), pos)
    def cmp(spec_blk, real_blk, nbp):
        if len(spec_blk) != len(real_blk):
            bad.append(f'block {h.bp_tok(nbp)} has {len(real_blk)} statements, the reported edits give {len(spec_blk)}')
            return
        for j, (a, b) in enumerate(zip(spec_blk, real_blk)):
            q = (nbp, j)
            if isinstance(a[1], tuple) and a[1][:1] == ('FRESH',):
                mark_fresh(b, q, a[1][1]); continue
            newprov[q] = ('kept', inv.get(q))
            if a[0] != b[0] or type(a[1]) is not type(b[1]):
                bad.append(f'{h.path_tok(q)}: kind changed {type(a[1]).__name__} -> {type(b[1]).__name__}'); continue
            for (fa, ca), (fb, cb) in zip(h.children(a), h.children(b)):
                cmp(ca, cb, nbp + ((j, fa),))
    cmp(Rt, T, ())
    if bad:
        rep.violation(f'{name}: the reported edits do not account for the change: ' + '; '.join(bad[:3]), rp)
        return stp
    stp.newprov = newprov
    # tag origins in f
    origin = {}
    for p, n in h.walk(S):
        for tg in own_tags(n[1]):
            origin.setdefault(tg, []).append(p)
    def status(p):
        """'kept' | ('gone', pos) for the edit that replaced p or an enclosing statement"""
        bp, i = p
        for d in range(len(bp)):
            v = prov.get((bp[:d], bp[d][0]))
            if v is None: return None
            if v[0] == 'gone': return v
        return prov.get(p)
    # O2 + O3
    for q, n in h.walk(T):
        pv = newprov.get(q)
        tags_q = own_tags(n[1])
        if pv is None: continue
        if pv[0] == 'kept':
            old = pv[1]
            if old is None: continue
            want = own_tags(h.node_at(S, old)[1])
            if old in dirty or not log.exprs_preserved:
                rep.count('e2e:O2-subset')
                extra = [t for t in tags_q if t in origin and t not in want]
            else:
                extra = None
                if tags_q != want:
                    bad.append(f'untouched statement {h.path_tok(old)} `{h.header(h.node_at(S, old)[1])}` is `{h.header(n[1])}` at {h.path_tok(q)}')
            if extra:
                bad.append(f'statement {h.path_tok(q)} `{h.header(n[1])}` carries tags {extra} of other statements')
        else:
            e = edits[pv[1]]
            for tg in tags_q:
                if tg not in origin: continue
                okay = False
                for p in origin[tg]:
                    stt = status(p)
                    if stt is not None and stt[0] == 'gone' and stt[1] == pv[1]: okay = True; break
                    if stt is not None and stt[0] == 'kept' and p[0] == e[0] and e[1] in (p[1], p[1] + 1) and (p in dirty or not log.exprs_preserved):
                        rep.count('e2e:O3-moved-out-of-dirty'); okay = True; break
                if okay: continue
                p = origin[tg][0]; stt = status(p)
                bad.append(f'tag {tg[1]} of statement {h.path_tok(p)} `{h.header(h.node_at(S, p)[1])}` (which the log says is '
                           f'{"untouched" if stt and stt[0] == "kept" else "replaced elsewhere"}) turned up at {h.path_tok(q)} inside the run of edit {e}')
    if bad:
        rep.violation(f'{name}: statements are not where the reported edits say: ' + '; '.join(bad[:3]), rp)
        return stp
    # O4
    same = body_text(f.ast) == body_text(g.ast)
    if not edits and not dirty and log.exprs_preserved and not same:
        rep.violation(f'{name}: the body changed but the log is empty', rp); return stp
    if edits and same:
        rep.count('e2e:O4-nonempty-log-same-text')
        if all(e[2] == e[3] == 0 for e in edits) is False and any(e[2] != e[3] for e in edits):
            rep.violation(f'{name}: the body did not change but the log reports edits that change block lengths', rp); return stp
    stp.ok = True
    return stp

def check_forward(rep, name, stp, replay, paths=None):
    """O5 for every (or the given) statement path of f, and for expression cursors of listed call/op sites"""
    h = H()
    f, g, S, T = stp.f, stp.g, stp.S, stp.T
    n = 0
    for p, node in (list(h.walk(S)) if paths is None else [(p, h.node_at(S, p)) for p in paths]):
        n += 1
        bp = p[0]
        inside = any(stp.prov.get((bp[:d], bp[d][0]), ('gone',))[0] != 'kept' for d in range(len(bp)))
        v = stp.prov.get(p)
        rp = dict(replay, cursor=h.path_tok(p), edits=str(g.edits.edits))
        try:
            out = g.forward(StmtCursor(f.ast, h.real_sp(p)))
        except TransformReferenceError as e:
            if not inside and v[0] == 'kept':
                rep.violation(f'{name}: untouched statement {h.path_tok(p)} `{h.header(node[1])}` failed to forward: {e}', rp)
            elif not inside and v[0] == 'gone' and stp.runs[v[1]][2] > 0:
                rep.violation(f'{name}: replaced statement {h.path_tok(p)} did not forward to its replacement: {e}', rp)
            else: rep.count('e2e:O5-error-expected')
            continue
        except Exception as e:   # noqa
            rep.violation(f'{name}: forwarding {h.path_tok(p)} raised {type(e).__name__}: {e}', rp); continue
        got = out.resolve() if isinstance(out, BlockCursor) else [out.resolve()]
        if inside or (v[0] == 'gone' and stp.runs[v[1]][2] == 0):
            rep.violation(f'{name}: cursor {h.path_tok(p)} `{h.header(node[1])}` names a deleted / rebuilt statement but resolved to '
                          f'`{[h.header(s) for s in got]}`', rp); continue
        if v[0] == 'kept':
            want = [h.node_at(T, v[1])[1]]
            rep.count('e2e:O5-kept')
        else:
            nb, a, cnt = stp.runs[v[1]]
            want = [h.node_at(T, (nb, j))[1] for j in range(a, a + cnt)]
            rep.count('e2e:O5-replaced')
        if [id(s) for s in got] != [id(s) for s in want]:
            rep.violation(f'{name}: cursor {h.path_tok(p)} `{h.header(node[1])}` resolved to `{[h.header(s) for s in got]}`, '
                          f'the Spec image is `{[h.header(s) for s in want]}`', rp)
        elif v[0] == 'kept' and p not in stp.dirty and g.edits.exprs_preserved and own_tags(got[0]) != own_tags(node[1]):
            rep.violation(f'{name}: untouched cursor {h.path_tok(p)} `{h.header(node[1])}` resolved to `{h.header(got[0])}`', rp)
    return n

def near_paths(R, stp, order, extra=4):
    """the statement paths an edit could disturb: everything in a block that holds an edit, the statements
    enclosing such a block and those under a replaced statement; plus a few others"""
    h = H()
    blocks = {e[0] for e in stp.edits}
    out = []
    for p in order:
        if p[0] in blocks or any(b[:len(p[0])] == p[0] and len(b) > len(p[0]) and b[len(p[0])][0] == p[1] for b in blocks) \
                or any(p[0][:len(b)] == b for b in blocks) or p in stp.dirty:
            out.append(p)
    rest = [p for p in order if p not in out]
    return out[:40] + R.sample(rest, min(extra, len(rest)))

def check_forward_exprs(rep, name, stp, cursors, replay):
    """expression cursors (listed sites of f) across the step: same tags or a reference error"""
    h = H()
    n = 0
    for c in cursors:
        n += 1
        sp = h.unreal_sp(c.path.stmt())
        want = expr_tags(c.resolve())
        bp = sp[0]
        inside = any(stp.prov.get((bp[:d], bp[d][0]), ('gone',))[0] != 'kept' for d in range(len(bp)))
        kept = (not inside) and stp.prov.get(sp, ('gone',))[0] == 'kept'
        may = kept and sp not in stp.dirty and stp.g.edits.exprs_preserved
        rp = dict(replay, cursor=str(c).split(' at')[0], edits=str(stp.g.edits.edits))
        try:
            out = stp.g.forward(c)
        except TransformReferenceError as e:
            if may: rep.violation(f'{name}: expression cursor {rp["cursor"]} of an untouched statement failed to forward: {e}', rp)
            else: rep.count('e2e:O5-expr-error-expected')
            continue
        except Exception as e:   # noqa
            rep.violation(f'{name}: forwarding expression cursor raised {type(e).__name__}: {e}', rp); continue
        if not may:
            rep.violation(f'{name}: expression cursor {rp["cursor"]} forwarded although its statement was replaced / its expressions rewritten', rp); continue
        rep.count('e2e:O5-expr-kept')
        if not isinstance(out, ExprCursor) or expr_tags(out.resolve()) != want or type(out.resolve()) is not type(c.resolve()):
            rep.violation(f'{name}: expression cursor {rp["cursor"]} `{c.resolve().format()}` resolved to `{out.resolve().format()}`', rp)
    return n

# ---------------------------------------------------------------------------
# the passes

class Strat:
    def __init__(self, name, apply, sites=None, refusals=None, kind='stmt', cand=None, recog=None, family='G'):
        self.name, self.apply, self.sites, self.refusals = name, apply, sites, refusals
        self.kind, self.cand, self.recog, self.family = kind, cand, recog, family

def _rewrite(name, lhs, rhs, kind):
    rw = Rewrite(lhs, rhs, name=name)
    return Strat(f'Rewrite({name})', lambda f, w: rw.apply(f, w), lambda f: find_all(lhs, f), None, kind,
                 recog='gone' if kind == 'expr' else None)

def strategies(mod):
    Int2 = A.Integer(2, None)
    def lister(fn, **kw):
        return (lambda f: st.sites(fn, f, **kw)), (lambda f: st.refusals(fn, f, **kw))
    out = []
    def add(name, apply, fn, kw, kind='stmt', cand=None, recog=None, family='G'):
        s, r = lister(fn, **kw)
        out.append(Strat(name, apply, s, r, kind, cand, recog, family))
    add('unroll_for', lambda f, w: st.unroll_for(f, where=w), st.unroll_for, {}, cand=A.ForStmt)
    add('unroll_for(times=2)', lambda f, w: st.unroll_for(f, where=w, times=2), st.unroll_for, {'times': 2}, cand=A.ForStmt)
    add('unroll_for(STRICT)', lambda f, w: st.unroll_for(f, where=w, times=1, strategy=ForUnrollStrategy.STRICT), st.unroll_for,
        {'times': 1, 'strategy': ForUnrollStrategy.STRICT}, cand=A.ForStmt)
    add('unroll_while', lambda f, w: st.unroll_while(f, where=w), st.unroll_while, {}, cand=A.WhileStmt)
    add('unroll_while(times=2)', lambda f, w: st.unroll_while(f, where=w, times=2), st.unroll_while, {}, cand=A.WhileStmt)
    add('split(2)', lambda f, w: st.split(f, 2, where=w), st.split, {'factor': Int2}, cand=A.ForStmt)
    add('split(2,STRICT)', lambda f, w: st.split(f, 2, where=w, strategy=SplitLoopStrategy.STRICT), st.split,
        {'factor': Int2, 'strategy': SplitLoopStrategy.STRICT}, cand=A.ForStmt)
    for nm, fn in [('unfold_special', st.unfold_special), ('unfold_neg_zero', st.unfold_neg_zero), ('unfold_overflow', st.unfold_overflow),
                   ('float_to_fixed', st.float_to_fixed), ('rescale_fixed', st.rescale_fixed)]:
        add(nm, (lambda fn: lambda f, w: fn(f, where=w))(fn), fn, {}, cand='round')
    add('inline', lambda f, w: st.inline(f, where=w), st.inline, {}, kind='expr', recog='gone')
    add('insert_round(FP64)', lambda f, w: st.insert_round(f, fp.FP64, where=w), st.insert_round, {'ctx': fp.FP64}, kind='expr', recog='wrapped')
    add('insert_round(FP64)', lambda f, w: st.insert_round(f, fp.FP64, where=w), st.insert_round, {'ctx': fp.FP64}, kind='expr', recog='wrapped', family='M')
    out.append(_rewrite('pair2->3', mod.pair_l, mod.pair_r3, 'stmt'))
    out.append(_rewrite('pair2->1', mod.pair_l, mod.pair_r1, 'stmt'))
    out.append(_rewrite('tri3->2', mod.tri_l, mod.tri_r2, 'stmt'))
    out.append(_rewrite('one1->2', mod.one_l, mod.one_r2, 'stmt'))
    out.append(_rewrite('one1->1', mod.one_l, mod.one_r1, 'stmt'))
    out.append(_rewrite('sub->addneg', mod.e_l, mod.e_r, 'expr'))
    for nm, rhs in [('stmt:a*0', mod.one_a0), ('stmt:a*2', mod.one_a2), ('stmt:a*3', mod.one_a3), ('stmt:c*2', mod.one_c2)]:
        r = _rewrite(nm, mod.one_l, rhs, 'stmt'); r.family = 'dup'; out.append(r)
    for nm, rhs in [('expr:a*0', mod.e_a0), ('expr:a*2', mod.e_a2), ('expr:a*3', mod.e_a3)]:
        r = _rewrite(nm, mod.e_l, rhs, 'expr'); r.family = 'dup'; out.append(r)
    # rules over every statement / expression form the matcher and the applier know (family 'cov')
    for nm, l, r_, kind in [('1->if', mod.one_l, mod.r_if, 'stmt'), ('1->for', mod.one_l, mod.r_for, 'stmt'),
                            ('1->comp', mod.one_l, mod.r_comp, 'stmt'), ('1->assert', mod.one_l, mod.r_assert, 'stmt'), ('1->while', mod.one_l, mod.r_while, 'stmt'),
                            ('lit*2', mod.lit_l, mod.lit_r, 'stmt'), ('if->1', mod.if_l, mod.if_r, 'stmt'), ('for->2', mod.for_l, mod.for_r, 'stmt'),
                            ('with->with2', mod.ctx_l, mod.ctx_r, 'stmt'), ('idx->2', mod.idx_l, mod.idx_r, 'stmt'),
                            ('while->if', mod.while_l, mod.while_r, 'stmt'), ('assert', mod.assert_l, mod.assert_r, 'stmt'),
                            ('return', mod.ret_l, mod.ret_r, 'stmt'), ('neg', mod.neg_l, mod.neg_r, 'expr'), ('comp', mod.comp_l, mod.comp_r, 'expr'),
                            ('fma->muladd', mod.fma_l, mod.fma_r, 'expr'), ('h1->sq', mod.call_l, mod.call_r, 'expr'),
                            ('ifexpr', mod.ife_l, mod.ife_r, 'expr'), ('listref', mod.ref_l, mod.ref_r, 'expr')]:
        r = _rewrite(nm, l, r_, kind); r.family = 'cov'; out.append(r)
    for nm, l, r_, kind in [('pair2->3,repeat=2', mod.pair_l, mod.pair_r3, 'stmt'), ('sub->addneg,repeat=2', mod.e_l, mod.e_a2, 'expr')]:
        rw = Rewrite(l, r_, name=nm)
        out.append(Strat(f'Rewrite({nm})', (lambda rw: lambda f, w: rw.apply(f, w, repeat=2))(rw), (lambda l: lambda f: find_all(l, f))(l), None, kind,
                         recog='gone' if kind == 'expr' else None, family='cov'))
    # passes that take no `where` but report (or refuse to report) what they did
    out.append(Strat('lift_context', lambda f, w: st.lift_context(f), kind='plain'))
    out.append(Strat('close', lambda f, w: st.close(f), kind='plain'))
    out.append(Strat('monomorphize', lambda f, w: st.monomorphize(f, fp.REAL), kind='plain'))
    out.append(Strat('simplify', lambda f, w: st.simplify(f), kind='opaque'))
    out.append(Strat('elim_round', lambda f, w: st.elim_round(f), kind='opaque'))
    out.append(Strat('fuse', lambda f, w: st.fuse(f), kind='opaque'))
    out.append(Strat('elim_iter', lambda f, w: st.elim_iter(f), kind='opaque'))
    return out

def site_region(c):
    """(block path, lo, hi) of a statement-kind site; for an expression site: its statement"""
    h = H()
    if isinstance(c, StmtCursor):
        p = h.unreal_sp(c.path); return (p[0], p[1], p[1] + 1)
    if isinstance(c, BlockCursor):
        return (h.unreal_bp(c.block_path), c.span.start, c.span.stop)
    p = h.unreal_sp(c.path.stmt()); return (p[0], p[1], p[1] + 1)

def expr_path_key(c):
    """root-first chain of (field, index) from the statement down to the expression"""
    out = []
    p = c.path
    while not isinstance(p, type(c.path.stmt())):
        out.append((p.field, p.index)); p = p.parent
    return tuple(reversed(out))

def my_expr_order(func):
    """an independent statement of 'visit order' for expression sites: statements in visit order
    (a statement before its blocks); within a statement whatever order -- only the statement order and
    outermost-first are documented, so only those are judged"""
    return None

# ---------------------------------------------------------------------------
# the aiming oracle

def resolve_key(stmt, key):
    """the expression at a root-first chain of (field, index) under a statement node, or None"""
    cur = stmt
    try:
        for field, index in key:
            v = getattr(cur, field)
            if field == 'kwargs': v = [x for _, x in v]
            cur = v if index is None else v[index]
        return cur if isinstance(cur, A.Expr) else None
    except (AttributeError, IndexError, TypeError):
        return None

def wrapped_sigs(func):
    """signatures of operations that are alone in a one-statement `with` block (what insert_round emits),
    the literals of operands hoisted into `_t = ...` temporaries right before the block counted in"""
    out = Counter()
    def blk(b):
        for i, s in enumerate(b.stmts):
            if isinstance(s, A.ContextStmt) and len(s.body.stmts) == 1 and isinstance(s.body.stmts[0], A.Assign):
                nm, tg = sig(s.body.stmts[0].expr)
                tg = set(tg)
                j = i - 1
                while j >= 0 and isinstance(b.stmts[j], A.Assign) and str(getattr(b.stmts[j].target, 'base', b.stmts[j].target)).startswith('_t'):
                    tg |= {k[1] for k in expr_tags(b.stmts[j].expr) if k[0] == 'n'}; j -= 1
                out[(nm, frozenset(tg))] += 1
            for c in _children(s):
                if isinstance(c, A.StmtBlock): blk(c)
    blk(func.body)
    return out

def all_sigs(func):
    return Counter(sig(e) for e, _ in all_exprs(func))

def aim_oracle(rep, R, S_, f, src, evals, full=True, expr_curs=(), d5=True):
    h = H()
    name = S_.name
    replay = {'program': src, 'strategy': name}
    S = h.shape(f.ast.body)
    order = [p for p, _ in h.walk(S)]
    try:
        ss = S_.sites(f)
        rr = S_.refusals(f) if S_.refusals else []
    except Exception as e:   # noqa
        rep.count(f'e2e:{name}:listing-failed:{type(e).__name__}')
        if isinstance(e, TransformError):
            rep.violation(f'{name}: listing the sites of a valid program failed: {type(e).__name__}: {e}', replay)
        else: note_crash(rep, name + ' (listing)', src, e)
        return
    k = len(ss)
    evals[0] += 1
    rep.count(f'e2e:{name}:k={min(k, 4)}{"+" if k > 4 else ""}')
    if rr: rep.count(f'e2e:{name}:refusals')
    regs = [site_region(c) for c in ss]
    # D1
    if name.startswith('Rewrite') and S_.kind == 'stmt':
        # find_all lists the windows of a block before those of the blocks it holds ("outermost-first")
        border = [bp for bp, _ in h.blocks_of(S)]
        keys = [((border.index(r[0]), r[1]), ()) for r in regs]
    else:
        keys = [(order.index((r[0], r[1])), expr_path_key(c) if isinstance(c, ExprCursor) else ()) for r, c in zip(regs, ss)]
    if [x[0] for x in keys] != sorted(x[0] for x in keys):
        rep.violation(f'{name}: the listing is not in visit order of statements', dict(replay, sites=[str(c).split(' at')[0] for c in ss]))
    if len({(r, kk[1]) for r, kk in zip(regs, keys)}) != k:
        rep.violation(f'{name}: the listing has duplicates', dict(replay, sites=[str(c).split(' at')[0] for c in ss]))
    for a, b in zip(range(k), range(1, k)):   # outermost first within one statement
        if regs[a] == regs[b] and keys[b][1] and keys[a][1][:len(keys[b][1])] == keys[b][1] and len(keys[a][1]) > len(keys[b][1]):
            rep.violation(f'{name}: an inner site is listed before the expression that encloses it', dict(replay, sites=[str(c).split(' at')[0] for c in ss]))
    refkeys = set()
    for c, _ in rr:
        r = site_region(c)
        refkeys.add((r, expr_path_key(c) if isinstance(c, ExprCursor) else ()))
    if refkeys & {(r, kk[1]) for r, kk in zip(regs, keys)}:
        rep.violation(f'{name}: a point is both a site and a refusal', replay)
    if S_.cand is not None:
        cand = [p for p, n in h.walk(S) if (h.is_round_block(n[1]) if S_.cand == 'round' else isinstance(n[1], S_.cand))]
        listed = {(r[0], r[1]) for r in regs} | {(r[0][0], r[0][1]) for r in refkeys}
        if set(cand) != listed:
            rep.violation(f'{name}: considered points {[h.path_tok(p) for p in cand]} are not all listed as a site or explained as a refusal: '
                          f'sites {[h.path_tok((r[0], r[1])) for r in regs]}, refusals {[h.path_tok((r[0][0], r[0][1])) for r in refkeys]}', replay)
    if S_.name == 'inline':
        # every call of a helper is a site or a refusal
        calls = Counter(sig(e) for e, _ in all_exprs(f.ast) if isinstance(e, A.Call) and re.fullmatch(r'h\d+', call_name(e)))
        listed = Counter(sig(c.resolve()) for c in ss) + Counter(sig(c.resolve()) for c, _ in rr)
        if calls != listed:
            rep.violation(f'inline: the calls {sorted(map(str, calls))} are not all listed as a site or a refusal: {sorted(map(str, listed))}', replay)
    def in_site(p, r):
        """statement path p lies in region r or beneath it"""
        return any(h.beneath_py(p, (r[0], i)) for i in range(r[1], r[2]))
    def touched_stmts(stp):
        return {(e[0], i) for e in stp.edits for i in range(e[1], e[1] + max(e[2], 0))} | set(stp.dirty) | \
               {(e[0], e[1]) for e in stp.edits if e[2] == 0}
    # D2: where=None
    g = None
    try:
        g = S_.apply(f, None); evals[0] += 1
    except TransformDeclined:
        rep.count(f'e2e:{name}:where=None-declined')
    except TransformReferenceError as e:
        if k: rep.violation(f'{name}: where=None rejected although {k} sites are listed: {e}', replay)
        else: rep.count(f'e2e:{name}:where=None-nothing')
    except Exception as e:   # noqa
        rep.count(f'e2e:{name}:where=None-failed:{type(e).__name__}'); note_crash(rep, name, src, e)
    if g is not None:
        stp = analyse_step(rep, f'{name}(where=None)', f, g, dict(replay, where=None))
        if stp.ok:
            evals[0] += check_forward(rep, f'{name}(where=None)', stp, dict(replay, where=None))
            evals[0] += check_forward_exprs(rep, f'{name}(where=None)', stp, expr_curs, dict(replay, where=None))
            tch = touched_stmts(stp)
            for j, r in enumerate(regs):
                hit = any(in_site(p, r) for p in tch) or any(any(h.beneath_py((r[0], i), p) for i in range(r[1], r[2])) for p in
                                                             {(e[0], i) for e in stp.edits for i in range(e[1], e[1] + e[2])})
                if not hit:
                    rep.violation(f'{name}: where=None left listed site {j} ({str(ss[j]).split(" at")[0]}) untouched', dict(replay, edits=str(g.edits.edits)))
            for p in tch:
                if not any(in_site(p, r) for r in regs):
                    rep.violation(f'{name}: where=None touched {h.path_tok(p)}, which is not (beneath) a listed site', dict(replay, edits=str(g.edits.edits)))
            if S_.kind == 'stmt':
                want = sorted(h.outermost_regions(regs))
                got = sorted((e[0], e[1], e[1] + e[2]) for e in stp.edits if e[2])
                if got != want:
                    rep.violation(f'{name}: where=None must replace exactly the listed sites {want}; the reported edits replace {got}', dict(replay, edits=str(g.edits.edits)))
    if not full: return
    # D3 / D4: where = j
    base_sigs = all_sigs(f.ast)
    site_sigs = [sig(c.resolve()) if isinstance(c, ExprCursor) else None for c in ss]
    valid = list(range(k)) if k <= 4 else sorted({0, k - 1} | set(R.sample(range(k), 3)))
    for j in [-1] + valid + [k, k + 5, True]:
        evals[0] += 1
        rp2 = dict(replay, where=repr(j))
        try:
            g = S_.apply(f, j)
        except TypeError as e:
            if j is not True: rep.violation(f'{name}: where={j!r} raised TypeError', dict(rp2, error=str(e)))
            else: rep.count('e2e:bool-rejected')
            continue
        except TransformReferenceError as e:
            if j is True or 0 <= j < k:
                rep.violation(f'{name}: where={j!r} names listed site {j} of {k} but was rejected', dict(rp2, error=str(e)))
            else: rep.count('e2e:bad-index-rejected')
            continue
        except TransformDeclined as e:
            rep.violation(f'{name}: where={j!r} declined although an index never names a refusal', dict(rp2, error=str(e))); continue
        except Exception as e:   # noqa
            rep.count(f'e2e:{name}:where=j-failed:{type(e).__name__}'); note_crash(rep, name, src, e); continue
        if j is True or not (0 <= j < k):
            rep.violation(f'{name}: where={j!r} was accepted with {k} sites', dict(rp2, edits=str(g.edits.edits))); continue
        rep.count('e2e:index-accepted')
        stp = analyse_step(rep, f'{name}(where={j})', f, g, rp2)
        if not stp.ok: continue
        evals[0] += check_forward(rep, f'{name}(where={j})', stp, rp2, paths=near_paths(R, stp, order))
        evals[0] += check_forward_exprs(rep, f'{name}(where={j})', stp, expr_curs[:5], rp2)
        r = regs[j]
        if S_.kind == 'stmt':
            got = [(e[0], e[1], e[1] + e[2]) for e in stp.edits]
            if got != [r] or stp.dirty:
                rep.violation(f'{name}: where={j} must rewrite exactly site {j} = {str(ss[j]).split(" at")[0]}; reported edits {g.edits.edits}', rp2)
        else:
            tch = touched_stmts(stp)
            if not any(in_site(p, r) for p in tch):
                rep.violation(f'{name}: where={j} did not touch the statement of site {j} ({str(ss[j]).split(" at")[0]}); edits {g.edits.edits}', rp2)
            if any(not in_site(p, r) for p in tch):
                rep.violation(f'{name}: where={j} touched statements other than that of site {j}; edits {g.edits.edits}, '
                              f'exprs_rewritten {[h.path_tok(p) for p in stp.dirty]}', rp2)
            # recognise the transformed site by content
            now = all_sigs(g.ast)
            if S_.recog == 'gone':
                # by POSITION (copies of one expression have equal content): the expression at the path of listed
                # site i in the image of its statement is unchanged for i != j and changed for i = j
                keys_ = [expr_path_key(c) for c in ss]
                site_txt = [c.resolve().format() for c in ss]
                def changed(i):
                    sp = (regs[i][0], regs[i][1])
                    v = stp.prov.get(sp)
                    if v is None or v[0] != 'kept': return None
                    e2 = resolve_key(h.node_at(stp.T, v[1])[1], keys_[i])
                    return e2 is None or sig(e2) != site_sigs[i] or e2.format() != site_txt[i]
                cj = changed(j)
                if cj is False:
                    rep.violation(f'{name}: where={j} must transform the {j}-th listed site `{ss[j].resolve().format()}` ({str(ss[j]).split(" at")[0]}), which is still there', rp2)
                for i in range(k):
                    if i == j: continue
                    related = regs[i] == regs[j] and (keys_[j][:len(keys_[i])] == keys_[i] or keys_[i][:len(keys_[j])] == keys_[j])
                    if not related and changed(i):
                        rep.violation(f'{name}: where={j} (listed as `{ss[j].resolve().format()}` at {str(ss[j]).split(" at")[0]}) also transformed listed site {i} '
                                      f'`{ss[i].resolve().format()}` at {str(ss[i]).split(" at")[0]}: exactly one site must change', rp2)
                if name == 'inline' and len(set(site_sigs)) == k and now[site_sigs[j]] != base_sigs[site_sigs[j]] - 1:
                    rep.violation(f'{name}: where={j} must transform the {j}-th listed site `{ss[j].resolve().format()}`, which is still there', rp2)
            elif S_.recog == 'wrapped':
                w0, w1 = wrapped_sigs(f.ast), wrapped_sigs(g.ast)
                new = w1 - w0
                if sum(new.values()) != 1 or next(iter(new)) != site_sigs[j]:
                    rep.violation(f'{name}: where={j} must give the {j}-th listed operation `{ss[j].resolve().format()}` a block of its own; '
                                  f'the new one-operation blocks hold {sorted(map(str, new))}', rp2)
        # the cursor of the same site selects the same thing
        try:
            g2 = S_.apply(f, ss[j]); evals[0] += 1
            same = g2.format() == g.format() and h.real_edits(g2.edits) == h.real_edits(g.edits)
            if S_.kind == 'expr' and not same:
                rep.violation(f'{name}: where={j} and where=<the cursor listed at {j}: {str(ss[j]).split(" at")[0]}> give different programs / logs: '
                              f'index aiming and cursor aiming disagree', rp2)
            if S_.kind == 'stmt':
                got2 = sorted((e.block_path, e.index) for e in g2.edits.edits if e.removed) if False else \
                    [(e[0], e[1], e[1] + e[2]) for e in h.real_edits(g2.edits)]
                if got2 != [r]:
                    rep.violation(f'{name}: where=<cursor of site {j}> reported {g2.edits.edits}', rp2)
        except Exception as e:   # noqa
            rep.violation(f'{name}: where=<cursor of site {j}> failed: {type(e).__name__}: {e}', rp2)
    if not d5: return
    # D5: a statement cursor aims at the sites at or beneath it; `within` lists them
    allp = order
    near = [q for q in allp if any(in_site(q, r) or any(h.beneath_py((r[0], i), q) for i in range(r[1], r[2])) for r in regs)]
    picks = R.sample(allp, min(1, len(allp))) + R.sample(near, min(2, len(near)))
    # a region of two or three consecutive statements as well
    blks = [(bp, b) for bp, b in h.blocks_of(S) if len(b) >= 2 and any(r[0] == bp for r in regs)]
    if blks:
        bp, b = R.choice(blks); lo = R.randrange(len(b) - 1); hi = min(len(b), lo + R.choice([2, 2, 3]))
        picks.append((bp, lo, hi))
    for qi, q in enumerate(picks):
        evals[0] += 1
        if len(q) == 3:
            qs = [(q[0], i) for i in range(q[1], q[2])]
            cur = BlockCursor(f.ast, h.real_bp(q[0]), range(q[1], q[2]))
            rp2 = dict(replay, where=f'BlockCursor({h.bp_tok(q[0])}[{q[1]}:{q[2]}])')
            q = qs[0]
        else:
            qs = [q]
            cur = StmtCursor(f.ast, h.real_sp(q))
            rp2 = dict(replay, where=f'StmtCursor({h.path_tok(q)})')
        sel = [j for j, r in enumerate(regs) if all(any(h.beneath_py((r[0], i), qq) for qq in qs) for i in range(r[1], r[2]))]
        if S_.refusals is not None and qi in (0, 1):
            try:
                fnkw = S_.sites
                ws = [str(c).split(' at')[0] for c in st.sites(*_sites_args(S_), f, within=cur)] if _sites_args(S_) else None
                if ws is not None:
                    rep.count('e2e:within')
                    if ws != [str(ss[j]).split(' at')[0] for j in sel]:
                        rep.violation(f'{name}: sites within {h.path_tok(q)} are {ws}, the listed ones at or beneath it are '
                                      f'{[str(ss[j]).split(" at")[0] for j in sel]}', rp2)
            except Exception as e:   # noqa
                rep.count(f'e2e:{name}:within-failed:{type(e).__name__}')
        try:
            g = S_.apply(f, cur)
        except TransformDeclined:
            rep.count('e2e:cursor-where:declined')
            if sel and not name.startswith('Rewrite'):
                rep.violation(f'{name}: a cursor with sites {sel} beneath it declined', rp2)
            continue
        except TransformReferenceError as e:
            rep.count('e2e:cursor-where:nothing-beneath')
            if sel: rep.violation(f'{name}: a cursor with listed sites {sel} at or beneath it was rejected: {e}', rp2)
            continue
        except Exception as e:   # noqa
            rep.count(f'e2e:{name}:cursor-where-failed:{type(e).__name__}'); note_crash(rep, name, src, e); continue
        rep.count('e2e:cursor-where:selected')
        if not sel:
            rep.violation(f'{name}: a cursor with no listed site beneath it was accepted; edits {g.edits.edits}', rp2); continue
        stp = analyse_step(rep, f'{name}(where=cursor {h.path_tok(q)})', f, g, rp2)
        if not stp.ok: continue
        tch = touched_stmts(stp)
        if any(not any(in_site(p, regs[j]) for j in sel) for p in tch):
            rep.violation(f'{name}: cursor {h.path_tok(q)} touched statements outside the sites beneath it; edits {g.edits.edits}', rp2)
        if S_.kind == 'stmt':
            want = sorted(h.outermost_regions([regs[j] for j in sel]))
            got = sorted((e[0], e[1], e[1] + e[2]) for e in stp.edits if e[2])
            if got != want:
                rep.violation(f'{name}: cursor {h.path_tok(q)} must rewrite the sites beneath it {want}; reported {g.edits.edits}', rp2)

_SITES_FN = {}
def _sites_args(S_):
    return _SITES_FN.get(id(S_))

def note_crash(rep, name, src, e):
    if not isinstance(e, TransformError) and len(rep.notes) < 8:
        key = f'{name} raised {type(e).__name__}: {str(e)[:160]}'
        if not any(n.startswith(key[:60]) for n in rep.notes):
            rep.notes.append(key + f' | program head: {src[:300]!r} | ' + traceback.format_exc()[-300:])

# ---------------------------------------------------------------------------
# chains

def chain_oracle(rep, R, table, f0, src, evals, nchains, mono_first=False):
    h = H()
    for _ in range(nchains):
        n = R.randint(1, 3)
        funcs = [f0]; steps = []; desc = []
        if mono_first:
            try:
                g = st.monomorphize(f0, fp.FP64, [RealType(fp.FP32)] * 2)
                stp = analyse_step(rep, 'monomorphize', f0, g, {'program': src})
                if not stp.ok: continue
                funcs.append(g); steps.append(stp); desc.append('monomorphize(FP64,[FP32,FP32])')
            except Exception as e:   # noqa
                rep.count(f'e2e-chain:mono-failed:{type(e).__name__}'); continue
        opaque = None
        for i in range(n):
            S_ = R.choice(table)
            f = funcs[-1]
            if S_.kind == 'opaque':
                if i == n - 1: opaque = S_
                continue
            k = 0
            if S_.sites:
                try: k = len(S_.sites(f))
                except Exception: k = 0   # noqa
            w = None if (k == 0 or R.random() < 0.4) else R.randrange(k)
            try:
                g = S_.apply(f, w); evals[0] += 1
            except Exception as e:   # noqa
                rep.count(f'e2e-chain:step-failed:{type(e).__name__}'); note_crash(rep, S_.name, src, e); continue
            nm = f'{S_.name}(where={w})'
            stp = analyse_step(rep, nm, f, g, {'program': src, 'chain': desc + [nm]})
            if not stp.ok: break
            funcs.append(g); steps.append(stp); desc.append(nm)
        if len(funcs) < 2: continue
        rep.count(f'e2e-chain:len={len(funcs) - 1}')
        S0 = steps[0].S
        final_T = steps[-1].T
        paths = [p for p, _ in h.walk(S0)]
        R.shuffle(paths)
        comp = [(s.edits, s.prov, s.runs) for s in steps]
        for p in paths[:24]:
            evals[0] += 1
            replay = {'program': src, 'chain': desc, 'cursor': h.path_tok(p)}
            exp = h.compose(comp, [s.S for s in steps], p)
            old = h.node_at(S0, p)[1]
            try:
                out = funcs[-1].forward(StmtCursor(f0.ast, h.real_sp(p)))
            except TransformReferenceError as e:
                rep.count('e2e-chain:error:' + h.classify(e))
                if exp[0] == 'paths' and len(exp[1]) == 1:
                    rep.violation(f'cursor {h.path_tok(p)} `{h.header(old)}` has one descendant {h.path_tok(exp[1][0])} but forwarding failed: {e}', replay)
                continue
            except Exception as e:   # noqa
                rep.violation(f'forwarding {h.path_tok(p)} raised {type(e).__name__}: {e}', replay); continue
            got = out.resolve() if isinstance(out, BlockCursor) else [out.resolve()]
            if out.func is not funcs[-1].ast:
                rep.violation('the forwarded cursor is not a cursor of the final program', replay)
            if exp[0] == 'error':
                rep.violation(f'cursor {h.path_tok(p)} `{h.header(old)}` was deleted or rebuilt along the chain but resolved to `{[h.header(s) for s in got]}`', replay)
                continue
            want = [h.node_at(final_T, q)[1] for q in exp[1]]
            rep.count(f'e2e-chain:descendants={min(len(want), 3)}')
            if [id(s) for s in got] != [id(s) for s in want]:
                rep.violation(f'cursor {h.path_tok(p)} `{h.header(old)}` resolved to `{[h.header(s) for s in got]}`, its descendants are `{[h.header(s) for s in want]}`', replay)
            elif len(want) == 1 and h.chain_kept(comp, p):
                cp = h.chain_paths([(s.edits, s.prov, s.runs) for s in steps], p)
                dirty_any = any(q in s.dirty or not s.g.edits.exprs_preserved for s, q in zip(steps, cp))
                if not dirty_any and own_tags(got[0]) != own_tags(old):
                    rep.violation(f'untouched cursor {h.path_tok(p)} `{h.header(old)}` resolved to `{h.header(got[0])}`: not the statement with its tag', replay)
                rep.count('e2e-chain:untouched-tag-identity')
        # forward o forward: two hops equal one
        if len(funcs) >= 3:
            for p in paths[:6]:
                try:
                    a = funcs[-1].forward(StmtCursor(f0.ast, h.real_sp(p)))
                except TransformError:
                    continue
                try:
                    mid = funcs[1].forward(StmtCursor(f0.ast, h.real_sp(p)))
                    b = funcs[-1].forward(mid)
                    if a != b:
                        rep.violation(f'forwarding {h.path_tok(p)} in one go gives {a}, through the first program {b}', {'program': src, 'chain': desc})
                    rep.count('e2e-chain:two-hops-agree')
                except TransformError as e:
                    rep.violation(f'forwarding {h.path_tok(p)} in one go succeeds, in two hops fails: {e}', {'program': src, 'chain': desc})
        # an earlier cursor as `where` of a later pass hits the descendant
        aim = [s for s in table if s.kind == 'stmt' and s.sites]
        if aim and len(funcs) >= 2:
            S_ = R.choice(aim)
            try:
                s0 = S_.sites(f0)
            except Exception:   # noqa
                s0 = []
            if s0:
                c = R.choice(s0)
                r = site_region(c)
                exps = [h.compose(comp, [s.S for s in steps], (r[0], i)) for i in range(r[1], r[2])]
                rp = {'program': src, 'chain': desc + [f'{S_.name}(where=<cursor {str(c).split(" at")[0]} of the first program>)']}
                try:
                    g = S_.apply(funcs[-1], c); evals[0] += 1
                    rep.count('e2e:rebase:applied')
                    if any(e[0] == 'error' for e in exps):
                        rep.violation(f'a cursor whose statement was rebuilt was accepted as `where`; edits {g.edits.edits}', rp)
                    else:
                        dsc = [d for e in exps for d in e[1]]
                        got = [(e[0], i) for e in h.real_edits(g.edits) for i in range(e[1], e[1] + e[2])]
                        if not all(any(h.beneath_py(x, d) for d in dsc) for x in got):
                            rep.violation(f'aimed with an earlier cursor whose descendants are {[h.path_tok(d) for d in dsc]}, the rewrite touched {[h.path_tok(x) for x in got]}', rp)
                except TransformError as e:
                    rep.count('e2e:rebase:error')
                    # the site survived every pass untouched and is still listed: the earlier cursor must be accepted
                    if all(x[0] == 'paths' and len(x[1]) == 1 for x in exps) and all(h.chain_kept(comp, (r[0], i)) for i in range(r[1], r[2])):
                        d0 = [x[1][0] for x in exps]
                        try:
                            now = [site_region(c2) for c2 in S_.sites(funcs[-1])]
                        except Exception:   # noqa
                            now = []
                        if (d0[0][0], d0[0][1], d0[0][1] + len(d0)) in now and all(d[0] == d0[0][0] for d in d0):
                            rep.violation(f'a cursor of the first program naming a site that survived untouched (now {h.path_tok(d0[0])}) was rejected as `where`: {e}', rp)
                except Exception as e:   # noqa
                    rep.count(f'e2e:rebase-failed:{type(e).__name__}')
        # a pass that reports nothing stops the walk
        if opaque is not None:
            try:
                hh = opaque.apply(funcs[-1], None); evals[0] += 1
                try:
                    hh.forward(StmtCursor(f0.ast, h.real_sp(paths[0])))
                    rep.violation(f'a cursor crossed `{opaque.name}`, which reports no edits', {'program': src, 'chain': desc + [opaque.name]})
                except TransformReferenceError:
                    rep.count('e2e-chain:opaque-stops')
            except Exception:   # noqa
                rep.count(f'e2e-chain:{opaque.name}-failed')

# ---------------------------------------------------------------------------

def expect(rep, what, exc, thunk, replay):
    """thunk must raise exc"""
    try:
        r = thunk()
    except exc:
        rep.count('e2e:contract:rejected'); return
    except Exception as e:   # noqa
        rep.violation(f'{what}: expected {getattr(exc, "__name__", exc)}, got {type(e).__name__}: {e}', replay); return
    rep.violation(f'{what}: expected {getattr(exc, "__name__", exc)}, but it was accepted', dict(replay, result=str(r)[:200]))

def api_contract(rep, R, table, mod, f, src, evals):
    """the rest of the aiming vocabulary: what is NOT a name is rejected, by kind"""
    from fpy2.rewrite.search import find
    from fpy2.transform import ExprPath
    h = H()
    rp = {'program': src}
    evals[0] += 1
    S = h.shape(f.ast.body)
    try:
        calls = list(st.sites(st.inline, f))
    except Exception:   # noqa
        calls = []
    fors = st.sites(st.unroll_for, f)
    other = next((getattr(mod, n) for n in dir(mod) if n.startswith('prog') and getattr(mod, n) is not f), None)
    # an expression cursor handed to a statement-sited pass / listing; a cursor of another program
    if calls:
        c = calls[0]
        expect(rep, 'unroll_for(where=<expression cursor>)', TransformReferenceError, lambda: st.unroll_for(f, where=c), rp)
        expect(rep, 'sites(unroll_for, within=<expression cursor>)', TransformReferenceError, lambda: st.sites(st.unroll_for, f, within=c), rp)
        expect(rep, 'Rewrite(statement rule)(where=<expression cursor>)', TransformError, lambda: Rewrite(mod.one_l, mod.one_r1).apply(f, c), rp)
        if c.stmt().resolve() is not h.node_at(S, h.unreal_sp(c.path.stmt()))[1]:
            rep.violation('ExprCursor.stmt() does not name the statement the expression belongs to', rp)
        # `within` an expression: the listed sites at or under it, in the same order
        keys = [(site_region(x), expr_path_key(x)) for x in calls]
        for i, x in enumerate(calls[:6]):
            want = [str(y).split(' at')[0] for y, (r, kk) in zip(calls, keys) if r == keys[i][0] and kk[:len(keys[i][1])] == keys[i][1]]
            got = [str(y).split(' at')[0] for y in st.sites(st.inline, f, within=x)]
            rep.count('e2e:contract:within-expr')
            if got != want:
                rep.violation(f'sites(inline, within={str(x).split(" at")[0]}) lists {got}; the listed sites at or under it are {want}', rp)
        if other is not None:
            co = st.sites(st.inline, other)
            if co:
                expect(rep, 'inline(where=<expression cursor of another program>)', TransformReferenceError, lambda: st.inline(f, where=co[0]), rp)
                expect(rep, 'sites(inline, within=<cursor of another program>)', TransformReferenceError, lambda: st.sites(st.inline, f, within=co[0]), rp)
        bad = ExprPath(c.path.stmt(), 'msg', None)
        expect(rep, 'ExprCursor(<a field the statement does not have>)', TransformReferenceError, lambda: ExprCursor(f.ast, bad), rp)
    if other is not None:
        so = StmtCursor(other.ast, h.real_sp(((), 0)))
        expect(rep, 'unroll_while(where=<statement cursor of another program>)', TransformReferenceError, lambda: st.unroll_while(f, where=so), rp)
        expect(rep, 'sites(unroll_for, within=<statement cursor of another program>)', TransformReferenceError, lambda: st.sites(st.unroll_for, f, within=so), rp)
        expect(rep, 'find_all(within=<cursor of another program>)', TransformReferenceError, lambda: find_all(mod.one_l, f, within=so), rp)
    # find / find_all(within)
    for pat in (mod.one_l, mod.pair_l, mod.e_l, mod.lit_l):
        allm = find_all(pat, f)
        try:
            one = find(pat, f)
            if len(allm) != 1 or one != allm[0]:
                rep.violation(f'find({pat.name}) returned {one} although find_all lists {len(allm)} matches', rp)
        except TransformReferenceError:
            if len(allm) == 1: rep.violation(f'find({pat.name}) failed although exactly one place matches', rp)
        rep.count('e2e:contract:find')
        for q in R.sample([p for p, _ in h.walk(S)], min(3, len(S))):
            cur = StmtCursor(f.ast, h.real_sp(q))
            got = [str(m).split(' at')[0] for m in find_all(pat, f, within=cur)]
            want = []
            for m in allm:
                r = site_region(m)
                if all(h.beneath_py((r[0], i), q) for i in range(r[1], r[2])): want.append(str(m).split(' at')[0])
            if got != want:
                rep.violation(f'find_all({pat.name}, within={h.path_tok(q)}) lists {got}; the matches at or beneath it are {want}', rp)
    # regions: indexing and `one`
    blks = [(bp, b) for bp, b in h.blocks_of(S) if len(b) >= 2]
    if blks:
        bp, b = R.choice(blks)
        reg = BlockCursor(f.ast, h.real_bp(bp), range(0, 2))
        if [c2.resolve() for c2 in reg] != reg.resolve() or reg[1].resolve() is not reg.resolve()[1] or len(reg) != 2:
            rep.violation('a region and its members disagree', rp)
        expect(rep, 'BlockCursor.one() of a two-statement region', TransformReferenceError, lambda: reg.one(), rp)
        one = BlockCursor(f.ast, h.real_bp(bp), range(1, 2))
        if one.one().resolve() is not b[1][1]:
            rep.violation('BlockCursor.one() does not name the one statement of the region', rp)
        expect(rep, 'BlockCursor past the end of its block', TransformReferenceError, lambda: BlockCursor(f.ast, h.real_bp(bp), range(0, len(b) + 1)), rp)
    # types
    from fpy2.transform import WhileUnroll, ForUnroll, UnfoldSpecial, UnfoldNegZero, RescaleFixed
    if other is not None:
        # also where the listing is empty: "an empty listing rejects a `within` naming nothing of the kind as a populated one would"
        for cls in (ForUnroll, UnfoldSpecial, UnfoldNegZero, RescaleFixed):
            expect(rep, f'{cls.__name__}.sites(within=<cursor of another program>)', TransformReferenceError, (lambda cls: lambda: cls.sites(f.ast, so))(cls), rp)
            if calls:
                expect(rep, f'{cls.__name__}.sites(within=<expression cursor>)', TransformReferenceError, (lambda cls: lambda: cls.sites(f.ast, calls[0]))(cls), rp)
        expect(rep, 'WhileUnroll.sites(within=<cursor of another program>)', TransformReferenceError, lambda: WhileUnroll.sites(f.ast, so), rp)
    if calls:
        expect(rep, 'WhileUnroll.sites(within=<expression cursor>)', TransformReferenceError, lambda: WhileUnroll.sites(f.ast, calls[0]), rp)
    expect(rep, 'BlockCursor(<not a FuncDef>)', TypeError, lambda: BlockCursor(f, h.real_bp(()), range(0, 1)), rp)
    expect(rep, 'StmtCursor(<not a FuncDef>)', TypeError, lambda: StmtCursor(f, h.real_sp(((), 0))), rp)
    expect(rep, 'StmtCursor(<not a path>)', TypeError, lambda: StmtCursor(f.ast, 0), rp)
    expect(rep, 'BlockCursor(<stepped range>)', TypeError, lambda: BlockCursor(f.ast, h.real_bp(()), range(0, 2, 2)), rp)
    expect(rep, 'BlockCursor(<not a block path>)', TypeError, lambda: BlockCursor(f.ast, h.real_sp(((), 0)), range(0, 1)), rp)
    expect(rep, 'ExprCursor(<not an expression path>)', TypeError, lambda: ExprCursor(f.ast, h.real_sp(((), 0))), rp)
    expect(rep, 'ExprCursor(<not a FuncDef>)', TypeError, lambda: ExprCursor(f, h.real_sp(((), 0))), rp)
    expect(rep, 'Function.forward(<not a cursor>)', (TypeError, AttributeError), lambda: st.unroll_while(f).forward(0) if st.sites(st.unroll_while, f) else (_ for _ in ()).throw(TypeError()), rp)
    expect(rep, 'sites(<a pass that takes no where>)', ValueError, lambda: st.sites(st.simplify, f), rp)
    expect(rep, 'refusals(<a pass that takes no where>)', ValueError, lambda: st.refusals(st.simplify, f), rp)
    expect(rep, 'sites(<not a Function>)', TypeError, lambda: st.sites(st.inline, f.ast), rp)
    expect(rep, 'refusals(<not a Function>)', TypeError, lambda: st.refusals(st.inline, f.ast), rp)
    if st.refusals(st.unroll_while, f) != []:
        rep.violation('refusals(unroll_while) is not empty', rp)
    expect(rep, 'Rewrite(statement pattern, expression pattern)', ValueError, lambda: Rewrite(mod.one_l, mod.e_r), rp)
    expect(rep, 'Rewrite.apply(<not a Function>)', (TypeError, AttributeError), lambda: Rewrite(mod.e_l, mod.e_r).apply(f.ast), rp)
    expect(rep, 'Rewrite.apply(repeat=0)', TypeError, lambda: Rewrite(mod.e_l, mod.e_r).apply(f, repeat=0), rp)
    expect(rep, 'find_all(<not a pattern>)', TypeError, lambda: find_all(f, f), rp)
    expect(rep, 'find_all(<not a Function>)', TypeError, lambda: find_all(mod.e_l, f.ast), rp)
    for nm, bad in [('unroll_for(times=0)', lambda: st.unroll_for(f, times=0)), ('unroll_while(times=0)', lambda: st.unroll_while(f, times=0)),
                    ('split(factor=0)', lambda: st.split(f, 0))]:
        expect(rep, nm, ValueError, bad, rp)
    for nm, bad in [('unroll_for(<not a Function>)', lambda: st.unroll_for(f.ast)), ('unroll_while(<not a Function>)', lambda: st.unroll_while(f.ast)),
                    ('unroll_for(times=1.5)', lambda: st.unroll_for(f, times=1.5)), ('unroll_while(times="1")', lambda: st.unroll_while(f, times='1')),
                    ('inline(<not a Function>)', lambda: st.inline(f.ast)), ('split(<not a Function>)', lambda: st.split(f.ast, 2)),
                    ('insert_round(<not a Function>)', lambda: st.insert_round(f.ast, fp.FP64)), ('lift_context(<not a Function>)', lambda: st.lift_context(f.ast)),
                    ('close(<not a Function>)', lambda: st.close(f.ast)), ('monomorphize(<not a Function>)', lambda: st.monomorphize(f.ast)),
                    ('unfold_special(<not a Function>)', lambda: st.unfold_special(f.ast)), ('unfold_neg_zero(<not a Function>)', lambda: st.unfold_neg_zero(f.ast)),
                    ('unfold_overflow(<not a Function>)', lambda: st.unfold_overflow(f.ast)), ('float_to_fixed(<not a Function>)', lambda: st.float_to_fixed(f.ast)),
                    ('rescale_fixed(<not a Function>)', lambda: st.rescale_fixed(f.ast)), ('simplify(<not a Function>)', lambda: st.simplify(f.ast)),
                    ('elim_round(<not a Function>)', lambda: st.elim_round(f.ast)), ('fuse(<not a Function>)', lambda: st.fuse(f.ast)),
                    ('elim_iter(<not a Function>)', lambda: st.elim_iter(f.ast))]:
        expect(rep, nm, TypeError, bad, rp)

def two_stage(rep, R, table, f, src, evals):
    """a rule whose right-hand side uses a pattern variable 0, 1, 2 or 3 times, then a second pass aimed at each
    copy separately, by index and by cursor: exactly that copy must change"""
    dups = [s for s in table if s.family == 'dup']
    second = [s for s in table if s.family == 'G' and s.kind == 'expr' and s.recog == 'gone']
    for D in (dups if rep.tier != 'quick' else R.sample(dups, 3)):
        try:
            k = len(D.sites(f))
        except Exception:   # noqa
            continue
        if k == 0: continue
        for w in ([None, R.randrange(k)] if rep.tier != 'quick' else [R.choice([None, None, R.randrange(k)])]):
            try:
                f1 = D.apply(f, w); evals[0] += 1
            except TransformError:
                rep.count('e2e:two-stage:first-declined'); continue
            except Exception as e:   # noqa
                rep.count(f'e2e:two-stage:first-failed:{type(e).__name__}'); note_crash(rep, D.name, src, e); continue
            nm = f'{D.name}(where={w})'
            stp = analyse_step(rep, nm, f, f1, {'program': src, 'chain': [nm]})
            if not stp.ok: continue
            evals[0] += check_forward(rep, nm, stp, {'program': src, 'chain': [nm]})
            rep.count('e2e:two-stage:' + D.name)
            for S2 in second:
                aim_oracle(rep, R, S2, f1, src + f'# after {nm}\n', evals, d5=False)

def _one_program(rep, R, mod, table, nm, fam, src, nchains, evals):
    f = getattr(mod, nm)
    rep.count('e2e:programs:' + fam)
    rep.sample({'program': src[:500]}, cap=2)
    rep.distinct.add(('prog', src))
    if fam == 'G':
        tab = [s for s in table if s.family == 'G']
        try:
            ec = list(st.sites(st.inline, f)) + [c for c, _ in st.refusals(st.inline, f)]
            ec += list(find_all(mod.e_l, f))
            R.shuffle(ec); ec = ec[:10]
        except Exception:   # noqa
            ec = []
        aimable = [s for s in tab if s.kind in ('stmt', 'expr')]
        core = [s for s in aimable if s.name.startswith(('Rewrite', 'inline', 'insert_round'))]
        rest = [s for s in aimable if s not in core]
        covr = [s for s in table if s.family == 'cov']
        for S_ in core + (rest if rep.tier != 'quick' else R.sample(rest, 4)) + (covr if rep.tier != 'quick' else R.sample(covr, 6)):
            aim_oracle(rep, R, S_, f, src, evals, expr_curs=ec, d5=S_.family != 'cov' or rep.tier != 'quick')
        api_contract(rep, R, table, mod, f, src, evals)
        chain_oracle(rep, R, tab + [s for s in table if s.family == 'dup'], f, src, evals, nchains)
        two_stage(rep, R, table, f, src, evals)
    else:
        try:
            g = st.monomorphize(f, fp.FP64, [RealType(fp.FP32)] * 2)
        except Exception as e:   # noqa
            rep.count(f'e2e:mono-failed:{type(e).__name__}'); note_crash(rep, 'monomorphize', src, e); return
        stp = analyse_step(rep, 'monomorphize', f, g, {'program': src})
        if stp.ok: evals[0] += check_forward(rep, 'monomorphize', stp, {'program': src})
        tab = [s for s in table if s.family == 'M']
        try:
            ec = list(st.sites(st.insert_round, g, ctx=fp.FP64)) + [c for c, _ in st.refusals(st.insert_round, g, ctx=fp.FP64)]
            R.shuffle(ec); ec = ec[:10]
        except Exception:   # noqa
            ec = []
        for S_ in tab:
            aim_oracle(rep, R, S_, g, src, evals, expr_curs=ec)
        chain_oracle(rep, R, tab + [s for s in table if s.name.startswith(('unroll_for', 'Rewrite(one')) and s.family == 'G'][:2],
                     f, src, evals, max(2, nchains // 2), mono_first=True)

def _worker(args):
    tmp, modname, seed, tier, chunk, srcs, nchains, limit = args
    h = H()
    from common import Report, Prng
    rep = Report('C19', tier, seed)
    sys.path.insert(0, tmp)
    try:
        mod = importlib.import_module(modname)
    finally:
        sys.path.remove(tmp)
    table = strategies(mod)
    fns = {'unroll_for': st.unroll_for, 'unroll_while': st.unroll_while, 'unfold_special': st.unfold_special,
           'unfold_neg_zero': st.unfold_neg_zero, 'unfold_overflow': st.unfold_overflow, 'float_to_fixed': st.float_to_fixed,
           'rescale_fixed': st.rescale_fixed, 'inline': st.inline}
    for S_ in table:
        if S_.name in fns: _SITES_FN[id(S_)] = (fns[S_.name],)
    evals = [0]
    t0 = time.time(); done = 0
    for nm, fam in chunk:
        if time.time() - t0 > limit:
            rep.notes.append(f'end-to-end worker stopped after {done} of {len(chunk)} programs (time budget)'); break
        done += 1
        try:
            _one_program(rep, Prng(seed, 'C19-e2e-' + nm), mod, table, nm, fam, srcs[nm], nchains, evals)
        except Exception:   # noqa
            rep.broke('harness', 'C19.e2e.' + nm, traceback.format_exc())
    return {'violations': rep.violations, 'broken': rep.broken, 'hist': rep.hist, 'notes': rep.notes,
            'distinct': list(rep.distinct), 'samples': rep.cov['samples'], 'evals': evals[0]}

def end_to_end(rep, R, tier, tmp):
    import multiprocessing as mp
    h = H()
    nG = 10 if tier == 'quick' else 48
    nM = 4 if tier == 'quick' else 20
    nchains = 4 if tier == 'quick' else 8
    tags = h.tagger(TAG0)
    gen = Gen(R, tags)
    text = 'import fpy2 as fp\n' + HELPERS
    srcs = {}; names = []
    for i in range(nM):
        nm = f'mono{i}'; srcs[nm] = gen.mono(nm); text += '\n' + srcs[nm]; names.append((nm, 'M'))
    for i in range(nG):
        nm = f'prog{i}'; srcs[nm] = gen.general(nm); text += '\n' + srcs[nm]; names.append((nm, 'G'))
    modname = f'c19gen_{os.getpid()}_{rep.seed}_{tier}'
    with open(os.path.join(tmp, modname + '.py'), 'w') as fh:
        fh.write(text)
    # the module must import (every generated program is accepted by the front end)
    sys.path.insert(0, tmp)
    try:
        importlib.import_module(modname)
    finally:
        sys.path.remove(tmp)
    nw = max(1, min(int(os.environ.get('C19_WORKERS', '1')), len(names)))
    chunks = [names[i::nw] for i in range(nw)]
    limit = 400 if tier == 'quick' else 1500   # a safety net only: the amount of work is fixed by the counts above
    args = [(tmp, modname, rep.seed, tier, ch, srcs, nchains, limit) for ch in chunks]
    if nw == 1:
        outs = [_worker(args[0])]
    else:
        with mp.get_context('fork').Pool(nw) as pool:
            outs = pool.map(_worker, args)
    total = 0
    for o in outs:
        rep.violations.extend(o['violations']); rep.broken.extend(o['broken'])
        for k, v in o['hist'].items(): rep.count(k, v)
        rep.notes.extend(n for n in o['notes'] if len(rep.notes) < 10)
        rep.distinct.update(o['distinct'])
        for sm in o['samples']: rep.sample(sm)
        total += o['evals']
    return total
