"""C14 (c'') — one template per transfer function / `case` arm of the format inference.

Coverage-driven: the list below was grown from `analysis_code_never_executed` in the evidence
(c14cov.py) until every operator, builtin and statement form the inference has a rule for is exercised
by at least one program: logb / exp2 / 2**e, range with 1, 2, 3 arguments (static, long, negative and
non-dividing steps, empty, affine in an argument), len / dim / size / sum / min / max over lists,
enumerate / zip, slices, indexed stores (flat and nested), empty, tuples and tuple bindings, constants
(inf, nan, hexfloat, rational, digits, -0.0, captured Python values), literal-set arithmetic with
zeros of both signs and infinities, sets larger than the collapse threshold, casts and rounds,
context statements (named, symbolic, inexact low-precision ones), calls with keyword arguments,
loops whose value depends on the trip count, assert / pass.

Argument formats are fixed per template (no chance involved) and include the ASYMMETRIC ones:
two's-complement (most negative value has no positive counterpart), unsigned, one-sided fixed ranges,
low-precision floats in which +, - of a small constant are inexact.  Run-time inputs sit at both
extremes of every argument format (and one step inside), at zero of both signs, at +-1, at powers of
two where the spacing changes, and at the special values the format has.
"""
from __future__ import annotations
import itertools, tempfile, shutil
from fractions import Fraction
import fpy2 as fp
from fpy2.analysis.format_infer import ListFormat
import c14prog
from c14prog import check_function, load_generated, fmt_desc

EXTRA_CTX = {
    'S16': 'fp.FixedContext(True, 0, 16)', 'UFX': 'fp.FixedContext(False, -1, 5)',
    'OS': 'MPBFixedContext(-1, RealFloat.from_int(100), fp.RM.RNE, fp.OV.SATURATE, neg_maxval=RealFloat.from_int(-3))',
    'SM': 'fp.SMFixedContext(0, 6)', 'H8': 'fp.IEEEContext(4, 8)', 'RTP6': 'fp.IEEEContext(3, 6, fp.RM.RTP)',
}

HEADER_EXTRA = '''from fractions import Fraction
K = 3
KF = fp.Float.from_float(2.5)
KR = RealFloat.from_int(-7)
KQ = Fraction(3, 8)
KB = True
KT = (1.0, 2.0)
KL = [1.0, 2.5, -4.0]
KZ = -0.0
KNAN = fp.Float.nan()
KE = []
KNL = [[1.0, 2.0], [3.0, -4.5]]
KFNZ = -fp.Float.from_int(0)
KINF = fp.Float.inf()

@fp.fpy
def h_tup(t: tuple[fp.Real, fp.Real]):
    with fp.REAL:
        a, b = t
        r = a * b
    return r

@fp.fpy
def h_pair(a: fp.Real, b: fp.Real):
    with fp.REAL:
        s = a + b
        d = a - b
    return (s, d)

@fp.fpy
def h_kw(a: fp.Real, scale: fp.Real):
    with fp.REAL:
        r = a * scale
    return r
'''

# (kind, parameters, argument-format assignments (one program instance each), body, options)
# a parameter named like `xs` is a list; {C1} is replaced by each context of opts['ctx']
T = []
def tmpl(kind, params, args, body, **opts): T.append((kind, params, args, body, opts))

# most asymmetric / most often decisive first: a quick run takes the first four of a list and two more in rotation
ASYM = [('S8',), ('FX',), ('H',), ('UFX',), ('U8',), ('S4',), ('S16',), ('OS',), ('E6',), ('MB',)]

tmpl('logb', 'x', ASYM + [('I',), ('F',), ('R',)], '''    with fp.REAL:
        e = fp.logb(x)
        g = e + 1
        h = 2 ** e
        k = 2 ** g
    return h + k
''')
tmpl('logb-ctx', 'x', [('S8',), ('H',), ('U8',), ('E6',)], '''    with {C1}:
        e = fp.logb(x)
        g = fp.exp2(e)
        t = e * 2
    return g + t
''', ctx=['H', 'F', 'S16'])
tmpl('logb-refine', 'x', [('H',), ('F',), ('S16',), ('E6',)], '''    with fp.REAL:
        e = fp.logb(x)
        t = 0
        if e >= -3:
            t = x
            u = x * 2
        else:
            u = x
        if e > 2:
            w = x
        else:
            w = 0
    return t + u + w
''')
STATIC_RANGES = ['0, 5, 0', '5', '0', '17', '40', '2, 9', '9, 2', '3, 30', '-20, 3', '0, 100, 3', '0, -200, -7', '5, 60, 4', '100, 0, -3', '10, -20, -7',
                 '0, 10, 20', '7, 7, 2', '-5, 100, 17', '3, 4, 1', '0, 34, 2', '50, -50, -9']
for i, r in enumerate(STATIC_RANGES):
    tmpl(f'range-static[{r}]', 'x', [('S8',)], f'''    with {{C1}}:
        m = 0
        s = 0
        n = 0
        for i in range({r}):
            m = i
            s = s + i
            n = n + 1
        xs = [j * 2 for j in range({r})]
        l = len(xs)
        t = sum(xs)
    return m + s + n + l + t + x
''', ctx=[['I', 'R', 'H', 'F'][i % 4]])
# ranges affine in an argument: the trip count is known only if the arithmetic is exact
for expr in ('i - 3, i', 'i, i + 4', 'i - 1, i + 2', 'i - 2, i + 1, 2', 'i + 3, i, -1', '2 * i, 2 * i + 3'):
    tmpl(f'range-affine[{expr}]', 'i', None, f'''    with {{C1}}:
        acc = 0
        last = i
        for k in range({expr}):
            acc = acc + 1
            last = k
    return acc + last
''', pairs=[(('H',), 'H'), (('E6',), 'E6'), (('H8',), 'H8'), (('S8',), 'R'), (('S8',), 'S8'), (('F',), 'F'), (('I',), 'I'), (('I',), 'R'),
           (('MB',), 'MB'), (('H',), 'R'), (('U8',), 'H8'), (('S16',), 'H')], integer_inputs=True)
tmpl('range-dynamic', 'i', [('S4',), ('E4',), ('UFX',)], '''    with {C1}:
        acc = 0
        for k in range(i):
            acc = acc + k
        cnt = 0
        for k in range(i, 5):
            cnt = cnt + 1
        c3 = 0
        for k in range(0, i, 2):
            c3 = c3 + k
    return acc + cnt + c3
''', ctx=['R', 'I', 'H'], integer_inputs=True)
tmpl('list-builtins', 'x,xs', [('S8', 'S8'), ('H', 'U8'), ('U8', 'H'), ('E6', 'S4'), ('OS', 'MB')], '''    with fp.REAL:
        n = len(xs)
        dm = fp.dim(xs)
        sz = fp.size(xs, 0)
        acc = x
        for i, v in enumerate(xs):
            acc = acc + i * v
        ys = [v + x for v in xs]
        for a, b in zip(xs, ys):
            acc = acc + a - b
        for b, a in zip(ys, xs):
            acc = acc + a - b
        for v in ys:
            acc = acc + v
        s = sum(xs)
        zs = [x, x, x]
        for i, v in enumerate(zs):
            acc = acc + i
        l3 = len(zs)
        d3 = fp.dim(zs)
        s3 = fp.size(zs, 0)
    return acc + n + dm + sz + s + l3 + d3 + s3
''')
tmpl('list-minmax-slice', 'x,xs', [('S8', 'S8'), ('H', 'E6'), ('U8', 'OS')], '''    with fp.REAL:
        mn = min(xs)
        mx = max(xs)
        sl = xs[1:3]
        s2 = xs[:2]
        s3 = xs[1:]
        ws = [x, -x, x * 2, 1]
        a = min(ws)
        b = max(ws)
        c = ws[1:3]
        d = sum(c)
        e = sum(sl)
    return mn + mx + a + b + d + e
''', min_len=3)
tmpl('list-sum-shapes', 'x,y', [('S8', 'U8'), ('H', 'E6'), ('OS', 'UFX')], '''    with {C1}:
        a = sum([x])
        b = sum([x, y])
        c = sum([x, y, x, y])
        d = sum([1, 2, 3])
        e = sum([2.5])
        ws = [x, y]
        f = sum(ws[0:0])
    return a + b + c + d + e + f
''', ctx=['S16', 'H'])
tmpl('list-empty-store', 'x,y', [('S8', 'H'), ('U8', 'U8'), ('E6', 'OS')], '''    with fp.REAL:
        es = fp.empty(3)
        es[0] = x
        es[1] = y
        es[2] = K
        a = es[0] + es[1] + es[2]
        m = fp.empty(2, 2)
        m[0][0] = x
        m[0][1] = y
        m[1][0] = 1
        m[1][1] = x * y
        b = m[1][1] + m[0][1]
        r = m[0]
        c = r[1]
        nl = [[x, y], [y, x]]
        nl[0][1] = x * 2
        d = nl[0][1] + nl[1][0]
        dd = fp.dim(nl)
        s1 = fp.size(nl, 1)
    return a + b + c + d + dd + s1
''')
tmpl('tuples', 'x,y', [('S8', 'H'), ('U8', 'E6'), ('OS', 'S4')], '''    with fp.REAL:
        t = (x, y)
        f1 = fp.fst(t)
        s1 = fp.snd(t)
        u, w = t
        _, w2 = t
        t3 = (x, (y, x * y))
        a, (b, c) = t3
        s3 = fp.snd(t3)
        p, q = h_pair(x, y)
        if x < y:
            j = (x, y)
            l = [x]
        else:
            j = (y, x + 1)
            l = [y, y]
        j0, j1 = j
        l0 = l[0]
        ps = [(x, 1), (y, 2)]
        acc = 0
        for (v, k) in ps:
            acc = acc + v * k
    return f1 + s1 + u + w + w2 + a + b + c + p + q + j0 + j1 + l0 + acc
''')
tmpl('constants', 'x', [('S8',), ('H',), ('U8',)], '''    with {C1}:
        c1 = fp.inf()
        c2 = fp.nan()
        c3 = -fp.inf()
        hx = fp.hexfloat('0x1.8p3')
        rt = fp.rational(1, 4)
        r3 = fp.rational(1, 3)
        dg = fp.digits(3, -2, 2)
        nz = -0.0
        pz = 0.0
        pi = fp.const_pi()
        big = 1e6
        tiny = 1e-6
        bb = True
        t = (x if bb else hx)
        a = hx + rt + dg + nz + pz + x
        b = nz + nz
        c = nz * x
        d = pz * x
        e = x + 0
        f = x - 0
        g = 0 - x
    return a + b + c + d + e + f + g + pi + big + tiny + r3
''', ctx=['R', 'H', 'S8', 'F', 'E6'])
tmpl('special-sets', 'x', [('S8',), ('H',)], '''    with fp.REAL:
        i = fp.inf()
        n = fp.nan()
        a = i + 1
        b = i - i
        c = n * 2
        d = i * 0
        e = -i
        f = abs(e)
        g = i * -1
        h = i + i
        j = e + e
        k = i * i
        nz = -0.0
        l = nz + nz
        m = nz * 3
        o = -nz
        p = abs(nz)
        q = nz - nz
        r = (i if x > 0 else nz)
        s = r + 1
        t = (n if x > 1 else 2)
        u = t * 2
        v = n + 1
        w = 1 + i
        y1 = 1 - i
        jn = (nz if x > 2 else x)
        ji = (i if x > 3 else x)
        jm = (n if x > 3 else x)
        jz = (0 if x > 3 else x)
        bl = (x < 1 if x > 0 else x > 5)
        fl = True
        if x > 2:
            fl = False
        m1 = min(1, 2, 3)
        m2 = max(x, 0.1)
        m3 = min(x, 0.1, 2)
        sd = sum([0.1, 0.2])
        x0 = 8
        e0 = fp.logb(x0)
        if e0 >= 1:
            q0 = x0
        else:
            q0 = 1
    return a + x
''')
tmpl('cap-by-join', 'x', [('S8',)], '''    with fp.REAL:
        a = 0
        for i in range(16):
            for j in range(15):
                a = i * 16 + j
        b = a + 1000
        t = (a if x > 0 else b)
        u = t + 1
    return u
''')
tmpl('uninit-and-empty', 'x', [('S8',), ('H',)], '''    with fp.REAL:
        ys = []
        n = len(ys)
        es = fp.empty(2)
        m = len(es)
        h_sq(x)
        t = h_tup((x, 2))
        u = es[0] + 1
    return n + m + t + u
''')
tmpl('exp2-span', 'x', [('F',), ('H',), ('S16',)], '''    with fp.REAL:
        e = fp.logb(x)
    with F:
        g = fp.exp2(e)
        h = fp.exp2(e * 2)
    return g + h
''')
tmpl('sizes-known-to-array-size', 'x,xs,ys', [('S8', 'S8', 'U8'), ('H', 'E6', 'S4')], '''    with fp.REAL:
        assert len(xs) == 3 and len(ys) == len(xs)
        acc = x
        for v in xs:
            acc = acc + v
        s = sum(xs)
        for i in range(len(xs)):
            acc = acc + xs[i]
        zs = [x, x]
        for k in range(len(zs)):
            acc = acc + k
        nl = [[x, 1], [2, x]]
        for k in range(fp.size(nl, 1)):
            acc = acc + k
        for k in range(fp.dim(nl)):
            acc = acc + k
        w = xs[:]
        t = sum(w)
        for a, b in zip(xs, ys):
            acc = acc + a * b
        u = sum(ys)
    return acc + s + t + u
''', min_len=3)
tmpl('underscore-arg', '_,x', [('S8', 'H')], '''    with fp.REAL:
        a = x + 1
    return a
''')
tmpl('captured', 'x', [('S8',), ('H',)], '''    with fp.REAL:
        fz = KFNZ
        fi = KINF
        kt0, kt1 = KT
        a = K + KF + KR + KQ + kt0 + kt1 + KZ
        b = KL[2] + KL[0]
        c = x * K + KF
        d = KNAN
        e = (x if KB else K)
        f = len(KE) + len(KL)
        g = KNL[1][1] + KNL[0][0]
        s = sum(KL)
    return a + b + c + e + f + g + s
''')
tmpl('big-sets', 'x', [('S8',)], '''    with fp.REAL:
        acc = 0
        for i in range(16):
            for j in range(16):
                for k in range(2):
                    acc = (i * 16 + j) * 2 + k
        t = 0
        for i in range(12):
            for j in range(12):
                for k in range(4):
                    t = i * 100 + j * 7 + k
        u = acc + t + x
    return u
''')
tmpl('casts-rounds', 'x,y', [('S8', 'H'), ('H', 'S8'), ('U8', 'E6'), ('OS', 'UFX'), ('S16', 'MB')], '''    with {C1}:
        a = fp.cast(x)
        b = fp.round(y)
        c = fp.round(3)
        d = fp.round(1000000)
        e = fp.round(0.1)
        f = fp.round(x + y)
        g = fp.floor(y)
        h = fp.ceil(y)
        t = fp.trunc(y)
        r = fp.roundint(y)
        n = fp.nearbyint(y)
        z = fp.round(-0.0)
    return a + b + c + e + f + g + h + t + r + n + z
''', ctx=['H', 'S8', 'E6', 'S16', 'MBF', 'M3'])
tmpl('float-ops', 'x,y', [('S8', 'H'), ('H', 'H'), ('U8', 'E6'), ('E6', 'OS')], '''    with {C1}:
        a = fp.fma(x, y, x)
        b = fp.sqrt(abs(x))
        c = x / 4
        d = x / y
        e = fp.fabs(y)
        f = fp.fmin(x, y)
        g = fp.fmax(x, y)
        h = fp.copysign(x, y)
        i = fp.fdim(x, y)
        j = x ** 2
        k = fp.exp2(fp.floor(c))
        l = fp.hypot(x, y)
    return a + b + c + e + f + g + h + i + j + l
''', ctx=['H', 'F', 'E6', 'RTP6'])
tmpl('contexts', 'x,y', [('S8', 'H'), ('H', 'S8'), ('U8', 'UFX'), ('OS', 'E6')], '''    a = x + y
    with {C1} as c:
        b = x * y
        with fp.REAL:
            d = b + x
        with H8:
            e = d + 1
    with RTP6:
        f = x + y
        g = f * 3
    h = -a
    return a + b + e + g + h
''', ctx=['H', 'E6', 'S8', 'U8', 'SM', 'MBF'], outer=['R', 'H', None])
tmpl('calls-kw', 'x,y', [('S8', 'H'), ('U8', 'E6')], '''    with fp.REAL:
        a = h_kw(x, scale=y)
        b = h_kw(a=y, scale=4)
        c = h_kw(b, 3)
        p, q = h_pair(a, c)
    return p + q
''')
tmpl('trip-count', 'x,n', [('S8', 'S4'), ('H', 'E4'), ('U8', 'UFX')], '''    with fp.REAL:
        acc = x
        k = 0
        while k < n:
            acc = acc + x
            k = k + 1
        b = x
        for i in range(6):
            b = b + b
            if i == 3:
                b = b - 1
        c = 1
        j = 0
        while j < 14:
            c = c * 2
            j = j + 1
        d = 0
        for i in range(5):
            for m in range(i):
                d = d + m
    return acc + b + c + d
''', integer_inputs=(1,))
tmpl('misc-statements', 'x,y', [('S8', 'H')], '''    with fp.REAL:
        assert x == x, 'reflexive'
        assert y <= y
        pass
        a = x
        if x < y:
            pass
        else:
            a = y
        b = (a, x)
    return b
''')
tmpl('symbolic-list-loop', 'x,xs', [('S8', 'S8'), ('H', 'U8'), ('OS', 'E6')], '''    with {C1}:
        acc = x
        n = 0
        for v in xs:
            acc = acc + v
            n = n + 1
        m = x
        for v in xs:
            m = max(m, v)
        w = [v * x for v in xs]
        s = 0
        for v in w:
            s = s + v
    return acc + n + m + s
''', ctx=['R', 'H', 'S16'])

# ---------------------------------------------------------------------------

def extremes(C, ctx, integer=False):
    """both extremes of the format and one step inside, zeros, +-1, spacing changes, specials"""
    fmt = ctx.format()
    d = fmt_desc(fmt)
    cands = []
    if isinstance(d, tuple):
        q = Fraction(2) ** d[1] if d[1] is not None else Fraction(1, 16)
        for b in (d[2], d[3]):
            if isinstance(b, tuple):
                v = Fraction(b[3]) * Fraction(2) ** b[2]
                v = -v if b[1] else v
                step = q
                if d[0] is not None and v != 0:          # float: ulp at the bound
                    import math
                    e = (abs(v).numerator.bit_length() - abs(v).denominator.bit_length())
                    step = max(q, Fraction(2) ** (e - d[0]))
                cands += [v, v - step if v > 0 else v + step, v - 2 * step if v > 0 else v + 2 * step]
            else:
                cands += [Fraction(4096), Fraction(-4096), Fraction(1000), Fraction(-1000)]
    else:
        cands += [Fraction(4096), Fraction(-4096)]
    cands += [('z', False), ('z', True), Fraction(1), Fraction(-1), Fraction(2), Fraction(-2), Fraction(3), Fraction(-3), Fraction(1, 2), Fraction(-1, 4),
              Fraction(5), Fraction(7), Fraction(8), Fraction(-8), Fraction(16), Fraction(31), Fraction(33), Fraction(64), Fraction(127), Fraction(128),
              Fraction(255), Fraction(256), Fraction(2047), Fraction(2048), Fraction(2049), Fraction(4095), Fraction(4097), Fraction(8192), Fraction(32768),
              Fraction(-2048), Fraction(-2049), 'pinf', 'ninf', 'nan']
    out = []
    for v in cands:
        if isinstance(v, Fraction) and v == 0: v = ('z', False)
        if v in out: continue
        if integer and not (isinstance(v, Fraction) and v.denominator == 1 or isinstance(v, tuple) and not v[1]): continue
        try:
            if not fmt.representable_in(C.v_float(v)): continue
        except Exception:   # noqa
            continue
        if isinstance(d, tuple) and not C.spec_member(d, v): continue
        out.append(v)
    return out

def list_inputs(vals, min_len):
    fin = [v for v in vals if isinstance(v, (Fraction, tuple))]
    sp = [v for v in vals if isinstance(v, str)]
    lo, hi = (fin[1] if len(fin) > 1 else fin[0]), fin[0]
    outs = [[], [hi], [lo, hi], [Fraction(1) if Fraction(1) in fin else hi, hi, lo], [lo, lo, lo, lo], [hi, hi, hi], fin[:5], [lo, ('z', False), hi, lo, hi]]
    if sp: outs += [[sp[0], hi, lo], [hi] + sp[:2] + [lo]]
    return [o for o in outs if len(o) >= min_len]

def stage_ops(rep, R, tier, C):
    tmp = tempfile.mkdtemp(prefix='c14ops_', dir='/var/tmp')
    try:
        _stage(rep, R, tier, C, tmp)
    finally:
        shutil.rmtree(tmp, ignore_errors=True)

def _stage(rep, R, tier, C, tmp):
    quick = tier == 'quick'
    header = c14prog.HEADER.replace('\n@fp.fpy\ndef h_sq', ''.join(f'{k} = {v}\n' for k, v in EXTRA_CTX.items()) + HEADER_EXTRA + '\n@fp.fpy\ndef h_sq', 1)
    nprog = nrun = nchk = 0
    midx = 0
    import os, time
    for (kind, params, argsets, body, opts) in T:
        if os.environ.get('C14_DEBUG'): print('ops', kind, round(time.time() - rep.t0, 1), flush=True)
        names = params.split(',')
        if opts.get('pairs'):
            pairs = opts['pairs']
            if quick and len(pairs) > 4:
                k = R.randrange(len(pairs))
                pairs = [pairs[(k + 3 * j) % len(pairs)] for j in range(4)]      # four per run, all over the seeds
            jobs = [(c1, acs) for (acs, c1) in pairs]
        else:
            ctx_choices = opts.get('ctx', [None])
            if quick and len(ctx_choices) > 2:
                # rotate with the seed so that all contexts are seen over the seeds, two per run
                k = R.randrange(len(ctx_choices))
                ctx_choices = [ctx_choices[k], ctx_choices[(k + 1) % len(ctx_choices)]]
            jobs = []
            for ci, c1 in enumerate(ctx_choices):
                rest = argsets[4:]
                k = R.randrange(len(rest)) if rest else 0
                sets = argsets if not quick or len(argsets) <= 6 else argsets[:4] + [rest[(k + j) % len(rest)] for j in range(2)]
                jobs += [(c1, acs) for acs in dict.fromkeys(sets)]
        mods = {}
        for (c1, acs) in jobs:
            if c1 not in mods:
                midx += 1
                fname = f'o{midx}'
                sig = ', '.join(f'{n}: list[fp.Real]' if n.endswith('s') and len(n) > 1 else f'{n}: fp.Real' for n in names)
                src = header + f'\n@fp.fpy\ndef {fname}({sig}):\n' + body.replace('{C1}', c1 or 'fp.REAL')
                mod = load_generated(rep, tmp, f'c14opsgen{midx}', src)
                mods[c1] = (mod, fname)
            mod, fname = mods[c1]
            if mod is None: continue
            ctxs = {k: getattr(mod, k) for k in list(c14prog.CTX_SRC) + list(EXTRA_CTX)}
            f = getattr(mod, fname)
            for outer in opts.get('outer', ['R']):
                ints = opts.get('integer_inputs', False)
                vlists = []
                for pi, (n, a) in enumerate(zip(names, acs)):
                    want_int = ints is True or (isinstance(ints, tuple) and pi in ints)
                    vals = extremes(C, ctxs[a], integer=want_int)
                    if n.endswith('s') and len(n) > 1:
                        vlists.append(list_inputs(vals, opts.get('min_len', 0)))
                    else:
                        vlists.append(vals if len(names) == 1 else vals[:14])
                combos = list(itertools.product(*vlists))
                if len(combos) > 90:
                    # keep every value of every argument, paired with the extremes of the others
                    keep = [c for c in combos if sum(1 for v, vl in zip(c, vlists) if v in vl[:4]) >= len(c) - 1]
                    R.shuffle(combos)
                    seen_c, uniq = set(), []
                    for c in keep + combos[:30]:
                        k = repr(c)
                        if k not in seen_c:
                            seen_c.add(k); uniq.append(c)
                    combos = uniq[:110]
                arg_fmts = tuple(ListFormat(ctxs[a].format()) if (n.endswith('s') and len(n) > 1) else ctxs[a].format() for n, a in zip(names, acs))
                an_ctx = ctxs[outer] if outer else None
                run_ctx = ctxs[outer] if outer else ctxs['H']
                allctx = c14prog.CTX_SRC | EXTRA_CTX
                a, b, c = check_function(rep, C, f'{fname}:{"/".join(acs)}', 'ops:' + kind, f, an_ctx, arg_fmts, run_ctx, combos,
                                         {'args': [allctx[k] for k in acs], 'C1': allctx.get(c1, c1), 'outer': outer})
                nprog += a; nrun += b; nchk += c
    rep.cov['evaluations'] += nchk
    rep.cov['ops_programs'] = nprog
    rep.cov['ops_runs'] = nrun
    rep.cov['ops_value_checks'] = nchk
    rep.cov['ops_rule'] = (f'{len(T)} templates, one per transfer function / case arm of the inference (see c14ops.py docstring), each analysed with fixed '
                           'argument formats incl. the asymmetric ones (SINT8/16, 4-bit, unsigned, one-sided saturating, FP16, 6- and 8-bit IEEE) under up to '
                           'two contexts per run; inputs: both extremes of every argument format and one/two steps inside, zeros, +-1, spacing changes '
                           '(2047..2049, 4095..4097), specials; lists: empty, singleton, extremes, repeated extremes, with specials')
