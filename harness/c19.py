"""C19 — sites, indices and cursors name exactly what they say.

(a) correspondence: random statement trees x random well-formed / ill-formed / lying edit logs x
    random statement paths and regions: the real `EditLog.forward` / `Function.forward` (objects built
    directly) against the compiled Lean model, compared canonically (ok cursor+tags | error kind);
    also `walk_stmts`, the `where` vocabulary and the Lean Spec `applyEdits` against the harness Spec.
(b) Spec oracle, independent of the model: the edits are applied to a tree of uniquely tagged
    statements top-down (no index arithmetic of `forward`), every old statement gets a provenance
    (kept at new path | replaced by edit c | under a replaced statement) and whatever the real code
    resolves to is judged against that.
(c) end to end (harness/c19e2e.py): generated @fp.fpy programs in which every statement and call site is
    uniquely tagged, every aimable pass of fpy2.strategies and user Rewrite rules (statement rules whose sides
    differ in length both ways, an expression rule), insert_round on monomorphized programs, the passes that
    report edits without taking a `where`, and the opaque ones: the REPORTED edit logs are judged against the real
    result tree by tag conservation, listings against index aiming against cursor aiming by recognising the
    transformed site by content, every statement / expression cursor is forwarded across every application, and
    chains of 1-3 passes are judged by composing the per-step provenances.
"""
from __future__ import annotations
import importlib, os, re, shutil, sys, tempfile, time, traceback
from common import *   # noqa

PROP = 'C19'

import fpy2 as fp                                     # noqa: E402
from fpy2 import strategies as st                     # noqa: E402
from fpy2.function import Function                    # noqa: E402
from fpy2.ast import fpyast as A                      # noqa: E402
from fpy2.transform import (                          # noqa: E402
    BlockCursor, StmtCursor, ExprCursor, Edit, EditLog, FuncBody, SubBlock, StmtPath,
    TransformReferenceError, TransformError, ForUnrollStrategy, SplitLoopStrategy,
)
from fpy2.transform.path import walk_stmts            # noqa: E402

FIELD = {'b': 'body', 't': 'ift', 'f': 'iff'}
FIELD_R = {v: k for k, v in FIELD.items()}

# ---------------------------------------------------------------------------
# harness trees: ('L', tag) | ('O', tag, [..]) | ('T', tag, [..], [..]); paths root-first:
# block path = tuple of (index, fieldletter); statement path = (block path, index)

def tree_tok(block):
    def s(n):
        if n[0] == 'L': return f'L{n[1]}'
        if n[0] == 'O': return f'O{n[1]}[{",".join(map(s, n[2]))}]'
        return f'T{n[1]}[{",".join(map(s, n[2]))}|{",".join(map(s, n[3]))}]'
    return ','.join(map(s, block)) if block else '-'

def bp_tok(bp):
    return '@' if not bp else '.'.join(f'{i}.{f}' for i, f in bp)

def path_tok(p):
    bp, i = p
    return str(i) if not bp else f'{bp_tok(bp)}.{i}'

def edit_tok(e):
    bp, i, r, n = e
    return f'{bp_tok(bp)}/{i}/{r}/{n}'

def log_tok(edits):
    return ';'.join(map(edit_tok, edits)) if edits else '-'

def children(n):
    if n[0] == 'O': return [('b', n[2])]
    if n[0] == 'T': return [('t', n[2]), ('f', n[3])]
    return []

def walk(block, bp=()):
    """visit order: a statement before its blocks (own implementation)"""
    for i, n in enumerate(block):
        yield (bp, i), n
        for f, sub in children(n):
            yield from walk(sub, bp + ((i, f),))

def blocks_of(block, bp=()):
    yield bp, block
    for i, n in enumerate(block):
        for f, sub in children(n):
            yield from blocks_of(sub, bp + ((i, f),))

def rand_tree(R, budget, depth, tags):
    """random block with at most `budget` statements"""
    out = []
    n = R.randint(0 if depth else 1, min(4, max(1, budget)))
    for _ in range(n):
        if budget <= 0: break
        budget -= 1
        k = R.random()
        if depth >= 3 or k < 0.5:
            out.append(('L', next(tags)))
        elif k < 0.8:
            t = next(tags); sub = rand_tree(R, min(budget, 4), depth + 1, tags); budget -= count(sub)
            out.append(('O', t, sub))
        else:
            t = next(tags); a = rand_tree(R, min(budget, 3), depth + 1, tags); budget -= count(a)
            b = rand_tree(R, min(budget, 3), depth + 1, tags); budget -= count(b)
            out.append(('T', t, a, b))
    return out

def count(block):
    return sum(1 for _ in walk(block))

def tagger(start):
    t = start
    while True:
        yield t
        t += 1

# ---------------------------------------------------------------------------
# the harness Spec: apply a log top-down, with provenance

def spec_apply(block, edits, fresh):
    """edits: list of (bp, index, removed, inserted) in OLD terms.  fresh(pos) -> list of nodes for
    the edit at position pos.  Returns (new block, prov, runs):
      prov[(bp, i)] = ('kept', new_path) | ('gone', pos)      (statements under a replaced one: absent)
      runs[pos] = (new_bp, start, count)"""
    prov, runs = {}, {}
    first = {}
    for pos, e in enumerate(edits):
        first.setdefault(e, pos)

    def go(blk, obp, nbp):
        out = []
        def emit(i):
            for pos, e in enumerate(edits):
                if e[0] == obp and e[1] == i:
                    fr = fresh(first[e])
                    runs.setdefault(first[e], (nbp, len(out), len(fr)))
                    out.extend(fr)
        for i, n in enumerate(blk):
            emit(i)
            cov = [pos for pos, e in enumerate(edits) if e[0] == obp and e[1] <= i < e[1] + e[2]]
            if cov:
                prov[(obp, i)] = ('gone', first[edits[cov[-1]]])
                continue
            j = len(out)
            prov[(obp, i)] = ('kept', (nbp, j))
            if n[0] == 'L':
                out.append(n)
            elif n[0] == 'O':
                out.append(('O', n[1], go(n[2], obp + ((i, 'b'),), nbp + ((j, 'b'),))))
            else:
                out.append(('T', n[1], go(n[2], obp + ((i, 't'),), nbp + ((j, 't'),)),
                            go(n[3], obp + ((i, 'f'),), nbp + ((j, 'f'),))))
        emit(len(blk))
        return out
    return go(block, (), ()), prov, runs

def leaf_fresh(edits):
    return lambda pos: [('L', 1000 + 100 * pos + k) for k in range(edits[pos][3])]

def node_at(block, p):
    bp, i = p
    blk = block_at(block, bp)
    if blk is None or not (0 <= i < len(blk)): return None
    return blk[i]

def block_at(block, bp):
    blk = block
    for i, f in bp:
        if not (0 <= i < len(blk)): return None
        sub = dict(children(blk[i])).get(f)
        if sub is None: return None
        blk = sub
    return blk

def py_wf(block, edits):
    """does the log meet the documented contract (independent re-statement: in range, disjoint
    including nesting)?"""
    for (bp, i, r, n) in edits:
        if i < 0 or r < 0 or n < 0: return False
        blk = block_at(block, bp)
        if blk is None or any(x < 0 for x, _ in bp): return False
        if i + r > len(blk): return False
    for x, a in enumerate(edits):
        for y, b in enumerate(edits):
            if x == y: continue
            if a[0] == b[0]:
                if a[1] <= b[1] < a[1] + a[2] or b[1] <= a[1] < b[1] + b[2]: return False
            else:
                # b's block under one of a's removed statements
                if len(b[0]) > len(a[0]) and b[0][:len(a[0])] == a[0] and a[1] <= b[0][len(a[0])][0] < a[1] + a[2]:
                    return False
    return True

def rand_wf_log(R, block, max_edits=4):
    """disjoint edits, none under a replaced statement"""
    edits = []
    dead = []   # (bp, lo, hi) replaced runs
    blks = list(blocks_of(block))
    R.shuffle(blks)
    for bp, blk in blks:
        if len(edits) >= max_edits: break
        if any(len(bp) > len(d[0]) and bp[:len(d[0])] == d[0] and d[1] <= bp[len(d[0])][0] < d[2] for d in dead):
            continue
        if R.random() < 0.45: continue
        i = 0
        while i <= len(blk) and len(edits) < max_edits:
            k = R.random()
            if k < 0.25:     # insertion before i
                edits.append((bp, i, 0, R.choice([1, 1, 2, 3])))
                if R.random() < 0.15: edits.append((bp, i, 0, R.choice([1, 2])))
                i += 0 if R.random() < 0.1 else 1
                # an insertion at i forbids a run starting at i only if the run contains i: allowed to follow at i+..
            elif k < 0.6 and i < len(blk):
                r = R.randint(1, min(3, len(blk) - i))
                # a run starting at i conflicts with an insertion at i
                if any(e[0] == bp and e[2] == 0 and e[1] == i for e in edits):
                    i += 1; continue
                edits.append((bp, i, r, R.choice([0, 1, 1, 2, 2, 3])))
                dead.append((bp, i, i + r))
                i += r
            else:
                i += 1
    # drop edits that ended up beneath a later-chosen replaced run
    keep = []
    for e in edits:
        bp = e[0]
        if any(len(bp) > len(d[0]) and bp[:len(d[0])] == d[0] and d[1] <= bp[len(d[0])][0] < d[2] for d in dead):
            continue
        keep.append(e)
    R.shuffle(keep)
    return keep

def rand_ill_log(R, block):
    blks = list(blocks_of(block))
    out = []
    for _ in range(R.randint(1, 4)):
        bp, blk = R.choice(blks)
        if R.random() < 0.12:   # a block path that names nothing
            bp = bp + ((R.randint(-1, 4), R.choice('btf')),)
        i = R.randint(-1 if R.random() < 0.1 else 0, len(blk) + 1)
        r = R.randint(-1 if R.random() < 0.05 else 0, 3)
        n = R.randint(-1 if R.random() < 0.05 else 0, 3)
        out.append((bp, i, r, n))
    return out

def mutate_log(R, block, edits):
    edits = list(edits)
    if not edits:
        return rand_ill_log(R, block)
    k = R.randrange(len(edits))
    bp, i, r, n = edits[k]
    m = R.randrange(6)
    if m == 0: edits.append(edits[k])
    elif m == 1: edits[k] = (bp, i + R.choice([-1, 1]), r, n)
    elif m == 2: edits[k] = (bp, i, r + R.choice([1, 2]), n)
    elif m == 3: edits[k] = (bp, i, r, -1)
    elif m == 4: edits[k] = (bp + ((R.randint(0, 2), R.choice('btf')),), 0, r, n)
    else: edits.append((bp, max(0, i + R.choice([0, 1])), 1, 1))
    return edits

# ---------------------------------------------------------------------------
# real objects

_BASE = None
def base_meta():
    return _BASE.ast

def real_stmt(n):
    tagx = A.Integer(n[1], None)
    if n[0] == 'L':
        return A.Assign(A.NamedId('v'), None, tagx, None)
    if n[0] == 'O':
        body = A.StmtBlock([real_stmt(c) for c in n[2]])
        k = n[1] % 4
        if k == 0: return A.If1Stmt(tagx, body, None)
        if k == 1: return A.WhileStmt(tagx, body, None)
        if k == 2: return A.ForStmt(A.NamedId('i'), tagx, body, None)
        return A.ContextStmt(A.UnderscoreId(), tagx, body, None)
    return A.IfStmt(tagx, A.StmtBlock([real_stmt(c) for c in n[2]]), A.StmtBlock([real_stmt(c) for c in n[3]]), None)

def real_func(block):
    b = base_meta()
    return A.FuncDef('g', b.args, A.StmtBlock([real_stmt(c) for c in block]), b.meta)

def real_tag(s):
    match s:
        case A.Assign(): return s.expr.val
        case A.If1Stmt() | A.WhileStmt() | A.IfStmt(): return s.cond.val
        case A.ForStmt(): return s.iterable.val
        case A.ContextStmt(): return s.ctx.val
    return None

def real_bp(bp):
    p = FuncBody()
    for k, (i, f) in enumerate(bp):
        # both ways of building a path: the constructors and the descending helpers
        p = SubBlock(StmtPath(p, i), FIELD[f]) if (k + i) % 2 else p.stmt(i).block(FIELD[f])
    return p

def real_sp(p):
    return StmtPath(real_bp(p[0]), p[1])

def unreal_bp(p):
    out = []
    while isinstance(p, SubBlock):
        out.append((p.parent.index, FIELD_R[p.field]))
        p = p.parent.parent
    return tuple(reversed(out))

def unreal_sp(p):
    return (unreal_bp(p.parent), p.index)

def classify(e):
    m = str(e)
    if isinstance(e, TransformReferenceError):
        if 'was deleted' in m: return 'deleted'
        if 'which was rewritten' in m: return 'inside'
        if 'does not say what it did' in m: return 'exprnotpreserved'
        if 'whose expressions the pass rewrote' in m: return 'exprrewritten'
        if 'unrelated program' in m: return 'unrelated'
        if 'another program' in m: return 'other'
        if 'holds no statements' in m: return 'empty'
        if 'no longer lies in one run' in m: return 'split'
        if 'does not report' in m: return 'opaque'
        return 'badpath'
    if isinstance(e, ValueError):
        if 'ill-formed edit' in m: return 'illedit'
        if 'edit consumes' in m: return 'editrange'
        if 'not disjoint' in m: return 'overlap'
    return 'exc:' + type(e).__name__

def show_real(out, funcs):
    pid = next((k for k, f in enumerate(funcs) if f is out.func), None)
    if isinstance(out, StmtCursor):
        tok = 's:' + path_tok(unreal_sp(out.path))
        tags = [real_tag(out.resolve())]
    elif isinstance(out, ExprCursor):
        tok = 'e:' + path_tok(unreal_sp(out.path.stmt()))
        tags = [out.resolve().val]
    else:
        tok = f'r:{bp_tok(unreal_bp(out.block_path))}:{out.span.start}:{out.span.stop}'
        tags = [real_tag(s) for s in out.resolve()]
    return f'ok {pid} {tok} {",".join(map(str, tags))}'

EXPR_FIELD = {A.Assign: 'expr', A.If1Stmt: 'cond', A.WhileStmt: 'cond', A.IfStmt: 'cond', A.ForStmt: 'iterable', A.ContextStmt: 'ctx'}

def mk_cursor(func, cur):
    if cur[0] == 's':
        return StmtCursor(func, real_sp(cur[1]))
    if cur[0] == 'e':
        sp = real_sp(cur[1])
        try:
            from fpy2.transform.path import resolve_stmt
            field = EXPR_FIELD[type(resolve_stmt(func, sp))]
        except TransformReferenceError:
            field = 'expr'
        return ExprCursor(func, sp.expr(field))
    return BlockCursor(func, real_bp(cur[1]), range(cur[2], cur[3]))

def cur_tok(cur):
    if cur[0] == 's': return 's:' + path_tok(cur[1])
    if cur[0] == 'e': return 'e:' + path_tok(cur[1])
    return f'r:{bp_tok(cur[1])}:{cur[2]}:{cur[3]}'

def real_forward(Sf, Rf, edits, which, cur, preserved=False, rewritten=()):
    try:
        es = tuple(Edit(real_bp(bp), i, r, n) for bp, i, r, n in edits)
        log = EditLog(Sf, Rf, es, tuple(real_sp(p) for p in rewritten), preserved)
        c = mk_cursor(Rf if which == 'r' else Sf, cur)
        out = log.forward(c)
    except (ValueError, TransformError) as e:
        return 'err ' + classify(e)
    return show_real(out, [Sf, Rf])

# ---------------------------------------------------------------------------
# (a)+(b) on synthetic trees

def rand_cursors(R, S, ncur, nreg=3, ninv=2):
    paths = [p for p, _ in walk(S)]
    R.shuffle(paths)
    curs = [('s', p) for p in paths[:ncur]]
    blks = list(blocks_of(S))
    # invalid paths
    for _ in range(ninv):
        bp, blk = R.choice(blks)
        k = R.random()
        if k < 0.4: curs.append(('s', (bp, len(blk) + R.randint(0, 1))))
        elif k < 0.6: curs.append(('s', (bp, -1)))
        else: curs.append(('s', (bp + ((R.randint(0, max(0, len(blk))), R.choice('btf')),), R.randint(0, 1))))
    # regions
    nonempty = [x for x in blks if x[1]] or blks
    for _ in range(nreg):
        bp, blk = R.choice(nonempty if R.random() < 0.9 else blks)
        if blk and R.random() < 0.85:
            a = R.randrange(len(blk)); b = R.randint(a + 1, len(blk))
        else:
            a = R.randint(0, len(blk)); b = R.randint(a, len(blk) + (1 if R.random() < 0.3 else 0))
            if R.random() < 0.15: a = -1
        curs.append(('r', bp, a, b))
    return curs

def expected_for(S, edits, prov, runs, cur):
    """Spec verdict for a cursor of a spec-compliant log: ('tags', [...]) | ('error',) | ('any',)"""
    def one(p):
        # root-first walk: is an enclosing statement replaced?
        bp, i = p
        for d in range(len(bp)):
            anc = (bp[:d], bp[d][0])
            v = prov.get(anc)
            if v is None or v[0] == 'gone': return ('inside',)
        v = prov.get(p)
        if v is None: return ('invalid',)
        if v[0] == 'kept': return ('kept', v[1])
        return ('gone', v[1])
    if cur[0] == 's':
        if node_at(S, cur[1]) is None or any(i < 0 for i, _ in cur[1][0]) or cur[1][1] < 0: return ('error',)
        return one(cur[1])
    _, bp, a, b = cur
    blk = block_at(S, bp)
    if blk is None or any(i < 0 for i, _ in bp) or a < 0 or b > len(blk) or b <= a: return ('error',)
    return ('region', [one((bp, i)) for i in range(a, b)])

def synthetic(rep, R, tier, lines, post):
    ntrees = 900 if tier == 'quick' else 15000
    ncur = 8 if tier == 'quick' else 12
    for ti in range(ntrees):
        S = rand_tree(R, R.randint(1, 14), 0, tagger(1))
        if not S: S = [('L', 1)]
        mode = R.choice(['wf', 'wf', 'wf', 'wf', 'lie', 'ill', 'ill', 'mut', 'mut', 'empty'])
        if mode in ('wf', 'lie'): edits = rand_wf_log(R, S)
        elif mode == 'ill': edits = rand_ill_log(R, S)
        elif mode == 'mut': edits = mutate_log(R, S, rand_wf_log(R, S))
        else: edits = []
        wf = py_wf(S, edits)
        rep.count('log:' + mode + (':wf' if wf else ':illformed'))
        ftags = tagger(5000)
        fresh_cache = {}
        def fresh(pos, edits=edits, fresh_cache=fresh_cache, ftags=ftags):
            if pos not in fresh_cache:
                out = []
                for _ in range(edits[pos][3]):
                    k = R.random()
                    if k < 0.7: out.append(('L', next(ftags)))
                    elif k < 0.9: out.append(('O', next(ftags), [('L', next(ftags))]))
                    else: out.append(('T', next(ftags), [('L', next(ftags))], []))
                fresh_cache[pos] = out
            return fresh_cache[pos]
        prov = runs = None
        if wf:
            Rt, prov, runs = spec_apply(S, edits, fresh)
            # the Lean Spec and the harness Spec are the same function (leaf policy)
            Rl, _, _ = spec_apply(S, edits, leaf_fresh(edits))
            lines.append(f'applyspec {tree_tok(S)} {log_tok(edits)}')
            post.append(('spec', tree_tok(Rl), None))
        else:
            Rt = S
        if mode == 'lie':
            Rt = R.choice([S, rand_tree(R, 6, 0, tagger(7000)) or [('L', 7000)], Rt[:-1] if Rt else Rt])
        Sf, Rf = real_func(S), real_func(Rt)
        curs = rand_cursors(R, S, ncur if wf else 2, nreg=3 if wf else 1, ninv=2 if wf else 0)
        if R.random() < 0.3 and Rt:
            curs.append(('s', R.choice([p for p, _ in walk(Rt)])) + ('r',))
        for cur in curs:
            which = 's'
            if len(cur) and cur[-1] == 'r' and cur[0] == 's' and len(cur) == 3:
                which = 'r'; cur = cur[:2]
            line = f'forward {tree_tok(S)} {tree_tok(Rt)} {log_tok(edits)} {which} {cur_tok(cur)}'
            got = real_forward(Sf, Rf, edits, which, cur)
            lines.append(line)
            exp = expected_for(S, edits, prov, runs, cur) if (wf and mode != 'lie' and which == 's') else None
            post.append(('fwd', got, (S, Rt, edits, cur, exp, runs, fresh_cache)))
            rep.distinct.add((tree_tok(S), log_tok(edits), cur_tok(cur)))
        # expression cursors (the model keeps an ExprCursor as its statement; a lying result could fail
        # the expression-level validation the model does not have, so those logs are left out)
        if mode != 'lie':
            allp = [p for p, _ in walk(S)]
            preserved = R.random() < 0.8
            rewritten = [p for p in allp if R.random() < 0.15]
            for cur in [('e', p) for p in R.sample(allp, min(3 if wf else 1, len(allp)))] + \
                       ([('e', (R.choice(allp)[0], 99))] if R.random() < 0.1 else []):
                which = 'r' if (R.random() < 0.05 and node_at(Rt, cur[1]) is not None) else 's'
                rwtok = ';'.join(map(path_tok, rewritten)) or '-'
                line = f'forwardx {tree_tok(S)} {tree_tok(Rt)} {log_tok(edits)} {int(preserved)} {rwtok} {which} {cur_tok(cur)}'
                got = real_forward(Sf, Rf, edits, which, cur, preserved, rewritten)
                lines.append(line)
                exp = expected_for(S, edits, prov, runs, ('s', cur[1])) if (wf and which == 's') else None
                post.append(('fwdx', got, (S, cur, exp, preserved, rewritten)))
                rep.distinct.add((tree_tok(S), log_tok(edits), cur_tok(cur), preserved, rwtok))
    # walk_stmts and chains
    nch = 250 if tier == 'quick' else 6000
    for ci in range(nch):
        S = rand_tree(R, R.randint(1, 12), 0, tagger(1)) or [('L', 1)]
        f0 = real_func(S)
        lines.append(f'walk {tree_tok(S)}')
        post.append(('walk', ';'.join(path_tok(unreal_sp(p)) for p, _ in walk_stmts(f0)) or '-',
                     ';'.join(path_tok(p) for p, _ in walk(S)) or '-'))
        n = R.randint(1, 3)
        trees = [S]; logs = []; funcs = [Function(f0)]; provs = []
        parts = [str(n), tree_tok(S)]
        for i in range(1, n + 1):
            prev = trees[-1]
            edits = rand_wf_log(R, prev, 3)
            opaque = R.random() < 0.12
            nxt, prov, runs = spec_apply(prev, edits, lambda pos, e=edits, i=i: [('L', 10000 * i + 100 * pos + k) for k in range(e[pos][3])])
            ast = real_func(nxt)
            if opaque:
                funcs.append(funcs[-1].with_ast(ast)); parts += ['N', tree_tok(nxt)]; provs.append(None)
            else:
                try:
                    log = EditLog(funcs[-1].ast, ast, tuple(Edit(real_bp(bp), a, r, m) for bp, a, r, m in edits), (), True)
                except (ValueError, TransformError) as e:
                    rep.violation(f'a log of disjoint in-range edits was rejected: {e}',
                                  {'source': tree_tok(prev), 'log': log_tok(edits), 'result': tree_tok(nxt)})
                    funcs.append(funcs[-1].with_ast(ast)); parts += ['N', tree_tok(nxt)]; provs.append(None)
                    trees.append(nxt); continue
                funcs.append(funcs[-1].with_edits(log)); parts += [log_tok(edits), tree_tok(nxt)]
                provs.append((edits, prov, runs))
            trees.append(nxt)
        for _ in range(6 if tier == 'quick' else 8):
            k = R.randint(0, n); m = R.randint(0, n)
            if R.random() < 0.75: k = 0; m = n
            unrelated = R.random() < 0.05
            base_tree = trees[0] if unrelated else trees[k]
            cur = R.choice(rand_cursors(R, base_tree, 3))
            if cur[0] == 's' and R.random() < 0.2: cur = ('e', cur[1])
            try:
                c = mk_cursor(real_func(trees[0]) if unrelated else funcs[k].ast, cur)
                out = funcs[m].forward(c)
                got = show_real(out, [f.ast for f in funcs])
            except (ValueError, TransformError) as e:
                got = 'err ' + classify(e)
            lines.append('chain ' + ' '.join(parts) + f' {"x" if unrelated else k} {m} {cur_tok(cur)}')
            # Spec for a chain: compose provenances (statement cursors from version k to m > k, no opaque step)
            exp = None
            if (not unrelated) and cur[0] in ('s', 'e') and k < m and all(provs[i] is not None for i in range(k, m)) \
                    and node_at(trees[k], cur[1]) is not None and cur[1][1] >= 0:
                exp = compose([provs[i] for i in range(k, m)], [trees[i] for i in range(k, m + 1)], cur[1])
            if exp is not None and cur[0] == 'e' and exp[0] == 'paths':
                # an expression never forwards into a replacing run: only an untouched statement carries it
                kept = chain_kept([provs[i] for i in range(k, m)], cur[1])
                exp = ('paths', exp[1]) if kept else ('error',)
            post.append(('chain', got, (parts, k, m, cur, exp, trees[m])))
            rep.distinct.add(('chain', ' '.join(parts), k, m, cur_tok(cur)))

def chain_kept(steps, p):
    for (edits, prov, runs) in steps:
        v = prov.get(p)
        if v is None or v[0] != 'kept': return False
        p = v[1]
    return True

def compose(steps, trees, p):
    """descendants of old statement p after the steps: ('paths', [new paths]) | ('error',)"""
    desc = [p]
    for (edits, prov, runs), S in zip(steps, trees):
        new = []
        for q in desc:
            bp, i = q
            inside = False
            for d in range(len(bp)):
                v = prov.get((bp[:d], bp[d][0]))
                if v is None or v[0] == 'gone': inside = True
            if inside: return ('error',)
            v = prov.get(q)
            if v is None: return ('error',)
            if v[0] == 'kept': new.append(v[1])
            else:
                nb, a, cnt = runs[v[1]]
                if cnt == 0: return ('error',)
                for j in range(a, a + cnt):
                    if (nb, j) not in new: new.append((nb, j))
        desc = new
    return ('paths', desc)

def judge_forward(rep, line, got, info):
    S, Rt, edits, cur, exp, runs, fresh_cache = info
    if exp is None: return
    replay = {'op': line, 'impl': got}
    def tags_of_run(pos):
        return [n[1] for n in fresh_cache.get(pos, [])]
    ok = got.startswith('ok ')
    gtags = got.split(' ')[3].split(',') if ok and len(got.split(' ')) > 3 else []
    gtags = [int(t) for t in gtags if t not in ('', 'None')]
    def verdict(e):
        if e[0] == 'kept': return [node_at(S, cur[1] if cur[0] == 's' else None)[1]] if cur[0] == 's' else None
        return None
    if cur[0] == 's':
        old = node_at(S, cur[1])
        if exp[0] == 'error':
            rep.count('spec:invalid-cursor')
            if ok: rep.violation('a cursor that names nothing was forwarded', replay)
        elif exp[0] == 'inside':
            rep.count('spec:inside-rewritten')
            if ok: rep.violation(f'a statement under a replaced statement resolved to {gtags}', replay)
        elif exp[0] == 'kept':
            rep.count('spec:untouched')
            want = f'ok 1 s:{path_tok(exp[1])} {old[1]}'
            if got != want:
                rep.violation(f'untouched statement tag {old[1]}: expected {want}', replay)
        elif exp[0] == 'gone':
            want = tags_of_run(exp[1])
            rep.count(f'spec:replaced-by-{min(len(want), 3)}')
            if not want:
                if ok: rep.violation(f'a deleted statement resolved to {gtags}', replay)
            else:
                nb, a, cnt = runs[exp[1]]
                if not ok:
                    rep.violation(f'a statement replaced by {cnt} did not forward to its replacement', replay)
                elif gtags != want:
                    rep.violation(f'replaced statement resolved to {gtags}, the replacing run is {want}', replay)
    else:
        if exp[0] == 'error':
            rep.count('spec:invalid-region')
            if ok: rep.violation('a region that names nothing (or is empty) was forwarded', replay)
            return
        members = exp[1]
        rep.count('spec:region')
        if any(m[0] in ('inside', 'invalid') for m in members) or any(m[0] == 'gone' and not tags_of_run(m[1]) for m in members):
            if ok: rep.violation(f'a region with a member that does not forward resolved to {gtags}', replay)
            return
        want = []
        for (m, i) in zip(members, range(cur[2], cur[3])):
            ts = [node_at(S, (cur[1], i))[1]] if m[0] == 'kept' else tags_of_run(m[1])
            for t in ts:
                if t not in want: want.append(t)
        if ok and gtags != want:
            rep.violation(f'region resolved to {gtags}, its descendants are {want}', replay)
        if not ok:
            rep.count('spec:region-error:' + got)

def judge_forward_expr(rep, line, got, info):
    S, cur, exp, preserved, rewritten = info
    if exp is None: return
    ok = got.startswith('ok ')
    replay = {'op': line, 'impl': got}
    may = exp[0] == 'kept' and preserved and cur[1] not in rewritten
    rep.count('spec-expr:' + ('forwards' if may else 'must-not-forward'))
    if may:
        want = f'ok 1 e:{path_tok(exp[1])} {node_at(S, cur[1])[1]}'
        if got != want: rep.violation(f'expression cursor of an untouched statement: expected {want}', replay)
    elif ok:
        rep.violation('an expression cursor forwarded although its statement was replaced / rebuilt / its expressions '
                      'rewritten / the pass makes no claim about expressions', replay)

def judge_chain(rep, line, got, info):
    parts, k, m, cur, exp, final = info
    if exp is None: return
    ok = got.startswith('ok ')
    replay = {'op': line, 'impl': got}
    if exp[0] == 'error':
        rep.count('chain-spec:error')
        if ok: rep.violation('a cursor whose statement was deleted / rebuilt along the chain resolved', replay)
        return
    want = [node_at(final, q)[1] for q in exp[1]]
    rep.count(f'chain-spec:descendants-{min(len(want), 3)}')
    if ok:
        gtags = [int(t) for t in got.split(' ')[3].split(',') if t not in ('', 'None')]
        if gtags != want or int(got.split(' ')[1]) != m:
            rep.violation(f'chain resolved to {gtags} of version {got.split(" ")[1]}, the descendants are {want} of version {m}', replay)
    elif len(want) == 1:
        rep.violation(f'chain failed ({got}) although the statement has exactly one descendant {want}', replay)
    else:
        rep.count('chain-spec:region-error:' + got)

# ---------------------------------------------------------------------------
# where vocabulary against the model (synthetic candidates), real side = SiteRewriter on real trees

def where_cases(rep, R, tier, lines, post):
    """the real `_ForUnroll` lister/rewriter pattern is exercised end to end in (c); here the model's
    `where` arithmetic is compared with the real `SiteRewriter` bookkeeping driven directly."""
    from fpy2.transform.utils import SiteRewriter, check_where
    from fpy2.transform.path import block_paths
    n = 400 if tier == 'quick' else 8000
    for _ in range(n):
        S = rand_tree(R, R.randint(1, 10), 0, tagger(1)) or [('L', 1)]
        paths = [p for p, _ in walk(S)]
        cands = [(p, R.random() < 0.3) for p in paths if R.random() < 0.6]
        func = real_func(S)
        k = sum(1 for _, r in cands if not r)
        choice = R.random()
        if choice < 0.15: w, wtok = None, 'N'
        elif choice < 0.7:
            j = R.randint(-2, k + 2); w, wtok = j, str(j)
        elif choice < 0.75: w, wtok = True, 'B'
        elif choice < 0.8: w, wtok = 'x', 'O'
        else:
            blks = list(blocks_of(S)); bp, blk = R.choice(blks)
            if not blk: continue
            a = R.randrange(len(blk)); b = R.randint(a + 1, len(blk))
            other = R.random() < 0.1
            f2 = real_func(S) if other else func
            w = BlockCursor(f2, real_bp(bp), range(a, b)) if b - a > 1 or R.random() < 0.5 else StmtCursor(f2, StmtPath(real_bp(bp), a))
            wtok = f'c:{1 if other else 0}:{bp_tok(bp)}:{a}:{b}'
        ctok = ';'.join(path_tok(p) + ('-' if r else '+') for p, r in cands) or '-'
        # real: drive SiteRewriter's bookkeeping over the candidates in visit order
        try:
            check_where(w)
            rw = SiteRewriter()
            rw.func = func; rw.where = w
            rw._begin(func)
            picked = []
            for p, refused in cands:
                here = real_bp(p[0])
                if refused:
                    rw.refused.append((p, 'no'))
                    if rw._target is not None and rw._selects_at(here, p[1], -1):
                        rw.declined.append('no')
                    continue
                idx = rw.site_idx; rw.site_idx += 1
                if rw._selects_at(here, p[1], idx):
                    rw._matched += 1
                    rw._record_at(here, p[1], 1)
                    picked.append(p)
            rw.check_site('a site')
            got = 'ok ' + (';'.join(path_tok(p) for p in picked) or '-')
        except TypeError:
            got = 'err type'
        except st.TransformDeclined:
            got = 'err declined'
        except TransformReferenceError as e:
            got = 'err ' + ('other' if 'another program' in str(e) else 'reference')
        lines.append(f'where 0 {ctok} {wtok}')
        post.append(('where', got, (cands, wtok, k)))
        rep.count('where:' + ('None' if w is None else 'int' if isinstance(w, int) and not isinstance(w, bool) else 'cursor' if wtok.startswith('c:') else 'badtype'))
        rep.distinct.add(('where', ctok, wtok))

def judge_where(rep, line, got, info):
    cands, wtok, k = info
    sites = [p for p, r in cands if not r]
    replay = {'op': line, 'impl': got}
    if wtok == 'N':
        if got != 'ok ' + (';'.join(map(path_tok, sites)) or '-'):
            rep.violation('where=None did not select every listed site', replay)
    elif re.fullmatch(r'-?\d+', wtok):
        j = int(wtok)
        if 0 <= j < k:
            if got != 'ok ' + path_tok(sites[j]): rep.violation(f'where={j} did not select exactly site {j}', replay)
        elif got != 'err reference':
            rep.violation(f'where={j} with {k} sites was not rejected', replay)
    elif wtok in ('B', 'O'):
        if got != 'err type': rep.violation('a where of the wrong type was accepted', replay)

# ---------------------------------------------------------------------------
# (c) end to end on generated programs

def header(s):
    """first line of the statement's text: its own expressions"""
    return s.format().split('\n', 1)[0].strip()

def shape(block):
    """harness tree of a real StmtBlock; the tag slot holds the AST node itself"""
    out = []
    for s in block.stmts:
        match s:
            case A.IfStmt(): out.append(('T', s, shape(s.ift), shape(s.iff)))
            case A.If1Stmt() | A.WhileStmt() | A.ForStmt() | A.ContextStmt(): out.append(('O', s, shape(s.body)))
            case _: out.append(('L', s))
    return out

def real_edits(log):
    return [(unreal_bp(e.block_path), e.index, e.removed, e.inserted) for e in log.edits]

def is_round_block(s):
    """independent re-statement of the structural match the rounding rewrites count"""
    if not isinstance(s, A.ContextStmt) or not isinstance(s.target, A.UnderscoreId): return False
    for b in s.body.stmts:
        if not (isinstance(b, A.Assign) and isinstance(b.target, A.NamedId) and b.type is None): return False
        if not (isinstance(b.expr, A.Round) and isinstance(b.expr.arg, A.Var)): return False
    return True

def beneath_py(p, q):
    """p lies at or under statement q (root-first paths)"""
    if p == q: return True
    return len(p[0]) > len(q[0]) and p[0][:len(q[0])] == q[0] and p[0][len(q[0])][0] == q[1]

def outermost_regions(regs):
    """regions (block path, lo, hi) not beneath another of the regions"""
    out = []
    for r in regs:
        if any(o != r and all(any(beneath_py((r[0], i), (o[0], k)) for k in range(o[1], o[2])) for i in range(r[1], r[2])) for o in regs):
            continue
        if r not in out: out.append(r)
    return out

def chain_paths(steps, p):
    """the path of p's (single) image before each step, while it stays 'kept'"""
    out = [p]
    for s in steps:
        v = s[1].get(out[-1])
        if v is None or v[0] != 'kept': break
        out.append(v[1])
    return out

def prov_kept(step, q):
    v = step[1].get(q)
    return v is not None and v[0] == 'kept'

# ---------------------------------------------------------------------------

COV_INCLUDE = ['fpy2/rewrite/*.py', 'fpy2/transform/cursor.py', 'fpy2/transform/path.py', 'fpy2/transform/utils.py',
               'fpy2/strategies/*.py']

def coverage_summary(cov):
    """which functions / branches of the aiming and forwarding code the run never executed (coverage.py, branch=True).
    Module-level lines (imports, `def` lines, docstrings) ran before the measurement started and are left out: the
    figures are over function bodies only."""
    import glob as _glob, json as _json
    fd, out = tempfile.mkstemp(suffix='.json', dir='/var/tmp'); os.close(fd)
    try:
        cov.json_report(outfile=out, ignore_errors=True)
        data = _json.load(open(out))
    except Exception as e:   # noqa
        return {'error': f'{type(e).__name__}: {e}'}
    finally:
        try: os.remove(out)
        except OSError: pass
    files = {os.path.relpath(k, str(REPO)): v for k, v in data.get('files', {}).items()}
    want = sorted(os.path.relpath(f, str(REPO)) for pat in COV_INCLUDE for f in _glob.glob(str(REPO / pat)))
    tot_s = cov_s = tot_b = cov_b = 0
    never, partial, per_file = [], [], {}
    for f in want:
        info = files.get(f)
        if info is None:
            never.append(f + ' (no function of this file ran)'); continue
        fs = fc = fb = fcb = 0
        for fn, r in info.get('functions', {}).items():
            if fn == '': continue          # module level
            sm = r['summary']
            fs += sm['num_statements']; fc += sm['covered_lines']
            fb += sm.get('num_branches', 0); fcb += sm.get('covered_branches', 0)
            if sm['num_statements'] and sm['covered_lines'] == 0:
                never.append(f'{f}::{fn}')
            elif r.get('missing_lines') or r.get('missing_branches'):
                partial.append(f'{f}::{fn} lines {r.get("missing_lines", [])[:12]} branches {[tuple(b) for b in r.get("missing_branches", [])[:8]]}')
        tot_s += fs; cov_s += fc; tot_b += fb; cov_b += fcb
        per_file[f] = {'statements': fs, 'covered': fc, 'branches': fb, 'covered_branches': fcb,
                       'percent': round(100.0 * (fc + fcb) / max(1, fs + fb), 1)}
    return {'scope': COV_INCLUDE, 'function_body_statements': tot_s, 'covered_statements': cov_s, 'branches': tot_b,
            'covered_branches': cov_b, 'percent_statements': round(100.0 * cov_s / max(1, tot_s), 1),
            'percent_branches': round(100.0 * cov_b / max(1, tot_b), 1),
            'percent_combined': round(100.0 * (cov_s + cov_b) / max(1, tot_s + tot_b), 1),
            'functions_never_executed': never, 'functions_partly_executed': partial, 'per_file': per_file}

def run(rep, tier, seed):
    cov = None
    if os.environ.get('C19_COVERAGE', '1' if tier == 'quick' else '0') == '1':
        try:
            import coverage
            cov = coverage.Coverage(branch=True, include=[str(REPO / p) for p in COV_INCLUDE], data_file=None)
            cov.start()
        except Exception as e:   # noqa
            rep.notes.append(f'coverage measurement unavailable: {e}'); cov = None
    try:
        _run(rep, tier, seed)
    finally:
        if cov is not None:
            cov.stop()
            rep.cov['code_coverage'] = coverage_summary(cov)

def _run(rep, tier, seed):
    global _BASE
    R = Prng(seed, 'C19')
    tmp = tempfile.mkdtemp(prefix='c19_', dir='/var/tmp')
    try:
        with open(os.path.join(tmp, f'c19base_{os.getpid()}.py'), 'w') as fh:
            fh.write('import fpy2 as fp\n\n@fp.fpy\ndef base(x: fp.Real) -> fp.Real:\n    return x\n')
        sys.path.insert(0, tmp)
        try:
            _BASE = importlib.import_module(f'c19base_{os.getpid()}').base
        finally:
            sys.path.remove(tmp)
        lines, post = [], []
        synthetic(rep, R, tier, lines, post)
        where_cases(rep, R, tier, lines, post)
        model = run_driver(lines)
        for line, mod, (kind, got, info) in zip(lines, model, post):
            if kind == 'spec':
                if mod != got:
                    rep.broke('correspondence', 'C19.applyspec', f'line={line} harness-spec={got} lean-spec={mod}')
                continue
            if kind == 'walk':
                if not (mod == got == info):
                    rep.broke('correspondence', 'C19.walk', f'line={line} impl={got} model={mod} harness={info}')
                continue
            if mod != got:
                rep.broke('correspondence', 'C19.' + kind, f'line={line} impl={got} model={mod}')
            rep.count(f'{kind}:' + (got if got.startswith('err') else 'ok ' + got.split(' ')[2][0] if kind != 'where' else 'ok'))
            if kind == 'fwd': judge_forward(rep, line, got, info)
            elif kind == 'fwdx': judge_forward_expr(rep, line, got, info)
            elif kind == 'chain': judge_chain(rep, line, got, info)
            elif kind == 'where': judge_where(rep, line, got, info)
            rep.sample({'line': line, 'impl': got, 'model': mod})
        from c19e2e import end_to_end
        n_e2e = end_to_end(rep, R, tier, tmp)
        rep.cov['evaluations'] = len(lines) + n_e2e
        rep.cov['model_lines'] = len(lines)
        rep.cov['end_to_end_evaluations'] = n_e2e
        rep.cov['rule'] = (
            'random statement trees (<=14 statements, depth<=3, every child-block shape) x edit logs that are well-formed '
            '(disjoint runs, insertions, deletions, nested blocks), ill-formed (out of range, overlapping, nested under a '
            'replaced statement, negative counts, block paths naming nothing, duplicates) or lying (result tree not the edited '
            'source) x every kind of cursor (valid/invalid statement paths, regions incl. empty/out of range, cursor of the '
            'other program) against the real EditLog/Function.forward; chains of 1-3 logs incl. opaque steps; the where '
            'vocabulary driven through the real SiteRewriter; then (c19e2e.py) generated @fp.fpy programs in which every '
            'statement / call site is uniquely tagged x every aimable pass (loop, rounding, inline, insert_round on '
            'monomorphized programs, user Rewrite rules 2->3/2->1/3->2/1->2/1->1 statements and an expression rule) x where in '
            '{None,-1..k+1,k+5,True,cursor of each site,cursor of arbitrary statements} judged by the tag oracle (reported edits vs '
            'real tree, tag conservation, index<->listing<->cursor agreement), forwarding of every statement cursor and of '
            'expression cursors across every application, chains of 1-3 passes incl. edit-reporting and opaque ones; '
            'distinct = distinct (tree,log,cursor) / chain / where / program inputs')
    finally:
        shutil.rmtree(tmp, ignore_errors=True)


def replay(rep, data):
    """re-run the recorded seed/tier (every case is derived from the seed)"""
    rep2 = Report(PROP, data.get('tier', 'quick'), int(data.get('seed', 0)))
    run(rep2, rep2.tier, rep2.seed)
    for v in rep2.violations[:10]:
        print('VIOLATION-REPLAYED', v.get('what'))
    print(f'replayed seed={rep2.seed} tier={rep2.tier}: violations={len(rep2.violations)} broken={len(rep2.broken)}')
    return 1 if (rep2.violations or rep2.broken) else 0
