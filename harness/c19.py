"""C19 — sites, indices and cursors name exactly what they say.

(a) correspondence: random statement trees x random well-formed / ill-formed / lying edit logs x
    random statement paths and regions: the real `EditLog.forward` / `Function.forward` (objects built
    directly) against the compiled Lean model, compared canonically (ok cursor+tags | error kind);
    also `walk_stmts`, the `where` vocabulary and the Lean Spec `applyEdits` against the harness Spec.
(b) Spec oracle, independent of the model: the edits are applied to a tree of uniquely tagged
    statements top-down (no index arithmetic of `forward`), every old statement gets a provenance
    (kept at new path | replaced by edit c | under a replaced statement) and whatever the real code
    resolves to is judged against that.
(c) end to end: generated @fp.fpy programs with unique literal tags, every aimable strategy of
    fpy2.strategies: listing / refusals / where=j for j in [-1..k+1] / where=None / where=True, the
    reported edits judged against the real result tree, and cursors taken before 1-3 strategy
    applications, forwarded with `Function.forward` and judged by composing provenances.
"""
from __future__ import annotations
import importlib, os, re, shutil, sys, tempfile, time, traceback
from common import *   # noqa

PROP = 'C19'

import fpy2 as fp                                     # noqa: E402
from fpy2 import strategies as st                     # noqa: E402
from fpy2.function import Function                    # noqa: E402
from fpy2.ast import fpyast as A                      # noqa: E402
from fpy2.transform import (                          # noqa: E402
    BlockCursor, StmtCursor, ExprCursor, Edit, EditLog, FuncBody, SubBlock, StmtPath,
    TransformReferenceError, TransformError, ForUnrollStrategy, SplitLoopStrategy,
)
from fpy2.transform.path import walk_stmts            # noqa: E402

FIELD = {'b': 'body', 't': 'ift', 'f': 'iff'}
FIELD_R = {v: k for k, v in FIELD.items()}

# ---------------------------------------------------------------------------
# harness trees: ('L', tag) | ('O', tag, [..]) | ('T', tag, [..], [..]); paths root-first:
# block path = tuple of (index, fieldletter); statement path = (block path, index)

def tree_tok(block):
    def s(n):
        if n[0] == 'L': return f'L{n[1]}'
        if n[0] == 'O': return f'O{n[1]}[{",".join(map(s, n[2]))}]'
        return f'T{n[1]}[{",".join(map(s, n[2]))}|{",".join(map(s, n[3]))}]'
    return ','.join(map(s, block)) if block else '-'

def bp_tok(bp):
    return '@' if not bp else '.'.join(f'{i}.{f}' for i, f in bp)

def path_tok(p):
    bp, i = p
    return str(i) if not bp else f'{bp_tok(bp)}.{i}'

def edit_tok(e):
    bp, i, r, n = e
    return f'{bp_tok(bp)}/{i}/{r}/{n}'

def log_tok(edits):
    return ';'.join(map(edit_tok, edits)) if edits else '-'

def children(n):
    if n[0] == 'O': return [('b', n[2])]
    if n[0] == 'T': return [('t', n[2]), ('f', n[3])]
    return []

def walk(block, bp=()):
    """visit order: a statement before its blocks (own implementation)"""
    for i, n in enumerate(block):
        yield (bp, i), n
        for f, sub in children(n):
            yield from walk(sub, bp + ((i, f),))

def blocks_of(block, bp=()):
    yield bp, block
    for i, n in enumerate(block):
        for f, sub in children(n):
            yield from blocks_of(sub, bp + ((i, f),))

def rand_tree(R, budget, depth, tags):
    """random block with at most `budget` statements"""
    out = []
    n = R.randint(0 if depth else 1, min(4, max(1, budget)))
    for _ in range(n):
        if budget <= 0: break
        budget -= 1
        k = R.random()
        if depth >= 3 or k < 0.5:
            out.append(('L', next(tags)))
        elif k < 0.8:
            t = next(tags); sub = rand_tree(R, min(budget, 4), depth + 1, tags); budget -= count(sub)
            out.append(('O', t, sub))
        else:
            t = next(tags); a = rand_tree(R, min(budget, 3), depth + 1, tags); budget -= count(a)
            b = rand_tree(R, min(budget, 3), depth + 1, tags); budget -= count(b)
            out.append(('T', t, a, b))
    return out

def count(block):
    return sum(1 for _ in walk(block))

def tagger(start):
    t = start
    while True:
        yield t
        t += 1

# ---------------------------------------------------------------------------
# the harness Spec: apply a log top-down, with provenance

def spec_apply(block, edits, fresh):
    """edits: list of (bp, index, removed, inserted) in OLD terms.  fresh(pos) -> list of nodes for
    the edit at position pos.  Returns (new block, prov, runs):
      prov[(bp, i)] = ('kept', new_path) | ('gone', pos)      (statements under a replaced one: absent)
      runs[pos] = (new_bp, start, count)"""
    prov, runs = {}, {}
    first = {}
    for pos, e in enumerate(edits):
        first.setdefault(e, pos)

    def go(blk, obp, nbp):
        out = []
        def emit(i):
            for pos, e in enumerate(edits):
                if e[0] == obp and e[1] == i:
                    fr = fresh(first[e])
                    runs.setdefault(first[e], (nbp, len(out), len(fr)))
                    out.extend(fr)
        for i, n in enumerate(blk):
            emit(i)
            cov = [pos for pos, e in enumerate(edits) if e[0] == obp and e[1] <= i < e[1] + e[2]]
            if cov:
                prov[(obp, i)] = ('gone', first[edits[cov[-1]]])
                continue
            j = len(out)
            prov[(obp, i)] = ('kept', (nbp, j))
            if n[0] == 'L':
                out.append(n)
            elif n[0] == 'O':
                out.append(('O', n[1], go(n[2], obp + ((i, 'b'),), nbp + ((j, 'b'),))))
            else:
                out.append(('T', n[1], go(n[2], obp + ((i, 't'),), nbp + ((j, 't'),)),
                            go(n[3], obp + ((i, 'f'),), nbp + ((j, 'f'),))))
        emit(len(blk))
        return out
    return go(block, (), ()), prov, runs

def leaf_fresh(edits):
    return lambda pos: [('L', 1000 + 100 * pos + k) for k in range(edits[pos][3])]

def node_at(block, p):
    bp, i = p
    blk = block_at(block, bp)
    if blk is None or not (0 <= i < len(blk)): return None
    return blk[i]

def block_at(block, bp):
    blk = block
    for i, f in bp:
        if not (0 <= i < len(blk)): return None
        sub = dict(children(blk[i])).get(f)
        if sub is None: return None
        blk = sub
    return blk

def py_wf(block, edits):
    """does the log meet the documented contract (independent re-statement: in range, disjoint
    including nesting)?"""
    for (bp, i, r, n) in edits:
        if i < 0 or r < 0 or n < 0: return False
        blk = block_at(block, bp)
        if blk is None or any(x < 0 for x, _ in bp): return False
        if i + r > len(blk): return False
    for x, a in enumerate(edits):
        for y, b in enumerate(edits):
            if x == y: continue
            if a[0] == b[0]:
                if a[1] <= b[1] < a[1] + a[2] or b[1] <= a[1] < b[1] + b[2]: return False
            else:
                # b's block under one of a's removed statements
                if len(b[0]) > len(a[0]) and b[0][:len(a[0])] == a[0] and a[1] <= b[0][len(a[0])][0] < a[1] + a[2]:
                    return False
    return True

def rand_wf_log(R, block, max_edits=4):
    """disjoint edits, none under a replaced statement"""
    edits = []
    dead = []   # (bp, lo, hi) replaced runs
    blks = list(blocks_of(block))
    R.shuffle(blks)
    for bp, blk in blks:
        if len(edits) >= max_edits: break
        if any(len(bp) > len(d[0]) and bp[:len(d[0])] == d[0] and d[1] <= bp[len(d[0])][0] < d[2] for d in dead):
            continue
        if R.random() < 0.45: continue
        i = 0
        while i <= len(blk) and len(edits) < max_edits:
            k = R.random()
            if k < 0.25:     # insertion before i
                edits.append((bp, i, 0, R.choice([1, 1, 2, 3])))
                if R.random() < 0.15: edits.append((bp, i, 0, R.choice([1, 2])))
                i += 0 if R.random() < 0.1 else 1
                # an insertion at i forbids a run starting at i only if the run contains i: allowed to follow at i+..
            elif k < 0.6 and i < len(blk):
                r = R.randint(1, min(3, len(blk) - i))
                # a run starting at i conflicts with an insertion at i
                if any(e[0] == bp and e[2] == 0 and e[1] == i for e in edits):
                    i += 1; continue
                edits.append((bp, i, r, R.choice([0, 1, 1, 2, 2, 3])))
                dead.append((bp, i, i + r))
                i += r
            else:
                i += 1
    # drop edits that ended up beneath a later-chosen replaced run
    keep = []
    for e in edits:
        bp = e[0]
        if any(len(bp) > len(d[0]) and bp[:len(d[0])] == d[0] and d[1] <= bp[len(d[0])][0] < d[2] for d in dead):
            continue
        keep.append(e)
    R.shuffle(keep)
    return keep

def rand_ill_log(R, block):
    blks = list(blocks_of(block))
    out = []
    for _ in range(R.randint(1, 4)):
        bp, blk = R.choice(blks)
        if R.random() < 0.12:   # a block path that names nothing
            bp = bp + ((R.randint(-1, 4), R.choice('btf')),)
        i = R.randint(-1 if R.random() < 0.1 else 0, len(blk) + 1)
        r = R.randint(-1 if R.random() < 0.05 else 0, 3)
        n = R.randint(-1 if R.random() < 0.05 else 0, 3)
        out.append((bp, i, r, n))
    return out

def mutate_log(R, block, edits):
    edits = list(edits)
    if not edits:
        return rand_ill_log(R, block)
    k = R.randrange(len(edits))
    bp, i, r, n = edits[k]
    m = R.randrange(6)
    if m == 0: edits.append(edits[k])
    elif m == 1: edits[k] = (bp, i + R.choice([-1, 1]), r, n)
    elif m == 2: edits[k] = (bp, i, r + R.choice([1, 2]), n)
    elif m == 3: edits[k] = (bp, i, r, -1)
    elif m == 4: edits[k] = (bp + ((R.randint(0, 2), R.choice('btf')),), 0, r, n)
    else: edits.append((bp, max(0, i + R.choice([0, 1])), 1, 1))
    return edits

# ---------------------------------------------------------------------------
# real objects

_BASE = None
def base_meta():
    return _BASE.ast

def real_stmt(n):
    tagx = A.Integer(n[1], None)
    if n[0] == 'L':
        return A.Assign(A.NamedId('v'), None, tagx, None)
    if n[0] == 'O':
        body = A.StmtBlock([real_stmt(c) for c in n[2]])
        k = n[1] % 4
        if k == 0: return A.If1Stmt(tagx, body, None)
        if k == 1: return A.WhileStmt(tagx, body, None)
        if k == 2: return A.ForStmt(A.NamedId('i'), tagx, body, None)
        return A.ContextStmt(A.UnderscoreId(), tagx, body, None)
    return A.IfStmt(tagx, A.StmtBlock([real_stmt(c) for c in n[2]]), A.StmtBlock([real_stmt(c) for c in n[3]]), None)

def real_func(block):
    b = base_meta()
    return A.FuncDef('g', b.args, A.StmtBlock([real_stmt(c) for c in block]), b.meta)

def real_tag(s):
    match s:
        case A.Assign(): return s.expr.val
        case A.If1Stmt() | A.WhileStmt() | A.IfStmt(): return s.cond.val
        case A.ForStmt(): return s.iterable.val
        case A.ContextStmt(): return s.ctx.val
    return None

def real_bp(bp):
    p = FuncBody()
    for i, f in bp:
        p = SubBlock(StmtPath(p, i), FIELD[f])
    return p

def real_sp(p):
    return StmtPath(real_bp(p[0]), p[1])

def unreal_bp(p):
    out = []
    while isinstance(p, SubBlock):
        out.append((p.parent.index, FIELD_R[p.field]))
        p = p.parent.parent
    return tuple(reversed(out))

def unreal_sp(p):
    return (unreal_bp(p.parent), p.index)

def classify(e):
    m = str(e)
    if isinstance(e, TransformReferenceError):
        if 'was deleted' in m: return 'deleted'
        if 'which was rewritten' in m: return 'inside'
        if 'does not say what it did' in m: return 'exprnotpreserved'
        if 'whose expressions the pass rewrote' in m: return 'exprrewritten'
        if 'unrelated program' in m: return 'unrelated'
        if 'another program' in m: return 'other'
        if 'holds no statements' in m: return 'empty'
        if 'no longer lies in one run' in m: return 'split'
        if 'does not report' in m: return 'opaque'
        return 'badpath'
    if isinstance(e, ValueError):
        if 'ill-formed edit' in m: return 'illedit'
        if 'edit consumes' in m: return 'editrange'
        if 'not disjoint' in m: return 'overlap'
    return 'exc:' + type(e).__name__

def show_real(out, funcs):
    pid = next((k for k, f in enumerate(funcs) if f is out.func), None)
    if isinstance(out, StmtCursor):
        tok = 's:' + path_tok(unreal_sp(out.path))
        tags = [real_tag(out.resolve())]
    elif isinstance(out, ExprCursor):
        tok = 'e:' + path_tok(unreal_sp(out.path.stmt()))
        tags = [out.resolve().val]
    else:
        tok = f'r:{bp_tok(unreal_bp(out.block_path))}:{out.span.start}:{out.span.stop}'
        tags = [real_tag(s) for s in out.resolve()]
    return f'ok {pid} {tok} {",".join(map(str, tags))}'

EXPR_FIELD = {A.Assign: 'expr', A.If1Stmt: 'cond', A.WhileStmt: 'cond', A.IfStmt: 'cond', A.ForStmt: 'iterable', A.ContextStmt: 'ctx'}

def mk_cursor(func, cur):
    if cur[0] == 's':
        return StmtCursor(func, real_sp(cur[1]))
    if cur[0] == 'e':
        sp = real_sp(cur[1])
        try:
            from fpy2.transform.path import resolve_stmt
            field = EXPR_FIELD[type(resolve_stmt(func, sp))]
        except TransformReferenceError:
            field = 'expr'
        return ExprCursor(func, sp.expr(field))
    return BlockCursor(func, real_bp(cur[1]), range(cur[2], cur[3]))

def cur_tok(cur):
    if cur[0] == 's': return 's:' + path_tok(cur[1])
    if cur[0] == 'e': return 'e:' + path_tok(cur[1])
    return f'r:{bp_tok(cur[1])}:{cur[2]}:{cur[3]}'

def real_forward(Sf, Rf, edits, which, cur, preserved=False, rewritten=()):
    try:
        es = tuple(Edit(real_bp(bp), i, r, n) for bp, i, r, n in edits)
        log = EditLog(Sf, Rf, es, tuple(real_sp(p) for p in rewritten), preserved)
        c = mk_cursor(Rf if which == 'r' else Sf, cur)
        out = log.forward(c)
    except (ValueError, TransformError) as e:
        return 'err ' + classify(e)
    return show_real(out, [Sf, Rf])

# ---------------------------------------------------------------------------
# (a)+(b) on synthetic trees

def rand_cursors(R, S, ncur, nreg=3, ninv=2):
    paths = [p for p, _ in walk(S)]
    R.shuffle(paths)
    curs = [('s', p) for p in paths[:ncur]]
    blks = list(blocks_of(S))
    # invalid paths
    for _ in range(ninv):
        bp, blk = R.choice(blks)
        k = R.random()
        if k < 0.4: curs.append(('s', (bp, len(blk) + R.randint(0, 1))))
        elif k < 0.6: curs.append(('s', (bp, -1)))
        else: curs.append(('s', (bp + ((R.randint(0, max(0, len(blk))), R.choice('btf')),), R.randint(0, 1))))
    # regions
    nonempty = [x for x in blks if x[1]] or blks
    for _ in range(nreg):
        bp, blk = R.choice(nonempty if R.random() < 0.9 else blks)
        if blk and R.random() < 0.85:
            a = R.randrange(len(blk)); b = R.randint(a + 1, len(blk))
        else:
            a = R.randint(0, len(blk)); b = R.randint(a, len(blk) + (1 if R.random() < 0.3 else 0))
            if R.random() < 0.15: a = -1
        curs.append(('r', bp, a, b))
    return curs

def expected_for(S, edits, prov, runs, cur):
    """Spec verdict for a cursor of a spec-compliant log: ('tags', [...]) | ('error',) | ('any',)"""
    def one(p):
        # root-first walk: is an enclosing statement replaced?
        bp, i = p
        for d in range(len(bp)):
            anc = (bp[:d], bp[d][0])
            v = prov.get(anc)
            if v is None or v[0] == 'gone': return ('inside',)
        v = prov.get(p)
        if v is None: return ('invalid',)
        if v[0] == 'kept': return ('kept', v[1])
        return ('gone', v[1])
    if cur[0] == 's':
        if node_at(S, cur[1]) is None or any(i < 0 for i, _ in cur[1][0]) or cur[1][1] < 0: return ('error',)
        return one(cur[1])
    _, bp, a, b = cur
    blk = block_at(S, bp)
    if blk is None or any(i < 0 for i, _ in bp) or a < 0 or b > len(blk) or b <= a: return ('error',)
    return ('region', [one((bp, i)) for i in range(a, b)])

def synthetic(rep, R, tier, lines, post):
    ntrees = 900 if tier == 'quick' else 15000
    ncur = 8 if tier == 'quick' else 12
    for ti in range(ntrees):
        S = rand_tree(R, R.randint(1, 14), 0, tagger(1))
        if not S: S = [('L', 1)]
        mode = R.choice(['wf', 'wf', 'wf', 'wf', 'lie', 'ill', 'ill', 'mut', 'mut', 'empty'])
        if mode in ('wf', 'lie'): edits = rand_wf_log(R, S)
        elif mode == 'ill': edits = rand_ill_log(R, S)
        elif mode == 'mut': edits = mutate_log(R, S, rand_wf_log(R, S))
        else: edits = []
        wf = py_wf(S, edits)
        rep.count('log:' + mode + (':wf' if wf else ':illformed'))
        ftags = tagger(5000)
        fresh_cache = {}
        def fresh(pos, edits=edits, fresh_cache=fresh_cache, ftags=ftags):
            if pos not in fresh_cache:
                out = []
                for _ in range(edits[pos][3]):
                    k = R.random()
                    if k < 0.7: out.append(('L', next(ftags)))
                    elif k < 0.9: out.append(('O', next(ftags), [('L', next(ftags))]))
                    else: out.append(('T', next(ftags), [('L', next(ftags))], []))
                fresh_cache[pos] = out
            return fresh_cache[pos]
        prov = runs = None
        if wf:
            Rt, prov, runs = spec_apply(S, edits, fresh)
            # the Lean Spec and the harness Spec are the same function (leaf policy)
            Rl, _, _ = spec_apply(S, edits, leaf_fresh(edits))
            lines.append(f'applyspec {tree_tok(S)} {log_tok(edits)}')
            post.append(('spec', tree_tok(Rl), None))
        else:
            Rt = S
        if mode == 'lie':
            Rt = R.choice([S, rand_tree(R, 6, 0, tagger(7000)) or [('L', 7000)], Rt[:-1] if Rt else Rt])
        Sf, Rf = real_func(S), real_func(Rt)
        curs = rand_cursors(R, S, ncur if wf else 2, nreg=3 if wf else 1, ninv=2 if wf else 0)
        if R.random() < 0.3 and Rt:
            curs.append(('s', R.choice([p for p, _ in walk(Rt)])) + ('r',))
        for cur in curs:
            which = 's'
            if len(cur) and cur[-1] == 'r' and cur[0] == 's' and len(cur) == 3:
                which = 'r'; cur = cur[:2]
            line = f'forward {tree_tok(S)} {tree_tok(Rt)} {log_tok(edits)} {which} {cur_tok(cur)}'
            got = real_forward(Sf, Rf, edits, which, cur)
            lines.append(line)
            exp = expected_for(S, edits, prov, runs, cur) if (wf and mode != 'lie' and which == 's') else None
            post.append(('fwd', got, (S, Rt, edits, cur, exp, runs, fresh_cache)))
            rep.distinct.add((tree_tok(S), log_tok(edits), cur_tok(cur)))
        # expression cursors (the model keeps an ExprCursor as its statement; a lying result could fail
        # the expression-level validation the model does not have, so those logs are left out)
        if mode != 'lie':
            allp = [p for p, _ in walk(S)]
            preserved = R.random() < 0.8
            rewritten = [p for p in allp if R.random() < 0.15]
            for cur in [('e', p) for p in R.sample(allp, min(3 if wf else 1, len(allp)))] + \
                       ([('e', (R.choice(allp)[0], 99))] if R.random() < 0.1 else []):
                which = 'r' if (R.random() < 0.05 and node_at(Rt, cur[1]) is not None) else 's'
                rwtok = ';'.join(map(path_tok, rewritten)) or '-'
                line = f'forwardx {tree_tok(S)} {tree_tok(Rt)} {log_tok(edits)} {int(preserved)} {rwtok} {which} {cur_tok(cur)}'
                got = real_forward(Sf, Rf, edits, which, cur, preserved, rewritten)
                lines.append(line)
                exp = expected_for(S, edits, prov, runs, ('s', cur[1])) if (wf and which == 's') else None
                post.append(('fwdx', got, (S, cur, exp, preserved, rewritten)))
                rep.distinct.add((tree_tok(S), log_tok(edits), cur_tok(cur), preserved, rwtok))
    # walk_stmts and chains
    nch = 250 if tier == 'quick' else 6000
    for ci in range(nch):
        S = rand_tree(R, R.randint(1, 12), 0, tagger(1)) or [('L', 1)]
        f0 = real_func(S)
        lines.append(f'walk {tree_tok(S)}')
        post.append(('walk', ';'.join(path_tok(unreal_sp(p)) for p, _ in walk_stmts(f0)) or '-',
                     ';'.join(path_tok(p) for p, _ in walk(S)) or '-'))
        n = R.randint(1, 3)
        trees = [S]; logs = []; funcs = [Function(f0)]; provs = []
        parts = [str(n), tree_tok(S)]
        for i in range(1, n + 1):
            prev = trees[-1]
            edits = rand_wf_log(R, prev, 3)
            opaque = R.random() < 0.12
            nxt, prov, runs = spec_apply(prev, edits, lambda pos, e=edits, i=i: [('L', 10000 * i + 100 * pos + k) for k in range(e[pos][3])])
            ast = real_func(nxt)
            if opaque:
                funcs.append(funcs[-1].with_ast(ast)); parts += ['N', tree_tok(nxt)]; provs.append(None)
            else:
                log = EditLog(funcs[-1].ast, ast, tuple(Edit(real_bp(bp), a, r, m) for bp, a, r, m in edits), (), True)
                funcs.append(funcs[-1].with_edits(log)); parts += [log_tok(edits), tree_tok(nxt)]
                provs.append((edits, prov, runs))
            trees.append(nxt)
        for _ in range(6 if tier == 'quick' else 8):
            k = R.randint(0, n); m = R.randint(0, n)
            if R.random() < 0.75: k = 0; m = n
            unrelated = R.random() < 0.05
            base_tree = trees[0] if unrelated else trees[k]
            cur = R.choice(rand_cursors(R, base_tree, 3))
            if cur[0] == 's' and R.random() < 0.2: cur = ('e', cur[1])
            try:
                c = mk_cursor(real_func(trees[0]) if unrelated else funcs[k].ast, cur)
                out = funcs[m].forward(c)
                got = show_real(out, [f.ast for f in funcs])
            except (ValueError, TransformError) as e:
                got = 'err ' + classify(e)
            lines.append('chain ' + ' '.join(parts) + f' {"x" if unrelated else k} {m} {cur_tok(cur)}')
            # Spec for a chain: compose provenances (statement cursors from version k to m > k, no opaque step)
            exp = None
            if (not unrelated) and cur[0] in ('s', 'e') and k < m and all(provs[i] is not None for i in range(k, m)) \
                    and node_at(trees[k], cur[1]) is not None and cur[1][1] >= 0:
                exp = compose([provs[i] for i in range(k, m)], [trees[i] for i in range(k, m + 1)], cur[1])
            if exp is not None and cur[0] == 'e' and exp[0] == 'paths':
                # an expression never forwards into a replacing run: only an untouched statement carries it
                kept = chain_kept([provs[i] for i in range(k, m)], cur[1])
                exp = ('paths', exp[1]) if kept else ('error',)
            post.append(('chain', got, (parts, k, m, cur, exp, trees[m])))
            rep.distinct.add(('chain', ' '.join(parts), k, m, cur_tok(cur)))

def chain_kept(steps, p):
    for (edits, prov, runs) in steps:
        v = prov.get(p)
        if v is None or v[0] != 'kept': return False
        p = v[1]
    return True

def compose(steps, trees, p):
    """descendants of old statement p after the steps: ('paths', [new paths]) | ('error',)"""
    desc = [p]
    for (edits, prov, runs), S in zip(steps, trees):
        new = []
        for q in desc:
            bp, i = q
            inside = False
            for d in range(len(bp)):
                v = prov.get((bp[:d], bp[d][0]))
                if v is None or v[0] == 'gone': inside = True
            if inside: return ('error',)
            v = prov.get(q)
            if v is None: return ('error',)
            if v[0] == 'kept': new.append(v[1])
            else:
                nb, a, cnt = runs[v[1]]
                if cnt == 0: return ('error',)
                for j in range(a, a + cnt):
                    if (nb, j) not in new: new.append((nb, j))
        desc = new
    return ('paths', desc)

def judge_forward(rep, line, got, info):
    S, Rt, edits, cur, exp, runs, fresh_cache = info
    if exp is None: return
    replay = {'op': line, 'impl': got}
    def tags_of_run(pos):
        return [n[1] for n in fresh_cache.get(pos, [])]
    ok = got.startswith('ok ')
    gtags = got.split(' ')[3].split(',') if ok and len(got.split(' ')) > 3 else []
    gtags = [int(t) for t in gtags if t not in ('', 'None')]
    def verdict(e):
        if e[0] == 'kept': return [node_at(S, cur[1] if cur[0] == 's' else None)[1]] if cur[0] == 's' else None
        return None
    if cur[0] == 's':
        old = node_at(S, cur[1])
        if exp[0] == 'error':
            rep.count('spec:invalid-cursor')
            if ok: rep.violation('a cursor that names nothing was forwarded', replay)
        elif exp[0] == 'inside':
            rep.count('spec:inside-rewritten')
            if ok: rep.violation(f'a statement under a replaced statement resolved to {gtags}', replay)
        elif exp[0] == 'kept':
            rep.count('spec:untouched')
            want = f'ok 1 s:{path_tok(exp[1])} {old[1]}'
            if got != want:
                rep.violation(f'untouched statement tag {old[1]}: expected {want}', replay)
        elif exp[0] == 'gone':
            want = tags_of_run(exp[1])
            rep.count(f'spec:replaced-by-{min(len(want), 3)}')
            if not want:
                if ok: rep.violation(f'a deleted statement resolved to {gtags}', replay)
            else:
                nb, a, cnt = runs[exp[1]]
                if not ok:
                    rep.violation(f'a statement replaced by {cnt} did not forward to its replacement', replay)
                elif gtags != want:
                    rep.violation(f'replaced statement resolved to {gtags}, the replacing run is {want}', replay)
    else:
        if exp[0] == 'error':
            rep.count('spec:invalid-region')
            if ok: rep.violation('a region that names nothing (or is empty) was forwarded', replay)
            return
        members = exp[1]
        rep.count('spec:region')
        if any(m[0] in ('inside', 'invalid') for m in members) or any(m[0] == 'gone' and not tags_of_run(m[1]) for m in members):
            if ok: rep.violation(f'a region with a member that does not forward resolved to {gtags}', replay)
            return
        want = []
        for (m, i) in zip(members, range(cur[2], cur[3])):
            ts = [node_at(S, (cur[1], i))[1]] if m[0] == 'kept' else tags_of_run(m[1])
            for t in ts:
                if t not in want: want.append(t)
        if ok and gtags != want:
            rep.violation(f'region resolved to {gtags}, its descendants are {want}', replay)
        if not ok:
            rep.count('spec:region-error:' + got)

def judge_forward_expr(rep, line, got, info):
    S, cur, exp, preserved, rewritten = info
    if exp is None: return
    ok = got.startswith('ok ')
    replay = {'op': line, 'impl': got}
    may = exp[0] == 'kept' and preserved and cur[1] not in rewritten
    rep.count('spec-expr:' + ('forwards' if may else 'must-not-forward'))
    if may:
        want = f'ok 1 e:{path_tok(exp[1])} {node_at(S, cur[1])[1]}'
        if got != want: rep.violation(f'expression cursor of an untouched statement: expected {want}', replay)
    elif ok:
        rep.violation('an expression cursor forwarded although its statement was replaced / rebuilt / its expressions '
                      'rewritten / the pass makes no claim about expressions', replay)

def judge_chain(rep, line, got, info):
    parts, k, m, cur, exp, final = info
    if exp is None: return
    ok = got.startswith('ok ')
    replay = {'op': line, 'impl': got}
    if exp[0] == 'error':
        rep.count('chain-spec:error')
        if ok: rep.violation('a cursor whose statement was deleted / rebuilt along the chain resolved', replay)
        return
    want = [node_at(final, q)[1] for q in exp[1]]
    rep.count(f'chain-spec:descendants-{min(len(want), 3)}')
    if ok:
        gtags = [int(t) for t in got.split(' ')[3].split(',') if t not in ('', 'None')]
        if gtags != want or int(got.split(' ')[1]) != m:
            rep.violation(f'chain resolved to {gtags} of version {got.split(" ")[1]}, the descendants are {want} of version {m}', replay)
    elif len(want) == 1:
        rep.violation(f'chain failed ({got}) although the statement has exactly one descendant {want}', replay)
    else:
        rep.count('chain-spec:region-error:' + got)

# ---------------------------------------------------------------------------
# where vocabulary against the model (synthetic candidates), real side = SiteRewriter on real trees

def where_cases(rep, R, tier, lines, post):
    """the real `_ForUnroll` lister/rewriter pattern is exercised end to end in (c); here the model's
    `where` arithmetic is compared with the real `SiteRewriter` bookkeeping driven directly."""
    from fpy2.transform.utils import SiteRewriter, check_where
    from fpy2.transform.path import block_paths
    n = 400 if tier == 'quick' else 8000
    for _ in range(n):
        S = rand_tree(R, R.randint(1, 10), 0, tagger(1)) or [('L', 1)]
        paths = [p for p, _ in walk(S)]
        cands = [(p, R.random() < 0.3) for p in paths if R.random() < 0.6]
        func = real_func(S)
        k = sum(1 for _, r in cands if not r)
        choice = R.random()
        if choice < 0.15: w, wtok = None, 'N'
        elif choice < 0.7:
            j = R.randint(-2, k + 2); w, wtok = j, str(j)
        elif choice < 0.75: w, wtok = True, 'B'
        elif choice < 0.8: w, wtok = 'x', 'O'
        else:
            blks = list(blocks_of(S)); bp, blk = R.choice(blks)
            if not blk: continue
            a = R.randrange(len(blk)); b = R.randint(a + 1, len(blk))
            other = R.random() < 0.1
            f2 = real_func(S) if other else func
            w = BlockCursor(f2, real_bp(bp), range(a, b)) if b - a > 1 or R.random() < 0.5 else StmtCursor(f2, StmtPath(real_bp(bp), a))
            wtok = f'c:{1 if other else 0}:{bp_tok(bp)}:{a}:{b}'
        ctok = ';'.join(path_tok(p) + ('-' if r else '+') for p, r in cands) or '-'
        # real: drive SiteRewriter's bookkeeping over the candidates in visit order
        try:
            check_where(w)
            rw = SiteRewriter()
            rw.func = func; rw.where = w
            rw._begin(func)
            picked = []
            for p, refused in cands:
                here = real_bp(p[0])
                if refused:
                    rw.refused.append((p, 'no'))
                    if rw._target is not None and rw._selects_at(here, p[1], -1):
                        rw.declined.append('no')
                    continue
                idx = rw.site_idx; rw.site_idx += 1
                if rw._selects_at(here, p[1], idx):
                    rw._matched += 1
                    rw._record_at(here, p[1], 1)
                    picked.append(p)
            rw.check_site('a site')
            got = 'ok ' + (';'.join(path_tok(p) for p in picked) or '-')
        except TypeError:
            got = 'err type'
        except st.TransformDeclined:
            got = 'err declined'
        except TransformReferenceError as e:
            got = 'err ' + ('other' if 'another program' in str(e) else 'reference')
        lines.append(f'where 0 {ctok} {wtok}')
        post.append(('where', got, (cands, wtok, k)))
        rep.count('where:' + ('None' if w is None else 'int' if isinstance(w, int) and not isinstance(w, bool) else 'cursor' if wtok.startswith('c:') else 'badtype'))
        rep.distinct.add(('where', ctok, wtok))

def judge_where(rep, line, got, info):
    cands, wtok, k = info
    sites = [p for p, r in cands if not r]
    replay = {'op': line, 'impl': got}
    if wtok == 'N':
        if got != 'ok ' + (';'.join(map(path_tok, sites)) or '-'):
            rep.violation('where=None did not select every listed site', replay)
    elif re.fullmatch(r'-?\d+', wtok):
        j = int(wtok)
        if 0 <= j < k:
            if got != 'ok ' + path_tok(sites[j]): rep.violation(f'where={j} did not select exactly site {j}', replay)
        elif got != 'err reference':
            rep.violation(f'where={j} with {k} sites was not rejected', replay)
    elif wtok in ('B', 'O'):
        if got != 'err type': rep.violation('a where of the wrong type was accepted', replay)

# ---------------------------------------------------------------------------
# (c) end to end on generated programs

HELPER = '''
@fp.fpy
def helper(a: fp.Real) -> fp.Real:
    b = a * 2
    return b + 1
'''

def gen_program(R, name, tags):
    """source of a program: every statement carries a unique literal tag where the syntax has room"""
    lines = ['@fp.fpy(ctx=fp.REAL)', f'def {name}(xs: list[fp.Real], x: fp.Real) -> fp.Real:', f'    acc = x + {next(tags)}']
    budget = [R.randint(5, 14)]
    def block(ind, depth):
        n = R.randint(1, 3)
        pad = '    ' * ind
        for _ in range(n):
            budget[0] -= 1
            k = R.random()
            if depth >= 3 or budget[0] <= 0 or k < 0.24:
                if R.random() < 0.25:
                    lines.append(f'{pad}acc = acc + helper(acc + {next(tags)})')
                else:
                    lines.append(f'{pad}acc = acc + {next(tags)}')
            elif k < 0.42:
                t = next(tags)
                it = R.choice(['xs', 'xs', f'[{t}.0, 1.0, 2.0]', f'[{t}.0, 1.0, 2.0, 3.0]', f'[{t}.0, 2.0]'])
                lines.append(f'{pad}for a{depth} in {it}:')
                block(ind + 1, depth + 1)
            elif k < 0.54:
                lines.append(f'{pad}while acc < {next(tags)}:')
                block(ind + 1, depth + 1)
            elif k < 0.62:
                lines.append(f'{pad}if acc > {next(tags)}:')
                block(ind + 1, depth + 1)
                lines.append(f'{pad}else:')
                block(ind + 1, depth + 1)
            elif k < 0.7:
                lines.append(f'{pad}if acc > {next(tags)}:')
                block(ind + 1, depth + 1)
            else:
                ctx = R.choice(['fp.FP16', 'fp.FP32', 'fp.FP64', 'fp.FixedContext(True, -4, 12)', 'fp.REAL', 'fp.FP16'])
                lines.append(f'{pad}with {ctx}:')
                pv = None
                for _ in range(R.choice([1, 1, 2])):
                    pv = f'p{next(tags)}'
                    lines.append(f'{pad}    {pv} = fp.round({R.choice(["acc", "x"])})')
                if R.random() < 0.5:
                    lines.append(f'{pad}q{next(tags)} = {pv} * {pv}')
    while budget[0] > 0:
        block(1, 0)
    lines.append(f'    return acc + {next(tags)}')
    return '\n'.join(lines) + '\n'

def header(s):
    """first line of the statement's text: its own expressions"""
    return s.format().split('\n', 1)[0].strip()

def shape(block):
    """harness tree of a real StmtBlock; the tag slot holds the AST node itself"""
    out = []
    for s in block.stmts:
        match s:
            case A.IfStmt(): out.append(('T', s, shape(s.ift), shape(s.iff)))
            case A.If1Stmt() | A.WhileStmt() | A.ForStmt() | A.ContextStmt(): out.append(('O', s, shape(s.body)))
            case _: out.append(('L', s))
    return out

def real_edits(log):
    return [(unreal_bp(e.block_path), e.index, e.removed, e.inserted) for e in log.edits]

def check_step(rep, name, f, g, replay):
    """the reported edits account for the difference between f and g: every statement the edits do
    not touch sits where the Spec puts it, is of the same kind and (where the pass claims expressions
    preserved) has the same header text; block lengths agree.  Returns (edits, prov, runs, S, T)."""
    S, T = shape(f.ast.body), shape(g.ast.body)
    edits = real_edits(g.edits)
    if not py_wf(S, edits):
        rep.violation(f'{name}: the pass reported edits that are out of range or overlap', dict(replay, edits=str(g.edits.edits)))
        return None
    marker = object()
    Rt, prov, runs = spec_apply(S, edits, lambda pos: [('L', marker)] * edits[pos][3])
    dirty = {unreal_sp(p) for p in g.edits.exprs_rewritten}
    bad = []
    def cmp(spec_blk, real_blk, nbp):
        if len(spec_blk) != len(real_blk):
            bad.append(f'block {bp_tok(nbp)} has {len(real_blk)} statements, the reported edits give {len(spec_blk)}')
            return
        for j, (a, b) in enumerate(zip(spec_blk, real_blk)):
            if a[1] is marker: continue
            if a[0] != b[0] or type(a[1]) is not type(b[1]):
                bad.append(f'{path_tok((nbp, j))}: kind changed {type(a[1]).__name__} -> {type(b[1]).__name__}'); continue
            for (fa, ca), (fb, cb) in zip(children(a), children(b)):
                cmp(ca, cb, nbp + ((j, fa),))
    cmp(Rt, T, ())
    # header text of kept statements
    for old, v in prov.items():
        if v[0] != 'kept': continue
        # skip those under a replaced ancestor
        bp = old[0]
        if any(prov.get((bp[:d], bp[d][0]), ('gone',))[0] != 'kept' for d in range(len(bp))): continue
        a = node_at(S, old); b = node_at(T, v[1])
        if b is None: continue
        if old in dirty or not g.edits.exprs_preserved:
            rep.count('e2e:header-not-compared'); continue
        if header(a[1]) != header(b[1]):
            bad.append(f'untouched statement {path_tok(old)} `{header(a[1])}` became `{header(b[1])}` at {path_tok(v[1])}')
    if bad:
        rep.violation(f'{name}: statements the reported edits did not touch are not unchanged: ' + '; '.join(bad[:3]),
                      dict(replay, edits=str(g.edits.edits)))
    return edits, prov, runs, S, T

def strat_table():
    Int2 = A.Integer(2, None)
    return [
        # name, callable(f, where), sites kwargs, candidate kind, statement-sited
        ('unroll_for', lambda f, w: st.unroll_for(f, where=w), {}, A.ForStmt, True),
        ('unroll_for(times=2)', lambda f, w: st.unroll_for(f, where=w, times=2), {'times': 2}, A.ForStmt, True),
        ('unroll_for(STRICT)', lambda f, w: st.unroll_for(f, where=w, times=1, strategy=ForUnrollStrategy.STRICT),
         {'times': 1, 'strategy': ForUnrollStrategy.STRICT}, A.ForStmt, True),
        ('unroll_while', lambda f, w: st.unroll_while(f, where=w), {}, A.WhileStmt, True),
        ('unroll_while(times=2)', lambda f, w: st.unroll_while(f, where=w, times=2), {}, A.WhileStmt, True),
        ('split(2)', lambda f, w: st.split(f, 2, where=w), {'factor': Int2}, A.ForStmt, True),
        ('split(2,STRICT)', lambda f, w: st.split(f, 2, where=w, strategy=SplitLoopStrategy.STRICT),
         {'factor': Int2, 'strategy': SplitLoopStrategy.STRICT}, A.ForStmt, True),
        ('unfold_special', lambda f, w: st.unfold_special(f, where=w), {}, 'round', True),
        ('unfold_neg_zero', lambda f, w: st.unfold_neg_zero(f, where=w), {}, 'round', True),
        ('unfold_overflow', lambda f, w: st.unfold_overflow(f, where=w), {}, 'round', True),
        ('float_to_fixed', lambda f, w: st.float_to_fixed(f, where=w), {}, 'round', True),
        ('rescale_fixed', lambda f, w: st.rescale_fixed(f, where=w), {}, 'round', True),
        ('inline', lambda f, w: st.inline(f, where=w), {}, None, False),
        ('insert_round(FP64)', lambda f, w: st.insert_round(f, where=w, ctx=fp.FP64), {'ctx': fp.FP64}, None, False),
    ]

STRAT_FN = {
    'unroll_for': st.unroll_for, 'unroll_for(times=2)': st.unroll_for, 'unroll_for(STRICT)': st.unroll_for,
    'unroll_while': st.unroll_while, 'unroll_while(times=2)': st.unroll_while, 'split(2)': st.split,
    'split(2,STRICT)': st.split, 'unfold_special': st.unfold_special, 'unfold_neg_zero': st.unfold_neg_zero,
    'unfold_overflow': st.unfold_overflow, 'float_to_fixed': st.float_to_fixed, 'rescale_fixed': st.rescale_fixed,
    'inline': st.inline, 'insert_round(FP64)': st.insert_round,
}

def is_round_block(s):
    """independent re-statement of the structural match the rounding rewrites count"""
    if not isinstance(s, A.ContextStmt) or not isinstance(s.target, A.UnderscoreId): return False
    for b in s.body.stmts:
        if not (isinstance(b, A.Assign) and isinstance(b.target, A.NamedId) and b.type is None): return False
        if not (isinstance(b.expr, A.Round) and isinstance(b.expr.arg, A.Var)): return False
    return True

def beneath_py(p, q):
    """p lies at or under statement q (root-first paths)"""
    if p == q: return True
    return len(p[0]) > len(q[0]) and p[0][:len(q[0])] == q[0] and p[0][len(q[0])][0] == q[1]

def outermost(paths):
    return [p for p in paths if not any(o != p and beneath_py(p, o) for o in paths)]

def e2e_cursor_where(rep, R, name, call, f, S, sp, rp, replay, evals):
    skw_of = {t[0]: t[2] for t in strat_table()}
    """where = a cursor of an arbitrary statement: every listed site at or beneath it, nothing else;
    nothing beneath: reference error, or TransformDeclined when a refused candidate lies beneath"""
    allp = [p for p, _ in walk(S)]
    near = [q for q in allp if any(beneath_py(p, q) for p in sp + rp)]
    picks = R.sample(allp, min(2, len(allp))) + R.sample(near, min(3, len(near)))
    for qi, q in enumerate(picks):
        evals[0] += 1
        sel = [p for p in sp if beneath_py(p, q)]
        refb = [p for p in rp if beneath_py(p, q)]
        rp2 = dict(replay, where=f'StmtCursor({path_tok(q)})')
        # `within` narrows both listings to the points at or beneath the cursor
        try:
            if qi not in (0, 2): raise StopIteration
            fn, skw = STRAT_FN[name], skw_of[name]
            ws = [unreal_sp(c.path) for c in st.sites(fn, f, within=StmtCursor(f.ast, real_sp(q)), **skw)]
            wr = [unreal_sp(c.path) for c, _ in st.refusals(fn, f, within=StmtCursor(f.ast, real_sp(q)), **skw)]
            rep.count('e2e:within')
            if ws != sel or wr != refb:
                rep.violation(f'{name}: sites/refusals within {path_tok(q)} are {[path_tok(p) for p in ws]} / {[path_tok(p) for p in wr]}, '
                              f'the listed ones at or beneath it are {[path_tok(p) for p in sel]} / {[path_tok(p) for p in refb]}', rp2)
        except StopIteration:
            pass
        except Exception as e:   # noqa
            rep.count(f'e2e:{name}:within-failed:{type(e).__name__}')
        try:
            g = call(f, StmtCursor(f.ast, real_sp(q)))
        except st.TransformDeclined as e:
            rep.count('e2e:cursor-where:declined')
            if sel or not refb:
                rep.violation(f'{name}: a cursor with sites {[path_tok(p) for p in sel]} and refusals {[path_tok(p) for p in refb]} beneath it declined', dict(rp2, error=str(e)))
            continue
        except TransformReferenceError as e:
            rep.count('e2e:cursor-where:nothing-beneath')
            if sel or refb:
                rep.violation(f'{name}: a cursor with sites {[path_tok(p) for p in sel]} / refusals {[path_tok(p) for p in refb]} beneath it was rejected as naming nothing', dict(rp2, error=str(e)))
            continue
        except Exception as e:   # noqa
            rep.count(f'e2e:{name}:cursor-where-failed:{type(e).__name__}'); continue
        rep.count('e2e:cursor-where:selected')
        if not sel:
            rep.violation(f'{name}: a cursor with no site beneath it was accepted; edits {g.edits.edits}', rp2); continue
        r = check_step(rep, f'{name}(where=cursor {path_tok(q)})', f, g, rp2)
        if r is None: continue
        got = sorted((e[0], e[1]) for e in r[0] if e[2])
        if got != sorted(outermost(sel)):
            rep.violation(f'{name}: cursor {path_tok(q)} must rewrite the sites beneath it {[path_tok(p) for p in outermost(sel)]}; reported {g.edits.edits}', rp2)

def e2e_rebase(rep, R, f, S, replay, evals):
    """a cursor taken on f and handed as `where` to a strategy applied to a LATER program is forwarded
    first: the rewrite must hit the descendant of the statement the cursor named"""
    table = [t for t in strat_table() if t[4]]
    for _ in range(3):
        nameA, callA, skwA, _, _ = R.choice(table)
        nameB, callB, skwB, _, _ = R.choice(table)
        try:
            sa = st.sites(STRAT_FN[nameA], f, **skwA); sb = st.sites(STRAT_FN[nameB], f, **skwB)
        except Exception:   # noqa
            continue
        if not sa or not sb: continue
        ja = R.randrange(len(sa)); cb = R.choice(sb)
        rp = dict(replay, strategy=f'{nameA}(where={ja}) then {nameB}(where=<cursor {path_tok(unreal_sp(cb.path))} of the first program>)')
        try:
            g = callA(f, ja); evals[0] += 1
        except Exception:   # noqa
            continue
        r = check_step(rep, nameA, f, g, rp)
        if r is None: continue
        edits, prov, runs, _, T = r
        q = unreal_sp(cb.path)
        exp = compose([(edits, prov, runs)], [S], q)
        try:
            h = callB(g, cb); evals[0] += 1
        except TransformError as e:
            rep.count('e2e:rebase:error')
            if exp[0] == 'paths' and len(exp[1]) == 1 and prov.get(q, ('gone',))[0] == 'kept' and not any(e2[0][:len(exp[1][0][0]) + 1] == exp[1][0][0] + ((exp[1][0][1], e2[0][len(exp[1][0][0])][1]),) for e2 in edits if len(e2[0]) > len(exp[1][0][0])):
                # the site is untouched and nothing changed beneath it: it must still be a site
                sites_g = [unreal_sp(c.path) for c in st.sites(STRAT_FN[nameB], g, **skwB)]
                if exp[1][0] in sites_g:
                    rep.violation(f'an earlier cursor naming an untouched site was rejected: {e}', rp)
            continue
        except Exception as e:   # noqa
            rep.count(f'e2e:rebase-failed:{type(e).__name__}'); continue
        rep.count('e2e:rebase:applied')
        if exp[0] == 'error':
            rep.violation(f'a cursor whose statement was rebuilt was accepted as `where`; edits {h.edits.edits}', rp); continue
        got = [(e.block_path, e.index) for e in h.edits.edits if e.removed]
        got = [(unreal_bp(b), i) for b, i in got]
        if not all(any(beneath_py(x, d) for d in exp[1]) for x in got):
            rep.violation(f'aimed with an earlier cursor whose descendants are {[path_tok(d) for d in exp[1]]}, the rewrite touched {[path_tok(x) for x in got]}', rp)

def e2e_where(rep, R, prog_name, src, f, evals):
    S = shape(f.ast.body)
    order = [p for p, _ in walk(S)]
    for name, call, skw, kind, stmt_sited in strat_table():
        fn = STRAT_FN[name]
        replay = {'program': src, 'strategy': name}
        try:
            ss = st.sites(fn, f, **skw)
            rr = st.refusals(fn, f, **skw)
        except Exception as e:   # noqa
            rep.count(f'e2e:{name}:listing-failed:{type(e).__name__}'); continue
        k = len(ss)
        evals[0] += 1
        rep.count(f'e2e:{name}:k={min(k, 4)}{"+" if k > 4 else ""}')
        if rr: rep.count(f'e2e:{name}:refusals')
        if stmt_sited:
            sp = [unreal_sp(c.path) for c in ss]
            rp = [unreal_sp(c.path) for c, _ in rr]
            if sorted(sp, key=order.index) != sp or len(set(sp)) != len(sp):
                rep.violation(f'{name}: the listing is not in visit order / has duplicates', dict(replay, sites=[path_tok(p) for p in sp]))
            if set(sp) & set(rp):
                rep.violation(f'{name}: a point is both a site and a refusal', dict(replay))
            if kind is not None:
                cand = [p for p, n in walk(S) if (is_round_block(n[1]) if kind == 'round' else isinstance(n[1], kind))]
                if set(cand) != set(sp) | set(rp):
                    rep.violation(f'{name}: considered points {[path_tok(p) for p in cand]} are not all listed as a site or explained as a refusal: '
                                  f'sites {[path_tok(p) for p in sp]}, refusals {[path_tok(p) for p in rp]}', dict(replay))
        else:
            sp = [unreal_sp(c.path.stmt()) for c in ss]
        # where = None
        try:
            g = call(f, None); evals[0] += 1
        except Exception as e:   # noqa
            rep.count(f'e2e:{name}:where=None-failed:{type(e).__name__}')
            g = None
        if g is not None:
            r = check_step(rep, f'{name}(where=None)', f, g, dict(replay, where=None))
            if r is not None:
                edits, prov, runs, _, _ = r
                dirty = {unreal_sp(p) for p in g.edits.exprs_rewritten}
                for j, p in enumerate(sp):
                    hit = prov.get(p, ('gone',))[0] == 'gone' or p in dirty or \
                        any(prov.get((p[0][:d], p[0][d][0]), ('gone',))[0] != 'kept' for d in range(len(p[0])))
                    if not hit:
                        rep.violation(f'{name}: where=None left listed site {j} ({path_tok(p)}) untouched', dict(replay, edits=str(g.edits.edits)))
                if stmt_sited:
                    for e in edits:
                        if e[2] and (e[0], e[1]) not in sp:
                            rep.violation(f'{name}: where=None rewrote {path_tok((e[0], e[1]))}, which is not a listed site', dict(replay, edits=str(g.edits.edits)))
                    if k == 0 and edits:
                        rep.violation(f'{name}: no sites listed but where=None reported edits', dict(replay, edits=str(g.edits.edits)))
        # where = j
        for j in list(range(-1, k + 2)) + [k + 5, True]:
            evals[0] += 1
            rp2 = dict(replay, where=repr(j))
            try:
                g = call(f, j)
            except TypeError as e:
                if j is not True: rep.violation(f'{name}: where={j!r} raised TypeError', dict(rp2, error=str(e)))
                else: rep.count('e2e:bool-rejected')
                continue
            except TransformReferenceError as e:
                if j is True or 0 <= j < k:
                    rep.violation(f'{name}: where={j!r} names listed site {j} of {k} but was rejected', dict(rp2, error=str(e)))
                else: rep.count('e2e:bad-index-rejected')
                continue
            except st.TransformDeclined as e:
                rep.violation(f'{name}: where={j!r} declined although an index never names a refusal', dict(rp2, error=str(e))); continue
            except Exception as e:   # noqa
                rep.count(f'e2e:{name}:where=j-failed:{type(e).__name__}'); continue
            if j is True or not (0 <= j < k):
                rep.violation(f'{name}: where={j!r} was accepted with {k} sites', dict(rp2, edits=str(g.edits.edits))); continue
            rep.count('e2e:index-accepted')
            r = check_step(rep, f'{name}(where={j})', f, g, rp2)
            if r is None: continue
            edits = r[0]
            if stmt_sited:
                want = [(sp[j][0], sp[j][1], 1)]
                if [(e[0], e[1], e[2]) for e in edits] != want:
                    rep.violation(f'{name}: where={j} must rewrite exactly site {j} = {path_tok(sp[j])}; reported edits {g.edits.edits}', rp2)
            else:
                dirty = [unreal_sp(p) for p in g.edits.exprs_rewritten]
                touched_stmts = set(dirty) | {(e[0], e[1]) for e in edits}
                if sp[j] not in touched_stmts:
                    rep.violation(f'{name}: where={j} did not touch the statement of site {j} ({path_tok(sp[j])}); edits {g.edits.edits}, exprs_rewritten {dirty}', rp2)
                if len(set(dirty)) > 1 or any(e[2] for e in edits if (e[0], e[1]) != sp[j]):
                    rep.violation(f'{name}: where={j} touched more than site {j}; edits {g.edits.edits}, exprs_rewritten {dirty}', rp2)
            # a cursor naming the same site selects it (and whatever sits beneath it)
            try:
                g2 = call(f, ss[j]); evals[0] += 1
                e2 = real_edits(g2.edits)
                if stmt_sited and [(e[0], e[1], e[2]) for e in e2] != want:
                    rep.violation(f'{name}: where=<cursor of site {j}> reported {g2.edits.edits}', rp2)
            except Exception as e:   # noqa
                rep.violation(f'{name}: where=<cursor of site {j}> failed: {type(e).__name__}: {e}', rp2)
        if stmt_sited:
            e2e_cursor_where(rep, R, name, call, f, S, sp, rp, replay, evals)
    e2e_rebase(rep, R, f, S, {'program': src}, evals)

def e2e_chains(rep, R, src, f0, evals, nchains):
    table = strat_table()
    for _ in range(nchains):
        n = R.randint(1, 3)
        funcs = [f0]; steps = []; desc = []
        for i in range(n):
            name, call, skw, kind, stmt_sited = R.choice(table)
            f = funcs[-1]
            try:
                k = len(st.sites(STRAT_FN[name], f, **skw))
            except Exception:   # noqa
                k = 0
            w = None if (k == 0 or R.random() < 0.4) else R.randrange(k)
            try:
                g = call(f, w); evals[0] += 1
            except Exception as e:   # noqa
                rep.count(f'e2e-chain:step-failed:{type(e).__name__}')
                if not isinstance(e, TransformError) and len(rep.notes) < 6:
                    rep.notes.append(f'strategy raised {type(e).__name__}: {e!r} in chain {desc + [name + "(where=" + str(w) + ")"]} on program:\n{src}\n' + traceback.format_exc()[-800:])
                continue
            r = check_step(rep, f'{name}(where={w})', f, g, {'program': src, 'chain': desc + [f'{name}(where={w})']})
            if r is None: break
            funcs.append(g); steps.append(r); desc.append(f'{name}(where={w})')
        if len(funcs) < 2: continue
        rep.count(f'e2e-chain:len={len(funcs) - 1}')
        S0 = steps[0][3]
        final_T = steps[-1][4]
        paths = [p for p, _ in walk(S0)]
        R.shuffle(paths)
        for p in paths[:20]:
            evals[0] += 1
            replay = {'program': src, 'chain': desc, 'cursor': path_tok(p)}
            exp = compose([(s[0], s[1], s[2]) for s in steps], [s[3] for s in steps], p)
            old = node_at(S0, p)[1]
            try:
                out = funcs[-1].forward(StmtCursor(f0.ast, real_sp(p)))
            except TransformReferenceError as e:
                kind = classify(e)
                rep.count('e2e-chain:error:' + kind)
                if exp[0] == 'paths' and len(exp[1]) == 1:
                    rep.violation(f'cursor {path_tok(p)} `{header(old)}` has one descendant {path_tok(exp[1][0])} but forwarding failed: {e}', replay)
                continue
            except Exception as e:   # noqa
                rep.violation(f'forwarding {path_tok(p)} raised {type(e).__name__}: {e}', replay); continue
            got = out.resolve() if isinstance(out, BlockCursor) else [out.resolve()]
            if out.func is not funcs[-1].ast:
                rep.violation('the forwarded cursor is not a cursor of the final program', replay)
            if exp[0] == 'error':
                rep.violation(f'cursor {path_tok(p)} `{header(old)}` was deleted or rebuilt along the chain but resolved to `{[header(s) for s in got]}`', replay)
                continue
            want = [node_at(final_T, q)[1] for q in exp[1]]
            rep.count(f'e2e-chain:descendants={min(len(want), 3)}')
            if [id(s) for s in got] != [id(s) for s in want]:
                rep.violation(f'cursor {path_tok(p)} `{header(old)}` resolved to `{[header(s) for s in got]}`, its descendants are `{[header(s) for s in want]}`', replay)
            elif len(want) == 1 and all(prov_kept(s, q) for s, q in zip(steps, chain_paths(steps, p))):
                # untouched all along: the very statement, tag identity
                ta, tb = re.findall(r'\b1\d{3,}\b', header(old)), re.findall(r'\b1\d{3,}\b', header(got[0]))
                dirty_any = any(q in {unreal_sp(x) for x in g.edits.exprs_rewritten} for g, q in zip(funcs[1:], chain_paths(steps, p)))
                if ta != tb and not dirty_any:
                    rep.violation(f'untouched cursor {path_tok(p)} `{header(old)}` resolved to a statement tagged `{header(got[0])}`', replay)
                rep.count('e2e-chain:untouched-tag-identity')
        # an opaque pass in between stops the walk
        if R.random() < 0.3:
            try:
                h = st.simplify(funcs[-1]); evals[0] += 1
                try:
                    h.forward(StmtCursor(f0.ast, real_sp(paths[0])))
                    rep.violation('a cursor crossed `simplify`, which reports no edits', {'program': src, 'chain': desc + ['simplify']})
                except TransformReferenceError:
                    rep.count('e2e-chain:opaque-stops')
            except Exception:   # noqa
                rep.count('e2e-chain:simplify-failed')

def chain_paths(steps, p):
    """the path of p's (single) image before each step, while it stays 'kept'"""
    out = [p]
    for s in steps:
        v = s[1].get(out[-1])
        if v is None or v[0] != 'kept': break
        out.append(v[1])
    return out

def prov_kept(step, q):
    v = step[1].get(q)
    return v is not None and v[0] == 'kept'

def end_to_end(rep, R, tier, tmp):
    nprog = 22 if tier == 'quick' else 320
    nchains = 6 if tier == 'quick' else 14
    tags = tagger(1000)
    srcs = {}
    text = 'import fpy2 as fp\n' + HELPER
    names = []
    for i in range(nprog):
        nm = f'prog{i}'
        src = gen_program(R, nm, tags)
        srcs[nm] = src; text += '\n' + src; names.append(nm)
    modname = f'c19gen_{os.getpid()}_{rep.seed}_{tier}'
    with open(os.path.join(tmp, modname + '.py'), 'w') as fh:
        fh.write(text)
    sys.path.insert(0, tmp)
    try:
        mod = importlib.import_module(modname)
    finally:
        sys.path.remove(tmp)
    evals = [0]
    t0 = time.time()
    limit = 38 if tier == 'quick' else 700
    for nm in names:
        if time.time() - t0 > limit:
            rep.notes.append(f'end-to-end stopped after {names.index(nm)} programs (time budget)'); break
        f = getattr(mod, nm)
        rep.count('e2e:programs')
        rep.sample({'program': srcs[nm][:400]}, cap=3)
        rep.distinct.add(('prog', srcs[nm]))
        e2e_where(rep, R, nm, srcs[nm], f, evals)
        e2e_chains(rep, R, srcs[nm], f, evals, nchains)
    return evals[0]

# ---------------------------------------------------------------------------

def run(rep, tier, seed):
    global _BASE
    R = Prng(seed, 'C19')
    tmp = tempfile.mkdtemp(prefix='c19_', dir='/var/tmp')
    try:
        with open(os.path.join(tmp, f'c19base_{os.getpid()}.py'), 'w') as fh:
            fh.write('import fpy2 as fp\n\n@fp.fpy\ndef base(x: fp.Real) -> fp.Real:\n    return x\n')
        sys.path.insert(0, tmp)
        try:
            _BASE = importlib.import_module(f'c19base_{os.getpid()}').base
        finally:
            sys.path.remove(tmp)
        lines, post = [], []
        synthetic(rep, R, tier, lines, post)
        where_cases(rep, R, tier, lines, post)
        model = run_driver(lines)
        for line, mod, (kind, got, info) in zip(lines, model, post):
            if kind == 'spec':
                if mod != got:
                    rep.broke('correspondence', 'C19.applyspec', f'line={line} harness-spec={got} lean-spec={mod}')
                continue
            if kind == 'walk':
                if not (mod == got == info):
                    rep.broke('correspondence', 'C19.walk', f'line={line} impl={got} model={mod} harness={info}')
                continue
            if mod != got:
                rep.broke('correspondence', 'C19.' + kind, f'line={line} impl={got} model={mod}')
            rep.count(f'{kind}:' + (got if got.startswith('err') else 'ok ' + got.split(' ')[2][0] if kind != 'where' else 'ok'))
            if kind == 'fwd': judge_forward(rep, line, got, info)
            elif kind == 'fwdx': judge_forward_expr(rep, line, got, info)
            elif kind == 'chain': judge_chain(rep, line, got, info)
            elif kind == 'where': judge_where(rep, line, got, info)
            rep.sample({'line': line, 'impl': got, 'model': mod})
        n_e2e = end_to_end(rep, R, tier, tmp)
        rep.cov['evaluations'] = len(lines) + n_e2e
        rep.cov['model_lines'] = len(lines)
        rep.cov['end_to_end_evaluations'] = n_e2e
        rep.cov['rule'] = (
            'random statement trees (<=14 statements, depth<=3, every child-block shape) x edit logs that are well-formed '
            '(disjoint runs, insertions, deletions, nested blocks), ill-formed (out of range, overlapping, nested under a '
            'replaced statement, negative counts, block paths naming nothing, duplicates) or lying (result tree not the edited '
            'source) x every kind of cursor (valid/invalid statement paths, regions incl. empty/out of range, cursor of the '
            'other program) against the real EditLog/Function.forward; chains of 1-3 logs incl. opaque steps; the where '
            'vocabulary driven through the real SiteRewriter; then generated @fp.fpy programs x 14 aimable strategy '
            'configurations x where in {None,-1..k+1,k+5,True,cursor} and cursor forwarding across 1-3 real strategy '
            'applications judged by composed provenance; distinct = distinct (tree,log,cursor) / chain / where / program inputs')
    finally:
        shutil.rmtree(tmp, ignore_errors=True)


def replay(rep, data):
    """re-run the recorded seed/tier (every case is derived from the seed)"""
    rep2 = Report(PROP, data.get('tier', 'quick'), int(data.get('seed', 0)))
    run(rep2, rep2.tier, rep2.seed)
    for v in rep2.violations[:10]:
        print('VIOLATION-REPLAYED', v.get('what'))
    print(f'replayed seed={rep2.seed} tier={rep2.tier}: violations={len(rep2.violations)} broken={len(rep2.broken)}')
    return 1 if (rep2.violations or rep2.broken) else 0
