"""C18 — evaluation is pure, isolated from the caller and reentrant.

Three property-directed searches on the REAL interpreter (`fpy2` from /repo), all judged by oracles that are
independent of the interpreter's own bookkeeping (deep snapshots with `id()`, canonical value text, the
sequential result as the oracle of a threaded run) and, where cheap, tied to the Lean model:

 (A) ARGUMENT ISOLATION   programs that mutate their list parameters (proggen.Gen + shape-specialised
     templates over random argument STRUCTURES: nested lists, lists inside tuples, the same Python list passed
     twice / stored twice).  Arguments are deep-snapshotted (structure, `id()` of every container, repr of every
     number), the call is made, and the arguments must be unchanged and the result must share no list object
     with any argument nor with the result of the previous identical call.  The returned value is also
     compared with the Lean evaluator (`eval` op: `valOf` allocates every list afresh = `to_value`).
 (B) HISTORY INDEPENDENCE  a session = a module of units (function, args, ctx); R0 = result of the first
     evaluation right after definition; then a random history (other functions, same function under other
     contexts incl. other rounding modes and stochastic contexts with their own rng, transformed copies
     (simplify / unroll_for / inline / close), a same-named function of another module, another interpreter
     object, calls that raise (also inside `with`), the caller mutating a previously returned container or a
     previously passed argument, functions that capture module-level lists and write / return them) in which
     EVERY re-evaluation of a unit must reproduce its R0 (canonical by value incl. sign of zero) and must not
     share a list object with an earlier result.  The programs of the repaired findings F7 (a write into a
     captured list used to survive the call) and F8 (a returned captured list used to be the interpreter's own
     object) stay in the corpus as regression inputs and are additionally predicted by the Lean boundary
     model (`boundary` op).  No known finding is listed for C18: every violation is `finding: None`.
 (C) REENTRANCY  4–8 threads evaluating functions under different contexts / rounding modes (MPFR paths:
     div, sqrt, exp with non-dyadic results; `with` blocks switching precision) with
     `sys.setswitchinterval(1e-6)` and barriers, warm and cold compiled-function cache; every result is
     compared with the sequential result.  Plus a function re-entered from a Python callback (fpy_primitive).
 (D) FRESH-PROCESS ORACLE  a pristine worker is forked before anything is evaluated; it answers every call of
     part D ALONE in a forked child.  After parts A-C a random history of ~2600 calls interleaves number-layer
     operations (`fpy2.ops` under fixed-point / float / integer / real contexts), library primitives
     (`core.max_p`, `min_n`, `frexp`, `ldexp`, `logb`, `split`, `modf`, `eft.*`) and FPy functions over clusters of
     equal-but-distinguishable operands (+0/-0, 1 as float/int/Fraction/Float encodings, NaNs, infinities) and
     related contexts; every call is judged against the fresh-process answer, so process-wide caches BELOW the
     evaluator (memo tables, result caches of primitives, class-level caches, MPFR settings) are visible; a
     difference is reported with the history and a two-call witness.
"""
from __future__ import annotations
import copy, gc, importlib.util, itertools, json, os, random, shutil, signal, sys, tempfile, threading, time, traceback
from fractions import Fraction
from proggen import *   # noqa
from langexport import export_program, eval_line, Unsupported, show_val, val_sexp
import fpy2 as fp
from fpy2 import strategies as S
from fpy2.ast import fpyast as A
from fpy2.function import Function

PROP = 'C18'
LEVEL = 'proof'

# --------------------------------------------------------------------------- plumbing

class _Timeout(Exception):
    pass

def with_alarm(thunk, seconds):
    """run thunk() with a wall-clock limit (main thread only; elsewhere no limit).  The handler raises at most
    once and only while the thunk runs, so a late alarm can never escape from the clean-up code."""
    if threading.current_thread() is not threading.main_thread():
        return thunk()
    state = {'armed': True}
    def on_alarm(signum, frame):
        if state['armed']:
            state['armed'] = False
            raise _Timeout()
    old = signal.signal(signal.SIGALRM, on_alarm)
    signal.alarm(seconds)
    try:
        r = thunk()
        state['armed'] = False
        return r
    finally:
        state['armed'] = False
        signal.alarm(0); signal.signal(signal.SIGALRM, old)

def call_real(fn, args, ctx=None, timeout_s=5):
    """call the real function on THESE argument objects (no copy); returns (canonical line, value or None)"""
    try:
        v = with_alarm(lambda: fn(*args, ctx=ctx) if ctx is not None else fn(*args), timeout_s)
    except _Timeout:
        return 'timeout', None
    except RecursionError:
        return 'err RecursionError', None
    except Exception as e:   # noqa
        return 'err ' + err_name(e), None
    try:
        return 'ok ' + show_val(v), v
    except Unsupported as e:
        return f'unsupported {e}', v

def load_module(path, name):
    spec = importlib.util.spec_from_file_location(name, path)
    mod = importlib.util.module_from_spec(spec)
    sys.modules[name] = mod
    spec.loader.exec_module(mod)
    return mod

def snap(v):
    """deep snapshot: structure, identity of every container, exact representation of every scalar"""
    if isinstance(v, list): return ('L', id(v), tuple(snap(x) for x in v))
    if isinstance(v, tuple): return ('T', id(v), tuple(snap(x) for x in v))
    if isinstance(v, (bool, int, float)): return ('S', type(v).__name__, repr(v))
    return ('S', type(v).__name__, id(v), repr(v))

def list_objs(v, out=None):
    """every list object reachable from v (id -> object; holding the object keeps the id unique)"""
    if out is None: out = {}
    if isinstance(v, list):
        if id(v) in out: return out
        out[id(v)] = v
        for x in v: list_objs(x, out)
    elif isinstance(v, tuple):
        for x in v: list_objs(x, out)
    return out

def eval_ctx(cs, seed=0):
    if cs is None: return None
    return eval(cs, {'fp': fp, 'random': random, 'SEED': seed})

DET_CTXS = [None, None, 'fp.IEEEContext(5, 16, fp.RM.RNE)', 'fp.IEEEContext(8, 32, fp.RM.RTZ)', 'fp.IEEEContext(11, 64, fp.RM.RTP)',
            'fp.IEEEContext(11, 64, fp.RM.RTN)', 'fp.IEEEContext(4, 8, fp.RM.RAZ)', 'fp.MPFloatContext(7, fp.RM.RAZ)',
            'fp.MPFloatContext(24, fp.RM.RTO)', 'fp.MPFloatContext(113, fp.RM.RNA)', 'fp.MPSFloatContext(6, -8, fp.RM.RNA)',
            'fp.FixedContext(True, -6, 24, fp.RM.RNE, fp.OV.SATURATE)', 'fp.MPFixedContext(-10, fp.RM.RTZ)']
STOCH_CTXS = ['fp.MPFloatContext(5, fp.RM.RNE, 3, rng=random.Random(SEED))',
              'fp.IEEEContext(5, 16, fp.RM.RTZ, num_randbits=2, rng=random.Random(SEED))',
              'fp.IEEEContext(8, 32, fp.RM.RNE, num_randbits=4, rng=random.Random(SEED))']
REALS = [1.5, -2.25, 0.1, 3.0, 1e-3, 100.0, -0.0, 0.0, float('inf'), float('nan'), 1e300, -7.0, 0.3, 65504.0, 2.0 ** -30, 5, -3,
         Fraction(1, 3), Fraction(-7, 8)]

def rand_real(R):
    x = R.choice(REALS)
    if R.random() < 0.15 and isinstance(x, float) and x == x and abs(x) != float('inf'):
        return fp.Float.from_float(x)      # a Float object passes the boundary as the SAME object
    return x

# --------------------------------------------------------------------------- (A) argument structures

# shape: ('R',) | ('L', elem_shape, n) | ('T', [shapes])
def rand_shape(R, depth):
    k = R.choice(['R', 'L', 'L', 'T'] if depth > 0 else ['R', 'R', 'L'])
    if k == 'R': return ('R',)
    if k == 'L':
        return ('L', rand_shape(R, depth - 1) if depth > 0 and R.random() < 0.6 else ('R',), R.randint(1, 3))
    return ('T', [rand_shape(R, depth - 1) for _ in range(R.randint(2, 3))])

def shape_key(s): return json.dumps(s)

def has_list(s):
    return s[0] == 'L' or (s[0] == 'T' and any(has_list(x) for x in s[1]))

def build_arg(R, s, pool, alias_p):
    """a Python value of shape s; list objects of equal shape are REUSED with probability alias_p (aliasing)"""
    if s[0] == 'R': return rand_real(R)
    if s[0] == 'T': return tuple(build_arg(R, x, pool, alias_p) for x in s[1])
    k = shape_key(s)
    if pool.get(k) and R.random() < alias_p:
        return R.choice(pool[k])
    v = [build_arg(R, s[1], pool, alias_p) for _ in range(s[2])]
    pool.setdefault(k, []).append(v)
    return v

def lit_of(R, s, reals):
    if s[0] == 'R': return R.choice(reals + ['1.5', '0.1', '3'])
    if s[0] == 'T': return '(' + ', '.join(lit_of(R, x, reals) for x in s[1]) + ')'      # tuples have >= 2 components
    return '[' + ', '.join(lit_of(R, s[1], reals) for _ in range(s[2])) + ']'

def gen_struct_prog(R, name, shapes):
    """FPy source of a function specialised to the argument shapes: destructures, MUTATES list parameters
    (also through aliases, nested indices and tuple components, storing one argument list inside another) and
    returns pieces of its parameters"""
    cnt = itertools.count()
    fresh = lambda p='n': f'{p}{next(cnt)}'
    params = [f'p{i}' for i in range(len(shapes))]
    lines, names = [], []          # names: (name, shape)
    def destruct(nm, sh, depth):
        names.append((nm, sh))
        if sh[0] == 'T':
            subs = [fresh() for _ in sh[1]]
            lines.append(f"{', '.join(subs)} = {nm}")
            for x, ss in zip(subs, sh[1]): destruct(x, ss, depth + 1)
        elif sh[0] == 'L' and sh[1][0] != 'R':
            for i in range(sh[2]):
                if R.random() < 0.7:
                    x = fresh(); lines.append(f'{x} = {nm}[{i}]'); destruct(x, sh[1], depth + 1)
    for p, sh in zip(params, shapes): destruct(p, sh, 0)
    reals = [n for n, s in names if s[0] == 'R']
    def rexpr():
        a = R.choice(reals + ['2', '0.5']) ; b = R.choice(reals + ['1', '0.1', '3'])
        return R.choice([f'({a} + {b})', f'({a} * {b})', f'({a} / {b})', f'fp.sqrt(abs({a}))', f'(-{a})', a, b, '7'])
    def expr_of(sh):
        if sh[0] == 'R': return rexpr()
        same = [n for n, s in names if s == sh]
        if same and R.random() < 0.7: return R.choice(same)          # store an existing list: sharing inside the callee
        return lit_of(R, sh, reals)
    nmut = 0
    lists = [(n, s) for n, s in names if s[0] == 'L']
    for _ in range(R.randint(1, 4)):
        if not lists: break
        n, s = R.choice(lists)
        i = R.randrange(s[2])
        if s[1][0] == 'L' and R.random() < 0.5:
            j = R.randrange(s[1][2])
            lines.append(f'{n}[{i}][{j}] = {expr_of(s[1][1])}')
        else:
            lines.append(f'{n}[{i}] = {expr_of(s[1])}')
        nmut += 1
        if s[1][0] == 'R' and R.random() < 0.3:
            x = fresh('r'); lines.append(f'{x} = {n}[{i}]'); reals.append(x)
    ret = []
    for _ in range(R.randint(1, 4)):
        n, s = R.choice(names)
        c = R.random()
        if s[0] == 'L' and c < 0.2: ret.append(f'{n}[:]')
        elif s[0] == 'L' and s[1][0] == 'R' and c < 0.3: ret.append(f'[e * 2 for e in {n}]')
        elif s[0] == 'L' and c < 0.45: ret.append(f'{n}[{R.randrange(s[2])}]')
        else: ret.append(n)
    if R.random() < 0.5: ret.append(R.choice(params))
    lines.append('return ' + (ret[0] if len(ret) == 1 and R.random() < 0.5 else '(' + ', '.join(ret) + (',)' if len(ret) == 1 else ')')))
    src = '@fp.fpy\ndef ' + name + '(' + ', '.join(params) + '):\n' + '\n'.join('    ' + l for l in lines) + '\n'
    return src, nmut

def force_param_mutation(G, funcs):
    """make the generated main function write its list parameter and return it"""
    main = funcs[-1]
    env = dict(zip(main['params'], main['ptys']))
    lp = main['params'][main['ptys'].index('L')]
    main['body'].insert(0, ('if1', ('cmp', ['gt'], [('len', ('var', lp)), ('num', '0')]),
                            [('iassign', lp, [('num', '0')], G.real(env, 2))]))
    last = main['body'][-1]
    if last[0] == 'return' and last[1][0] == 'tuple':
        main['body'][-1] = ('return', ('tuple', list(last[1][1]) + [('var', lp)]))

def isolation_check(rep, label, src, fn, args, cs, kind, lines, meta):
    """one isolated call (twice): arguments unchanged, result fresh; queues the model line"""
    ctx = eval_ctx(cs)
    before = snap(args)
    arg_lists = list_objs(args)
    got1, v1 = call_real(fn, args, ctx)
    after1 = snap(args)
    got2, v2 = call_real(fn, args, ctx)
    after2 = snap(args)
    rep.cov['evaluations'] += 2
    rep.count('A:outcome:' + (got1.split()[1] if got1.startswith('err') else got1.split()[0]))
    base = {'part': 'A', 'program': label, 'source': src, 'args': repr(args), 'ctx': cs, 'finding': None}
    if before != after1 or before != after2:
        rep.violation('a call changed the arguments passed in (value, structure or identity of a container)',
                      dict(base, before=repr(before), after=repr(after2)))
    if got1 != got2 and 'timeout' not in (got1, got2):
        rep.violation('the same call made twice in a row returned different values', dict(base, first=got1, second=got2))
    r1 = list_objs(v1) if v1 is not None else {}
    r2 = list_objs(v2) if v2 is not None else {}
    if set(r1) & set(arg_lists):
        rep.violation('the result shares a list object with an argument', dict(base, result=got1))
    if set(r2) & set(arg_lists):
        rep.violation('the result shares a list object with an argument', dict(base, result=got2))
    if set(r1) & set(r2):
        rep.violation('the result shares a list object with the result of the previous call', dict(base, result=got1))
    if r1: rep.count('A:results-with-lists')
    rep.distinct.add(('A', label, repr(args), cs))
    if got1.startswith(('ok', 'err')):
        try:
            entry, prog = export_program(fn)
            lines.append(eval_line(entry, prog, args, ctx, fuel=100000))
            meta.append((label, src, repr(args), cs, got1))
        except Unsupported:
            rep.count('A:export-unsupported')
        except Exception as e:   # noqa
            rep.count('A:export-error:' + type(e).__name__)

def part_a(rep, R, tier, tmp):
    nprog = 50 if tier == 'quick' else 400
    nstruct = 80 if tier == 'quick' else 600
    lines, meta = [], []
    G = Gen(R)
    for pi in range(nprog):
        funcs = G.program(pi)
        force_param_mutation(G, funcs)
        path = os.path.join(tmp, f'a_gen{pi}.py')
        src = 'import fpy2 as fp\n\n' + '\n'.join(src_func(f) for f in funcs)
        open(path, 'w').write(src)
        try: mod = load_module(path, f'fpyverif_c18_a_gen{pi}')
        except Exception as e:
            rep.count('A:frontend-rejected:' + type(e).__name__); continue
        fn = getattr(mod, funcs[-1]['name'])
        rep.count('A:programs-with-param-mutation')
        for _ in range(3):
            xs = [rand_real(R) for _ in range(R.choice([0, 1, 2, 3, 3]))]
            args = (rand_real(R), rand_real(R), xs)
            isolation_check(rep, f'gen:{pi}', src, fn, args, R.choice(DET_CTXS), 'gen', lines, meta)
    for si in range(nstruct):
        shapes = [rand_shape(R, 2) for _ in range(R.randint(1, 3))]
        if not any(has_list(s) for s in shapes): shapes[0] = ('L', ('R',), 2)
        if R.random() < 0.35: shapes.append(R.choice([s for s in shapes if has_list(s)]))     # room for f(xs, xs)
        body, nmut = gen_struct_prog(R, f's{si}', shapes)
        src = 'import fpy2 as fp\n\n' + body
        path = os.path.join(tmp, f'a_s{si}.py')
        open(path, 'w').write(src)
        try: mod = load_module(path, f'fpyverif_c18_a_s{si}')
        except Exception as e:
            rep.count('A:frontend-rejected:' + type(e).__name__)
            if len(rep.notes) < 5: rep.notes.append(f'front end rejected struct program: {type(e).__name__}: {str(e)[:160]} :: {body}')
            continue
        fn = getattr(mod, f's{si}')
        if nmut: rep.count('A:programs-with-param-mutation')
        rep.count('A:struct-programs')
        for _ in range(3):
            pool = {}
            alias_p = R.choice([0.0, 0.5, 0.9])
            args = tuple(build_arg(R, s, pool, alias_p) for s in shapes)
            nl = len(list_objs(args))
            total = sum(1 for _ in _iter_lists(args))
            if total > nl: rep.count('A:calls-with-aliased-arguments')
            if any(args[i] is args[j] for i in range(len(args)) for j in range(i)) and isinstance(args[0], (list, tuple)): rep.count('A:calls-f(xs,xs)')
            isolation_check(rep, f'struct:{si}', src, fn, args, R.choice(DET_CTXS), 'struct', lines, meta)
        if len(rep.cov['samples']) < 3: rep.sample({'part': 'A', 'source': body, 'args': repr(args)})
    model = run_driver(lines)
    rep.cov['A_model_vs_impl'] = len(lines)
    for line, (label, src, a, cs, got), m in zip(lines, meta, model):
        if m.startswith('bad-'):
            rep.count('A:model-unsupported'); continue
        if m != got:
            rep.broke('correspondence', 'C18.boundary-entry',
                      f'program={label}\n{src}\nargs={a} ctx={cs}\nimpl ={got}\nmodel={m}\nline={line}')

def _iter_lists(v):
    if isinstance(v, list):
        yield v
        for x in v: yield from _iter_lists(x)
    elif isinstance(v, tuple):
        for x in v: yield from _iter_lists(x)

# --------------------------------------------------------------------------- (B) history independence

NUMERIC_SRC = '''
@fp.fpy
def num_div(x, y):
    with fp.IEEEContext(5, 16, fp.RM.RTP):
        a = x / y
    with fp.MPFloatContext(11, fp.RM.RTZ):
        b = fp.sqrt(abs(x)) / 3
        with fp.MPFloatContext(3, fp.RM.RAZ):
            c = b / 7
        d = b / 7
    return (a, b, c, d, x / y)

@fp.fpy(ctx=fp.IEEEContext(8, 32, fp.RM.RTN))
def num_decl(x, y):
    t = fp.sqrt(abs(x) + 2) / (abs(y) + 3)
    with fp.FixedContext(True, -5, 16, fp.RM.RNA, fp.OV.SATURATE):
        u = t * 3
    return (t, u, fp.exp(t) / 3)

@fp.fpy
def num_loop(xs):
    acc = 0
    for e in xs:
        with fp.MPFloatContext(6, fp.RM.RTN):
            acc = acc + e / 3
        acc = acc + fp.sqrt(abs(e))
    return (acc, [e / 7 for e in xs])

@fp.fpy
def num_helper(x):
    return fp.sqrt(abs(x)) / 3

@fp.fpy
def num_call(x, y):
    with fp.MPFloatContext(9, fp.RM.RTP):
        a = num_helper(x)
    return (a, num_helper(y), num_decl(x, y))

@fp.fpy
def pair_a(x, y):
    return x + y

@fp.fpy
def pair_b(x, y):
    return x - y

@fp.fpy
def boom_index(xs, i):
    with fp.IEEEContext(5, 16, fp.RM.RTZ):
        y = xs[i] / 3
    return y

@fp.fpy
def boom_assert(x):
    with fp.MPFloatContext(2, fp.RM.RAZ):
        y = x / 3
        assert y > 100
    return y
'''

# capture templates: (name, module-level definitions, body, args, note).  The static analysis below (not this
# table) describes how a unit uses captured lists (reported with a violation, for diagnosis).
CAPTURE_SRC = '''
K_SCALE = 3.0
D_RO = [1.0, 2.0, 4.0]
D_W1 = [1.0, 2.0]
D_W2 = [1.0, 2.0, 3.0]
D_W3 = [[1.0, 2.0], [3.0]]
D_W4 = [1.0, 5.0]
D_W5 = [0.5, 0.25]
D_R1 = [1.0, 2.0]
D_R2 = [1.0, 2.0]
D_R3 = [[1.0, 2.0], [3.0]]
D_R4 = [4.0, 5.0]
D_R5 = ([1.0, 2.0], 3.0)
D_RW = [1.0, 2.0]

@fp.fpy
def cap_scalar(x):
    return x * K_SCALE + 1

@fp.fpy
def cap_readonly(x):
    return (sum(D_RO) + x, [e * x for e in D_RO], D_RO[1], D_RO[0:2], len(D_RO))

@fp.fpy
def cap_w_direct():
    D_W1[0] = D_W1[0] + 1
    return D_W1[0]

@fp.fpy
def cap_w_alias(x):
    ys = D_W2
    ys[1] = ys[1] * 2
    return sum(ys) + x

@fp.fpy
def cap_w_nested(x):
    D_W3[0][1] = D_W3[0][1] + x
    return D_W3[0][1]

@fp.fpy
def cap_w_callee_h(zs):
    zs[0] = zs[0] + 1
    return zs[0]

@fp.fpy
def cap_w_callee():
    return cap_w_callee_h(D_W4)

@fp.fpy
def cap_w_loop(x):
    for i in range(len(D_W5)):
        D_W5[i] = D_W5[i] + x
    return sum(D_W5)

@fp.fpy
def cap_r_direct():
    return D_R1

@fp.fpy
def cap_r_tuple(x):
    return (D_R2, x)

@fp.fpy
def cap_r_inner():
    return D_R3[1]

@fp.fpy
def cap_r_alias(x):
    ys = D_R4
    return (x, ys)

@fp.fpy
def cap_r_tuplecap():
    a, b = D_R5
    return a

@fp.fpy
def cap_rw():
    D_RW[0] = D_RW[0] + 1
    return D_RW
'''
CAPTURE_UNITS = [('cap_scalar', (2.0,)), ('cap_readonly', (2.0,)), ('cap_w_direct', ()), ('cap_w_alias', (1.0,)), ('cap_w_nested', (1.0,)),
                 ('cap_w_callee', ()), ('cap_w_loop', (1.0,)), ('cap_r_direct', ()), ('cap_r_tuple', (1.0,)), ('cap_r_inner', ()),
                 ('cap_r_alias', (1.0,)), ('cap_r_tuplecap', ()), ('cap_rw', ())]

TWIN_SRC = '''
@fp.fpy
def num_div(x, y):
    return x - y

@fp.fpy
def num_helper(x):
    return x * 1000

@fp.fpy
def cap_scalar(x):
    return x

@fp.fpy
def num_loop(xs):
    return len(xs)

@fp.fpy
def pair_a(x, y):
    return x * y

@fp.fpy
def pair_b(x, y):
    return x * y + 1
'''
# same-named pairs with bodies whose value the harness knows exactly (small integers, binary64)
PAIR_ORACLE = {('mod', 'pair_a'): lambda x, y: x + y, ('mod', 'pair_b'): lambda x, y: x - y,
               ('twin', 'pair_a'): lambda x, y: x * y, ('twin', 'pair_b'): lambda x, y: x * y + 1}

def pair_check(rep, R, mod, twin, history):
    which, name = R.choice(sorted(PAIR_ORACLE))
    x, y = float(R.randint(-9, 9)), float(R.randint(-9, 9))
    f = getattr(mod if which == 'mod' else twin, name)
    got, _ = call_real(f, (x, y), None)
    want = 'ok ' + show_val(PAIR_ORACLE[(which, name)](x, y))
    rep.cov['evaluations'] += 1
    history.append({'op': 'pair', 'fn': name, 'module': which, 'args': repr((x, y)), 'result': got})
    if got != want and got != 'timeout':
        rep.count('B:pair-wrong')
        rep.violation(f'{name} of module `{which}` evaluated to {got} but its body gives {want}: it ran with the body of the same-named function of the other module',
                      {'part': 'B', 'function': name, 'module': which, 'args': repr((x, y)), 'got': got, 'want': want,
                       'source_mod': 'pair_a: x + y; pair_b: x - y', 'source_twin': 'pair_a: x * y; pair_b: x * y + 1',
                       'history_relevant': [h for h in history if h.get('fn') == name][-8:], 'finding': None})


REENT_SRC = '''
def _set_reent(f):
    global _REENT
    _REENT = f

@fp.fpy_primitive
def reent_cb(x: fp.Real, d: fp.Real, ctx: fp.Context) -> fp.Real:
    # a Python callback running in the middle of an evaluation re-enters the SAME FPy function under another context
    r = _REENT(x + 1, d - 1, ctx=fp.MPFloatContext(9, fp.RM.RTZ))
    return r[0]

@fp.fpy
def reent(x, d):
    with fp.IEEEContext(5, 16, fp.RM.RTP):
        a = x / 3
        b = x
        if d > 0:
            b = reent_cb(x, d)
        c = fp.sqrt(x) / 7
    return (a + b, c, x / 3)

@fp.fpy
def reent_flat(x, d, b0):
    with fp.IEEEContext(5, 16, fp.RM.RTP):
        a = x / 3
        b = x
        if d > 0:
            b = b0
        c = fp.sqrt(x) / 7
    return (a + b, c, x / 3)
'''

def contains_list(v):
    return isinstance(v, list) or (isinstance(v, tuple) and any(contains_list(x) for x in v))

def _vars_in(e, out):
    """names read by an expression that may denote (part of) an existing object: Var, subscript, tuple, ite"""
    if isinstance(e, A.Var): out.add(str(e.name))
    elif isinstance(e, A.ListRef): _vars_in(e.value, out)
    elif isinstance(e, A.TupleExpr):
        for x in e.elts: _vars_in(x, out)
    elif isinstance(e, A.IfExpr):
        _vars_in(e.ift, out); _vars_in(e.iff, out)
    return out

def _walk_stmts(block):
    for s in block.stmts:
        yield s
        for attr in ('body', 'ift', 'iff'):
            b = getattr(s, attr, None)
            if isinstance(b, A.StmtBlock): yield from _walk_stmts(b)

def _callee_writes_param(fn, seen=None):
    return any(isinstance(s, A.IndexedAssign) for s in _walk_stmts(fn.ast.body))

def capture_shape(fn) -> dict:
    """independent static description of how a function uses captured (free-variable) lists:
    captured = names of free variables bound to values holding a list; writes = an indexed assignment whose
    base is (an alias of / a part of) a captured list, directly or in a callee handed one; returns = a return
    expression that hands out (an alias of / a part of) a captured list without copying"""
    ast = fn.ast
    captured = set()
    for v in ast.free_vars:
        try: val = ast.env[str(v)]
        except Exception: continue
        if contains_list(val): captured.add(str(v))
    tainted = set(captured)
    changed = True
    stmts = list(_walk_stmts(ast.body))
    while changed:
        changed = False
        for s in stmts:
            if isinstance(s, A.Assign) and (_vars_in(s.expr, set()) & tainted):
                tg = s.target
                names = [str(x) for x in tg.names()] if isinstance(tg, A.TupleBinding) else [str(tg)]
                for n in names:
                    if n not in tainted and n != '_': tainted.add(n); changed = True
    writes = returns = False
    def calls_in(e):
        if isinstance(e, A.Call): yield e
        for attr in ('args', 'elts'):
            for x in (getattr(e, attr, None) or []):
                if isinstance(x, A.Expr): yield from calls_in(x)
        for attr in ('arg', 'first', 'second', 'third', 'value', 'expr', 'cond', 'ift', 'iff'):
            x = getattr(e, attr, None)
            if isinstance(x, A.Expr): yield from calls_in(x)
    for s in stmts:
        if isinstance(s, A.IndexedAssign) and str(s.var) in tainted: writes = True
        if isinstance(s, A.ReturnStmt) and (_vars_in(s.expr, set()) & tainted): returns = True
        for attr in ('expr', 'cond', 'test', 'iterable'):
            e = getattr(s, attr, None)
            if isinstance(e, A.Expr):
                for c in calls_in(e):
                    if isinstance(c.fn, Function) and any(_vars_in(a, set()) & tainted for a in c.args) and _callee_writes_param(c.fn):
                        writes = True
    return {'captured': sorted(captured), 'writes': bool(captured) and writes, 'returns': bool(captured) and returns}

def classify(shape, kind, caller_mutated):
    """no known finding is listed for C18 (F7 and F8 are repaired): nothing is suppressed"""
    return None

class Unit:
    def __init__(self, name, fn, args, cs, src):
        self.name = name; self.fn = fn; self.args = args; self.cs = cs; self.src = src
        self.r0 = None; self.results = []     # returned values kept alive (identity checks, caller mutation)
        self.seen_lists = {}                   # id -> list object of every earlier result
        self.caller_mutated = False
        self.reported = set()
        self.shape = capture_shape(fn)
        self.evals = 0
    def fresh_args(self):
        return tuple(copy.deepcopy(list(self.args)))
    def desc(self):
        return {'unit': self.name, 'args': repr(self.args), 'ctx': self.cs}

def relevant(history, unit):
    return [h for h in history if h.get('unit') == unit.name or h.get('fn') == unit.fn.ast.name]

def eval_unit(rep, u: Unit, history, session_src):
    """(re-)evaluate a unit on fresh argument objects; judge against R0 and earlier results"""
    args = u.fresh_args()
    got, v = call_real(u.fn, args, eval_ctx(u.cs))
    rep.cov['evaluations'] += 1
    u.evals += 1
    step = len(history)
    history.append({'op': 'eval', **u.desc(), 'result': got[:200]})
    if got == 'timeout': return got
    base = lambda: {'part': 'B', **u.desc(), 'source': session_src(u), 'capture_shape': u.shape, 'step': step,
                    'history_relevant': relevant(history, u)[-12:], 'history_len': len(history), 'history_tail': history[-15:]}
    if u.r0 is None:
        u.r0 = got
    elif got != u.r0:
        rep.count('B:drift')
        f = classify(u.shape, 'drift', u.caller_mutated)
        key = ('drift', f)
        if key not in u.reported:
            u.reported.add(key)
            rep.violation(f'history dependence: {u.name}{u.args!r} returned {u.r0[:80]} right after definition and {got[:80]} after {u.evals - 1} earlier evaluation(s) of it in this process',
                          dict(base(), first=u.r0, now=got, finding=f))
    if v is not None:
        ls = list_objs(v)
        shared = set(ls) & set(u.seen_lists)
        if shared:
            rep.count('B:result-shares-previous-result')
            f = classify(u.shape, 'shares-previous-result', u.caller_mutated)
            key = ('share', f)
            if key not in u.reported:
                u.reported.add(key)
                rep.violation(f'{u.name}: the returned value contains a list OBJECT that an earlier call already returned (the interpreter handed out an internal object)',
                              dict(base(), result=got, finding=f))
        if set(ls) & set(list_objs(args)):
            rep.violation(f'{u.name}: the result shares a list object with an argument', dict(base(), result=got, finding=None))
        u.seen_lists.update(ls)
        u.results.append(v)
    return got

def build_session(rep, R, tmp, si, n_gen, n_struct):
    """write + import one module of units; returns (units, others, module, source-of-unit function)"""
    G = Gen(R)
    parts = ['import fpy2 as fp\n']
    gen_units = []
    for pi in range(n_gen):
        funcs = G.program(si * 1000 + pi)
        if R.random() < 0.6: force_param_mutation(G, funcs)
        text = '\n'.join(src_func(f) for f in funcs)
        gen_units.append((funcs[-1]['name'], text))
    struct_units = []
    for k in range(n_struct):
        shapes = [rand_shape(R, 2) for _ in range(R.randint(1, 2))]
        if not any(has_list(s) for s in shapes): shapes[0] = ('L', ('L', ('R',), 2), 2)
        body, _ = gen_struct_prog(R, f'st{si}_{k}', shapes)
        struct_units.append((f'st{si}_{k}', body, shapes))
    # each generated program goes in its own file so that one rejected program does not lose the session
    units, src_of = [], {}
    def add(name, fn, args, cs, src):
        u = Unit(name, fn, args, cs, src); units.append(u); return u
    for name, text in gen_units:
        path = os.path.join(tmp, f'b{si}_{name}.py'); open(path, 'w').write('import fpy2 as fp\n\n' + text)
        try: mod = load_module(path, f'fpyverif_c18_b{si}_{name}')
        except Exception as e:
            rep.count('B:frontend-rejected:' + type(e).__name__); continue
        for _ in range(2):
            xs = [rand_real(R) for _ in range(R.choice([1, 2, 3]))]
            add(name, getattr(mod, name), (rand_real(R), rand_real(R), xs), R.choice(DET_CTXS), text)
    for name, text, shapes in struct_units:
        path = os.path.join(tmp, f'b{si}_{name}.py'); open(path, 'w').write('import fpy2 as fp\n\n' + text)
        try: mod = load_module(path, f'fpyverif_c18_b{si}_{name}')
        except Exception as e:
            rep.count('B:frontend-rejected:' + type(e).__name__); continue
        pool = {}
        add(name, getattr(mod, name), tuple(build_arg(R, s, pool, 0.5) for s in shapes), R.choice(DET_CTXS), text)
    path = os.path.join(tmp, f'b{si}_fixed.py')
    open(path, 'w').write('import fpy2 as fp\n' + NUMERIC_SRC + CAPTURE_SRC + REENT_SRC)
    mod = load_module(path, f'fpyverif_c18_b{si}_fixed')
    mod._set_reent(mod.reent)
    for _ in range(2):
        add('num_div', mod.num_div, (rand_real(R), R.choice([3.0, 7.0, 0.1, -2.25, 5])), R.choice(DET_CTXS), NUMERIC_SRC)
        add('num_decl', mod.num_decl, (rand_real(R), rand_real(R)), R.choice(DET_CTXS), NUMERIC_SRC)
        add('num_call', mod.num_call, (R.choice([1.5, 0.1, 3.0, 100.0]), R.choice([0.3, 7.0, 2.0])), R.choice(DET_CTXS), NUMERIC_SRC)
        add('num_loop', mod.num_loop, ([R.choice([1.5, 0.1, 3.0, 100.0, -7.0]) for _ in range(R.randint(0, 4))],), R.choice(DET_CTXS), NUMERIC_SRC)
    add('boom_index', mod.boom_index, ([1.0, 2.0], 5), None, NUMERIC_SRC)
    add('boom_index', mod.boom_index, ([1.0, 2.0], 1), None, NUMERIC_SRC)
    add('boom_assert', mod.boom_assert, (3.0,), 'fp.IEEEContext(5, 16, fp.RM.RNE)', NUMERIC_SRC)
    add('reent', mod.reent, (2.0, 2), 'fp.IEEEContext(8, 32, fp.RM.RTN)', REENT_SRC)
    for name, args in CAPTURE_UNITS:
        add(name, getattr(mod, name), args, R.choice([None, 'fp.IEEEContext(8, 32, fp.RM.RTZ)']), CAPTURE_SRC)
    path = os.path.join(tmp, f'b{si}_twin.py')
    open(path, 'w').write('import fpy2 as fp\n' + TWIN_SRC)
    twin = load_module(path, f'fpyverif_c18_b{si}_twin')
    return units, mod, twin

XFORMS = [('simplify', lambda f, R: S.simplify(f)),
          ('unroll_for', lambda f, R: S.unroll_for(f, None, R.randint(1, 3))),
          ('inline', lambda f, R: S.inline(f)),
          ('close', lambda f, R: S.close(f)),
          ('simplify;unroll_for', lambda f, R: S.unroll_for(S.simplify(f), None, 2))]

def mutate_container(R, v):
    """the caller writes a container it was handed back; returns a description or None"""
    ls = list(list_objs(v).values())
    if not ls: return None
    l = R.choice(ls)
    c = R.choice(['set', 'set', 'append', 'clear', 'insert'])
    if c == 'set' and l: l[R.randrange(len(l))] = fp.Float.from_float(99.0); return f'set[{len(l)}]'
    if c == 'append' or (c == 'set' and not l): l.append(fp.Float.from_float(-1.0)); return 'append'
    if c == 'insert': l.insert(0, [fp.Float.from_float(5.0)] if R.random() < 0.3 else fp.Float.from_float(5.0)); return 'insert'
    l.clear(); return 'clear'

def part_b(rep, R, tier, tmp):
    nsessions = 4 if tier == 'quick' else 18
    nops = 300 if tier == 'quick' else 800
    from fpy2.interpret import BytecodeInterpreter
    for si in range(nsessions):
        units, mod, twin = build_session(rep, R, tmp, si, n_gen=5, n_struct=4)
        history = []
        session_src = lambda u: u.src
        # R0: right after definition (the first evaluation compiles the function)
        order = list(units); R.shuffle(order)
        for u in order:
            eval_unit(rep, u, history, session_src)
            if R.random() < 0.15: pair_check(rep, R, mod, twin, history)
            rep.count('B:unit-kind:' + ('capture' if u.shape['captured'] else 'plain'))
        live = [u for u in units if u.r0 is not None and u.r0 != 'timeout']
        xf_cache = {}
        for oi in range(nops):
            op = R.choice(['eval'] * 6 + ['other-ctx'] * 3 + ['stochastic'] * 2 + ['transform'] * 2 + ['raise'] * 2 +
                          ['mutate-result'] * 3 + ['mutate-arg', 'twin', 'twin', 'other-interpreter', 'other-args', 'gc', 'reentrant-callback'])
            rep.count('B:op:' + op)
            u = R.choice(live)
            if op == 'eval':
                eval_unit(rep, u, history, session_src)
            elif op == 'other-ctx':
                cs = R.choice(DET_CTXS[2:])
                got, _ = call_real(u.fn, u.fresh_args(), eval_ctx(cs))
                history.append({'op': op, 'unit': u.name, 'fn': u.fn.ast.name, 'args': repr(u.args), 'ctx': cs, 'result': got[:80]})
            elif op == 'stochastic':
                cs = R.choice(STOCH_CTXS); sd = R.randrange(1000)
                got, _ = call_real(u.fn, u.fresh_args(), eval_ctx(cs, sd))
                history.append({'op': op, 'unit': u.name, 'fn': u.fn.ast.name, 'args': repr(u.args), 'ctx': cs, 'rng_seed': sd, 'result': got[:80]})
            elif op == 'other-args':
                args = tuple(rand_real(R) if not isinstance(a, (list, tuple)) else copy.deepcopy(a) for a in u.args)
                got, _ = call_real(u.fn, args, eval_ctx(u.cs))
                history.append({'op': op, 'unit': u.name, 'fn': u.fn.ast.name, 'args': repr(args), 'ctx': u.cs, 'result': got[:80]})
            elif op == 'transform':
                nm, t = R.choice(XFORMS)
                try:
                    xf = with_alarm(lambda: t(u.fn, R), 20)
                    got, xv = call_real(xf, u.fresh_args(), eval_ctx(u.cs))
                    rep.count('B:transform-applied:' + nm)
                    if xv is not None and R.random() < 0.3: mutate_container(R, xv)
                except _Timeout:
                    got = 'strategy-timeout'; rep.count('B:strategy-timeout:' + nm)
                except Exception as e:   # the strategy declined
                    got = 'declined ' + type(e).__name__
                history.append({'op': op, 'unit': u.name, 'fn': u.fn.ast.name, 'strategy': nm, 'args': repr(u.args), 'ctx': u.cs, 'result': got[:80]})
            elif op == 'raise':
                kind = R.choice(['arity', 'type', 'index', 'assert', 'ctxtype'])
                try:
                    if kind == 'arity': u.fn(*u.fresh_args(), 1.0, 2.0)
                    elif kind == 'type': u.fn(*[('x' if R.random() < 0.5 else object()) for _ in u.args])
                    elif kind == 'index': mod.boom_index([1.0], 3, ctx=eval_ctx(R.choice(DET_CTXS)))
                    elif kind == 'assert': mod.boom_assert(1.0, ctx=eval_ctx(R.choice(DET_CTXS)))
                    else: u.fn(*u.fresh_args(), ctx='not a context')
                    res = 'no-exception'
                except Exception as e:   # noqa
                    res = 'raised ' + type(e).__name__
                history.append({'op': op, 'unit': u.name, 'fn': u.fn.ast.name, 'kind': kind, 'result': res})
            elif op == 'mutate-result':
                cands = [w for w in live if w.results]
                if not cands: continue
                w = R.choice(cands)
                what = mutate_container(R, R.choice(w.results))
                if what:
                    w.caller_mutated = True
                    history.append({'op': op, 'unit': w.name, 'fn': w.fn.ast.name, 'what': what})
                    rep.count('B:caller-mutations')
            elif op == 'mutate-arg':
                # the caller reuses / mutates an argument object after the call returned
                args = u.fresh_args()
                got, v = call_real(u.fn, args, eval_ctx(u.cs))
                what = mutate_container(R, args)
                got2 = None
                if v is not None:
                    got2 = 'ok ' + show_val(v)
                    if got2 != got:
                        rep.violation(f'{u.name}: a value already returned changed when the caller mutated the argument it had passed',
                                      {'part': 'B', **u.desc(), 'source': u.src, 'before': got, 'after': got2, 'finding': None})
                history.append({'op': op, 'unit': u.name, 'fn': u.fn.ast.name, 'what': what})
            elif op == 'twin' and R.random() < 0.6:
                pair_check(rep, R, mod, twin, history)
            elif op == 'twin':
                name = R.choice(['num_div', 'num_helper', 'cap_scalar', 'num_loop'])
                f2 = getattr(twin, name)
                a = {'num_div': (5.0, 3.0), 'num_helper': (2.0,), 'cap_scalar': (1.0,), 'num_loop': ([1.0, 2.0],)}[name]
                got, _ = call_real(f2, a, None)
                history.append({'op': op, 'fn': name, 'result': got[:80], 'note': 'same name, other module, other body'})
            elif op == 'other-interpreter':
                f2 = u.fn.with_rt(BytecodeInterpreter())
                got, _ = call_real(f2, u.fresh_args(), eval_ctx(R.choice(DET_CTXS)))
                history.append({'op': op, 'unit': u.name, 'fn': u.fn.ast.name, 'result': got[:80]})
            elif op == 'gc':
                gc.collect(); history.append({'op': op})
            elif op == 'reentrant-callback':
                x = R.choice([2.0, 3.0, 0.1, 10.0]); d = R.randint(0, 3)
                cs = R.choice(DET_CTXS)
                got, _ = call_real(mod.reent, (x, d), eval_ctx(cs))
                # oracle without re-entrancy: evaluate the innermost activation first and feed results outwards
                b = None
                for lvl in range(d, -1, -1):
                    xx = x + lvl; dd = d - lvl
                    c = eval_ctx(cs) if lvl == 0 else fp.MPFloatContext(9, fp.RM.RTZ)
                    r = mod.reent_flat(xx, dd, 0.0 if b is None else b, ctx=c) if c is not None else mod.reent_flat(xx, dd, 0.0 if b is None else b)
                    b = r[0]
                want = 'ok ' + show_val(r)
                rep.cov['evaluations'] += 1
                rep.count('B:reentrant-depth:' + str(d))
                history.append({'op': op, 'fn': 'reent', 'args': repr((x, d)), 'ctx': cs, 'result': got[:80]})
                if got != want and got != 'timeout':
                    rep.violation('re-entering the interpreter from a Python callback (fpy_primitive) changed the outer evaluation',
                                  {'part': 'B', 'source': REENT_SRC, 'args': repr((x, d)), 'ctx': cs, 'nested': got, 'flat_oracle': want, 'finding': None})
        # closing sweep: every unit once more
        for u in live:
            eval_unit(rep, u, history, session_src)
        for u in units:
            rep.distinct.add(('B', si, u.name, repr(u.args), u.cs))
            rep.count('B:reevaluations', max(u.evals - 1, 0))
        rep.cov.setdefault('B_history_lengths', []).append(len(history))
        if si == 0:
            rep.sample({'part': 'B', 'history_head': history[len(units):len(units) + 8]})
        part_b_model(rep, mod)

# model prediction of the programs of the repaired findings F7 / F8 (Lean `boundary` op)
def part_b_model(rep, mod):
    if rep.cov.get('B_model_done'): return
    rep.cov['B_model_done'] = True
    cases = BOUNDARY_CASES
    lines = [c[1] for c in cases]
    try:
        out = run_driver(lines)
    except Exception as e:   # noqa
        rep.broke('correspondence', 'C18.boundary-driver', traceback.format_exc()); return
    for (name, line, real_thunk), m in zip(cases, out):
        try: real = real_thunk()
        except Exception as e:   # noqa
            real = 'harness-error ' + type(e).__name__ + ' ' + str(e)[:100]
        rep.cov['evaluations'] += 1
        rep.count('B:model-history-cases')
        if m != real:
            rep.broke('correspondence', 'C18.boundary-history', f'case={name}\nline={line}\nimpl ={real}\nmodel={m}')

def _fresh_fixed_module():
    d = tempfile.mkdtemp(prefix='fpyverif_c18m_', dir='/var/tmp')
    path = os.path.join(d, 'm.py')
    open(path, 'w').write('import fpy2 as fp\n' + NUMERIC_SRC + CAPTURE_SRC)
    mod = load_module(path, 'fpyverif_c18m_' + os.path.basename(d))
    return d, mod

def _history_real(script):
    """run a little history on a FRESH copy of the capture module; canonical 'r1 | r2 | …' of the call results"""
    d, mod = _fresh_fixed_module()
    try:
        out, results = [], []
        for step in script:
            if step[0] == 'call':
                got, v = call_real(getattr(mod, step[1]), tuple(copy.deepcopy(list(step[2]))), None)
                out.append(got); results.append(v)
            elif step[0] == 'mutate':     # ('mutate', k, i, x): result k (a list) gets element i := x
                results[step[1]][step[2]] = fp.Float.from_float(step[3])
            elif step[0] == 'transform-call':
                got, v = call_real(S.simplify(getattr(mod, step[1])), tuple(copy.deepcopy(list(step[2]))), None)
                out.append(got); results.append(v)
        return ' | '.join(out)
    finally:
        shutil.rmtree(d, ignore_errors=True)

def _sx_globals(pairs):
    return '(' + ' '.join(f'({n} {val_sexp(v)})' for n, v in pairs) + ')'

def _boundary_line(funcs_sx, globs, ops):
    # the model's claim about the code as it is (`Policy.current` in Fpy/Model/Boundary.lean) is the default;
    # C18_MODEL_POLICY=legacy asks for the model of the code before the repairs 20fad08 / 1c6f5b2 (diagnosis only)
    pol = os.environ.get('C18_MODEL_POLICY', '')
    return f'boundary 2000 {pol + " " if pol else ""}({funcs_sx}) {_sx_globals(globs)} (' + ' '.join(ops) + ')'

F7_SX = '(func cap_w_direct () _ ((iassign D_W1 ((num Q0/1)) (op add (index (var D_W1) (num Q0/1)) (num Q1/1))) (return (index (var D_W1) (num Q0/1)))))'
F8_SX = '(func cap_r_direct () _ ((return (var D_R1))))'
RO_SX = '(func cap_ro (x) _ ((return (op add (sum (var D_RO)) (var x)))))'
BOUNDARY_CASES = [
    ('F7 three successive calls', _boundary_line(F7_SX, [('D_W1', [1.0, 2.0])], ['(call cap_w_direct _ ())'] * 3),
     lambda: _history_real([('call', 'cap_w_direct', ())] * 3)),
    ('F7 call, transformed copy, call', _boundary_line(F7_SX, [('D_W1', [1.0, 2.0])], ['(call cap_w_direct _ ())', '(transform cap_w_direct)', '(callt 0 _ ())', '(call cap_w_direct _ ())']),
     lambda: _history_real([('call', 'cap_w_direct', ()), ('transform-call', 'cap_w_direct', ()), ('call', 'cap_w_direct', ())])),
    ('F8 call, caller mutates the result, call', _boundary_line(F8_SX, [('D_R1', [1.0, 2.0])], ['(call cap_r_direct _ ())', '(mutate 0 0 ' + val_sexp(99.0) + ')', '(call cap_r_direct _ ())']),
     lambda: _history_real([('call', 'cap_r_direct', ()), ('mutate', 0, 0, 99.0), ('call', 'cap_r_direct', ())])),
]

# --------------------------------------------------------------------------- (C) threads

THREAD_SRC = NUMERIC_SRC + '''
@fp.fpy
def th_mix(x, y, xs):
    ys = [e / 3 for e in xs]
    with fp.MPFloatContext(20, fp.RM.RTO):
        s = sum(ys) / 7
        with fp.IEEEContext(4, 8, fp.RM.RNE):
            t = s * y
    if len(xs) > 0:
        xs[0] = t
    return (s, t, fp.sqrt(abs(x)) / 3, fp.log(abs(y) + 2), xs)

@fp.fpy(ctx=fp.MPFloatContext(40, fp.RM.RNA))
def th_prec(x):
    a = fp.sqrt(x) / 3
    with fp.MPFloatContext(200, fp.RM.RTZ):
        b = fp.sqrt(x) / 3
        c = fp.exp(b) / 7
    with fp.MPFloatContext(2, fp.RM.RTP):
        d = b / 3
    return (a, b, c, d, fp.sqrt(x) / 3)
'''

def thread_items(R, mod, n):
    items = []
    for _ in range(n):
        k = R.choice(['num_div', 'num_decl', 'num_loop', 'num_call', 'th_mix', 'th_prec'])
        if k == 'num_div': args = (R.choice([1.5, 0.1, 3.0, 100.0, 1e300, -7.0]), R.choice([3.0, 7.0, 0.1, -2.25, 5]))
        elif k == 'num_decl': args = (R.choice([1.5, 0.1, 3.0, 100.0]), R.choice([1.5, 0.1, 3.0, -7.0]))
        elif k == 'num_loop': args = ([R.choice([1.5, 0.1, 3.0, 100.0, -7.0]) for _ in range(R.randint(0, 4))],)
        elif k == 'num_call': args = (R.choice([1.5, 0.1, 3.0, 100.0]), R.choice([0.3, 7.0, 2.0]))
        elif k == 'th_mix': args = (R.choice([1.5, 0.1, -3.0]), R.choice([0.3, 7.0, 2.0]), [R.choice([1.5, 0.1, 3.0, 100.0]) for _ in range(R.randint(0, 3))])
        else: args = (R.choice([2.0, 3.0, 0.1, 10.0, 1e10]),)
        items.append((k, args, R.choice(DET_CTXS)))
    return items

def part_c(rep, R, tier, tmp):
    rounds = 4 if tier == 'quick' else 24
    n_items = 40 if tier == 'quick' else 80
    old_si = sys.getswitchinterval()
    sched = []
    try:
        for rd in range(rounds):
            cold = rd % 2 == 1
            path = os.path.join(tmp, f'c_warm{rd}.py'); open(path, 'w').write('import fpy2 as fp\n' + THREAD_SRC)
            warm = load_module(path, f'fpyverif_c18_c_warm{rd}')
            items = thread_items(R, warm, n_items)
            # sequential oracle (on the warm copy)
            sys.setswitchinterval(old_si)
            want, kept = [], []
            for k, args, cs in items:
                got, _ = call_real(getattr(warm, k), tuple(copy.deepcopy(list(args))), eval_ctx(cs), timeout_s=20)
                if got == 'timeout': rep.count('C:sequential-timeout'); continue
                want.append(got); kept.append((k, args, cs))
            items = kept
            target = warm
            if cold:   # same source, NEW FuncDef objects: nothing compiled yet, the threads race on lookup/compile/insert
                path = os.path.join(tmp, f'c_cold{rd}.py'); open(path, 'w').write('import fpy2 as fp\n' + THREAD_SRC)
                target = load_module(path, f'fpyverif_c18_c_cold{rd}')
            N = R.randint(4, 8)
            iters = 2 if tier == 'quick' else 3
            seeds = [R.randrange(1 << 30) for _ in range(N)]
            barrier = threading.Barrier(N)
            results = [[] for _ in range(N)]
            errors = []
            def worker(t):
                rr = random.Random(seeds[t])
                try:
                    for it in range(iters):
                        order = list(range(len(items)))
                        if not (cold and it == 0): rr.shuffle(order)      # cold round: all threads hit the same uncompiled function first
                        barrier.wait(timeout=120)
                        for n, j in enumerate(order):
                            k, args, cs = items[j]
                            a = tuple(copy.deepcopy(list(args)))
                            before = snap(a)
                            got, v = call_real(getattr(target, k), a, eval_ctx(cs))
                            if snap(a) != before: got = 'ARGS-CHANGED ' + got
                            results[t].append((j, got))
                            if n % 10 == 9: barrier.wait(timeout=120)
                except Exception:   # noqa
                    errors.append((t, traceback.format_exc()))
                    try: barrier.abort()
                    except Exception: pass
            sys.setswitchinterval(1e-6)
            ths = [threading.Thread(target=worker, args=(t,)) for t in range(N)]
            t0 = time.time()
            for th in ths: th.start()
            for th in ths: th.join(300)
            sys.setswitchinterval(old_si)
            params = {'round': rd, 'threads': N, 'iterations': iters, 'items': len(items), 'cold_cache': cold, 'thread_seeds': seeds,
                      'switchinterval': 1e-6, 'wall_s': round(time.time() - t0, 2)}
            sched.append(params)
            rep.count(f'C:threads={N}', N * iters * len(items))
            for t, tb in errors:
                rep.violation('a worker thread died', {'part': 'C', 'schedule': params, 'thread': t, 'traceback': tb[-1500:], 'source': THREAD_SRC, 'finding': None})
            bad = 0
            for t in range(N):
                for j, got in results[t]:
                    rep.cov['evaluations'] += 1
                    if got != want[j]:
                        bad += 1
                        if bad <= 3:
                            k, args, cs = items[j]
                            rep.violation(f'concurrent evaluation of {k} differs from the sequential result',
                                          {'part': 'C', 'schedule': params, 'thread': t, 'function': k, 'args': repr(args), 'ctx': cs,
                                           'sequential': want[j], 'concurrent': got, 'source': THREAD_SRC, 'finding': None})
            for j, (k, args, cs) in enumerate(items): rep.distinct.add(('C', k, repr(args), cs))
    finally:
        sys.setswitchinterval(old_si)
    rep.cov['C_schedules'] = sched

# --------------------------------------------------------------------------- (D) fresh-process oracle

# Process-wide state BELOW the evaluator (memo tables in the number layer, result caches in primitives,
# class-level caches in contexts, MPFR settings) is invisible to "re-evaluate and compare with R0" when the
# first evaluation is already polluted, and to histories that only repeat one call.  Part D therefore
#  * forks a pristine worker (the "zygote") at the very start of the run, before ANY evaluation, with every
#    function of part D already defined in it; the zygote answers "what does this call return in a process
#    where nothing else has been evaluated?" by forking one child per question (the call runs alone, the child
#    exits); the answer is by definition independent of any history, so it is memoized;
#  * runs, in the harness process and AFTER parts A-C (their thousands of evaluations are history too), a long
#    random history over CLUSTERS of calls whose members are equal in what a careless cache key sees and
#    different in what the result depends on: the same operation on +0 / -0, on 1 as float / int / Fraction /
#    Float in several encodings, on NaNs and infinities of both signs; under contexts that share some
#    attributes (same format other rounding mode, same precision other exponent range, same width other
#    split, fixed vs float vs integer vs real); number-layer operations (`fpy2.ops`), library primitives
#    (`core.max_p`, `min_n`, `frexp`, `ldexp`, `logb`, `split`, `modf`), `eft.*`, and FPy functions (hand-written
#    ones that observe the sign of a fixed-point zero, that call primitives, plus proggen programs);
#  * judges EVERY call of the history against the fresh-process answer; a difference is a violation, reported
#    with the history and, when one exists, a two-call witness (`after`, `call`) found by replaying pairs in
#    forked children.

D_FIXED = ['fp.MPFixedContext(-8)', 'fp.MPFixedContext(-4, fp.RM.RTZ)', 'fp.MPFixedContext(-8, fp.RM.RTP)', 'fp.MPFixedContext(-1, fp.RM.RAZ)',
           'fp.INTEGER', 'fp.MPFixedContext(0, fp.RM.RTN)',
           'fp.FixedContext(True, -6, 24, fp.RM.RNE, fp.OV.SATURATE)', 'fp.FixedContext(True, -6, 24, fp.RM.RTZ, fp.OV.SATURATE)',
           'fp.FixedContext(True, -3, 24, fp.RM.RNE, fp.OV.WRAP)', 'fp.FixedContext(False, -6, 24, fp.RM.RNE, fp.OV.SATURATE)', 'fp.SINT8', 'fp.UINT8']
D_FLOAT = ['fp.FP64', 'fp.FP32', 'fp.FP16', 'fp.BF16', 'fp.TF32', 'fp.IEEEContext(11, 64, fp.RM.RTP)', 'fp.IEEEContext(11, 64, fp.RM.RTZ)',
           'fp.IEEEContext(8, 32, fp.RM.RTN)', 'fp.IEEEContext(5, 32, fp.RM.RNE)', 'fp.IEEEContext(5, 16, fp.RM.RAZ)', 'fp.IEEEContext(4, 8, fp.RM.RNE)',
           'fp.MPFloatContext(24, fp.RM.RNE)', 'fp.MPFloatContext(53, fp.RM.RNE)', 'fp.MPFloatContext(11, fp.RM.RTZ)', 'fp.MPFloatContext(3, fp.RM.RNA)',
           'fp.MPSFloatContext(24, -149, fp.RM.RNE)', 'fp.MPSFloatContext(24, -20, fp.RM.RNE)', 'fp.MPSFloatContext(53, -1074, fp.RM.RTO)',
           'fp.EFloatContext(4, 8, False, fp.EFloatNanKind.MAX_VAL, 1, fp.RM.RNE)', 'fp.EFloatContext(4, 8, False, fp.EFloatNanKind.MAX_VAL, 0, fp.RM.RNE)',
           'fp.EFloatContext(5, 8, False, fp.EFloatNanKind.MAX_VAL, 1, fp.RM.RNE)', 'fp.IEEEContext(6, 32, fp.RM.RNE)', 'fp.IEEEContext(4, 16, fp.RM.RNE)',
           'fp.IEEEContext(3, 8, fp.RM.RNE)', 'fp.IEEEContext(7, 32, fp.RM.RTZ)']
D_OTHER = ['fp.REAL', None]
D_VALS = {   # groups of operands that are EQUAL as numbers (or all NaN) and distinguishable as objects
    'zero': ['0.0', '-0.0', 'fp.Float(s=False, c=0, exp=0)', 'fp.Float(s=True, c=0, exp=0)', 'fp.Float(s=True, c=0, exp=-20)', '0', 'Fraction(0)',
             'fp.Float.from_float(-0.0)'],
    'one': ['1.0', '1', 'Fraction(1)', 'fp.Float(c=1, exp=0)', 'fp.Float(c=4, exp=-2)', 'fp.Float(c=1 << 60, exp=-60)', 'fp.Float.from_float(1.0)'],
    'mone': ['-1.0', '-1', 'Fraction(-1)', 'fp.Float(s=True, c=1, exp=0)', 'fp.Float(s=True, c=8, exp=-3)'],
    'three': ['3.0', '3', 'Fraction(3)', 'fp.Float(c=3, exp=0)', 'fp.Float(c=12, exp=-2)', 'fp.Float.from_float(3.0)'],
    'tenth': ['0.1', 'Fraction(3602879701896397, 36028797018963968)', 'fp.Float.from_float(0.1)', 'fp.Float(c=3602879701896397, exp=-55)'],
    'third': ['Fraction(1, 3)', 'Fraction(2, 6)'],
    'neg': ['-2.25', 'Fraction(-9, 4)', 'fp.Float(s=True, c=9, exp=-2)', 'fp.Float(s=True, c=36, exp=-4)'],
    'big': ['1e300', 'fp.Float.from_float(1e300)', '65504.0', 'fp.Float(c=2047, exp=5)'],
    'tiny': ['2.0 ** -30', 'Fraction(1, 1 << 30)', 'fp.Float(c=1, exp=-30)', '5e-324', 'fp.Float(c=1, exp=-1074)'],
    'nan': ["float('nan')", 'fp.Float(isnan=True)', 'fp.Float(isnan=True, s=True)'],
    'inf': ["float('inf')", "float('-inf')", 'fp.Float(isinf=True)', 'fp.Float(isinf=True, s=True)'],
    'half': ['0.5', 'Fraction(1, 2)', 'fp.Float(c=1, exp=-1)', '2.5', 'fp.Float(c=5, exp=-1)', '-0.5', '-2.5'],
}
D_UNARY = ['neg', 'fabs', 'sqrt', 'cbrt', 'exp', 'exp2', 'expm1', 'log', 'log2', 'log1p', 'sin', 'cos', 'atan', 'tanh', 'floor', 'ceil', 'trunc', 'nearbyint', 'roundint',
           'round', 'round_exact', 'cast', 'signbit', 'isnan', 'isnormal', 'logb']
D_BINARY = ['add', 'sub', 'mul', 'div', 'copysign', 'fmin', 'fmax', 'fmod', 'remainder', 'pow', 'hypot', 'atan2', 'fdim', 'round_at']
D_NULLARY = ['const_pi', 'const_e', 'const_log2e', 'nan', 'inf']

D_FPY_SRC = """
from fpy2.libraries import core, eft

@fp.fpy
def recip_scaled(x):
    with fp.MPFixedContext(-8):
        t = x * 3
    return 1 / t

@fp.fpy
def histogram_bin(x):
    with fp.MPFixedContext(-4, fp.RM.RTZ):
        t = x * 3
    return t

@fp.fpy
def sign_of_root(x):
    with fp.FixedContext(True, -6, 24, fp.RM.RNE, fp.OV.SATURATE):
        s = fp.sqrt(abs(x)) * x
    with fp.INTEGER:
        k = fp.round(x)
    return (fp.copysign(1, s), 1 / k, fp.signbit(s))

@fp.fpy
def prec_here():
    return core.max_p()

@fp.fpy
def prec_mix(x):
    with fp.FP32:
        p = core.max_p()
        a, b = eft.classic_2mul(x, x)
    q = core.max_p()
    c, d = eft.fast_2sum(x, 1)
    return (p, q, a, b, c, d)

@fp.fpy
def lit_step(x):
    y = x + 0.1
    with fp.MPFixedContext(-8, fp.RM.RTP):
        z = y * 3 - 0.3
    return (y, z, fp.sqrt(z * z) / 7)

@fp.fpy
def neg_chain(x):
    with fp.INTEGER:
        a = -x
    with fp.MPFixedContext(-2):
        b = -x
        c = a * b
    return (1 / a, 1 / b, c, fp.atan2(b, -1))

@fp.fpy
def frexp_sum(x):
    m, e = core.frexp(fp.round(x))
    return (m, e, core.ldexp(m, e), core.logb(fp.round(abs(x) + 1)))
"""
D_FPY_CALLS = {'recip_scaled': ['zero', 'one', 'tiny'], 'histogram_bin': ['zero', 'one', 'neg'], 'sign_of_root': ['zero', 'one', 'neg', 'half'],
               'lit_step': ['zero', 'tenth', 'one'], 'neg_chain': ['zero', 'half', 'tiny'], 'prec_mix': ['one', 'tenth', 'three'],
               'frexp_sum': ['three', 'tenth', 'big']}

_D_NS = {}

def d_namespace():
    if not _D_NS:
        import fpy2.ops as ops_mod
        from fpy2.libraries import core, eft
        _D_NS.update({'fp': fp, 'Fraction': Fraction, 'ops': ops_mod, 'core': core, 'eft': eft, 'float': float})
    return _D_NS

def d_obs(v) -> str:
    if v is None: return 'none'
    if isinstance(v, fp.Context): return 'ctx ' + repr(v)
    try: return 'ok ' + show_val(v)
    except Unsupported: return 'ok ' + repr(v)[:200]
    except ValueError:      # an integer too large for int -> str (a fixed-point exp of a large number): digest instead of digits
        return 'ok huge ' + _digest(v)

def _digest(v) -> str:
    import hashlib
    if isinstance(v, (list, tuple)): return '(' + ' '.join(_digest(x) for x in v) + ')'
    if isinstance(v, fp.Float) and not (v.isnan or v.isinf):
        return f'{int(v.s)}:{v.exp}:{v.c.bit_length()}:' + hashlib.sha256(v.c.to_bytes((v.c.bit_length() + 7) // 8 or 1, 'big')).hexdigest()[:16]
    try: return show_val(v)
    except Exception: return type(v).__name__

def d_eval(desc) -> str:
    """evaluate one call descriptor {'call': expr, 'args': [expr...], 'ctx': expr|None} -> canonical observation"""
    ns = d_namespace()
    try:
        f = eval(desc['call'], ns)
        args = [eval(a, ns) for a in desc['args']]
        ctx = eval(desc['ctx'], ns) if desc['ctx'] else None
        v = with_alarm(lambda: f(*args, ctx=ctx) if ctx is not None else f(*args), 10)
    except _Timeout:
        return 'timeout'
    except RecursionError:
        return 'err RecursionError'
    except Exception as e:   # noqa
        return 'err ' + type(e).__name__
    return d_obs(v)[:20000]

def d_key(desc): return json.dumps(desc, sort_keys=True)

class Zygote:
    """pristine worker: forked before any evaluation; runs each question alone in a forked child"""
    def __init__(self, par=12):
        q_r, q_w = os.pipe(); a_r, a_w = os.pipe()
        sys.stdout.flush(); sys.stderr.flush()
        pid = os.fork()
        if pid == 0:
            try:
                os.close(q_w); os.close(a_r)
                gc.collect(); gc.freeze()
                self._serve(os.fdopen(q_r, 'r'), os.fdopen(a_w, 'w'), par)
            finally:
                os._exit(0)
        os.close(q_r); os.close(a_w)
        self.pid = pid; self.q = os.fdopen(q_w, 'w'); self.a = os.fdopen(a_r, 'r')
        self.memo = {}; self.forks = 0
    @staticmethod
    def _serve(q, a, par):
        for line in q:
            batch = json.loads(line)
            out = [None] * len(batch); pending = {}; i = 0
            while i < len(batch) or pending:
                while i < len(batch) and len(pending) < par:
                    r, w = os.pipe()
                    pid = os.fork()
                    if pid == 0:
                        try:
                            os.close(r)
                            gc.disable()      # a collection in the child would touch (copy) every page of the parent
                            res = json.dumps([d_eval(d)[:4000] for d in batch[i]])      # the sequence runs in order, alone in this child
                            os.write(w, res.encode('utf-8', 'replace'))
                        except BaseException as e:   # noqa
                            try: os.write(w, json.dumps(['child-error ' + repr(e)[:200]] * len(batch[i])).encode())
                            except Exception: pass
                        finally:
                            os._exit(0)
                    os.close(w); pending[pid] = (i, r); i += 1
                pid, _ = os.wait()
                if pid in pending:
                    j, r = pending.pop(pid)
                    chunks = []
                    while True:
                        c = os.read(r, 65536)
                        if not c: break
                        chunks.append(c)
                    os.close(r)
                    try: out[j] = json.loads(b''.join(chunks).decode('utf-8', 'replace'))
                    except Exception: out[j] = ['child-error no-answer'] * len(batch[j])
            a.write(json.dumps(out) + '\n'); a.flush()
    def ask_seqs(self, seqs):
        """each element is a list of descriptors run in order in ONE fresh child; returns the list of observations of each child"""
        if not seqs: return []
        self.q.write(json.dumps(seqs) + '\n'); self.q.flush()
        self.forks += len(seqs)
        return json.loads(self.a.readline())
    def alone(self, descs):
        """fresh-process observation of each descriptor, evaluated ALONE in its own child (memoized: it cannot depend on any history)"""
        need = list({d_key(x): x for x in descs if d_key(x) not in self.memo}.values())
        for d, r in zip(need, self.ask_seqs([[d] for d in need])): self.memo[d_key(d)] = r[0]
        return [self.memo[d_key(d)] for d in descs]
    def close(self):
        try:
            self.q.close(); os.waitpid(self.pid, 0); self.a.close()
        except Exception: pass

def d_setup(R, tier, tmp):
    """everything part D evaluates must exist BEFORE the zygote is forked: define the FPy functions (no evaluation),
    fix the clusters.  Returns (clusters, module)."""
    G = Gen(R)
    gens = []
    for pi in range(6 if tier == 'quick' else 30):
        funcs = G.program(900000 + pi)
        gens.append((funcs[-1]['name'], '\n'.join(src_func(f) for f in funcs)))
    # generated programs go to their own modules (a rejected one must not lose the hand-written ones)
    ns = d_namespace()
    path = os.path.join(tmp, 'd_fixed.py'); open(path, 'w').write('import fpy2 as fp\n' + D_FPY_SRC)
    dmod = load_module(path, 'fpyverif_c18_d_fixed')
    ns['DM'] = dmod
    gen_names = []
    for name, text in gens:
        path = os.path.join(tmp, f'd_{name}.py'); open(path, 'w').write('import fpy2 as fp\n\n' + text)
        try: m = load_module(path, f'fpyverif_c18_d_{name}')
        except Exception: continue
        ns['G_' + name] = getattr(m, name); gen_names.append(name)
    pick = lambda g: R.choice(D_VALS[g])
    def ctx_family():
        k = R.random()
        if k < 0.45: base = R.sample(D_FIXED, 4) + R.sample(D_FLOAT, 2)
        elif k < 0.85: base = R.sample(D_FLOAT, 5) + R.sample(D_FIXED, 1)
        else: base = R.sample(D_FIXED, 2) + R.sample(D_FLOAT, 2) + D_OTHER
        return base
    clusters = []
    def cluster(call, groups, ctxs, nvar):
        """members: the same call on `nvar` draws of equal-but-distinguishable operands under each context"""
        arg_sets = []
        for _ in range(nvar):
            a = [pick(g) for g in groups]
            if a not in arg_sets: arg_sets.append(a)
        if not groups: arg_sets = [[]]
        clusters.append([{'call': call, 'args': a, 'ctx': c} for a in arg_sets for c in ctxs])
    ncl = 26 if tier == 'quick' else 120
    for _ in range(ncl):
        k = R.random()
        if k < 0.40:
            cluster('ops.' + R.choice(D_UNARY), [R.choice(['zero', 'zero', 'zero', 'one', 'mone', 'neg', 'nan', 'inf', 'tenth', 'third', 'tiny', 'big', 'half'])], ctx_family(), 4)
        elif k < 0.85:
            g1 = R.choice(['zero', 'zero', 'one', 'three', 'neg', 'inf', 'nan', 'tenth', 'tiny', 'half'])
            g2 = R.choice(['zero', 'one', 'three', 'three', 'mone', 'inf', 'tenth', 'big'])
            cluster('ops.' + R.choice(D_BINARY), [g1, g2], ctx_family(), 4)
        elif k < 0.93:
            cluster('ops.fma', [R.choice(['zero', 'one', 'tenth']), R.choice(['three', 'zero', 'inf']), R.choice(['zero', 'mone', 'tiny'])], ctx_family(), 3)
        else:
            cluster('ops.' + R.choice(D_NULLARY), [], R.sample(D_FLOAT, 5) + R.sample(D_FIXED, 2), 1)
    # library primitives: the same (often argument-less) call under many contexts
    allc = D_FLOAT + D_FIXED
    cluster('core.max_p', [], R.sample(D_FLOAT, 8) + R.sample(D_FIXED, 2) + ['fp.REAL'], 1)
    cluster('core.min_n', [], R.sample(D_FIXED, 6) + R.sample(D_FLOAT, 4), 1)
    for call, groups in [('core.frexp', ['three']), ('core.frexp', ['tenth']), ('core.modf', ['neg']), ('core.modf', ['half']), ('core.logb', ['three']), ('core.logb', ['tiny']),
                         ('core.ldexp', ['three', 'three']), ('core.ldexp', ['tenth', 'mone']), ('core.split', ['tenth', 'three']), ('core.isinteger', ['three']),
                         ('eft.fast_2sum', ['three', 'tenth']), ('eft.classic_2sum', ['tenth', 'three']), ('eft.priest_2sum', ['tenth', 'neg']),
                         ('eft.classic_2mul', ['tenth', 'three']), ('eft.classic_2mul', ['tenth', 'tenth']), ('eft.fast_2mul', ['tenth', 'neg']),
                         ('eft.ideal_2mul', ['tenth', 'tenth']), ('eft.classic_2fma', ['tenth', 'three', 'one']), ('eft.veltkamp_split', ['tenth', 'three'])]:
        if tier == 'quick' and R.random() < 0.35: continue
        cluster(call, groups, R.sample(['fp.FP64', 'fp.FP32', 'fp.FP16', 'fp.BF16', 'fp.MPFloatContext(24, fp.RM.RNE)', 'fp.MPFloatContext(53, fp.RM.RNE)',
                                        'fp.IEEEContext(8, 32, fp.RM.RTZ)', 'fp.MPSFloatContext(24, -149, fp.RM.RNE)', 'fp.MPFixedContext(-8)', None], 5), 2)
    cluster('DM.prec_here', [], R.sample(D_FLOAT, 7) + ['fp.INTEGER', None], 1)
    for fn, groups in D_FPY_CALLS.items():
        for g in groups:
            cluster('DM.' + fn, [g], [None] + R.sample(D_FLOAT, 2) + R.sample(D_FIXED, 1), 5 if g == 'zero' else 3)
    for name in gen_names:
        arg_sets = [[pick(R.choice(['zero', 'one', 'tenth', 'neg', 'three'])), pick(R.choice(['zero', 'three', 'inf', 'tiny'])),
                     '[' + ', '.join(pick(R.choice(['zero', 'one', 'tenth', 'neg'])) for _ in range(R.randint(1, 3))) + ']'] for _ in range(3)]
        clusters.append([{'call': 'G_' + name, 'args': a, 'ctx': c} for a in arg_sets for c in [None, R.choice(D_FLOAT), R.choice(D_FIXED)]])
    return clusters, dmod

def d_witness(Z, history, step, desc, cluster_of):
    """a two-call witness: an earlier call `e` such that a fresh process that runs `e` and then `desc` already disagrees"""
    seen, cands = set(), []
    same = [h for h in history[:step] if cluster_of.get(d_key(h)) == cluster_of.get(d_key(desc))]
    for h in reversed(same + history[max(0, step - 400):step]):
        k = d_key(h)
        if k != d_key(desc) and k not in seen:
            seen.add(k); cands.append(h)
        if len(cands) >= 36: break
    if not cands: return None
    alone = Z.alone([desc])[0]
    for e, r in zip(cands, Z.ask_seqs([[e, desc] for e in cands])):
        if r[-1] != alone: return {'after': e, 'call': desc, 'alone': alone, 'after_it': r[-1]}
    return None

def d_groups(R, alld, cluster_of, cap=48):
    """partition the calls into short fresh-process histories: within a group no two calls of one cluster and no two
    calls of one function, so that the members of a group are not each other's pollution"""
    order = list(alld); R.shuffle(order)
    groups = []
    for d in order:
        for g in groups:
            if len(g['m']) < cap and cluster_of[d_key(d)] not in g['c'] and d['call'] not in g['f']:
                g['m'].append(d); g['c'].add(cluster_of[d_key(d)]); g['f'].add(d['call']); break
        else:
            groups.append({'m': [d], 'c': {cluster_of[d_key(d)]}, 'f': {d['call']}})
    return [g['m'] for g in groups]

def part_d(rep, R, tier, Z, clusters):
    nsteps = 2600 if tier == 'quick' else 15000
    cluster_of = {d_key(d): ci for ci, c in enumerate(clusters) for d in c}
    alld = list({d_key(d): d for c in clusters for d in c}.values())
    t0 = time.time()
    # fork() costs ~0.1 s here, so the oracle has two layers.  (1) every call is answered by a fresh child that runs a
    # GROUP of unrelated calls (other clusters, other functions); (2) one call of every cluster plus a random sample
    # is also answered ALONE; a group answer that differs from the alone answer is already a violation
    # (a history in a fresh process changed a result), and every difference seen later is re-judged against ALONE.
    groups = d_groups(R, alld, cluster_of)
    fresh, where = {}, {}
    for g, obs in zip(groups, Z.ask_seqs(groups)):
        for i, (d, o) in enumerate(zip(g, obs)): fresh[d_key(d)] = o; where[d_key(d)] = (g, i)
    sample = [R.choice(c) for c in clusters] + R.sample(alld, min(40 if tier == 'quick' else 400, len(alld)))
    reported, nviol = set(), 0
    def report(x, got, want, hist, step, place):
        nonlocal nviol
        nviol += 1; rep.count('D:differs-from-fresh-process')
        sig = (x['call'], x['ctx'])
        if sig in reported or len(reported) >= 12: return
        reported.add(sig)
        wit = d_witness(Z, hist, step, x, cluster_of) if len(reported) <= 4 else None
        same = [h for h in hist[:step] if cluster_of.get(d_key(h)) == cluster_of.get(d_key(x))]
        rep.violation(f"history dependence below the evaluator: {x['call']}({', '.join(x['args'])}) ctx={x['ctx']} returns {got[:80]} {place} and {want[:80]} alone in a fresh process",
                      {'part': 'D', 'call': x, 'after_the_history': got, 'alone_in_a_fresh_process': want, 'where': place, 'step': step,
                       'two_call_witness': wit, 'earlier_calls_of_the_cluster': same[-12:], 'history_tail': hist[max(0, step - 25):step],
                       'fpy_source': D_FPY_SRC if x['call'].startswith('DM.') else None, 'finding': None})
    for d, o in zip(sample, Z.alone(sample)):
        k = d_key(d)
        if fresh[k] != o and 'timeout' not in (fresh[k], o):
            g, i = where[k]
            report(d, fresh[k], o, g, i, 'in a fresh process after %d unrelated calls' % i)
        fresh[k] = o
    rep.cov['D_fresh_oracle'] = {'distinct_calls': len(fresh), 'groups': len(groups), 'answered_alone': len(Z.memo), 'forked_children': Z.forks,
                                 'wall_s': round(time.time() - t0, 1), 'clusters': len(clusters)}
    for k, v in fresh.items():
        rep.count('D:fresh:' + (v.split()[1] if v.startswith('err') and ' ' in v else v.split()[0]))
    history = []
    # bursts inside one cluster (its members right after one another), interleaved with members of other clusters
    while len(history) < nsteps:
        c = R.choice(clusters)
        for d in [R.choice(c) for _ in range(R.randint(2, 8))]:
            for x in ([R.choice(R.choice(clusters)), d] if R.random() < 0.35 else [d]):
                got = d_eval(x)[:4000]
                step = len(history); history.append(x)
                rep.cov['evaluations'] += 1
                rep.distinct.add(('D', d_key(x)))
                k = d_key(x)
                if got == fresh[k] or 'timeout' in (got, fresh[k]): continue
                if nviol >= 40 and k not in Z.memo:     # a badly polluted tree: stop paying for confirmations, just count
                    nviol += 1; rep.count('D:differs-from-fresh-process'); continue
                alone = Z.alone([x])[0]          # the authoritative answer
                if got != alone and alone != 'timeout':
                    report(x, got, alone, history, step, 'in this process')
                elif fresh[k] != alone:
                    g, i = where[k]
                    report(x, fresh[k], alone, g, i, 'in a fresh process after %d unrelated calls' % i)
                    fresh[k] = alone
    rep.cov['D_history'] = {'steps': len(history), 'differences': nviol, 'forked_children_total': Z.forks}
    for x in history[:4]: rep.sample({'part': 'D', 'call': x, 'fresh': fresh[d_key(x)][:120]})

# --------------------------------------------------------------------------- entry

def run(rep, tier, seed):
    R = Prng(seed, 'C18')
    tmp = tempfile.mkdtemp(prefix='fpyverif_c18_', dir='/var/tmp')
    Z = None
    try:
        # part D's functions are DEFINED and its pristine worker is FORKED before anything is evaluated
        clusters, _dmod = d_setup(Prng(seed, 'C18-D'), tier, tmp)
        Z = Zygote()
        part_a(rep, R, tier, tmp)
        part_b(rep, R, tier, tmp)
        part_c(rep, R, tier, tmp)
        part_d(rep, Prng(seed, 'C18-Dh'), tier, Z, clusters)     # last: parts A-C are history as well
    finally:
        if Z is not None: Z.close()
        shutil.rmtree(tmp, ignore_errors=True)
        rep.cov.pop('B_model_done', None)
    rep.cov['rule'] = ('(A) proggen programs forced to write + return their list parameter and shape-specialised programs over random argument structures '
                       '(lists of lists, lists in tuples, tuples in lists; the same Python list passed/stored twice with probability 0/0.5/0.9), 3 argument sets each, '
                       'called twice: deep snapshot (ids, reprs) before/after, list-object disjointness result/arguments and result/previous result, value vs Lean `eval`; '
                       '(B) sessions of ~45 units x ~300 random operations (eval, other ctx, stochastic ctx with own rng, other args, strategies, raising calls, '
                       'caller mutation of results/arguments, same-named twin, second interpreter, gc, re-entrant primitive callback); every re-evaluation judged against R0; '
                       '(C) 4-8 threads x 2-3 iterations x 40 items, switch interval 1e-6, barrier every 10 items, warm and cold compile cache, judged against sequential results; '
                       '(D) a pristine worker forked before any evaluation answers each call ALONE in a forked child; a random history of ~2600 calls over clusters of '
                       'equal-but-distinguishable operands (+0/-0, 1 as float/int/Fraction/Float encodings, NaNs, infinities) x related contexts (same format other mode, same precision other range, '
                       'fixed/float/integer/real) over fpy2.ops, core.*/eft.* primitives, hand-written and generated FPy functions; EVERY call judged against the fresh-process answer; '
                       'distinct = distinct (part, program, arguments, ctx)')
    rep.assumptions += ['threaded runs SAMPLE schedules: GIL preemption inside C extensions (gmpy2/MPFR) and gmpy2\'s thread-local context are not modelled in Lean '
                        '(schedule_independent is about the model\'s atomic steps lookup|compile|insert|run)',
                        'a Python caller that mutates a module-level list between the definition of a function and its first call is outside the quantifier '
                        '(the capture is taken at first call: counted under notes, not judged)',
                        'capture_shape (static analysis of the real AST) is diagnostic only: no violation is suppressed']

def replay(rep, data):
    """replays are deterministic re-runs of the recorded seed/tier"""
    seed = data.get('seed', 0); tier = data.get('tier', 'quick')
    rep.seed = seed; rep.tier = tier
    run(rep, tier, seed)
    from common import finish
    code = finish(rep, {'obligations': 1, 'discharged': 0, 'checker_cmd': 'skipped (replay)', 'trusted_base': []}, level=LEVEL)
    sys.exit(code)
