"""
Shared plumbing for the /verif checks: PRNG, Lean build + audit, driver
invocation, violation/known-finding protocol, evidence writing.
Run with /venv/bin/python; the real code is imported from /repo.
"""
from __future__ import annotations
import json, os, re, subprocess, sys, time, random, hashlib
from pathlib import Path

VERIF = Path(__file__).resolve().parent.parent
LEAN = Path(os.environ.get('FPY_LEAN_DIR', str(VERIF / 'lean')))
REPO = Path(os.environ.get('FPY_REPO', '/repo'))
DRV = LEAN / '.lake' / 'build' / 'bin' / 'fpydrv'
STD_AXIOMS = {'propext', 'Classical.choice', 'Quot.sound'}

if str(REPO) not in sys.path:
    sys.path.insert(0, str(REPO))
os.environ.setdefault('FPY_VERIF', '1')


class Prng:
    """single PRNG stream per run, derived from VERIF_SEED"""
    def __init__(self, seed: int, salt: str = ''):
        h = hashlib.sha256(f'{seed}:{salt}'.encode()).digest()
        self.r = random.Random(int.from_bytes(h[:8], 'big'))
    def __getattr__(self, k):
        return getattr(self.r, k)


def sh(cmd, cwd=None, timeout=None, env=None):
    p = subprocess.run(cmd, cwd=cwd, shell=isinstance(cmd, str), capture_output=True, text=True,
                       timeout=timeout, env=env)
    return p.returncode, p.stdout, p.stderr


# ---------------------------------------------------------------------------
# Lean side

def lake_build(targets: list[str]) -> tuple[bool, str]:
    """build proof obligations + driver; returns (ok, log)"""
    rc, out, err = sh(['lake', 'build', *targets, 'fpydrv'], cwd=LEAN, timeout=3000)
    return rc == 0, out + err


FORBIDDEN = re.compile(r'\b(sorry|admit|native_decide|bv_decide|implemented_by|maxHeartbeats 0)\b|^axiom |\bunsafe ')

def strip_comments(src: str) -> str:
    # remove block comments (nested) and line comments
    out = []
    i = 0; depth = 0; n = len(src)
    while i < n:
        if src.startswith('/-', i):
            depth += 1; i += 2; continue
        if depth and src.startswith('-/', i):
            depth -= 1; i += 2; continue
        if depth:
            if src[i] == '\n': out.append('\n')
            i += 1; continue
        if src.startswith('--', i):
            while i < n and src[i] != '\n': i += 1
            continue
        out.append(src[i]); i += 1
    return ''.join(out)

def audit_sources() -> list[str]:
    """forbidden constructs outside comments anywhere in the Lean project"""
    bad = []
    for p in list((LEAN / 'Fpy').rglob('*.lean')) + list((LEAN / 'Driver').rglob('*.lean')):
        src = strip_comments(p.read_text())
        for ln, line in enumerate(src.splitlines(), 1):
            if FORBIDDEN.search(line):
                bad.append(f'{p.relative_to(LEAN)}:{ln}: {line.strip()}')
    return bad

def theorems_in(module_file: Path) -> list[str]:
    """names of theorems declared in a Props file (namespace-qualified)"""
    src = strip_comments(module_file.read_text())
    ns = []
    names = []
    for line in src.splitlines():
        m = re.match(r'\s*namespace\s+(\S+)', line)
        if m: ns.append(m.group(1)); continue
        m = re.match(r'\s*end\s+(\S+)', line)
        if m and ns and ns[-1] == m.group(1): ns.pop(); continue
        m = re.match(r'\s*(?:@\[[^\]]*\]\s*)?(?:private\s+|protected\s+)?theorem\s+(\S+)', line)
        if m:
            names.append('.'.join(ns + [m.group(1)]))
    return names

def audit_axioms(prop: str) -> tuple[list[str], dict[str, list[str]], str]:
    """#print axioms for every theorem in Props/<prop>.lean.
    Returns (theorem names, {name: axioms}, raw log)."""
    f = LEAN / 'Fpy' / 'Props' / f'{prop}.lean'
    names = theorems_in(f)
    tmp = LEAN / '.lake' / f'Audit_{prop}.lean'
    tmp.write_text(f'import Fpy.Props.{prop}\n' + ''.join(f'#print axioms {n}\n' for n in names))
    rc, out, err = sh(['lake', 'env', 'lean', str(tmp)], cwd=LEAN, timeout=1200)
    log = out + err
    res: dict[str, list[str]] = {}
    # output: "'name' depends on axioms: [a, b]" or "'name' does not depend on any axioms"
    for m in re.finditer(r"'([^']+)' depends on axioms: \[([^\]]*)\]", log, re.S):
        res[m.group(1)] = [a.strip() for a in m.group(2).replace('\n', ' ').split(',') if a.strip()]
    for m in re.finditer(r"'([^']+)' does not depend on any axioms", log):
        res[m.group(1)] = []
    if rc != 0:
        res['__error__'] = [log[-2000:]]
    return names, res, log


class Driver:
    """line-protocol client for the compiled Lean model"""
    def __init__(self):
        self.p = subprocess.Popen([str(DRV)], stdin=subprocess.PIPE, stdout=subprocess.PIPE, text=True, bufsize=1 << 20)
    def batch(self, lines: list[str]) -> list[str]:
        # write all, read all (driver flushes per line via putStrLn? use communicate-style chunks)
        out = []
        CH = 2000
        for i in range(0, len(lines), CH):
            chunk = lines[i:i + CH]
            self.p.stdin.write('\n'.join(chunk) + '\n')
            self.p.stdin.flush()
            for _ in chunk:
                out.append(self.p.stdout.readline().rstrip('\n'))
        return out
    def close(self):
        try:
            self.p.stdin.close(); self.p.wait(timeout=10)
        except Exception:
            self.p.kill()

def run_driver(lines: list[str]) -> list[str]:
    """one-shot: feed all lines, get all outputs"""
    if not lines: return []
    p = subprocess.run([str(DRV)], input='\n'.join(lines) + '\n', capture_output=True, text=True, timeout=3000)
    out = p.stdout.split('\n')
    if out and out[-1] == '': out.pop()
    if len(out) != len(lines):
        raise RuntimeError(f'driver returned {len(out)} lines for {len(lines)} inputs; stderr={p.stderr[-500:]}')
    return out


# ---------------------------------------------------------------------------
# known findings

def load_findings(prop: str) -> list[dict]:
    f = VERIF / 'known_findings.json'
    if not f.exists(): return []
    data = json.loads(f.read_text())
    return [e for e in data.get('findings', []) if e.get('property') == prop and e.get('status') == 'known']


# ---------------------------------------------------------------------------
# result object

class Report:
    def __init__(self, prop: str, tier: str, seed: int):
        self.prop = prop; self.tier = tier; self.seed = seed
        self.t0 = time.time()
        self.violations: list[dict] = []        # property fails on the real code at a concrete input
        self.broken: list[dict] = []            # theorem / audit / correspondence that no longer checks
        self.known_hits: dict[str, dict] = {}   # finding id -> example
        self.cov: dict = {'evaluations': 0, 'samples': []}
        self.distinct: set = set()
        self.hist: dict[str, int] = {}
        self.assumptions: list[str] = []
        self.notes: list[str] = []
    def count(self, key: str, n: int = 1):
        self.hist[key] = self.hist.get(key, 0) + n
    def sample(self, s, cap=12):
        if len(self.cov['samples']) < cap:
            self.cov['samples'].append(s)
    def violation(self, what: str, replay: dict):
        self.violations.append({'what': what, **replay})
    def broke(self, kind: str, name: str, detail: str):
        if os.environ.get('VERIF_DEBUG'):
            with open(os.environ['VERIF_DEBUG'], 'a') as fh: fh.write(f'### {kind} {name}\n{detail}\n')
        self.broken.append({'kind': kind, 'name': name, 'detail': detail[-3000:]})


def finish(rep: Report, proof: dict, extra_cov: dict | None = None, level: str = 'proof') -> int:
    """apply known findings, write replays + evidence, print protocol lines, return exit code"""
    findings = load_findings(rep.prop)
    lines = []
    code = 0
    (VERIF / 'replays').mkdir(exist_ok=True)
    # known findings: violations carrying a 'finding' key that matches a listed id
    listed = {f['id']: f for f in findings}
    unlisted = []
    for v in rep.violations:
        fid = v.get('finding')
        if fid and fid in listed:
            rep.known_hits.setdefault(fid, v)
        else:
            unlisted.append(v)
    for fid, f in listed.items():
        if fid in rep.known_hits:
            lines.append(f"KNOWN-FINDING: property={rep.prop} {f['what']}")
        else:
            rep.notes.append(f'known finding {fid} was not reproduced in this run (stale entry or not sampled)')
    n = 0
    if unlisted:
        path = VERIF / 'replays' / f'{rep.prop}-{rep.seed}-{rep.tier}.json'
        path.write_text(json.dumps({'property': rep.prop, 'seed': rep.seed, 'tier': rep.tier,
                                    'violations': unlisted[:int(os.environ.get('VERIF_MAXREPLAY','50'))], 'broken': rep.broken[:20],
                                    'replay_cmd': f'./check {rep.prop} --replay {path.relative_to(VERIF)}'}, indent=1, default=str))
        lines.append(f'VIOLATION property={rep.prop} replay={path.relative_to(VERIF)}')
        code = 1
    elif rep.broken:
        path = VERIF / 'replays' / f'{rep.prop}-{rep.seed}-{rep.tier}-broken.json'
        path.write_text(json.dumps({'property': rep.prop, 'seed': rep.seed, 'tier': rep.tier,
                                    'no_longer_checks': rep.broken[:50],
                                    'note': 'a proof obligation or the model/implementation correspondence no longer checks; '
                                            'the property-directed search found no input on which the property fails'}, indent=1, default=str))
        lines.append(f'VIOLATION property={rep.prop} replay={path.relative_to(VERIF)} no-failing-input-found')
        code = 1
    cov = dict(rep.cov)
    cov.update(proof)
    cov['distinct_nontrivial'] = len(rep.distinct)
    cov['distribution'] = dict(sorted(rep.hist.items()))
    if extra_cov: cov.update(extra_cov)
    cov['known_findings_reproduced'] = sorted(rep.known_hits)
    cov['notes'] = rep.notes
    ev = {
        'property_id': rep.prop, 'tier': rep.tier, 'seed': rep.seed, 'level': level,
        'coverage': cov, 'assumptions': rep.assumptions,
        'wall_s': round(time.time() - rep.t0, 2), 'violations': len(unlisted) + (1 if (rep.broken and not unlisted) else 0),
    }
    # evidence describes /repo itself: a run against another tree (FPY_REPO, used to try seeded changes) writes elsewhere
    evdir = VERIF / 'evidence' if not (os.environ.get('FPY_REPO') or os.environ.get('FPY_EVIDENCE_ELSEWHERE')) else Path('/var/tmp/fpyverif_evidence_other_tree')
    evdir.mkdir(exist_ok=True)
    (evdir / f'{rep.prop}.json').write_text(json.dumps(ev, indent=1, default=str))
    for l in lines: print(l)
    print(f'[{rep.prop}] tier={rep.tier} seed={rep.seed} evaluations={cov.get("evaluations")} '
          f'distinct={cov["distinct_nontrivial"]} obligations={cov.get("obligations")} discharged={cov.get("discharged")} '
          f'violations={len(unlisted)} broken={len(rep.broken)} known={sorted(rep.known_hits)} wall={ev["wall_s"]}s')
    return code


TRUSTED_BASE = [
    'Lean 4.33 kernel (re-checked with leanchecker in the thorough tier)',
    'axioms: at most propext, Classical.choice, Quot.sound (audited with #print axioms on every property theorem each run)',
    'Lean compiler/runtime executing the model definitions in fpydrv',
    'the correspondence harness (harness/*.py): canonicalisation and generators',
    'CPython int/Fraction arithmetic used by the Spec oracle',
]

def proof_stage(rep: Report, prop: str, thorough: bool, extra: list[str] | None = None) -> dict:
    """build Props/<prop> (+ extra Props modules of the same property), audit; fills rep.broken; returns coverage keys"""
    res = _proof_stage_one(rep, prop, thorough)
    for e in (extra or []):
        if not (LEAN / 'Fpy' / 'Props' / f'{e}.lean').exists(): continue
        r2 = _proof_stage_one(rep, e, thorough)
        res['obligations'] += r2['obligations']; res['discharged'] += r2['discharged']
        res['theorems'] += r2['theorems']; res['checker_cmd'] += ' ; ' + r2['checker_cmd']
    return res

def _proof_stage_one(rep: Report, prop: str, thorough: bool) -> dict:
    ok, log = lake_build([f'Fpy.Props.{prop}'])
    if not ok:
        rep.broke('lean-build', f'Fpy.Props.{prop}', log)
        # try to at least build the driver
        ok2, log2 = lake_build([])
        if not ok2:
            rep.broke('lean-build', 'fpydrv', log2)
    bad = audit_sources()
    for b in bad:
        rep.broke('audit-source', b, b)
    names, axioms, log = ([], {}, '')
    if ok:
        names, axioms, log = audit_axioms(prop)
    discharged = 0
    for nme in names:
        ax = axioms.get(nme)
        if ax is None:
            rep.broke('audit-axioms', nme, 'no #print axioms output: ' + log[-500:])
        elif not set(ax) <= STD_AXIOMS:
            rep.broke('audit-axioms', nme, f'non-standard axioms {ax}')
        else:
            discharged += 1
    checker = f'cd lean && lake build Fpy.Props.{prop} && lake env lean <#print axioms of {len(names)} theorems>'
    if thorough and ok:
        rc, out, err = sh(['lake', 'env', 'leanchecker', f'Fpy.Props.{prop}'], cwd=LEAN, timeout=3000)
        if rc != 0:
            rep.broke('leanchecker', f'Fpy.Props.{prop}', out + err)
        checker += f' && lake env leanchecker Fpy.Props.{prop}'
    return {'obligations': max(len(names), 1), 'discharged': discharged, 'checker_cmd': checker,
            'trusted_base': list(TRUSTED_BASE), 'theorems': names}
