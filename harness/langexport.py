"""
FPy AST (the real `fpy2.ast` objects) -> S-expression text for the Lean core-language model,
Python values <-> S-expressions, and real context objects -> context descriptors.
Anything outside the modelled subset raises `Unsupported` (the caller counts and skips it).
"""
from __future__ import annotations
from fractions import Fraction
import math
from numcanon import *   # noqa
import fpy2 as fp
from fpy2.ast import fpyast as A
from fpy2.utils import NamedId, UnderscoreId
from fpy2.number.context.real import RealContext
from fpy2.number.context.exponential import ExpContext

class Unsupported(Exception):
    pass

RM_NAME = {v: k for k, v in RM.items()}
OV_NAME = {v: k for k, v in OVS.items()}
KIND_NAME = {v: k for k, v in KINDS.items()}

def rf_desc(x): return (x.s, x.exp, x.c)

def desc_of_ctx(c) -> dict:
    """real Context object -> descriptor understood by numcanon.ctx_tok"""
    from fpy2.number.context import efloat, ieee754, mp_float, mps_float, mpb_float, mp_fixed, mpb_fixed, fixed, sm_fixed
    fvd = lambda v: None if v is None else fv_of_obj(v)
    if isinstance(c, RealContext): return {'fam': 'real'}
    if isinstance(c, ExpContext): raise Unsupported('ExpContext')
    if getattr(c, 'rng', None) is not None: raise Unsupported('rng')
    k = getattr(c, 'num_randbits', 0)
    if k != 0: raise Unsupported('stochastic context in a program')
    if isinstance(c, efloat.EFloatContext):   # includes IEEEContext
        return dict(fam='ef', es=c.es, nbits=c.nbits, inf=c.enable_inf, kind=KIND_NAME[c.nan_kind], eoff=c.eoffset,
                    rm=RM_NAME[c.rm], ov=OV_NAME[c.overflow], k=k, nv=fvd(c.nan_value), iv=fvd(c.inf_value))
    if isinstance(c, fixed.FixedContext):
        return dict(fam='fixed', signed=c.signed, scale=c.scale, nbits=c.nbits, rm=RM_NAME[c.rm], ov=OV_NAME[c.overflow], k=k,
                    nv=fvd(c.nan_value), iv=fvd(c.inf_value))
    if isinstance(c, sm_fixed.SMFixedContext):
        return dict(fam='smfixed', scale=c.scale, nbits=c.nbits, rm=RM_NAME[c.rm], ov=OV_NAME[c.overflow], k=k,
                    nv=fvd(c.nan_value), iv=fvd(c.inf_value))
    if isinstance(c, mpb_fixed.MPBFixedContext):
        return dict(fam='mpbfix', nmin=c.nmin, pos=rf_desc(c.pos_maxval), neg=rf_desc(c.neg_maxval), rm=RM_NAME[c.rm], ov=OV_NAME[c.overflow], k=k,
                    nz=c._fmt.enable_neg_zero, en=c.enable_nan, ei=c.enable_inf, nv=fvd(c.nan_value), iv=fvd(c.inf_value))
    if isinstance(c, mp_fixed.MPFixedContext):
        return dict(fam='mpfix', nmin=c.nmin, rm=RM_NAME[c.rm], k=k, nz=c.enable_neg_zero, en=c.enable_nan, ei=c.enable_inf,
                    nv=fvd(c.nan_value), iv=fvd(c.inf_value))
    if isinstance(c, mpb_float.MPBFloatContext):
        return dict(fam='mpb', p=c.pmax, emin=c.emin, pos=rf_desc(c.pos_maxval), neg=rf_desc(c.neg_maxval), rm=RM_NAME[c.rm], ov=OV_NAME[c.overflow], k=k,
                    en=c.enable_nan, ei=c.enable_inf, nv=fvd(c.nan_value), iv=fvd(c.inf_value))
    if isinstance(c, mps_float.MPSFloatContext):
        return dict(fam='mps', p=c.pmax, emin=c.emin, rm=RM_NAME[c.rm], k=k, en=c.enable_nan, ei=c.enable_inf, nv=fvd(c.nan_value), iv=fvd(c.inf_value))
    if isinstance(c, mp_float.MPFloatContext):
        return dict(fam='mp', p=c.pmax, rm=RM_NAME[c.rm], k=k, en=c.enable_nan, ei=c.enable_inf, nv=fvd(c.nan_value), iv=fvd(c.inf_value))
    raise Unsupported(f'context {type(c).__name__}')

def ctx_sexp(c) -> str:
    return '(' + ctx_tok(desc_of_ctx(c)) + ')'

# ---------------------------------------------------------------- values

def num_tok(x) -> str:
    """Python number / Float / Fraction -> operand token"""
    from fpy2.number import Float, RealFloat
    if isinstance(x, bool): raise Unsupported('bool as number')
    if isinstance(x, Float): return 'F' + fv_tok(fv_of_obj(x))
    if isinstance(x, RealFloat): return 'R' + rf_tok((x.s, x.exp, x.c))
    if isinstance(x, int): return f'I{x}'
    if isinstance(x, float): return operand_tok(('D', x))
    if isinstance(x, Fraction): return f'Q{x.numerator}/{x.denominator}'
    raise Unsupported(f'number {type(x).__name__}')

def val_sexp(v) -> str:
    """Python argument value -> S-expression for the model"""
    if isinstance(v, bool): return f'(b {b01(v)})'
    if isinstance(v, (list,)): return '(l ' + ' '.join(val_sexp(x) for x in v) + ')'
    if isinstance(v, tuple): return '(t ' + ' '.join(val_sexp(x) for x in v) + ')'
    if isinstance(v, fp.Context): return '(c ' + ctx_tok(desc_of_ctx(v)) + ')'
    return f'(n {num_tok(v)})'

def canon_num(x) -> str:
    from fpy2.number import Float
    if isinstance(x, Fraction):
        d = x.denominator
        if d & (d - 1) == 0:
            return canon_rf(x < 0, -(d.bit_length() - 1), abs(x.numerator))
        return f'frac {x.numerator}/{x.denominator}'
    if isinstance(x, Float): return canon_fv(fv_of_obj(x))
    if isinstance(x, int) and not isinstance(x, bool): return canon_rf(x < 0, 0, abs(x))
    if isinstance(x, float):
        if math.isnan(x): return 'nan'
        if math.isinf(x): return f'inf {b01(x < 0)}'
        q = Fraction(x); d = q.denominator
        return canon_rf(math.copysign(1.0, x) < 0, -(d.bit_length() - 1), abs(q.numerator))
    raise Unsupported(f'result {type(x).__name__}')

def show_val(v) -> str:
    """canonical text of a returned Python value (same format as the driver's showVal)"""
    if isinstance(v, bool): return f'(b {b01(v)})'
    if isinstance(v, list): return '(l ' + ' '.join(show_val(x) for x in v) + ')' if v else '(l )'
    if isinstance(v, tuple): return '(t ' + ' '.join(show_val(x) for x in v) + ')' if v else '(t )'
    if isinstance(v, fp.Context): return '(c)'
    return f'(n {canon_num(v)})'

# ---------------------------------------------------------------- AST export

UNARY = {A.Neg: 'neg', A.Abs: 'fabs', A.Sqrt: 'sqrt', A.Ceil: 'ceil', A.Floor: 'floor', A.Trunc: 'trunc',
         A.RoundInt: 'roundint', A.NearbyInt: 'nearbyint', A.Round: 'round', A.Cbrt: 'cbrt'}
BINARY = {A.Add: 'add', A.Sub: 'sub', A.Mul: 'mul', A.Div: 'div', A.Copysign: 'copysign', A.Fdim: 'fdim',
          A.Mod: 'mod', A.Fmod: 'fmod', A.Remainder: 'remainder', A.Hypot: 'hypot', A.Pow: 'pow'}
PREDS = {A.IsNan: 'isnan', A.IsInf: 'isinf', A.IsFinite: 'isfinite', A.Signbit: 'signbit', A.IsNormal: 'isnormal'}
CMP = {'<': 'lt', '<=': 'le', '>': 'gt', '>=': 'ge', '==': 'eq', '!=': 'ne'}

def pat_sexp(t) -> str:
    if isinstance(t, UnderscoreId): return '_'
    if isinstance(t, NamedId): return str(t)
    if isinstance(t, A.TupleBinding): return '(tup ' + ' '.join(pat_sexp(e) for e in t.elts) + ')'
    raise Unsupported(f'target {type(t).__name__}')

class Exporter:
    def __init__(self):
        self.funcs: dict[str, str] = {}     # name -> sexp
        self.env = None
        self.pending = []

    def static_py(self, e):
        """evaluate a context-constructor expression that has no free PROGRAM variables to a Python object
        (names are looked up in the function's foreign environment, numbers are exact)"""
        if isinstance(e, A.Var):
            env = self.env
            if env is not None and str(e.name) in env: return env[str(e.name)]
            raise Unsupported(f'dynamic context expression (variable {e.name})')
        if isinstance(e, A.Attribute): return getattr(self.static_py(e.value), e.attr)
        if isinstance(e, A.ForeignVal): return e.val
        if isinstance(e, A.BoolVal): return e.val
        if isinstance(e, A.Integer): return int(e.as_rational())
        if isinstance(e, A.RationalVal):
            q = e.as_rational()
            return int(q) if q.denominator == 1 else q
        if isinstance(e, A.Neg):
            return -self.static_py(e.arg)
        if isinstance(e, A.Call):
            fn = e.fn
            if isinstance(fn, type) and issubclass(fn, fp.Context):
                from fpy2.interpret.byte import _construct_context
                from fpy2.interpret.value import to_value
                args = tuple(to_value(self.static_py(a)) for a in e.args)
                kwargs = {k: to_value(self.static_py(v)) for k, v in e.kwargs}
                return _construct_context(fn, args, kwargs)
        raise Unsupported(f'dynamic context expression ({type(e).__name__})')

    def dynamic_ctx(self, e) -> str:
        """a context constructor whose numeric arguments are computed by the program: exported as a call to a
        reserved callee name that encodes the class and the static options (see `ctxCtor` in Core.lean)"""
        import inspect
        from fpy2.number.context import mp_float, mps_float, mp_fixed, fixed, ieee754
        if not (isinstance(e, A.Call) and isinstance(e.fn, type) and issubclass(e.fn, fp.Context)):
            raise Unsupported('dynamic context expression')
        params = list(inspect.signature(e.fn.__init__).parameters)[1:]
        bound = dict(zip(params, e.args))
        for k, v in e.kwargs: bound[k] = v
        def static(name, default):
            return self.static_py(bound[name]) if name in bound else default
        def done(name, used):
            extra = set(bound) - set(used)
            if extra: raise Unsupported(f'dynamic context with extra arguments {sorted(extra)}')
            return name
        X = self.expr
        if e.fn is mp_float.MPFloatContext:
            rm = RM_NAME[static('rm', fp.RM.RNE)]
            return f"(call {done('@mp/' + rm, ['pmax', 'rm'])} {X(bound['pmax'])})"
        if e.fn is mps_float.MPSFloatContext:
            rm = RM_NAME[static('rm', fp.RM.RNE)]
            return f"(call {done('@mps/' + rm, ['pmax', 'emin', 'rm'])} {X(bound['pmax'])} {X(bound['emin'])})"
        if e.fn is ieee754.IEEEContext:
            rm = RM_NAME[static('rm', fp.RM.RNE)]; ov = OV_NAME[static('overflow', fp.OV.OVERFLOW)]
            return f"(call {done('@ieee/' + rm + '/' + ov, ['es', 'nbits', 'rm', 'overflow'])} {X(bound['es'])} {X(bound['nbits'])})"
        if e.fn is mp_fixed.MPFixedContext:
            rm = RM_NAME[static('rm', fp.RM.RNE)]
            return f"(call {done('@mpfix/' + rm, ['nmin', 'rm'])} {X(bound['nmin'])})"
        if e.fn is fixed.FixedContext:
            rm = RM_NAME[static('rm', fp.RM.RNE)]; ov = OV_NAME[static('overflow', fp.OV.WRAP)]
            sg = b01(bool(static('signed', None)))
            return f"(call {done('@fixed/' + rm + '/' + ov + '/' + sg, ['signed', 'scale', 'nbits', 'rm', 'overflow'])} {X(bound['scale'])} {X(bound['nbits'])})"
        raise Unsupported(f'dynamic context {e.fn.__name__}')

    def static_ctx(self, e) -> str:
        try:
            c = self.static_py(e)
        except Unsupported:
            return self.dynamic_ctx(e)
        if not isinstance(c, fp.Context): raise Unsupported('context expression is not a context')
        return '(ctx ' + ctx_tok(desc_of_ctx(c)) + ')'

    def expr(self, e) -> str:
        X = self.expr
        if isinstance(e, A.Var): return f'(var {e.name})'
        if isinstance(e, A.BoolVal): return f'(bool {b01(e.val)})'
        if isinstance(e, A.RationalVal):
            v = e.as_real()
            from fpy2.number import Float
            if isinstance(v, Float): return '(num F' + fv_tok(fv_of_obj(v)) + ')'
            return f'(num Q{v.numerator}/{v.denominator})'
        if isinstance(e, A.ForeignVal):
            if isinstance(e.val, fp.Context): return '(ctx ' + ctx_tok(desc_of_ctx(e.val)) + ')'
            raise Unsupported('foreign value')
        if isinstance(e, A.Fma): return f'(op fma {X(e.first)} {X(e.second)} {X(e.third)})'
        if isinstance(e, A.RoundAt): return f'(roundat {X(e.first)} {X(e.second)})'
        for cls, nm in UNARY.items():
            if type(e) is cls: return f'(op {nm} {X(e.arg)})'
        for cls, nm in BINARY.items():
            if type(e) is cls: return f'(op {nm} {X(e.first)} {X(e.second)})'
        for cls, nm in PREDS.items():
            if type(e) is cls: return f'(pred {nm} {X(e.arg)})'
        if isinstance(e, A.Not): return f'(not {X(e.arg)})'
        if isinstance(e, A.And): return '(and ' + ' '.join(X(a) for a in e.args) + ')'
        if isinstance(e, A.Or): return '(or ' + ' '.join(X(a) for a in e.args) + ')'
        if isinstance(e, A.Min): return '(min ' + ' '.join(X(a) for a in e.args) + ')'
        if isinstance(e, A.Max): return '(max ' + ' '.join(X(a) for a in e.args) + ')'
        if isinstance(e, A.AMin): return f'(min {X(e.arg)})'
        if isinstance(e, A.AMax): return f'(max {X(e.arg)})'
        if isinstance(e, A.Len): return f'(len {X(e.arg)})'
        if isinstance(e, A.Sum): return f'(sum {X(e.arg)})'
        if isinstance(e, A.AnyOf): return f'(any {X(e.arg)})'
        if isinstance(e, A.AllOf): return f'(all {X(e.arg)})'
        if isinstance(e, A.Enumerate): return f'(enumerate {X(e.arg)})'
        if isinstance(e, A.Range1): return f'(range {X(e.arg)})'
        if isinstance(e, A.Range2): return f'(range {X(e.first)} {X(e.second)})'
        if isinstance(e, A.Range3): return f'(range {X(e.first)} {X(e.second)} {X(e.third)})'
        if isinstance(e, A.Zip): return '(zip ' + ' '.join(X(a) for a in e.args) + ')'
        if isinstance(e, A.Compare):
            ops = ' '.join(CMP[o.symbol()] for o in e.ops)
            return f'(cmp ({ops}) ' + ' '.join(X(a) for a in e.args) + ')'
        if isinstance(e, A.IfExpr): return f'(ite {X(e.cond)} {X(e.ift)} {X(e.iff)})'
        if isinstance(e, A.TupleExpr): return '(tuple ' + ' '.join(X(a) for a in e.elts) + ')'
        if isinstance(e, A.ListExpr): return '(list ' + ' '.join(X(a) for a in e.elts) + ')'
        if isinstance(e, A.ListRef): return f'(index {X(e.value)} {X(e.index)})'
        if isinstance(e, A.ListSlice):
            s = '_' if e.start is None else X(e.start)
            t = '_' if e.stop is None else X(e.stop)
            return f'(slice {X(e.value)} {s} {t})'
        if isinstance(e, A.ListComp):
            gens = ' '.join(f'({pat_sexp(t)} {X(it)})' for t, it in zip(e.targets, e.iterables))
            return f'(comp ({gens}) {X(e.elt)})'
        if isinstance(e, A.Call):
            fn = e.fn
            from fpy2.function import Function
            if isinstance(fn, Function):
                if e.kwargs: raise Unsupported('kwargs')
                self.add_function(fn)
                return f'(call {fn.ast.name} ' + ' '.join(X(a) for a in e.args) + ')'
            if isinstance(fn, type) and issubclass(fn, fp.Context):
                return self.static_ctx(e)
            raise Unsupported(f'call to {fn!r}')
        if isinstance(e, A.Attribute):
            return self.static_ctx(e)
        raise Unsupported(f'expr {type(e).__name__}')

    def block(self, b) -> str:
        return '(' + ' '.join(self.stmt(s) for s in b.stmts) + ')'

    def stmt(self, s) -> str:
        X = self.expr
        if isinstance(s, A.Assign): return f'(assign {pat_sexp(s.target)} {X(s.expr)})'
        if isinstance(s, A.IndexedAssign):
            return f'(iassign {s.var} (' + ' '.join(X(i) for i in s.indices) + f') {X(s.expr)})'
        if isinstance(s, A.IfStmt): return f'(if {X(s.cond)} {self.block(s.ift)} {self.block(s.iff)})'
        if isinstance(s, A.If1Stmt): return f'(if1 {X(s.cond)} {self.block(s.body)})'
        if isinstance(s, A.WhileStmt): return f'(while {X(s.cond)} {self.block(s.body)})'
        if isinstance(s, A.ForStmt): return f'(for {pat_sexp(s.target)} {X(s.iterable)} {self.block(s.body)})'
        if isinstance(s, A.ContextStmt):
            nm = '_' if isinstance(s.target, UnderscoreId) else str(s.target)
            return f'(with {X(s.ctx)} {nm} {self.block(s.body)})'
        if isinstance(s, A.AssertStmt): return f'(assert {X(s.test)})'
        if isinstance(s, A.EffectStmt): return f'(effect {X(s.expr)})'
        if isinstance(s, A.ReturnStmt): return f'(return {X(s.expr)})'
        if isinstance(s, A.PassStmt): return '(pass)'
        raise Unsupported(f'stmt {type(s).__name__}')

    def add_function(self, fn):
        ast = fn.ast if hasattr(fn, 'ast') else fn
        name = ast.name
        if name in self.funcs: return
        self.funcs[name] = None   # placeholder against recursion
        saved_env = getattr(self, 'env', None)
        self.env = ast.env
        if ast.free_vars:
            # captured Python values: only FPy functions are supported (they appear through Call.fn)
            pass
        c = ast.ctx
        if c is None: cs = '_'
        elif isinstance(c, fp.Context): cs = ctx_sexp(c)
        else: raise Unsupported('FPCoreContext')
        params = ' '.join(str(a.name) for a in ast.args)
        self.funcs[name] = f'(func {name} ({params}) {cs} {self.block(ast.body)})'
        self.env = saved_env

    def program(self) -> str:
        return '(' + ' '.join(v for v in self.funcs.values() if v) + ')'

def export_program(fn) -> tuple[str, str]:
    """(entry name, '(func …)(func …)' list sexp) for a real fpy2 Function and its FPy callees"""
    ex = Exporter()
    ex.add_function(fn)
    return fn.ast.name, ex.program()

def eval_line(entry: str, prog: str, args, ctx=None, fuel=4000) -> str:
    cs = '_' if ctx is None else ctx_sexp(ctx)
    return f'eval {fuel} {entry} {cs} {prog} (' + ' '.join(val_sexp(a) for a in args) + ')'

PY_ERRS = {'NameError': 'Unbound', 'UnboundLocalError': 'Unbound'}

def run_real(fn, args, ctx=None, timeout_s=2) -> str:
    """call the real function; canonical result line"""
    import signal, copy
    def on_alarm(signum, frame): raise TimeoutError('timeout')
    old = signal.signal(signal.SIGALRM, on_alarm)
    signal.alarm(timeout_s)
    try:
        v = fn(*copy.deepcopy(list(args)), ctx=ctx) if ctx is not None else fn(*copy.deepcopy(list(args)))
        return 'ok ' + show_val(v)
    except TimeoutError:
        return 'timeout'
    except Unsupported as e:
        return f'unsupported {e}'
    except Exception as e:   # noqa
        n = err_name(e)
        return 'err ' + PY_ERRS.get(n, n)
    finally:
        signal.alarm(0); signal.signal(signal.SIGALRM, old)
