"""
FPy AST (the real `fpy2.ast` objects) -> S-expression text for the Lean core-language model,
Python values <-> S-expressions, and real context objects -> context descriptors.
Anything outside the modelled subset raises `Unsupported` (the caller counts and skips it).
"""
from __future__ import annotations
from fractions import Fraction
import math
from numcanon import *   # noqa
import fpy2 as fp
from fpy2.ast import fpyast as A
from fpy2.utils import NamedId, UnderscoreId
from fpy2.number.context.real import RealContext
from fpy2.number.context.exponential import ExpContext

class Unsupported(Exception):
    pass

RM_NAME = {v: k for k, v in RM.items()}
OV_NAME = {v: k for k, v in OVS.items()}
KIND_NAME = {v: k for k, v in KINDS.items()}

def rf_desc(x): return (x.s, x.exp, x.c)

def desc_of_ctx(c) -> dict:
    """real Context object -> descriptor understood by numcanon.ctx_tok"""
    from fpy2.number.context import efloat, ieee754, mp_float, mps_float, mpb_float, mp_fixed, mpb_fixed, fixed, sm_fixed
    fvd = lambda v: None if v is None else fv_of_obj(v)
    if isinstance(c, RealContext): return {'fam': 'real'}
    if isinstance(c, ExpContext): raise Unsupported('ExpContext')
    if getattr(c, 'rng', None) is not None: raise Unsupported('rng')
    k = getattr(c, 'num_randbits', 0)
    if k != 0: raise Unsupported('stochastic context in a program')
    if isinstance(c, efloat.EFloatContext):   # includes IEEEContext
        return dict(fam='ef', es=c.es, nbits=c.nbits, inf=c.enable_inf, kind=KIND_NAME[c.nan_kind], eoff=c.eoffset,
                    rm=RM_NAME[c.rm], ov=OV_NAME[c.overflow], k=k, nv=fvd(c.nan_value), iv=fvd(c.inf_value))
    if isinstance(c, fixed.FixedContext):
        return dict(fam='fixed', signed=c.signed, scale=c.scale, nbits=c.nbits, rm=RM_NAME[c.rm], ov=OV_NAME[c.overflow], k=k,
                    nv=fvd(c.nan_value), iv=fvd(c.inf_value))
    if isinstance(c, sm_fixed.SMFixedContext):
        return dict(fam='smfixed', scale=c.scale, nbits=c.nbits, rm=RM_NAME[c.rm], ov=OV_NAME[c.overflow], k=k,
                    nv=fvd(c.nan_value), iv=fvd(c.inf_value))
    if isinstance(c, mpb_fixed.MPBFixedContext):
        return dict(fam='mpbfix', nmin=c.nmin, pos=rf_desc(c.pos_maxval), neg=rf_desc(c.neg_maxval), rm=RM_NAME[c.rm], ov=OV_NAME[c.overflow], k=k,
                    nz=c._fmt.enable_neg_zero, en=c.enable_nan, ei=c.enable_inf, nv=fvd(c.nan_value), iv=fvd(c.inf_value))
    if isinstance(c, mp_fixed.MPFixedContext):
        return dict(fam='mpfix', nmin=c.nmin, rm=RM_NAME[c.rm], k=k, nz=c.enable_neg_zero, en=c.enable_nan, ei=c.enable_inf,
                    nv=fvd(c.nan_value), iv=fvd(c.inf_value))
    if isinstance(c, mpb_float.MPBFloatContext):
        return dict(fam='mpb', p=c.pmax, emin=c.emin, pos=rf_desc(c.pos_maxval), neg=rf_desc(c.neg_maxval), rm=RM_NAME[c.rm], ov=OV_NAME[c.overflow], k=k,
                    en=c.enable_nan, ei=c.enable_inf, nv=fvd(c.nan_value), iv=fvd(c.inf_value))
    if isinstance(c, mps_float.MPSFloatContext):
        return dict(fam='mps', p=c.pmax, emin=c.emin, rm=RM_NAME[c.rm], k=k, en=c.enable_nan, ei=c.enable_inf, nv=fvd(c.nan_value), iv=fvd(c.inf_value))
    if isinstance(c, mp_float.MPFloatContext):
        return dict(fam='mp', p=c.pmax, rm=RM_NAME[c.rm], k=k, en=c.enable_nan, ei=c.enable_inf, nv=fvd(c.nan_value), iv=fvd(c.inf_value))
    raise Unsupported(f'context {type(c).__name__}')

def ctx_sexp(c) -> str:
    return '(' + ctx_tok(desc_of_ctx(c)) + ')'

# ---------------------------------------------------------------- values

def num_tok(x) -> str:
    """Python number / Float / Fraction -> operand token"""
    from fpy2.number import Float, RealFloat
    if isinstance(x, bool): raise Unsupported('bool as number')
    if isinstance(x, Float): return 'F' + fv_tok(fv_of_obj(x))
    if isinstance(x, RealFloat): return 'R' + rf_tok((x.s, x.exp, x.c))
    if isinstance(x, int): return f'I{x}'
    if isinstance(x, float): return operand_tok(('D', x))
    if isinstance(x, Fraction): return f'Q{x.numerator}/{x.denominator}'
    raise Unsupported(f'number {type(x).__name__}')

def val_sexp(v) -> str:
    """Python argument value -> S-expression for the model"""
    if isinstance(v, bool): return f'(b {b01(v)})'
    if isinstance(v, (list,)): return '(l ' + ' '.join(val_sexp(x) for x in v) + ')'
    if isinstance(v, tuple): return '(t ' + ' '.join(val_sexp(x) for x in v) + ')'
    if isinstance(v, fp.Context): return '(c ' + ctx_tok(desc_of_ctx(v)) + ')'
    return f'(n {num_tok(v)})'

def canon_num(x) -> str:
    from fpy2.number import Float
    if isinstance(x, Fraction):
        d = x.denominator
        if d & (d - 1) == 0:
            return canon_rf(x < 0, -(d.bit_length() - 1), abs(x.numerator))
        return f'frac {x.numerator}/{x.denominator}'
    if isinstance(x, Float): return canon_fv(fv_of_obj(x))
    if isinstance(x, int) and not isinstance(x, bool): return canon_rf(x < 0, 0, abs(x))
    if isinstance(x, float):
        if math.isnan(x): return 'nan'
        if math.isinf(x): return f'inf {b01(x < 0)}'
        q = Fraction(x); d = q.denominator
        return canon_rf(math.copysign(1.0, x) < 0, -(d.bit_length() - 1), abs(q.numerator))
    raise Unsupported(f'result {type(x).__name__}')

def show_val(v) -> str:
    """canonical text of a returned Python value (same format as the driver's showVal)"""
    if isinstance(v, bool): return f'(b {b01(v)})'
    if isinstance(v, list): return '(l ' + ' '.join(show_val(x) for x in v) + ')' if v else '(l )'
    if isinstance(v, tuple): return '(t ' + ' '.join(show_val(x) for x in v) + ')' if v else '(t )'
    if isinstance(v, fp.Context): return '(c)'
    return f'(n {canon_num(v)})'

def is_value(v) -> bool:
    """a Python object with an FPy value form (bool / number / context / tuple / list of those)"""
    from fpy2.number import Float, RealFloat
    import enum
    if isinstance(v, enum.Enum): return False
    if isinstance(v, (bool, int, float, Fraction, Float, RealFloat, fp.Context)): return True
    if isinstance(v, (list, tuple)): return all(is_value(x) for x in v)
    return False

def is_foreign_value(v) -> bool:
    """an opaque constant a program may hold but not operate on (a string, None)"""
    return v is None or isinstance(v, str)

def val_expr(v) -> str:
    """a Python value as the core-language expression that rebuilds it (lists are allocated anew at each evaluation)"""
    if isinstance(v, bool): return f'(bool {b01(v)})'
    if isinstance(v, list): return '(list ' + ' '.join(val_expr(x) for x in v) + ')'
    if isinstance(v, tuple): return '(tuple ' + ' '.join(val_expr(x) for x in v) + ')'
    if isinstance(v, fp.Context): return '(ctx ' + ctx_tok(desc_of_ctx(v)) + ')'
    return f'(num {num_tok(v)})'

# ---------------------------------------------------------------- AST export

UNARY = {A.Neg: 'neg', A.Abs: 'fabs', A.Sqrt: 'sqrt', A.Ceil: 'ceil', A.Floor: 'floor', A.Trunc: 'trunc',
         A.RoundInt: 'roundint', A.NearbyInt: 'nearbyint', A.Round: 'round', A.Cbrt: 'cbrt'}
BINARY = {A.Add: 'add', A.Sub: 'sub', A.Mul: 'mul', A.Div: 'div', A.Copysign: 'copysign', A.Fdim: 'fdim',
          A.Mod: 'mod', A.Fmod: 'fmod', A.Remainder: 'remainder', A.Hypot: 'hypot', A.Pow: 'pow'}
PREDS = {A.IsNan: 'isnan', A.IsInf: 'isinf', A.IsFinite: 'isfinite', A.Signbit: 'signbit', A.IsNormal: 'isnormal'}
CMP = {'<': 'lt', '<=': 'le', '>': 'gt', '>=': 'ge', '==': 'eq', '!=': 'ne'}

OPAQUE_NAMES = {A.Acos: 'acos', A.Asin: 'asin', A.Atan: 'atan', A.Cos: 'cos', A.Sin: 'sin', A.Tan: 'tan', A.Acosh: 'acosh', A.Asinh: 'asinh', A.Atanh: 'atanh',
                A.Cosh: 'cosh', A.Sinh: 'sinh', A.Tanh: 'tanh', A.Exp: 'exp', A.Exp2: 'exp2', A.Expm1: 'expm1', A.Log: 'log', A.Log10: 'log10', A.Log1p: 'log1p',
                A.Log2: 'log2', A.Erf: 'erf', A.Erfc: 'erfc', A.Lgamma: 'lgamma', A.Tgamma: 'tgamma', A.Atan2: 'atan2',
                A.ConstPi: 'const_pi', A.ConstE: 'const_e', A.ConstLog2E: 'const_log2e', A.ConstLog10E: 'const_log10e', A.ConstLn2: 'const_ln2', A.ConstPi_2: 'const_pi_2',
                A.ConstPi_4: 'const_pi_4', A.Const1_Pi: 'const_1_pi', A.Const2_Pi: 'const_2_pi', A.Const2_SqrtPi: 'const_2_sqrt_pi', A.ConstSqrt2: 'const_sqrt2',
                A.ConstSqrt1_2: 'const_sqrt1_2'}

def pat_sexp(t) -> str:
    if isinstance(t, UnderscoreId): return '_'
    if isinstance(t, NamedId): return str(t)
    if isinstance(t, A.TupleBinding): return '(tup ' + ' '.join(pat_sexp(e) for e in t.elts) + ')'
    raise Unsupported(f'target {type(t).__name__}')

class Exporter:
    def __init__(self, ext: bool = False, twins: dict | None = None, lenient: bool = False):
        """`ext=True` (used by C04) turns on the desugarings of constructs the core model has no node for:
        captured free variables (bound at function entry), nullary nan/inf, literal spellings, cast, round_at via the
        operator table, fst/snd, size(·,0), empty, print, assert messages, primitives through their declared FPy twin.
        The default (`ext=False`) is the historical behaviour every other check relies on."""
        self.funcs: dict[str, str] = {}     # name -> sexp
        self.env = None
        self.pending = []
        self.ext = ext
        self.lenient = lenient      # (ext only) print constructs the model cannot decide as opaque operators: text comparison only
        self.twins = twins or {}
        self.fresh = 0

    def static_py(self, e):
        """evaluate a context-constructor expression that has no free PROGRAM variables to a Python object
        (names are looked up in the function's foreign environment, numbers are exact)"""
        if isinstance(e, A.Var):
            env = self.env
            if env is not None and str(e.name) in env: return env[str(e.name)]
            raise Unsupported(f'dynamic context expression (variable {e.name})')
        if isinstance(e, A.Attribute): return getattr(self.static_py(e.value), e.attr)
        if isinstance(e, A.ForeignVal): return e.val
        if isinstance(e, A.BoolVal): return e.val
        if isinstance(e, A.Integer): return int(e.as_rational())
        if isinstance(e, A.RationalVal):
            q = e.as_rational()
            return int(q) if q.denominator == 1 else q
        if isinstance(e, A.Neg):
            return -self.static_py(e.arg)
        if isinstance(e, A.Call):
            fn = e.fn
            if isinstance(fn, type) and issubclass(fn, fp.Context):
                from fpy2.interpret.byte import _construct_context
                from fpy2.interpret.value import to_value
                args = tuple(to_value(self.static_py(a)) for a in e.args)
                kwargs = {k: to_value(self.static_py(v)) for k, v in e.kwargs}
                return _construct_context(fn, args, kwargs)
        raise Unsupported(f'dynamic context expression ({type(e).__name__})')

    def dynamic_ctx(self, e) -> str:
        """a context constructor whose numeric arguments are computed by the program: exported as a call to a
        reserved callee name that encodes the class and the static options (see `ctxCtor` in Core.lean)"""
        import inspect
        from fpy2.number.context import mp_float, mps_float, mp_fixed, fixed, ieee754
        if not (isinstance(e, A.Call) and isinstance(e.fn, type) and issubclass(e.fn, fp.Context)):
            raise Unsupported('dynamic context expression')
        params = list(inspect.signature(e.fn.__init__).parameters)[1:]
        bound = dict(zip(params, e.args))
        for k, v in e.kwargs: bound[k] = v
        def static(name, default):
            return self.static_py(bound[name]) if name in bound else default
        def done(name, used):
            extra = set(bound) - set(used)
            if extra: raise Unsupported(f'dynamic context with extra arguments {sorted(extra)}')
            return name
        X = self.expr
        if e.fn is mp_float.MPFloatContext:
            rm = RM_NAME[static('rm', fp.RM.RNE)]
            return f"(call {done('@mp/' + rm, ['pmax', 'rm'])} {X(bound['pmax'])})"
        if e.fn is mps_float.MPSFloatContext:
            rm = RM_NAME[static('rm', fp.RM.RNE)]
            return f"(call {done('@mps/' + rm, ['pmax', 'emin', 'rm'])} {X(bound['pmax'])} {X(bound['emin'])})"
        if e.fn is ieee754.IEEEContext:
            rm = RM_NAME[static('rm', fp.RM.RNE)]; ov = OV_NAME[static('overflow', fp.OV.OVERFLOW)]
            return f"(call {done('@ieee/' + rm + '/' + ov, ['es', 'nbits', 'rm', 'overflow'])} {X(bound['es'])} {X(bound['nbits'])})"
        if e.fn is mp_fixed.MPFixedContext:
            rm = RM_NAME[static('rm', fp.RM.RNE)]
            return f"(call {done('@mpfix/' + rm, ['nmin', 'rm'])} {X(bound['nmin'])})"
        if e.fn is fixed.FixedContext:
            rm = RM_NAME[static('rm', fp.RM.RNE)]; ov = OV_NAME[static('overflow', fp.OV.WRAP)]
            sg = b01(bool(static('signed', None)))
            return f"(call {done('@fixed/' + rm + '/' + ov + '/' + sg, ['signed', 'scale', 'nbits', 'rm', 'overflow'])} {X(bound['scale'])} {X(bound['nbits'])})"
        raise Unsupported(f'dynamic context {e.fn.__name__}')

    def static_ctx(self, e) -> str:
        try:
            c = self.static_py(e)
        except Unsupported:
            return self.dynamic_ctx(e)
        except Exception:
            if not self.ext: raise
            return self.dynamic_ctx(e)
        if not isinstance(c, fp.Context): raise Unsupported('context expression is not a context')
        return '(ctx ' + ctx_tok(desc_of_ctx(c)) + ')'

    def expr_ext(self, e):
        """desugarings of `ext` mode; None = not handled here"""
        X = self.expr
        if isinstance(e, A.ConstNan): return '(num Fn0)'
        if isinstance(e, A.ConstInf): return '(num Fi0)'
        if isinstance(e, A.NullaryOp):
            if self.lenient and type(e) in OPAQUE_NAMES: return f'(const {OPAQUE_NAMES[type(e)]})'
            raise Unsupported(f'mpfr-constant:{type(e).__name__}')
        if isinstance(e, A.RoundAt): return f'(op round_at {X(e.first)} {X(e.second)})'
        if isinstance(e, A.Cast): return f'(op cast {X(e.arg)})'
        if isinstance(e, (A.Fst, A.Snd)):
            # `a, b = t` (M-Tuple) inside an expression: a one-element comprehension binds the pair pattern
            self.fresh += 1
            v = f'@p{self.fresh}'
            pat = f'(tup {v} _)' if isinstance(e, A.Fst) else f'(tup _ {v})'
            return f'(index (comp (({pat} (list {X(e.arg)}))) (var {v})) (num Q0/1))'
        if isinstance(e, A.Size):
            k = e.second
            if isinstance(k, A.Integer) and k.val == 0: return f'(len {X(e.first)})'     # "exact integer counts, no rounding"
            if self.lenient: return f'(size {X(e.first)} {X(e.second)})'
            raise Unsupported('size-of-inner-dimension')
        if isinstance(e, A.Dim):
            if self.lenient: return f'(dim {X(e.arg)})'
            raise Unsupported('dim')
        if isinstance(e, A.Empty):
            # an uninitialised cell is the placeholder `(bool 0)`: reading one as a number is a TypeError on both sides
            out = '(bool 0)'
            for d in reversed(e.args):
                out = f'(comp ((_ (range {X(d)}))) {out})'
            return out
        if isinstance(e, A.IsNormal):
            if self.lenient: return f'(isnormal {X(e.arg)})'
            raise Unsupported('isnormal')
        if isinstance(e, A.Logb):
            if self.lenient: return f'(logb {X(e.arg)})'
            raise Unsupported('logb')
        if self.lenient and type(e) in OPAQUE_NAMES:
            return f'(op {OPAQUE_NAMES[type(e)]} ' + ' '.join(X(a) for a in e.args) + ')'
        if isinstance(e, A.ForeignVal) and not isinstance(e.val, fp.Context):
            return '(bool 1)'     # an opaque constant (assert message, None): only ever passed along or discarded
        if isinstance(e, A.Call):
            fn = e.fn
            from fpy2.primitive import Primitive
            if fn is print:
                if e.kwargs: raise Unsupported('kwargs')
                return '(tuple ' + ' '.join(X(a) for a in e.args) + ')'
            if isinstance(fn, Primitive):
                if e.kwargs: raise Unsupported('kwargs')
                twin = self.twins.get(fn.name)
                if twin is None: raise Unsupported('primitive-without-twin')
                self.add_function(twin)
                return f'(call {twin.ast.name} ' + ' '.join(X(a) for a in e.args) + ')'
        return None

    def expr(self, e) -> str:
        X = self.expr
        if self.ext:
            r = self.expr_ext(e)
            if r is not None: return r
        if isinstance(e, A.Var): return f'(var {e.name})'
        if isinstance(e, A.BoolVal): return f'(bool {b01(e.val)})'
        if isinstance(e, A.RationalVal):
            try:
                v = e.as_real()
            except Exception as ex:
                if self.ext: raise Unsupported(f'literal:{type(ex).__name__}')
                raise
            from fpy2.number import Float
            if isinstance(v, Float): return '(num F' + fv_tok(fv_of_obj(v)) + ')'
            return f'(num Q{v.numerator}/{v.denominator})'
        if isinstance(e, A.ForeignVal):
            if isinstance(e.val, fp.Context): return '(ctx ' + ctx_tok(desc_of_ctx(e.val)) + ')'
            raise Unsupported('foreign value')
        if isinstance(e, A.Fma): return f'(op fma {X(e.first)} {X(e.second)} {X(e.third)})'
        if isinstance(e, A.RoundAt): return f'(roundat {X(e.first)} {X(e.second)})'
        for cls, nm in UNARY.items():
            if type(e) is cls: return f'(op {nm} {X(e.arg)})'
        for cls, nm in BINARY.items():
            if type(e) is cls: return f'(op {nm} {X(e.first)} {X(e.second)})'
        for cls, nm in PREDS.items():
            if type(e) is cls: return f'(pred {nm} {X(e.arg)})'
        if isinstance(e, A.Not): return f'(not {X(e.arg)})'
        if isinstance(e, A.And): return '(and ' + ' '.join(X(a) for a in e.args) + ')'
        if isinstance(e, A.Or): return '(or ' + ' '.join(X(a) for a in e.args) + ')'
        if isinstance(e, A.Min): return '(min ' + ' '.join(X(a) for a in e.args) + ')'
        if isinstance(e, A.Max): return '(max ' + ' '.join(X(a) for a in e.args) + ')'
        if isinstance(e, A.AMin): return f'(min {X(e.arg)})'
        if isinstance(e, A.AMax): return f'(max {X(e.arg)})'
        if isinstance(e, A.Len): return f'(len {X(e.arg)})'
        if isinstance(e, A.Sum): return f'(sum {X(e.arg)})'
        if isinstance(e, A.AnyOf): return f'(any {X(e.arg)})'
        if isinstance(e, A.AllOf): return f'(all {X(e.arg)})'
        if isinstance(e, A.Enumerate): return f'(enumerate {X(e.arg)})'
        if isinstance(e, A.Range1): return f'(range {X(e.arg)})'
        if isinstance(e, A.Range2): return f'(range {X(e.first)} {X(e.second)})'
        if isinstance(e, A.Range3): return f'(range {X(e.first)} {X(e.second)} {X(e.third)})'
        if isinstance(e, A.Zip): return '(zip ' + ' '.join(X(a) for a in e.args) + ')'
        if isinstance(e, A.Compare):
            ops = ' '.join(CMP[o.symbol()] for o in e.ops)
            return f'(cmp ({ops}) ' + ' '.join(X(a) for a in e.args) + ')'
        if isinstance(e, A.IfExpr): return f'(ite {X(e.cond)} {X(e.ift)} {X(e.iff)})'
        if isinstance(e, A.TupleExpr): return '(tuple ' + ' '.join(X(a) for a in e.elts) + ')'
        if isinstance(e, A.ListExpr): return '(list ' + ' '.join(X(a) for a in e.elts) + ')'
        if isinstance(e, A.ListRef): return f'(index {X(e.value)} {X(e.index)})'
        if isinstance(e, A.ListSlice):
            s = '_' if e.start is None else X(e.start)
            t = '_' if e.stop is None else X(e.stop)
            return f'(slice {X(e.value)} {s} {t})'
        if isinstance(e, A.ListComp):
            gens = ' '.join(f'({pat_sexp(t)} {X(it)})' for t, it in zip(e.targets, e.iterables))
            return f'(comp ({gens}) {X(e.elt)})'
        if isinstance(e, A.Call):
            fn = e.fn
            from fpy2.function import Function
            if isinstance(fn, Function):
                if e.kwargs: raise Unsupported('kwargs')
                self.add_function(fn)
                return f'(call {fn.ast.name} ' + ' '.join(X(a) for a in e.args) + ')'
            if isinstance(fn, type) and issubclass(fn, fp.Context):
                return self.static_ctx(e)
            raise Unsupported(f'call to {fn!r}')
        if isinstance(e, A.Attribute):
            return self.static_ctx(e)
        if self.ext and isinstance(e, (A.UnaryOp, A.BinaryOp)): raise Unsupported(f'mpfr-op:{type(e).__name__}')
        raise Unsupported(f'expr {type(e).__name__}')

    def block(self, b) -> str:
        return '(' + ' '.join(self.stmt(s) for s in b.stmts) + ')'

    def stmt(self, s) -> str:
        X = self.expr
        if isinstance(s, A.Assign): return f'(assign {pat_sexp(s.target)} {X(s.expr)})'
        if isinstance(s, A.IndexedAssign):
            if self.ext and len(s.indices) > 1:
                # xs[i][j] = e : the value first, then xs[i] (which may fail) BEFORE j is even converted
                idxs = [X(i) for i in s.indices]
                self.fresh += 1
                tv, tr = f'@v{self.fresh}', f'@r{self.fresh}'
                out = f'(assign {tv} {X(s.expr)}) (assign {tr} (index (var {s.var}) {idxs[0]}))'
                for k in idxs[1:-1]: out += f' (assign {tr} (index (var {tr}) {k}))'
                return out + f' (iassign {tr} ({idxs[-1]}) (var {tv}))'
            return f'(iassign {s.var} (' + ' '.join(X(i) for i in s.indices) + f') {X(s.expr)})'
        if isinstance(s, A.IfStmt): return f'(if {X(s.cond)} {self.block(s.ift)} {self.block(s.iff)})'
        if isinstance(s, A.If1Stmt): return f'(if1 {X(s.cond)} {self.block(s.body)})'
        if isinstance(s, A.WhileStmt): return f'(while {X(s.cond)} {self.block(s.body)})'
        if isinstance(s, A.ForStmt): return f'(for {pat_sexp(s.target)} {X(s.iterable)} {self.block(s.body)})'
        if isinstance(s, A.ContextStmt):
            nm = '_' if isinstance(s.target, UnderscoreId) else str(s.target)
            return f'(with {X(s.ctx)} {nm} {self.block(s.body)})'
        if isinstance(s, A.AssertStmt):
            if self.ext and s.msg is not None:
                # the message is evaluated only when the test fails, then the assertion error is raised
                return f'(if1 (not {X(s.test)}) ((effect {X(s.msg)}) (assert (bool 0))))'
            return f'(assert {X(s.test)})'
        if isinstance(s, A.EffectStmt): return f'(effect {X(s.expr)})'
        if isinstance(s, A.ReturnStmt): return f'(return {X(s.expr)})'
        if isinstance(s, A.PassStmt): return '(pass)'
        raise Unsupported(f'stmt {type(s).__name__}')

    def add_function(self, fn):
        ast = fn.ast if hasattr(fn, 'ast') else fn
        name = ast.name
        if name in self.funcs: return
        self.funcs[name] = None   # placeholder against recursion
        saved_env = getattr(self, 'env', None)
        self.env = ast.env
        entry = ''
        if self.ext:
            # captured Python values: converted at every activation (`to_value` rebuilds containers), i.e. bound at entry
            for nm in sorted(str(v) for v in ast.free_vars):
                try: val = ast.env[nm]
                except KeyError: continue
                if is_value(val): entry += f'(assign {nm} {val_expr(val)}) '
                elif is_foreign_value(val): entry += f'(assign {nm} (bool 1)) '
        c = ast.ctx
        if c is None: cs = '_'
        elif isinstance(c, fp.Context): cs = ctx_sexp(c)
        else: raise Unsupported('FPCoreContext')
        params = ' '.join(str(a.name) for a in ast.args)
        body = self.block(ast.body)
        if self.ext and entry: body = '(' + entry + body[1:]
        self.funcs[name] = f'(func {name} ({params}) {cs} {body})'
        self.env = saved_env

    def program(self) -> str:
        return '(' + ' '.join(v for v in self.funcs.values() if v) + ')'

def export_program(fn, ext: bool = False, twins: dict | None = None, lenient: bool = False) -> tuple[str, str]:
    """(entry name, '(func …)(func …)' list sexp) for a real fpy2 Function and its FPy callees"""
    ex = Exporter(ext=ext, twins=twins, lenient=lenient)
    ex.add_function(fn)
    return fn.ast.name, ex.program()

def eval_line(entry: str, prog: str, args, ctx=None, fuel=4000) -> str:
    cs = '_' if ctx is None else ctx_sexp(ctx)
    return f'eval {fuel} {entry} {cs} {prog} (' + ' '.join(val_sexp(a) for a in args) + ')'

PY_ERRS = {'NameError': 'Unbound', 'UnboundLocalError': 'Unbound'}

def run_real(fn, args, ctx=None, timeout_s=2) -> str:
    """call the real function; canonical result line"""
    import signal, copy
    def on_alarm(signum, frame): raise TimeoutError('timeout')
    old = signal.signal(signal.SIGALRM, on_alarm)
    signal.alarm(timeout_s)
    try:
        v = fn(*copy.deepcopy(list(args)), ctx=ctx) if ctx is not None else fn(*copy.deepcopy(list(args)))
        return 'ok ' + show_val(v)
    except TimeoutError:
        return 'timeout'
    except Unsupported as e:
        return f'unsupported {e}'
    except Exception as e:   # noqa
        n = err_name(e)
        return 'err ' + PY_ERRS.get(n, n)
    finally:
        signal.alarm(0); signal.signal(signal.SIGALRM, old)
