"""
Type-directed generator of FPy programs: one abstract syntax, two printers
(FPy source text for the real `@fp.fpy` front end, S-expression for the Lean model).
Programs are accepted by construction (every read is of a definitely-bound name) and
terminate by construction (counter loops advance under `fp.REAL`, `for` over finite lists).
"""
from __future__ import annotations
from fractions import Fraction
import os, sys, importlib.util, tempfile, itertools
from numcanon import *   # noqa
from langexport import ctx_tok, Unsupported

# context pool: (source text, descriptor)
def _ef(es, nb, rm, ov='overflow', inf=True, kind='ieee', eoff=0):
    return dict(fam='ef', es=es, nbits=nb, inf=inf, kind=kind, eoff=eoff, rm=rm, ov=ov, k=0, nv=None, iv=None)
CTXS = [
    ('fp.IEEEContext(5, 16, fp.RM.RNE)', _ef(5, 16, 'rne')),
    ('fp.IEEEContext(8, 32, fp.RM.RTZ)', _ef(8, 32, 'rtz')),
    ('fp.IEEEContext(4, 8, fp.RM.RNA)', _ef(4, 8, 'rna')),
    ('fp.IEEEContext(3, 6, fp.RM.RTP, fp.OV.SATURATE)', _ef(3, 6, 'rtp', 'saturate')),
    ('fp.IEEEContext(11, 64, fp.RM.RTN)', _ef(11, 64, 'rtn')),
    ('fp.MPFloatContext(3, fp.RM.RNE)', dict(fam='mp', p=3, rm='rne', k=0, en=True, ei=True, nv=None, iv=None)),
    ('fp.MPFloatContext(1, fp.RM.RAZ)', dict(fam='mp', p=1, rm='raz', k=0, en=True, ei=True, nv=None, iv=None)),
    ('fp.MPFloatContext(12, fp.RM.RTO)', dict(fam='mp', p=12, rm='rto', k=0, en=True, ei=True, nv=None, iv=None)),
    ('fp.MPSFloatContext(4, -3, fp.RM.RTP)', dict(fam='mps', p=4, emin=-3, rm='rtp', k=0, en=True, ei=True, nv=None, iv=None)),
    ('fp.MPFixedContext(-3, fp.RM.RTN)', dict(fam='mpfix', nmin=-3, rm='rtn', k=0, nz=True, en=False, ei=False, nv=None, iv=None)),
    ('fp.MPFixedContext(0, fp.RM.RNE)', dict(fam='mpfix', nmin=0, rm='rne', k=0, nz=True, en=False, ei=False, nv=None, iv=None)),
    ('fp.FixedContext(True, -2, 8, fp.RM.RNE, fp.OV.SATURATE)', dict(fam='fixed', signed=True, scale=-2, nbits=8, rm='rne', ov='saturate', k=0, nv=None, iv=None)),
    ('fp.FixedContext(False, 0, 6, fp.RM.RTZ, fp.OV.WRAP)', dict(fam='fixed', signed=False, scale=0, nbits=6, rm='rtz', ov='wrap', k=0, nv=None, iv=None)),
    ('fp.EFloatContext(4, 8, False, fp.EFloatNanKind.MAX_VAL, 1, fp.RM.RNE)', _ef(4, 8, 'rne', inf=False, kind='maxval', eoff=1)),
    ('fp.REAL', dict(fam='real')),
]
DECL_CTXS = [None, None, 0, 5, 9, 14]   # indices into CTXS for helper-declared contexts

LITS = ['0', '1', '2', '3', '7', '10', '0.5', '0.25', '1.5', '0.1', '0.3', '2.75', '100', '0.001', '1e3', '16', '255', '0.75']

def lit_value(s: str) -> Fraction:
    return Fraction(s)

class Gen:
    def __init__(self, R, max_depth=3):
        self.R = R
        self.max_depth = max_depth
        self.fresh = itertools.count()
        self.stats = {}
        self.helpers = {}     # name -> (param types, ret type)

    def count(self, k): self.stats[k] = self.stats.get(k, 0) + 1

    # ---------------------------------------------------------- expressions
    def vars_of(self, env, ty): return [x for x, t in env.items() if t == ty]

    def real(self, env, d):
        R = self.R
        vs = self.vars_of(env, 'R')
        ls = self.vars_of(env, 'L')
        choices = ['var'] * 4 + ['lit'] * 2
        if d > 0:
            choices += ['add', 'sub', 'mul', 'div', 'neg', 'abs', 'fma', 'sqrt', 'min', 'max', 'ite', 'round'] + ['add', 'mul']
            if ls: choices += ['index', 'sum', 'len', 'minl']
            if self.helpers: choices += ['call'] * 2
        c = R.choice(choices)
        self.count('expr:' + c)
        if c == 'var' and vs: return ('var', R.choice(vs))
        if c in ('var', 'lit'): return ('num', R.choice(LITS))
        if c in ('add', 'sub', 'mul', 'div'): return ('op', c, self.real(env, d - 1), self.real(env, d - 1))
        if c == 'neg':
            a = self.real(env, d - 1)
            # `-<literal>` is folded into a negative literal by the parser: spell it that way
            # (the parser folds `-<integer-valued literal>` into a negative literal, but not `-<decimal>`)
            if a[0] == 'num':
                if Fraction(a[1]).denominator == 1 and Fraction(a[1]) > 0: return ('num', '-' + a[1])
                if a[1].startswith('-') or a[1] == '0': return a
            return ('op', 'neg', a)
        if c == 'abs': return ('op', 'fabs', self.real(env, d - 1))
        if c == 'sqrt': return ('op', 'sqrt', ('op', 'fabs', self.real(env, d - 1)))
        if c == 'round': return ('op', 'round', self.real(env, d - 1))
        if c == 'fma': return ('op', 'fma', self.real(env, d - 1), self.real(env, d - 1), self.real(env, d - 1))
        if c in ('min', 'max'): return (c, [self.real(env, d - 1) for _ in range(R.randint(2, 3))])
        if c == 'ite': return ('ite', self.boolean(env, d - 1), self.real(env, d - 1), self.real(env, d - 1))
        if c == 'index': return ('index', ('var', R.choice(ls)), ('num', R.choice(['0', '0', '1', '2'])))
        if c == 'sum': return ('sum', self.lst(env, d - 1))
        if c == 'len': return ('len', self.lst(env, d - 1))
        if c == 'minl': return (R.choice(['min', 'max']), [self.lst(env, d - 1)])
        if c == 'call':
            f = R.choice(list(self.helpers))
            ptys, _ = self.helpers[f]
            return ('call', f, [self.real(env, d - 1) if t == 'R' else self.lst(env, d - 1) for t in ptys])
        return ('num', '1')

    def boolean(self, env, d):
        R = self.R
        choices = ['cmp'] * 4 + ['const']
        if d > 0: choices += ['not', 'and', 'or', 'pred', 'chain', 'eq']
        if d > 0 and self.vars_of(env, 'L'): choices += ['anyall']
        c = R.choice(choices)
        self.count('bexpr:' + c)
        if c == 'const': return ('bool', R.random() < 0.5)
        if c == 'cmp': return ('cmp', [R.choice(['lt', 'le', 'gt', 'ge', 'eq', 'ne'])], [self.real(env, d - 1), self.real(env, d - 1)])
        if c == 'chain': return ('cmp', [R.choice(['lt', 'le', 'gt', 'ge']) for _ in range(2)], [self.real(env, d - 1) for _ in range(3)])
        if c == 'eq':
            if self.vars_of(env, 'L') and R.random() < 0.5:
                return ('cmp', [R.choice(['eq', 'ne'])], [self.lst(env, d - 1), self.lst(env, d - 1)])
            return ('cmp', ['eq'], [('tuple', [self.real(env, 0), self.real(env, 0)]), ('tuple', [self.real(env, 0), self.real(env, 0)])])
        if c == 'not': return ('not', self.boolean(env, d - 1))
        if c in ('and', 'or'): return (c, [self.boolean(env, d - 1) for _ in range(R.randint(2, 3))])
        if c == 'pred': return ('pred', R.choice(['isnan', 'isinf', 'isfinite', 'signbit']), self.real(env, d - 1))
        if c == 'anyall':
            x = f'c{next(self.fresh)}'
            env2 = dict(env); env2[x] = 'R'
            return (R.choice(['any', 'all']), ('comp', [(x, self.lst(env, d - 1))], self.boolean(env2, 0)))
        return ('bool', True)

    def lst(self, env, d):
        R = self.R
        vs = self.vars_of(env, 'L')
        choices = ['var'] * 4 + ['lit']
        if d > 0:
            choices += ['comp', 'range', 'lit']
            if vs: choices += ['slice', 'comp2', 'zipcomp', 'enumcomp']
        c = R.choice(choices)
        self.count('lexpr:' + c)
        if c == 'var' and vs: return ('var', R.choice(vs))
        if c in ('var', 'lit'): return ('list', [self.real(env, max(d - 1, 0)) for _ in range(R.randint(0, 3))])
        if c == 'range':
            return ('comp', [(f'c{next(self.fresh)}', ('range', [('num', R.choice(['0', '1', '3']))] if R.random() < 0.6 else
                                                        [('num', R.choice(['0', '1'])), ('num', R.choice(['2', '4'])), ('num', R.choice(['1', '2']))]))],
                    ('num', R.choice(LITS)))
        if c == 'slice':
            s = R.choice([None, ('num', '0'), ('num', '1')])
            t = R.choice([None, ('num', '1'), ('num', '2'), ('len', ('var', vs[0]))])
            return ('slice', ('var', R.choice(vs)), s, t)
        if c == 'comp':
            x = f'c{next(self.fresh)}'
            env2 = dict(env); env2[x] = 'R'
            return ('comp', [(x, self.lst(env, d - 1))], self.real(env2, d - 1))
        if c == 'comp2':
            x = f'c{next(self.fresh)}'; y = f'c{next(self.fresh)}'
            env2 = dict(env); env2[x] = 'R'; env2[y] = 'R'
            return ('comp', [(x, ('var', R.choice(vs))), (y, self.lst(env, 0))], self.real(env2, 1))
        if c == 'zipcomp':
            x = f'c{next(self.fresh)}'; y = f'c{next(self.fresh)}'
            env2 = dict(env); env2[x] = 'R'; env2[y] = 'R'
            a = R.choice(vs)
            return ('comp', [(('tup', [x, y]), ('zip', [('var', a), ('var', a if R.random() < 0.7 else R.choice(vs))]))], self.real(env2, 1))
        if c == 'enumcomp':
            x = f'c{next(self.fresh)}'; y = f'c{next(self.fresh)}'
            env2 = dict(env); env2[x] = 'R'; env2[y] = 'R'
            return ('comp', [(('tup', [x, y]), ('enumerate', ('var', R.choice(vs))))], self.real(env2, 1))
        return ('list', [])

    # ---------------------------------------------------------- statements
    def block(self, env, depth, n, in_loop, wide, ret_ty):
        """returns (stmts, env_after); env is only extended at this level"""
        R = self.R
        out = []
        env = dict(env)
        for _ in range(n):
            kinds = ['assign'] * 4 + ['newvar'] * 2 + ['newlist']
            if depth > 0:
                kinds += ['if', 'if1', 'for', 'with', 'with', 'with']
                if wide: kinds += ['while']
                if self.vars_of(env, 'L'): kinds += ['iassign', 'alias', 'iassign']
                kinds += ['assert', 'earlyret', 'tuplepat']
            k = R.choice(kinds)
            self.count('stmt:' + k)
            if k == 'assign' and self.vars_of(env, 'R'):
                out.append(('assign', R.choice(self.vars_of(env, 'R')), self.real(env, self.max_depth)))
            elif k in ('newvar', 'assign'):
                x = f'v{next(self.fresh)}'
                out.append(('assign', x, self.real(env, self.max_depth))); env[x] = 'R'
            elif k == 'newlist':
                x = f'l{next(self.fresh)}'
                out.append(('assign', x, self.lst(env, 2))); env[x] = 'L'
            elif k == 'alias':
                x = f'l{next(self.fresh)}'
                out.append(('assign', x, ('var', R.choice(self.vars_of(env, 'L'))))); env[x] = 'L'
            elif k == 'tuplepat':
                x = f'v{next(self.fresh)}'; y = f'v{next(self.fresh)}'
                out.append(('assign', ('tup', [x, '_' if R.random() < 0.2 else y]), ('tuple', [self.real(env, 2), self.real(env, 2)])))
                env[x] = 'R'
                if out[-1][1][1][1] != '_': env[y] = 'R'
            elif k == 'iassign':
                l = R.choice(self.vars_of(env, 'L'))
                out.append(('if1', ('cmp', ['gt'], [('len', ('var', l)), ('num', '1')]),
                            [('iassign', l, [('num', R.choice(['0', '1']))], self.real(env, 2))]))
            elif k == 'if':
                t, _ = self.block(env, depth - 1, R.randint(1, 2), in_loop, wide, ret_ty)
                f, _ = self.block(env, depth - 1, R.randint(1, 2), in_loop, wide, ret_ty)
                out.append(('if', self.boolean(env, 2), t, f))
            elif k == 'if1':
                t, _ = self.block(env, depth - 1, R.randint(1, 2), in_loop, wide, ret_ty)
                out.append(('if1', self.boolean(env, 2), t))
            elif k == 'earlyret':
                out.append(('if1', self.boolean(env, 2), [('return', self.ret_expr(env, ret_ty))]))
            elif k == 'for':
                x = f'e{next(self.fresh)}'
                env2 = dict(env); env2[x] = 'R'
                it = self.lst(env, 1)
                if R.random() < 0.3:
                    y = f'e{next(self.fresh)}'; env2[y] = 'R'
                    pat = ('tup', [x, y]); it = ('enumerate', it) if R.random() < 0.5 else ('zip', [it, it])
                else: pat = x
                b, _ = self.block(env2, depth - 1, R.randint(1, 2), True, wide, ret_ty)
                out.append(('for', pat, it, b))
            elif k == 'while':
                kx = f'k{next(self.fresh)}'
                n_iter = R.choice(['0', '1', '2', '3'])
                env2 = dict(env); env2[kx] = 'R'
                b, _ = self.block(env2, depth - 1, R.randint(1, 2), True, wide, ret_ty)
                b = [s for s in b if not (s[0] == 'assign' and s[1] == kx)]
                out.append(('assign', kx, ('num', '0')))
                out.append(('while', ('cmp', ['lt'], [('var', kx), ('num', n_iter)]),
                            b + [('with', len(CTXS) - 1, None, [('assign', kx, ('op', 'add', ('var', kx), ('num', '1')))])]))
                env[kx] = 'R'
            elif k == 'with':
                ci = R.randrange(len(CTXS))
                nm = f'cx{next(self.fresh)}' if R.random() < 0.2 else None
                b, env_in = self.block(env, depth - 1, R.randint(1, 3), in_loop, False, ret_ty)
                out.append(('with', ci, nm, b))
                # names bound at the body's top level stay bound after the block (Python scoping)
                for x, t in env_in.items(): env.setdefault(x, t)
            elif k == 'assert':
                out.append(('assert', ('or', [self.boolean(env, 1), ('bool', True)]) if R.random() < 0.8 else self.boolean(env, 1)))
        return out, env

    def ret_expr(self, env, ret_ty):
        if ret_ty == 'R': return self.real(env, 2)
        parts = [self.real(env, 2), self.boolean(env, 1)]
        ls = self.vars_of(env, 'L')
        if ls: parts.append(('var', self.R.choice(ls)))
        parts.append(self.lst(env, 1))
        return ('tuple', parts)

    def function(self, name, ptys, ret_ty, decl, size, depth, wide=True):
        params = [f'a{i}' for i in range(len(ptys))]
        env = dict(zip(params, ptys))
        body, env2 = self.block(env, depth, size, False, wide and decl is None, ret_ty)
        body.append(('return', self.ret_expr(env2, ret_ty)))
        return {'name': name, 'params': params, 'ptys': ptys, 'decl': decl, 'body': body}

    def program(self, uid):
        R = self.R
        self.helpers = {}
        funcs = []
        nh = R.randint(0, 2)
        for i in range(nh):
            ptys = R.choice([['R'], ['R', 'R'], ['L'], ['R', 'L']])
            nm = f'h{uid}_{i}'
            f = self.function(nm, ptys, 'R', R.choice(DECL_CTXS), R.randint(1, 3), 1)
            if 'L' in ptys and R.random() < 0.7:
                li = f['params'][ptys.index('L')]
                f['body'].insert(0, ('if1', ('cmp', ['gt'], [('len', ('var', li)), ('num', '0')]),
                                     [('iassign', li, [('num', '0')], self.real({p: t for p, t in zip(f['params'], ptys)}, 2))]))
            funcs.append(f)
            self.helpers[nm] = (ptys, 'R')
        main = self.function(f'm{uid}', ['R', 'R', 'L'], 'T', R.choice([None, None, None, 0, 7]), R.randint(3, 6), 2)
        funcs.append(main)
        return funcs

# ------------------------------------------------------------------ printers

SRC_OP = {'add': '+', 'sub': '-', 'mul': '*', 'div': '/'}
SRC_CMP = {'lt': '<', 'le': '<=', 'gt': '>', 'ge': '>=', 'eq': '==', 'ne': '!='}

def src_pat(p):
    if isinstance(p, str): return p
    return '(' + ', '.join(src_pat(q) for q in p[1]) + (',' if len(p[1]) == 1 else '') + ')'

def src_e(e):
    k = e[0]
    if k == 'var': return e[1]
    if k == 'num': return f'({e[1]})' if e[1].startswith('-') else e[1]
    if k == 'bool': return 'True' if e[1] else 'False'
    if k == 'op':
        nm = e[1]; a = [src_e(x) for x in e[2:]]
        if nm in SRC_OP: return f'({a[0]} {SRC_OP[nm]} {a[1]})'
        if nm == 'neg': return f'(-{a[0]})'
        if nm == 'fabs': return f'abs({a[0]})'
        return f'fp.{nm}(' + ', '.join(a) + ')'
    if k == 'pred': return f'fp.{e[1]}({src_e(e[2])})'
    if k == 'cmp':
        s = src_e(e[2][0])
        for o, a in zip(e[1], e[2][1:]): s += f' {SRC_CMP[o]} {src_e(a)}'
        return f'({s})'
    if k == 'not': return f'(not {src_e(e[1])})'
    if k in ('and', 'or'): return '(' + f' {k} '.join(src_e(x) for x in e[1]) + ')'
    if k == 'ite': return f'({src_e(e[2])} if {src_e(e[1])} else {src_e(e[3])})'
    if k == 'tuple': return '(' + ', '.join(src_e(x) for x in e[1]) + (',' if len(e[1]) == 1 else '') + ')'
    if k == 'list': return '[' + ', '.join(src_e(x) for x in e[1]) + ']'
    if k == 'index': return f'{src_e(e[1])}[{src_e(e[2])}]'
    if k == 'slice':
        return f'{src_e(e[1])}[{"" if e[2] is None else src_e(e[2])}:{"" if e[3] is None else src_e(e[3])}]'
    if k == 'comp':
        gens = ' '.join(f'for {src_pat(p)} in {src_e(it)}' for p, it in e[1])
        return f'[{src_e(e[2])} {gens}]'
    if k in ('len', 'sum', 'any', 'all', 'enumerate'): return f'{k}({src_e(e[1])})'
    if k in ('min', 'max', 'zip', 'range'): return f'{k}(' + ', '.join(src_e(x) for x in e[1]) + ')'
    if k == 'call': return f'{e[1]}(' + ', '.join(src_e(x) for x in e[2]) + ')'
    raise ValueError(e)

def sx_pat(p):
    if isinstance(p, str): return p
    return '(tup ' + ' '.join(sx_pat(q) for q in p[1]) + ')'

def sx_num(s: str) -> str:
    q = Fraction(s)
    return f'(num Q{q.numerator}/{q.denominator})'

def sx_e(e):
    k = e[0]
    if k == 'var': return f'(var {e[1]})'
    if k == 'num': return sx_num(e[1])
    if k == 'bool': return f'(bool {b01(e[1])})'
    if k == 'op': return f'(op {e[1]} ' + ' '.join(sx_e(x) for x in e[2:]) + ')'
    if k == 'pred': return f'(pred {e[1]} {sx_e(e[2])})'
    if k == 'cmp': return '(cmp (' + ' '.join(e[1]) + ') ' + ' '.join(sx_e(x) for x in e[2]) + ')'
    if k == 'not': return f'(not {sx_e(e[1])})'
    if k in ('and', 'or', 'tuple', 'list', 'min', 'max', 'zip', 'range'): return f'({k} ' + ' '.join(sx_e(x) for x in e[1]) + ')'
    if k == 'ite': return f'(ite {sx_e(e[1])} {sx_e(e[2])} {sx_e(e[3])})'
    if k == 'index': return f'(index {sx_e(e[1])} {sx_e(e[2])})'
    if k == 'slice': return f'(slice {sx_e(e[1])} {"_" if e[2] is None else sx_e(e[2])} {"_" if e[3] is None else sx_e(e[3])})'
    if k == 'comp': return '(comp (' + ' '.join(f'({sx_pat(p)} {sx_e(it)})' for p, it in e[1]) + f') {sx_e(e[2])})'
    if k in ('len', 'sum', 'any', 'all', 'enumerate'): return f'({k} {sx_e(e[1])})'
    if k == 'call': return f'(call {e[1]} ' + ' '.join(sx_e(x) for x in e[2]) + ')'
    raise ValueError(e)

def src_block(b, ind):
    pad = '    ' * ind
    out = []
    for s in b:
        k = s[0]
        if k == 'assign': out.append(f'{pad}{src_pat(s[1])} = {src_e(s[2])}')
        elif k == 'iassign': out.append(f'{pad}{s[1]}' + ''.join(f'[{src_e(i)}]' for i in s[2]) + f' = {src_e(s[3])}')
        elif k == 'if': out += [f'{pad}if {src_e(s[1])}:'] + src_block(s[2], ind + 1) + [f'{pad}else:'] + src_block(s[3], ind + 1)
        elif k == 'if1': out += [f'{pad}if {src_e(s[1])}:'] + src_block(s[2], ind + 1)
        elif k == 'while': out += [f'{pad}while {src_e(s[1])}:'] + src_block(s[2], ind + 1)
        elif k == 'for': out += [f'{pad}for {src_pat(s[1])} in {src_e(s[2])}:'] + src_block(s[3], ind + 1)
        elif k == 'with': out += [f'{pad}with {CTXS[s[1]][0]}' + (f' as {s[2]}' if s[2] else '') + ':'] + src_block(s[3], ind + 1)
        elif k == 'assert': out.append(f'{pad}assert {src_e(s[1])}')
        elif k == 'effect': out.append(f'{pad}{src_e(s[1])}')
        elif k == 'return': out.append(f'{pad}return {src_e(s[1])}')
        elif k == 'pass': out.append(f'{pad}pass')
        else: raise ValueError(s)
    return out or [f'{pad}pass']

def sx_block(b):
    out = []
    for s in b:
        k = s[0]
        if k == 'assign': out.append(f'(assign {sx_pat(s[1])} {sx_e(s[2])})')
        elif k == 'iassign': out.append(f'(iassign {s[1]} (' + ' '.join(sx_e(i) for i in s[2]) + f') {sx_e(s[3])})')
        elif k == 'if': out.append(f'(if {sx_e(s[1])} {sx_block(s[2])} {sx_block(s[3])})')
        elif k == 'if1': out.append(f'(if1 {sx_e(s[1])} {sx_block(s[2])})')
        elif k == 'while': out.append(f'(while {sx_e(s[1])} {sx_block(s[2])})')
        elif k == 'for': out.append(f'(for {sx_pat(s[1])} {sx_e(s[2])} {sx_block(s[3])})')
        elif k == 'with': out.append(f'(with (ctx {ctx_tok(CTXS[s[1]][1])}) {s[2] or "_"} {sx_block(s[3])})')
        elif k == 'assert': out.append(f'(assert {sx_e(s[1])})')
        elif k == 'effect': out.append(f'(effect {sx_e(s[1])})')
        elif k == 'return': out.append(f'(return {sx_e(s[1])})')
        elif k == 'pass': out.append('(pass)')
    return '(' + ' '.join(out) + ')'

def src_func(f, annotate=False):
    dec = '@fp.fpy' if f['decl'] is None else f'@fp.fpy(ctx={CTXS[f["decl"]][0]})'
    ann = {'R': ': fp.Real', 'L': ': list[fp.Real]'}
    ps = [p + (ann.get(t, '') if annotate else '') for p, t in zip(f['params'], f['ptys'])]
    return '\n'.join([dec, f'def {f["name"]}(' + ', '.join(ps) + '):'] + src_block(f['body'], 1)) + '\n'

def sx_func(f):
    c = '_' if f['decl'] is None else '(' + ctx_tok(CTXS[f['decl']][1]) + ')'
    return f'(func {f["name"]} (' + ' '.join(f['params']) + f') {c} {sx_block(f["body"])})'

def write_module(funcs_groups, tag):
    """write all programs into one module under /var/tmp and import it; returns the module"""
    d = tempfile.mkdtemp(prefix=f'fpyverif_{tag}_', dir='/var/tmp')
    path = os.path.join(d, f'gen_{tag}.py')
    with open(path, 'w') as fh:
        fh.write('import fpy2 as fp\n\n')
        for funcs in funcs_groups:
            for f in funcs: fh.write(src_func(f) + '\n')
    return d, path

def load_functions(path, names):
    """import generated functions one program at a time so that one rejected program does not lose the rest"""
    spec = importlib.util.spec_from_file_location(os.path.basename(path)[:-3], path)
    mod = importlib.util.module_from_spec(spec)
    spec.loader.exec_module(mod)
    return mod
