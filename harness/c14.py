"""C14 — format inference bounds every run-time value.

(a) correspondence: the real `AbstractFormat` operators vs the Lean model (`Fpy/Model/AbsFmt.lean`)
    on a grid of abstract formats + formats obtained with the real `from_format`;
(b) Spec oracle, independent of the model: members of small formats are enumerated with exact
    Fractions from the class docstring; the outputs of the REAL operators must contain the exact
    sums / products / negations / absolute values / unions, `a <= b` must imply inclusion, and a
    rounding reported to be an identity must change no member (`ctx.round`);
(c) program level: the real `FormatInfer.analyze` on generated @fp.fpy programs with pinned
    contexts and argument formats; every traced run-time value must be a member of the format
    inferred for its variable / for the function result; `elim_round` end-to-end.
"""
from __future__ import annotations
import itertools, math, operator, os, sys, tempfile, importlib.util, shutil, traceback
from fractions import Fraction
from numcanon import *   # noqa  (common.*, fp, Float, RealFloat, rf_tok, fv_tok, err_name, b01, ctx_obj)
from fpy2.analysis.format_infer import AbstractFormat, round_is_identity, SetFormat
from fpy2.analysis.format_infer.analysis import NegZero, Special
from fpy2.number.context.format import Format
from fpy2.number.context.real import RealFormat
from fpy2.number.context.fixed import FixedFormat
from fpy2.number.context.mp_fixed import MPFixedFormat
from fpy2.number.context.mpb_fixed import MPBFixedFormat
from fpy2.number.context.mp_float import MPFloatFormat
from fpy2.number.context.mps_float import MPSFloatFormat
from fpy2.number.context.mpb_float import MPBFloatFormat
from fpy2.number.context.efloat import EFloatFormat
from fpy2.number.context.exponential import ExpFormat

PROP = 'C14'
INF = float('inf')

# ---------------------------------------------------------------------------
# abstract-format descriptors:  (prec|None, exp|None, pos, neg, (pi, ni, nan, nz))
#   prec None = float('inf');  exp None = float('-inf')
#   bound = ('fin', s, exp, c) | '+oo' | '-oo' | 'nan'

def bnd_obj(b):
    if b == '+oo': return INF
    if b == '-oo': return -INF
    if b == 'nan': return float('nan')
    return RealFloat(s=b[1], exp=b[2], c=b[3])

def bnd_desc(o):
    if isinstance(o, RealFloat): return ('fin', o.s, o.exp, o.c)
    if isinstance(o, float):
        if math.isnan(o): return 'nan'
        if math.isinf(o): return '+oo' if o > 0 else '-oo'
    raise ValueError(f'unexpected bound {o!r}')

def bnd_tok(b):
    return b if isinstance(b, str) else f'{b01(b[1])}:{b[2]}:{b[3]}'

def af_obj(d):
    prec, exp, pos, neg, fl = d
    return AbstractFormat(INF if prec is None else prec, -INF if exp is None else exp, bnd_obj(pos),
                          neg_bound=bnd_obj(neg), has_pos_inf=fl[0], has_neg_inf=fl[1], has_nan=fl[2], has_neg_zero=fl[3])

def af_desc(a: AbstractFormat):
    if isinstance(a.prec, float):
        if a.prec != INF: raise ValueError(f'unexpected prec {a.prec!r}')
        prec = None
    else: prec = int(a.prec)
    if isinstance(a.exp, float):
        if a.exp != -INF: raise ValueError(f'unexpected exp {a.exp!r}')
        exp = None
    else: exp = int(a.exp)
    return (prec, exp, bnd_desc(a.pos_bound), bnd_desc(a.neg_bound),
            (bool(a.has_pos_inf), bool(a.has_neg_inf), bool(a.has_nan), bool(a.has_neg_zero)))

def af_tok(d):
    prec, exp, pos, neg, fl = d
    return (f"A{'oo' if prec is None else prec}/{'-oo' if exp is None else exp}/{bnd_tok(pos)}/{bnd_tok(neg)}/"
            + ''.join(b01(x) for x in fl))

def af_of_tok(t):
    p, e, pb, nb, fl = t[1:].split('/')
    def b(x):
        if x in ('+oo', '-oo', 'nan'): return x
        s, ee, c = x.split(':'); return ('fin', s == '1', int(ee), int(c))
    return (None if p == 'oo' else int(p), None if e == '-oo' else int(e), b(pb), b(nb), tuple(c == '1' for c in fl))

def show_af(a) -> str:
    try:
        return 'ok ' + af_tok(af_desc(a))
    except ValueError as e:
        return 'unmodelled ' + str(e)

BINOPS = {'add': operator.add, 'sub': operator.sub, 'mul': operator.mul, 'and': operator.and_, 'or': operator.or_}
UNOPS = {'neg': operator.neg, 'abs': abs, 'pos': operator.pos}

def real_binop(op, a, b):
    try:
        if op == 'le': return 'ok ' + b01(a <= b)
        return show_af(BINOPS[op](a, b))
    except Exception as e:   # noqa
        return 'err ' + err_name(e)

def real_unop(op, a):
    try:
        if op == 'effprec':
            p = a.effective_prec()
            return 'ok ' + ('oo' if isinstance(p, float) else str(p))
        return show_af(UNOPS[op](a))
    except Exception as e:   # noqa
        return 'err ' + err_name(e)

# ---------------------------------------------------------------------------
# Spec: values and membership, from the class docstring, exact Fractions.
# value = ('z', s) | Fraction (non-zero) | 'pinf' | 'ninf' | 'nan'

def bnd_val(b):
    if b == '+oo': return INF
    if b == '-oo': return -INF
    if b == 'nan': return None
    q = Fraction(b[3]) * Fraction(2) ** b[2]
    return -q if b[1] else q

def odd_part(q: Fraction):
    """|q| = o * 2^t with o odd (q dyadic, non-zero)"""
    q = abs(q)
    assert q != 0, 'odd_part(0)'
    n, dd = q.numerator, q.denominator
    assert dd & (dd - 1) == 0, 'non-dyadic'
    t = -(dd.bit_length() - 1)
    while n % 2 == 0:
        n //= 2; t += 1
    return n, t

def spec_writable(prec, exp, q: Fraction) -> bool:
    """exists m, e:  |q| = m * 2^e,  m < 2^prec (if finite),  e >= exp (if finite)"""
    o, t = odd_part(q)          # every way of writing |q| is (o * 2^j) * 2^(t - j), j >= 0;
    # larger j only makes m larger and e smaller, so j = 0 is a witness if any is
    if prec is not None and o >= (1 << prec): return False
    if exp is not None and t < exp: return False
    return True

def spec_member(d, v) -> bool:
    prec, exp, pos, neg, fl = d
    if v == 'pinf': return fl[0]
    if v == 'ninf': return fl[1]
    if v == 'nan': return fl[2]
    if isinstance(v, tuple):            # zero
        return (not v[1]) or fl[3]
    if not spec_writable(prec, exp, v): return False
    hi, lo = bnd_val(pos), bnd_val(neg)
    if hi is None or lo is None: return False
    return lo <= v <= hi

def spec_wf(d) -> bool:
    """the convention the code states: pos_bound >= 0 >= neg_bound, unbounded sides +inf / -inf"""
    hi, lo = bnd_val(d[2]), bnd_val(d[3])
    return hi is not None and lo is not None and hi >= 0 >= lo

def v_neg(v):
    if v == 'nan': return 'nan'
    if v == 'pinf': return 'ninf'
    if v == 'ninf': return 'pinf'
    if isinstance(v, tuple): return ('z', not v[1])
    return -v

def v_abs(v):
    if v == 'nan': return 'nan'
    if v in ('pinf', 'ninf'): return 'pinf'
    if isinstance(v, tuple): return ('z', False)
    return abs(v)

def v_sign(v):
    if v == 'ninf': return True
    if v == 'pinf': return False
    if isinstance(v, tuple): return v[1]
    return v < 0

def v_add(x, y):
    """exact IEEE-754 sum (no rounding): zero sum of opposite values is +0, (-0)+(-0) = -0"""
    if x == 'nan' or y == 'nan': return 'nan'
    xi, yi = x in ('pinf', 'ninf'), y in ('pinf', 'ninf')
    if xi and yi: return x if x == y else 'nan'
    if xi: return x
    if yi: return y
    xz, yz = isinstance(x, tuple), isinstance(y, tuple)
    if xz and yz: return ('z', x[1] and y[1])
    if xz: return y
    if yz: return x
    s = x + y
    return ('z', False) if s == 0 else s

def v_sub(x, y): return v_add(x, v_neg(y))

def v_mul(x, y):
    if x == 'nan' or y == 'nan': return 'nan'
    xi, yi = x in ('pinf', 'ninf'), y in ('pinf', 'ninf')
    xz, yz = isinstance(x, tuple), isinstance(y, tuple)
    s = v_sign(x) != v_sign(y)
    if xi or yi:
        if xz or yz: return 'nan'
        return 'ninf' if s else 'pinf'
    if xz or yz: return ('z', s)
    return x * y

def v_tok(v):
    if v == 'nan': return 'n0'
    if v == 'pinf': return 'i0'
    if v == 'ninf': return 'i1'
    if isinstance(v, tuple): return f'f{b01(v[1])}:0:0'
    o, t = odd_part(v)
    return f'f{b01(v < 0)}:{t}:{o}'

def v_float(v) -> Float:
    if v == 'nan': return Float(isnan=True)
    if v == 'pinf': return Float(isinf=True)
    if v == 'ninf': return Float(s=True, isinf=True)
    if isinstance(v, tuple): return Float(s=v[1], exp=0, c=0)
    o, t = odd_part(v)
    return Float(s=v < 0, exp=t, c=o)

def v_of_float(x):
    if x.isnan: return 'nan'
    if x.isinf: return 'ninf' if x.s else 'pinf'
    if x.c == 0: return ('z', bool(x.s))
    q = Fraction(x.c) * Fraction(2) ** x.exp
    return -q if x.s else q

def v_str(v):
    if isinstance(v, tuple): return '-0' if v[1] else '+0'
    return str(v)

ELO, MAG = -4, 16       # enumeration window: multiples of 2^ELO of magnitude <= MAG
_CAND = [Fraction(k, 1 << -ELO) for k in range(-MAG << -ELO, (MAG << -ELO) + 1) if k != 0]
_ENUM_CACHE: dict = {}

def enum_members(d):
    """every member of the format inside the window, plus its zeros and specials"""
    key = d
    if key in _ENUM_CACHE: return _ENUM_CACHE[key]
    out = [('z', False)]
    if d[4][3]: out.append(('z', True))
    if d[4][0]: out.append('pinf')
    if d[4][1]: out.append('ninf')
    if d[4][2]: out.append('nan')
    out += [q for q in _CAND if spec_member(d, q)]
    _ENUM_CACHE[key] = out
    return out

def pick_members(R, d, cap):
    """zeros/specials, extremes, smallest magnitudes and a random rest"""
    ms = enum_members(d)
    if len(ms) <= cap: return list(ms)
    sp = [m for m in ms if not isinstance(m, Fraction)]
    fr = sorted(m for m in ms if isinstance(m, Fraction))
    keep = set()
    if fr:
        keep.update([fr[0], fr[-1]])
        pos = [q for q in fr if q > 0]; neg = [q for q in fr if q < 0]
        if pos: keep.update([pos[0], pos[-1]])
        if neg: keep.update([neg[0], neg[-1]])
        if len(pos) > 1: keep.add(pos[-2])
        if len(neg) > 1: keep.add(neg[1])
    rest = [q for q in fr if q not in keep]
    R.shuffle(rest)
    return sp + sorted(keep) + rest[: max(0, cap - len(sp) - len(keep))]

# ---------------------------------------------------------------------------
# grids

FLAGSETS = [tuple(bool(i >> k & 1) for k in range(4)) for i in range(16)]

def rf(s, e, c): return ('fin', s, e, c)

def bound_shapes(exp):
    """(pos, neg) pairs: symmetric / asymmetric / one-sided / unbounded / zero; on the 2^exp grid
    when exp is finite (plus one off-grid pair to reach the ValueError paths)"""
    e = 0 if exp is None else exp
    out = [
        (rf(False, e, 4), rf(True, e, 4)),            # symmetric
        (rf(False, e, 3), rf(True, e, 5)),            # asymmetric
        (rf(False, e + 1, 3), rf(True, e, 1)),        # asymmetric, other way, redundant encoding
        (rf(False, e, 6), rf(False, 0, 0)),           # non-negative
        (rf(False, 0, 0), rf(True, e, 2)),            # non-positive
        (rf(False, 0, 0), rf(True, 0, 0)),            # zero only (neg_bound = -0 as `-bound` gives)
        ('+oo', '-oo'),                               # unbounded
        ('+oo', rf(True, e, 2)),                      # half-bounded
        (rf(False, e, 7), '-oo'),
        (rf(False, e + 2, 1), rf(True, e + 2, 1)),    # a power of two
        (rf(False, e - 1, 5), rf(True, e - 1, 5)),    # off the grid when exp is finite
    ]
    return out

def finite_grid():
    g = []
    for prec in (1, 2, 3, None):
        for exp in (-2, 0, 1, None):
            for pos, neg in bound_shapes(exp):
                g.append((prec, exp, pos, neg))
    return g

ILL = [   # ill-formed bounds: correspondence only
    (2, 0, '-oo', '+oo'), (None, None, 'nan', '-oo'), (3, -1, rf(True, 0, 2), rf(False, 0, 3)),
    (2, 0, '+oo', '+oo'), (None, 0, rf(False, 0, 1), 'nan'),
]

CTX_DESCS = [
    dict(fam='real'),
    dict(fam='ieee', es=2, nbits=4, rm='rne', ov='overflow', k=0),
    dict(fam='ieee', es=3, nbits=6, rm='rne', ov='overflow', k=0),
    dict(fam='ieee', es=5, nbits=16, rm='rne', ov='overflow', k=0),
    dict(fam='ieee', es=8, nbits=32, rm='rne', ov='overflow', k=0),
    dict(fam='mp', p=1, rm='rne', k=0, en=True, ei=True),
    dict(fam='mp', p=2, rm='rne', k=0, en=True, ei=True),
    dict(fam='mp', p=3, rm='rtz', k=0, en=True, ei=False),
    dict(fam='mp', p=11, rm='rne', k=0, en=True, ei=True),
    dict(fam='mps', p=2, emin=-1, rm='rne', k=0, en=True, ei=True),
    dict(fam='mps', p=3, emin=0, rm='rna', k=0, en=False, ei=False),
    dict(fam='mpb', p=2, emin=-1, pos=(False, 0, 6), neg=(True, 0, 6), rm='rne', ov='overflow', k=0, en=True, ei=True),
    dict(fam='mpb', p=3, emin=0, pos=(False, 1, 7), neg=(True, 0, 5), rm='rne', ov='saturate', k=0, en=True, ei=False),
    dict(fam='mpb', p=5, emin=-4, pos=(False, 0, 31), neg=(True, 0, 31), rm='rne', ov='overflow', k=0, en=True, ei=True),
    dict(fam='mpb', p=3, emin=-4, pos=(False, 4, 7), neg=(True, 4, 7), rm='rne', ov='overflow', k=0, en=True, ei=True),
    dict(fam='mpfix', nmin=-1, rm='rne', k=0, nz=False, en=False, ei=False),
    dict(fam='mpfix', nmin=-3, rm='rne', k=0, nz=True, en=True, ei=True),
    dict(fam='mpbfix', nmin=-1, pos=(False, 0, 9), neg=(True, 0, 4), rm='rne', ov='saturate', k=0, nz=False, en=False, ei=False),
    dict(fam='mpbfix', nmin=-3, pos=(False, -2, 13), neg=(True, -2, 13), rm='rtz', ov='overflow', k=0, nz=True, en=True, ei=True),
    dict(fam='fixed', signed=True, scale=0, nbits=4, rm='rne', ov='saturate', k=0),
    dict(fam='fixed', signed=False, scale=-1, nbits=4, rm='rne', ov='saturate', k=0),
    dict(fam='fixed', signed=True, scale=0, nbits=8, rm='rne', ov='wrap', k=0),
    dict(fam='fixed', signed=False, scale=0, nbits=8, rm='rne', ov='wrap', k=0),
    dict(fam='smfixed', scale=-1, nbits=4, rm='rne', ov='saturate', k=0),
    dict(fam='ef', es=2, nbits=4, inf=False, kind='maxval', eoff=0, rm='rne', ov='saturate', k=0),
    dict(fam='ef', es=3, nbits=5, inf=True, kind='negzero', eoff=-1, rm='rne', ov='overflow', k=0),
    dict(fam='ef', es=2, nbits=5, inf=False, kind='none', eoff=1, rm='rne', ov='saturate', k=0),
]

def shape_of_format(fmt: Format):
    """driver tokens for the model's `FmtShape`: the class and the attributes `from_format` reads
    (mirrors its `match`, first case that applies)"""
    if isinstance(fmt, RealFormat): return 'real'
    t = lambda x: rf_tok((x.s, x.exp, x.c))
    if isinstance(fmt, FixedFormat) and not fmt.signed: return f'fixedu {fmt.expmin} {t(fmt.pos_maxval)}'
    if isinstance(fmt, MPBFixedFormat): return f'mpbfixed {fmt.expmin} {t(fmt.pos_maxval)} {t(fmt.neg_maxval)}'
    if isinstance(fmt, MPFixedFormat): return f'mpfixed {fmt.expmin}'
    if isinstance(fmt, ExpFormat): return f'exp {fmt.minval().exp} {t(fmt.maxval().as_real())}'
    if isinstance(fmt, EFloatFormat): return f'mpbfloat {fmt.pmax} {fmt.expmin} {t(fmt._mpb_fmt.pos_maxval)} {t(fmt._mpb_fmt.neg_maxval)}'
    if isinstance(fmt, MPBFloatFormat): return f'mpbfloat {fmt.pmax} {fmt.expmin} {t(fmt.pos_maxval)} {t(fmt.neg_maxval)}'
    if isinstance(fmt, MPSFloatFormat): return f'mpsfloat {fmt.pmax} {fmt.expmin}'
    if isinstance(fmt, MPFloatFormat): return f'mpfloat {fmt.pmax}'
    return None

def ctx_formats(rep):
    """[(ctx descriptor, ctx, Format, abstract descriptor)] for every context the real code can abstract"""
    out = []
    for cd in CTX_DESCS + [dict(fam='exp', nbits=4, eoff=0), dict(fam='exp', nbits=3, eoff=-2)]:
        try:
            ctx = fp.ExpContext(cd['nbits'], cd['eoff']) if cd['fam'] == 'exp' else ctx_obj(cd)
            fmt = ctx.format()
            d = af_desc(AbstractFormat.from_format(fmt))
        except Exception as e:   # noqa
            rep.count('ctx-not-abstractable:' + cd['fam']); continue
        out.append((cd, ctx, fmt, d))
    return out

# ---------------------------------------------------------------------------
# classification of Spec violations into shapes (F10 is the only listed candidate)

def f10_path(a, b) -> bool:
    """`a <= b` went through the skipped precision test: other.prec finite, other.exp = -inf,
    self.prec > other.prec"""
    return b[0] is not None and b[1] is None and (a[0] is None or a[0] > b[0])

def classify_le(a, b, v):
    if isinstance(v, Fraction) and f10_path(a, b) and not spec_writable(b[0], b[1], v):
        return 'F10', 'le-skips-precision-when-exp-unbounded'
    return None, 'le-other'

def classify_unop(op, a, v, r):
    if op == 'abs' and isinstance(r, Fraction): return None, 'abs-asymmetric-bounds'
    # F29 exactly: -(+0) = -0 from a format without a negative zero
    if op == 'neg' and r == ('z', True) and v == ('z', False) and not a[4][3]: return None, 'negzero-neg'
    return None, op + '-other'

def classify_binop(op, a, b, x, y, r, rd=None):
    # F29 exactly: a -0 product of operands neither of whose formats has a negative zero
    if op == 'mul' and r == ('z', True) and not a[4][3] and not b[4][3]: return None, 'negzero-mul'
    if op == 'mul' and rd is not None and 'nan' in (rd[2], rd[3]): return None, 'mul-zero-bound-times-inf'
    return None, op + '-other'

PER_SHAPE = 2

# shape of a violation -> id of a listed finding (known_findings.json).  F10, F28, F30-F33 are repaired in /repo
# (their shapes are reported untagged if they ever come back); F29 is open: `__neg__` copies `has_neg_zero` and
# `__mul__` takes the disjunction, although exactly -(+0) = -0 and (-2)*(+0) = -0.
FINDING_OF_SHAPE = {
    'negzero-neg': 'F29',
    'negzero-mul': 'F29',
    'prog-negative-zero-from-exact-neg-or-mul': 'F29',
    # _sum_bound: sum of a one-element list is given the scope's format, the run-time returns the element unrounded
    'prog-sum-of-one-element-is-not-rounded': 'C14-sum1',
    # _materialize_in_scope: a zero-bounded format with has_nan / has_inf is reported as the set {0[, -0]}
    'prog-zero-only-set-drops-specials': 'C14-zeroonly',
    # _free_var_format: a captured Python float -0.0 becomes Fraction(0)
    'prog-captured-python-negative-zero': 'C14-capnegzero',
    # round_is_identity: every abstract format contains +0, ExpFormat does not (ExpContext rounds 0 to NaN)
    'round-identity-target-has-no-zero': 'C14-expzero',
    # exact_select: `min(x, y)` takes y's pos_bound although y may be +inf (then the result is x); same for max / -inf
    'prog-select-bound-from-operand-that-may-be-inf': 'C14-select',
}

def viol(rep, shape, what, d):
    """record a Spec violation of the real code; at most PER_SHAPE replay records per shape, all counted"""
    rep.count('violation:' + shape)
    d = dict(d); d['finding'] = FINDING_OF_SHAPE.get(shape)
    if rep.hist['violation:' + shape] <= PER_SHAPE:
        rep.violation(what, d)

# ---------------------------------------------------------------------------

def stage_correspondence(rep, R, tier, grid, ctxfmts):
    """(a) real operators vs Lean model"""
    fin = finite_grid()
    pairs = list(itertools.product(range(len(fin)), repeat=2))
    R.shuffle(pairs)
    npairs = 2500 if tier == 'quick' else len(pairs)
    lines, meta = [], []
    def emit(line, got):
        lines.append(line); meta.append(got)
    def both(op, da, db):
        a, b = af_obj(da), af_obj(db)
        emit(f'absfmt {op} {af_tok(da)} {af_tok(db)}', real_binop(op, a, b))
    for (i, j) in pairs[:npairs]:
        da = fin[i] + (R.choice(FLAGSETS),); db = fin[j] + (R.choice(FLAGSETS),)
        for op in ('add', 'sub', 'mul', 'and', 'or', 'le'):
            both(op, da, db)
    # all 16 x 16 flag sets on a few base pairs
    bases = [R.choice(fin) for _ in range(2)] + [(3, 0, rf(False, 0, 4), rf(True, 0, 4))]
    for base in bases:
        other = R.choice(fin)
        for fa in FLAGSETS:
            for fb in FLAGSETS:
                for op in ('add', 'sub', 'mul', 'and', 'or', 'le'):
                    both(op, base + (fa,), other + (fb,))
    # unary, effective_prec, with_* helpers on every grid format
    for f in fin:
        d = f + (R.choice(FLAGSETS),)
        a = af_obj(d)
        for op in ('neg', 'abs', 'pos', 'effprec'):
            emit(f'absfmt {op} {af_tok(d)}', real_unop(op, a))
        dl = R.randint(-3, 3)
        for nm, fn, arg, argtok in (('wprec', lambda: a.with_prec_offset(dl), dl, str(dl)),
                                    ('wexp', lambda: a.with_exp_offset(dl), dl, str(dl)),
                                    ('wscale', lambda: a.with_bounds_scale(RealFloat(s=dl < 0, exp=dl, c=3 if dl else 0)), dl,
                                     rf_tok((dl < 0, dl, 3 if dl else 0)))):
            try: got = show_af(fn())
            except Exception as e: got = 'err ' + err_name(e)   # noqa
            emit(f'absfmt {nm} {af_tok(d)} {argtok}', got)
    # ill-formed bounds
    for f in ILL:
        for g in ILL + [fin[0], fin[17], fin[40]]:
            da = f + (R.choice(FLAGSETS),); db = g + (R.choice(FLAGSETS),)
            for op in ('add', 'sub', 'mul', 'and', 'or', 'le'):
                both(op, da, db); both(op, db, da)
    # formats of real contexts: from_format itself, then operators among them and with grid formats
    for (cd, ctx, fmt, d) in ctxfmts:
        sh = shape_of_format(fmt)
        if sh is not None:
            emit(f'absfmt from {sh} {" ".join(b01(x) for x in d[4])}', 'ok ' + af_tok(d))
            rep.count('from_format:' + type(fmt).__name__)
    cds = [d for (_, _, _, d) in ctxfmts]
    for da in cds:
        for db in cds + [fin[R.randrange(len(fin))] + (R.choice(FLAGSETS),) for _ in range(3)]:
            for op in ('add', 'sub', 'mul', 'and', 'or', 'le'):
                both(op, da, db)
            both('le', db, da)
        a = af_obj(da)
        for op in ('neg', 'abs', 'effprec'):
            emit(f'absfmt {op} {af_tok(da)}', real_unop(op, a))
    model = run_driver(lines)
    for line, got, mod in zip(lines, meta, model):
        rep.distinct.add(line)
        op = line.split()[1]
        rep.count('corr:' + op + ':' + got.split()[0])
        if got.startswith('unmodelled'):
            rep.count('corr:unmodelled-output'); continue
        if got != mod:
            rep.broke('correspondence', 'C14.absfmt.' + op, f'line={line} impl={got} model={mod}')
        rep.sample({'line': line, 'impl': got, 'model': mod})
    rep.cov['evaluations'] += len(lines)
    rep.cov['correspondence_lines'] = len(lines)


def stage_membership_tie(rep, R, tier, wf_formats):
    """the Lean Spec's executable membership (`AbsFmt.member`, proved equivalent to γ) agrees with the
    harness's Python reading of the docstring on every candidate value of the window"""
    lines, exp = [], []
    fs = list(wf_formats); R.shuffle(fs)
    vals = [('z', False), ('z', True), 'pinf', 'ninf', 'nan'] + _CAND
    for d in fs[: (40 if tier == 'quick' else 400)]:
        for v in (vals if tier != 'quick' else [R.choice(vals) for _ in range(60)] + vals[:5]):
            lines.append(f'member {af_tok(d)} {v_tok(v)}'); exp.append('ok ' + b01(spec_member(d, v)))
        # redundant encodings of the same value
        q = R.choice(_CAND); o, t = odd_part(q); j = R.randint(1, 4)
        lines.append(f'member {af_tok(d)} f{b01(q < 0)}:{t - j}:{o << j}'); exp.append('ok ' + b01(spec_member(d, q)))
    model = run_driver(lines)
    for line, e, m in zip(lines, exp, model):
        if e != m:
            rep.broke('correspondence', 'C14.member', f'line={line} python-spec={e} lean-spec={m}')
    rep.cov['evaluations'] += len(lines)
    rep.cov['membership_tie_lines'] = len(lines)


def stage_api_and_to_format(rep, R, tier, wf_formats, ctxfmts):
    """the rest of the class's surface: `format()` is a superset of the abstract format (every enumerated member is a
    value of the concrete format, read from its parameters), `>=` mirrors `<=`, equal formats hash equally, `str`
    works, and the argument guards raise what they say"""
    import c14prog
    n = 0
    for d in wf_formats:
        a = af_obj(d)
        try:
            F = a.format()
        except Exception as e:   # noqa
            rep.count('to_format:raises:' + err_name(e)); continue
        rep.count('to_format:' + type(F).__name__)
        for x in enum_members(d):
            n += 1
            ok = c14prog.bound_member(sys.modules[__name__], F, v_float(x), rep)
            if ok is False:
                viol(rep, 'to_format-misses-a-member', 'AbstractFormat.format() does not represent a member of the abstract format',
                     {'stage': 'abstract', 'op': 'format', 'a': af_tok(d), 'x': v_str(x), 'format': repr(F), 'shape': 'to_format-misses-a-member'})
                break
        b = af_obj(R.choice(wf_formats))
        if (a >= b) != (b <= a): rep.broke('harness', 'C14.ge', f'{a} >= {b} differs from the mirrored <=')
        if hash(a) != hash(af_obj(d)) or a != af_obj(d): rep.broke('harness', 'C14.hash', f'equal formats differ: {a}')
        str(a)
    a = af_obj(wf_formats[0])
    for what, fn, exc in (('add', lambda: a + 1, TypeError), ('sub', lambda: a - 1, TypeError), ('mul', lambda: a * 1, TypeError),
                          ('and', lambda: a & 1, TypeError), ('or', lambda: a | 1, TypeError), ('le', lambda: a <= 1, TypeError),
                          ('ge', lambda: a >= 1, TypeError), ('prec0', lambda: AbstractFormat(0, 0, RealFloat.from_int(1)), ValueError),
                          ('from_format', lambda: AbstractFormat.from_format(3), TypeError),
                          ('wprec', lambda: a.with_prec_offset(-100), ValueError)):
        try:
            fn(); got = None
        except Exception as e:   # noqa
            got = type(e)
        n += 1
        if got is not exc:
            rep.count(f'api-guard:{what}:{getattr(got, "__name__", got)}')
    rep.cov['evaluations'] += n
    rep.cov['to_format_member_checks'] = n

def stage_oracle(rep, R, tier, wf_formats, ctxfmts):
    """(b) Spec oracle on the REAL operators"""
    fs = list(wf_formats)
    cap = 14 if tier == 'quick' else 28
    nev = 0
    # --- unary: every format, every enumerated member
    for d in fs:
        a = af_obj(d)
        for op, vf in (('neg', v_neg), ('abs', v_abs)):
            try: rd = af_desc(UNOPS[op](a))
            except Exception: rep.count('oracle:' + op + ':raises'); continue   # noqa
            for x in enum_members(d):
                r = vf(x); nev += 1
                if not spec_member(rd, r):
                    fid, shape = classify_unop(op, d, x, r)
                    viol(rep, shape, f'{op}: result format misses the exact result',
                                  {'stage': 'abstract', 'op': op, 'a': af_tok(d), 'x': v_str(x), 'result': v_str(r),
                                   'result_format': af_tok(rd), 'shape': shape, 'finding': fid})
                    break
    # --- binary: sampled pairs of formats, sampled members
    pairs = [(R.choice(fs), R.choice(fs)) for _ in range(260 if tier == 'quick' else 4000)]
    for (da, db) in pairs:
        a, b = af_obj(da), af_obj(db)
        xs, ys = pick_members(R, da, cap), pick_members(R, db, cap)
        for op, vf in (('add', v_add), ('sub', v_sub), ('mul', v_mul)):
            try: rd = af_desc(BINOPS[op](a, b))
            except Exception: rep.count('oracle:' + op + ':raises'); continue   # noqa
            rep.count('oracle:' + op)
            bad = False
            for x in xs:
                for y in ys:
                    r = vf(x, y); nev += 1
                    if not spec_member(rd, r):
                        fid, shape = classify_binop(op, da, db, x, y, r, rd)
                        viol(rep, shape, f'{op}: result format misses the exact result',
                                      {'stage': 'abstract', 'op': op, 'a': af_tok(da), 'b': af_tok(db), 'x': v_str(x), 'y': v_str(y),
                                       'result': v_str(r), 'result_format': af_tok(rd), 'shape': shape, 'finding': fid})
                        bad = True; break
                if bad: break
        # union contains both; intersection contains the common members
        ud = af_desc(a | b); idd = af_desc(a & b)
        ma, mb = enum_members(da), enum_members(db)
        for x in ma + mb:
            nev += 1
            if not spec_member(ud, x):
                viol(rep, 'or', 'or: union misses a member of an operand',
                              {'stage': 'abstract', 'op': 'or', 'a': af_tok(da), 'b': af_tok(db), 'x': v_str(x), 'result_format': af_tok(ud),
                               'shape': 'or', 'finding': None}); break
        smb = set(mb)
        for x in ma:
            if x in smb:
                nev += 1
                if not spec_member(idd, x):
                    viol(rep, 'and', 'and: intersection misses a common member',
                                  {'stage': 'abstract', 'op': 'and', 'a': af_tok(da), 'b': af_tok(db), 'x': v_str(x), 'result_format': af_tok(idd),
                                   'shape': 'and', 'finding': None}); break
    # --- inclusion: every ordered pair of the pool (cheap), all enumerated members
    pool = fs if tier != 'quick' else R.sample(fs, min(len(fs), 150))
    pool = pool + [d for (_, _, _, d) in ctxfmts]
    nle = 0
    for da in pool:
        a = af_obj(da)
        for db in pool:
            if not (a <= af_obj(db)): continue
            nle += 1
            rep.count('oracle:le-true' + (':f10-path' if f10_path(da, db) else ''))
            for x in enum_members(da):
                nev += 1
                if not spec_member(db, x):
                    fid, shape = classify_le(da, db, x)
                    viol(rep, shape, 'le: a <= b is True but a member of a is not a member of b',
                                  {'stage': 'abstract', 'op': 'le', 'a': af_tok(da), 'b': af_tok(db), 'x': v_str(x), 'shape': shape, 'finding': fid,
                                   'repro': f'af_obj(af_of_tok({af_tok(da)!r})) <= af_obj(af_of_tok({af_tok(db)!r}))'})
                    break
    rep.cov['le_true_pairs'] = nle
    # --- from_format contains what the concrete format represents (window candidates)
    for (cd, ctx, fmt, d) in ctxfmts:
        for v in [('z', False), ('z', True), 'pinf', 'ninf', 'nan'] + _CAND:
            try: isrep = fmt.representable_in(v_float(v))
            except Exception: continue   # noqa
            nev += 1
            if isrep and not spec_member(d, v):
                viol(rep, 'from_format', 'from_format: abstract format misses a representable value',
                              {'stage': 'abstract', 'op': 'from_format', 'ctx': cd, 'x': v_str(v), 'a': af_tok(d), 'shape': 'from_format', 'finding': None})
                break
    # --- identity of rounding: claimed identity must change no member
    nid = 0
    for (cd, ctx, fmt, dctx) in ctxfmts:
        us = [d for (_, _, _, d) in ctxfmts] + (R.sample(fs, min(len(fs), 60 if tier == 'quick' else 600)))
        for du in us:
            try: claim = round_is_identity(af_obj(du), ctx)
            except Exception: rep.count('oracle:round_is_identity:raises'); continue   # noqa
            if not claim: continue
            nid += 1
            rep.count('oracle:identity-claimed' + (':f10-path' if f10_path(du, dctx) else ''))
            for x in enum_members(du):
                nev += 1
                try:
                    r = v_of_float(ctx.round(v_float(x)))
                except Exception as e:   # noqa
                    r = 'raises ' + err_name(e)
                if r != x:
                    f10 = isinstance(x, Fraction) and f10_path(du, dctx) and not spec_writable(dctx[0], dctx[1], x)
                    shape = 'round-identity-via-le-exp-unbounded' if f10 else 'round-identity-other'
                    if isinstance(x, tuple) and not x[1]:
                        try:
                            if not fmt.representable_in(Float(s=False, exp=0, c=0)): shape = 'round-identity-target-has-no-zero'
                        except Exception: pass   # noqa
                    viol(rep, shape, 'round_is_identity is True but rounding changes a member',
                                  {'stage': 'abstract', 'op': 'round_is_identity', 'unrounded': af_tok(du), 'ctx': cd, 'x': v_str(x),
                                   'rounded': v_str(r) if not isinstance(r, str) or r in ('nan', 'pinf', 'ninf') else r,
                                   'shape': shape, 'finding': 'F10' if f10 else None})
                    break
    rep.cov['identity_claims'] = nid
    rep.cov['evaluations'] += nev
    rep.cov['oracle_evaluations'] = nev


def run(rep, tier, seed):
    import c14cov
    c14cov.start(REPO)
    try:
        _run(rep, tier, seed)
    finally:
        c14cov.report(rep, REPO)

def _timed(rep, name, fn):
    t = time.time(); fn()
    rep.cov.setdefault('stage_seconds', {})[name] = round(time.time() - t, 1)

def _run(rep, tier, seed):
    R = Prng(seed, 'C14')
    ctxfmts = ctx_formats(rep)
    fin = finite_grid()
    # well-formed formats for the oracle: finite grid x flag sets (all 16 in thorough; 3 per format in quick)
    wf = []
    for f in fin:
        fls = FLAGSETS if tier != 'quick' else [R.choice(FLAGSETS) for _ in range(2)] + [FLAGSETS[15 if R.random() < 0.5 else 0]]
        for fl in fls:
            d = f + (fl,)
            if spec_wf(d): wf.append(d)
    wf = list(dict.fromkeys(wf))
    for d in wf: rep.count(f"fmt:prec={d[0]}:exp={d[1]}")
    _timed(rep, 'stage_correspondence', lambda: stage_correspondence(rep, R, tier, fin, ctxfmts))
    _timed(rep, 'stage_membership_tie', lambda: stage_membership_tie(rep, R, tier, wf))
    _timed(rep, 'stage_oracle', lambda: stage_oracle(rep, R, tier, wf, ctxfmts))
    _timed(rep, 'stage_api_and_to_format', lambda: stage_api_and_to_format(rep, R, tier, wf, ctxfmts))
    try:
        import c14prog
        _timed(rep, 'stage_programs', lambda: c14prog.stage_programs(rep, R, tier, sys.modules[__name__]))
        import c14refine
        _timed(rep, 'stage_refinement', lambda: c14refine.stage_refinement(rep, R, tier, sys.modules[__name__]))
        import c14ops
        _timed(rep, 'stage_ops', lambda: c14ops.stage_ops(rep, R, tier, sys.modules[__name__]))
    except ImportError:
        rep.notes.append('program-level stage (c14prog.py) not present')
    rep.cov['rule'] = (
        'abstract formats: grid prec in {1,2,3,inf} x exp in {-2,0,1,-inf} x 11 bound shapes (symmetric, asymmetric, one-sided, zero, '
        'unbounded, half-bounded, power of two, off-grid) x 16 special-flag sets, + ill-formed bounds (correspondence only), + '
        'from_format(ctx.format()) of 27 small contexts of every abstractable family; (a) real operators add/sub/mul/and/or/le/neg/abs/'
        'effective_prec/with_* vs the Lean model on sampled (thorough: all) pairs, canonical raw output; (b) members enumerated exactly '
        f'(multiples of 2^{ELO} up to magnitude {MAG}, both zeros, specials) with a Python reading of the docstring; real outputs must contain '
        'exact results; a<=b => inclusion on all enumerated members; round_is_identity => ctx.round changes no member; '
        'Lean executable membership (proved equal to the Spec: member_iff_gamma) cross-checked against the Python reading; '
        '(c) program stage: see program_rule; (c2) branch refinement stage: see refine_rule; (c3) one template per transfer function, arguments at both extremes of asymmetric formats: see ops_rule; (d) format() superset, >=, hash, argument guards; coverage of the analysed code by the check: analysis_code_coverage*; at most 2 replay records per violation shape (all counted in distribution), '
        'for a program run only the first missed value in execution order is reported; '
        'distinct = distinct driver lines + distinct (program, site, value) observations')
    rep.assumptions += [
        'membership is judged by harness/c14.py (spec_member), written from the AbstractFormat docstring with exact Fractions; '
        'the Lean Spec γ is tied to it through the driver op `member`',
        'members are enumerated inside a window (|x| <= 16, granularity 2^-4); formats with exp = -inf have finer members that are not enumerated',
        'exact results follow IEEE-754 rules for signed zeros / infinities / NaN as `Float.__add__/__mul__/__neg__/__abs__` compute them (model: FV.add/mul/neg/abs)',
        'theorems assume the convention stated in the code (pos_bound >= 0 >= neg_bound; unbounded sides are +inf / -inf) — predicate WF',
    ]


def replay(rep, data):
    """re-evaluate recorded abstract-level violations on the current tree"""
    n = 0
    for v in data.get('violations', []):
        if v.get('stage') != 'abstract' or 'a' not in v: continue
        da = af_of_tok(v['a']); a = af_obj(da)
        op = v['op']
        if op == 'le':
            db = af_of_tok(v['b'])
            print(op, v['a'], v['b'], '->', a <= af_obj(db), 'member x of b:', v['x'])
        elif op in UNOPS:
            print(op, v['a'], '->', show_af(UNOPS[op](a)), 'x =', v['x'], 'result =', v['result'])
        elif op in BINOPS:
            db = af_of_tok(v['b'])
            print(op, v['a'], v['b'], '->', real_binop(op, a, af_obj(db)), 'x =', v['x'], 'y =', v.get('y'), 'result =', v.get('result'))
        n += 1
    print(f'replayed {n} abstract-level records')
    return 0
