"""Generators for number-layer contexts and operands (one PRNG stream)."""
from __future__ import annotations
from fractions import Fraction
import math
from numcanon import *  # noqa
from numspec import fmt_of, floor_log2, efloat_finite_set

def valid_efloat(es, nbits, inf, kind):
    if nbits < 1 or es < 0 or es >= nbits: return False
    p = nbits - es
    if kind == 'ieee':
        if es == 0: return False
        if inf and p == 1: return False
    elif kind == 'maxval':
        if es == 0:
            if p == 1 or (inf and p == 2): return False
        elif es == 1 and inf and p == 1: return False
    else:
        if es == 0 and p == 1 and inf: return False
    return True

def all_efloat_formats(max_nbits, eoffs=(0,)):
    out = []
    for nbits in range(1, max_nbits + 1):
        for es in range(0, nbits):
            for inf in (False, True):
                for kind in ('ieee', 'maxval', 'negzero', 'none'):
                    if valid_efloat(es, nbits, inf, kind):
                        for eo in eoffs:
                            out.append(dict(fam='ef', es=es, nbits=nbits, inf=inf, kind=kind, eoff=eo))
    return out

def rand_rf(R, maxbits=6, elo=-6, ehi=6, s=None):
    c = R.getrandbits(R.randint(1, maxbits))
    return (R.random() < 0.5 if s is None else s, R.randint(elo, ehi), c)

def rand_ctx(R, fams=None, stochastic=False):
    """random small context descriptor (deterministic rounding unless stochastic)"""
    fams = fams or ['mp', 'mps', 'mpb', 'ef', 'ieee', 'mpfix', 'mpbfix', 'fixed', 'smfixed', 'exp']
    f = R.choice(fams)
    rm = R.choice(RMS)
    k = 0
    d = dict(fam=f, rm=rm, k=k)
    def opts(float_family):
        en = R.random() < (0.7 if float_family else 0.3)
        ei = R.random() < (0.7 if float_family else 0.3)
        d.update(en=en, ei=ei, nv=None, iv=None)
    if f == 'mp':
        d.update(p=R.randint(1, 6)); opts(True)
    elif f == 'mps':
        d.update(p=R.randint(1, 6), emin=R.randint(-6, 3)); opts(True)
    elif f == 'mpb':
        p = R.randint(1, 5); emin = R.randint(-5, 2)
        # a representable positive maxval: c with <= p bits, exp >= expmin
        expmin = emin - p + 1
        c = R.randint(1, (1 << p) - 1); e = R.randint(expmin, expmin + 6)
        pos = (False, e, c)
        if R.random() < 0.6: neg = (True, e, c)
        else: neg = (True, R.randint(expmin, expmin + 6), R.randint(1, (1 << p) - 1))
        d.update(p=p, emin=emin, pos=pos, neg=neg, ov=R.choice(['overflow', 'saturate', 'assert'])); opts(True)
    elif f == 'ef':
        while True:
            nbits = R.randint(1, 8); es = R.randint(0, nbits - 1)
            inf = R.random() < 0.5; kind = R.choice(['ieee', 'maxval', 'negzero', 'none'])
            if valid_efloat(es, nbits, inf, kind): break
        d.update(es=es, nbits=nbits, inf=inf, kind=kind, eoff=R.randint(-3, 3), ov=R.choice(['overflow', 'saturate', 'assert']), nv=None, iv=None)
    elif f == 'ieee':
        nbits = R.randint(3, 9); es = R.randint(1, nbits - 2)
        d.update(es=es, nbits=nbits, ov=R.choice(['overflow', 'saturate', 'assert']))
    elif f == 'mpfix':
        d.update(nmin=R.randint(-5, 3), nz=R.random() < 0.5); opts(False)
    elif f == 'mpbfix':
        nmin = R.randint(-4, 2)
        pos = (False, nmin + 1 + R.randint(0, 2), R.randint(0, 31))
        neg = (True, nmin + 1 + R.randint(0, 2), R.randint(0, 31)) if R.random() < 0.7 else (True, pos[1], pos[2])
        d.update(nmin=nmin, pos=pos, neg=neg, ov=R.choice(['overflow', 'saturate', 'wrap', 'assert']), nz=R.random() < 0.5); opts(False)
    elif f == 'fixed':
        signed = R.random() < 0.6
        d.update(signed=signed, scale=R.randint(-4, 3), nbits=R.randint(2 if signed else 1, 6), ov=R.choice(['overflow', 'saturate', 'wrap', 'assert']), nv=None, iv=None)
    elif f == 'smfixed':
        d.update(scale=R.randint(-4, 3), nbits=R.randint(2, 6), ov=R.choice(['overflow', 'saturate', 'wrap', 'assert']), nv=None, iv=None)
    elif f == 'exp':
        d.update(nbits=R.randint(1, 5), eoff=R.randint(-3, 3), ov=R.choice(['overflow', 'saturate']), iv=None)
        del d['k']
    return d

def add_substitutes(R, d):
    """sometimes give a context nan_value / inf_value substitutes (validity decided by the real constructor)"""
    cands = [None, ('fin', False, 0, 0), ('fin', False, 0, 1), ('fin', True, 1, 1), ('inf', False), ('nan', False), ('fin', False, -1, 3)]
    if 'nv' in d and R.random() < 0.35: d['nv'] = R.choice(cands)
    if 'iv' in d and R.random() < 0.35: d['iv'] = R.choice(cands)
    return d

def breakpoints(R, d, count=12):
    """operand VALUES (Fraction) concentrated on breakpoints of the format: representable points,
    midpoints, quarter points, just-off points, seam subnormal/normal, around maxval, beyond"""
    fmt = fmt_of(d)
    pts = set()
    def around(v: Fraction, u: int):
        g = Fraction(2) ** u
        tiny = g / (1 << R.randint(8, 40))
        for t in (0, Fraction(1, 4), Fraction(1, 2), Fraction(3, 4), 1):
            pts.add(v + t * g)
        pts.add(v + g / 2 + tiny); pts.add(v + g / 2 - tiny); pts.add(v + tiny); pts.add(v + g - tiny)
        pts.add(v + g / 2 + g / 3 / (1 << R.randint(1, 30)))   # non-dyadic
        for fr in (Fraction(1, 3), Fraction(2, 5), Fraction(5, 7), Fraction(1, 10)):   # non-dyadic positions inside the gap
            if R.random() < 0.5: pts.add(v + fr * g)
    for _ in range(count):
        # a random positive magnitude on the format's grid
        if fmt.p is not None:
            e = R.randint(-8, 8)
            if fmt.nmin is not None and R.random() < 0.5:
                e = fmt.nmin + fmt.p + R.randint(-fmt.p - 1, 3)   # near the subnormal seam
            if fmt.pos is not None and fmt.pos > 0 and R.random() < 0.4:
                e = floor_log2(fmt.pos) + R.randint(-1, 1)
            u = e - fmt.p + 1
            if fmt.nmin is not None: u = max(u, fmt.nmin + 1)
            top = max(e - u + 1, 0)
            c = R.getrandbits(top) | (1 << (top - 1)) if top > 0 else 0
            if R.random() < 0.3 and top > 0: c = (1 << top) - 1   # just below a binade boundary -> carry
            v = Fraction(c) * Fraction(2) ** u
        else:
            u = (fmt.nmin + 1) if fmt.nmin is not None else R.randint(-5, 5)
            c = R.choice([0, 1, 1, 2, 3, R.randint(0, 40)])
            if fmt.pos is not None and R.random() < 0.5:
                c = int(fmt.pos / Fraction(2) ** u) + R.randint(-2, 2)
                c = max(c, 0)
            v = Fraction(c) * Fraction(2) ** u
        around(v, u)
    if getattr(fmt, 'exp_min', None) is not None:
        for m in (fmt.exp_min, fmt.exp_min / 2, fmt.exp_min * 2):
            around(m, floor_log2(m)); around(m / 2, floor_log2(m) - 1)
    if fmt.pos is not None:
        for m in (fmt.pos, -fmt.neg if fmt.neg is not None else fmt.pos):
            if m > 0:
                u = fmt.ulp_exp(m)
                around(m, u); around(m - Fraction(2) ** u, u)
                pts.add(m * 2); pts.add(m * 1000)
    out = []
    for v in pts:
        if v < 0: continue
        out.append(v); out.append(-v)
    return out

def encodings(R, x: Fraction, sign: bool):
    """operand descriptors denoting the same real x in different types / redundant encodings"""
    out = []
    den = x.denominator
    dyadic = den & (den - 1) == 0
    if dyadic:
        e = -(den.bit_length() - 1)
        c = abs(x.numerator)
        s = sign if x == 0 else x < 0
        out.append(('R', (s, e, c)))
        sh = R.randint(1, 5)
        out.append(('F', ('fin', s, e - sh, c << sh)))        # redundant encoding
        if c and c % 2 == 0:
            t = (c & -c).bit_length() - 1
            out.append(('R', (s, e + t, c >> t)))
        if den == 1 and not (x == 0 and sign):
            out.append(('I', int(x)))
        try:
            f = float(x)
            if Fraction(f) == x and not math.isinf(f):
                if x == 0: f = -0.0 if sign else 0.0
                out.append(('D', f))
        except OverflowError:
            pass
        if not (x == 0 and sign):
            out.append(('Q', x))
    else:
        out.append(('Q', x))
    return out

SPECIALS = [('F', ('nan', False)), ('F', ('nan', True)), ('F', ('inf', False)), ('F', ('inf', True)),
            ('F', ('fin', False, 0, 0)), ('F', ('fin', True, 0, 0)), ('F', ('fin', True, -7, 0)), ('R', (True, 3, 0)),
            ('D', float('nan')), ('D', float('inf')), ('D', float('-inf')), ('D', -0.0), ('I', 0), ('Q', Fraction(0))]
