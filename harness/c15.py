"""C15 — an accepted program never reads an unbound name or falls off its end.

Skeleton programs (assignments, tuple patterns, if/else, one-armed if, for, while, with-as,
comprehensions, returns) are enumerated exhaustively by size (canonical up to renaming) and drawn at
random, rendered as real FPy source, and
  (a) given to the real `@fpy` front end and to the Lean model of it (`check real`): the decisions
      (accept / which error / which name) must coincide                      -> correspondence;
  (b) every accepted program is RUN on the real interpreter on inputs steering every combination of
      branch outcomes and trip counts {0,1,2}: an unbound-variable failure or falling off the end is
      a property violation on the real code (Spec oracle, independent of the model); the outcome is
      also compared with the model's `run` (pre-pass + execution) on the oracle the inputs induce;
  (c) the same source is executed by CPython itself (every program, rejected ones included) and
      compared with the model's `exec`: the binding semantics the theorems are stated over.
The ENVIRONMENT the decorator sees is varied systematically: every program is also rendered with its
locals named like builtins (max, min, abs, sum, range, round, pow, int, float, list, id, all), like
module-level globals of the generated module (numbers; a Python function, an @fpy function, the modules
`math` and `fp`), like closure variables of an enclosing def, like the function's own name and like
its parameter.  A name bound anywhere at function level is a local (Python's rule, taken from CPython's
own symbol table), whatever else of that name is resolvable; the others are free variables and bound
on entry.  So "defined on some paths only / in a loop that may run zero times / only as a
comprehension target" is crossed with "…and something of that name exists outside".
Any violation is a new defect (`finding: None`).  History: F6 (loop target accepted after its loop)
and F21 (name lent by the sibling of a returning branch unknown to the interpreter's definition/use
pre-pass) were found by this check and repaired; the model's `legacy` mode / `prepass_legacy` keep the
old rules, and the run counts how many of today's rejected programs the old front end accepted.
"""
from __future__ import annotations
import importlib.util, itertools, os, shutil, sys, tempfile, time
from common import *   # noqa

PROP = 'C15'
FUEL = 400

# ---------------------------------------------------------------------------
# abstract skeleton (what the generators produce)
#   pattern: ('n', name) | ('_',) | ('t', (pattern, ...))
#   aexpr  : (uses: tuple[name], comp: None | (pattern, iter_uses: tuple[name], body: aexpr))
#   stmt   : ('A', pattern, aexpr) | ('I', aexpr, blk, blk) | ('J', aexpr, blk) | ('W', aexpr, blk)
#          | ('F', pattern, iter_uses, blk) | ('X', aexpr, as|None, blk) | ('R', aexpr) | ('E', aexpr) | ('P',)

def pat_names(p):
    if p[0] == 'n': return [p[1]]
    if p[0] == '_': return []
    out = []
    for q in p[1]: out += pat_names(q)
    return out

def pat_src(p, top=True):
    if p[0] == 'n': return p[1]
    if p[0] == '_': return '_'
    return '(' + ', '.join(pat_src(q, False) for q in p[1]) + ')'

def pat_val(p):
    if p[0] in ('n', '_'): return 1.0
    return tuple(pat_val(q) for q in p[1])

# ---------------------------------------------------------------------------
# surface expressions (what is rendered); `sx_model` gives the model expression in visit order
#   ('lit',) ('var', n) ('len', [sx]) ('bin', op, a, b) ('gt0', sx) ('tuple', [sx]) ('slice0', xs, [sx])
#   ('ifexp', c, a, b) ('attr', base, attr) ('comp', pattern, iter_sx, body_sx, site)

def sx_src(e):
    t = e[0]
    if t == 'lit': return '1'
    if t == 'var': return e[1]
    if t == 'len': return 'len([' + ', '.join(sx_src(x) for x in e[1]) + '])'
    if t == 'bin': return f'({sx_src(e[2])} {e[1]} {sx_src(e[3])})'
    if t == 'gt0': return f'{sx_src(e[1])} > 0'
    if t == 'tuple': return '(' + ', '.join(sx_src(x) for x in e[1]) + (',)' if len(e[1]) == 1 else ')')
    if t == 'slice0': return f'{e[1]}[len([' + ', '.join(sx_src(x) for x in e[2]) + f']) - {len(e[2])}:]'
    if t == 'ifexp': return f'({sx_src(e[2])} if {sx_src(e[1])} else {sx_src(e[3])})'
    if t == 'attr': return f'{e[1]}.{e[2]}'
    if t == 'comp': return f'[{sx_src(e[3])} for {pat_src(e[1], False)} in {sx_src(e[2])}]'
    raise ValueError(e)

def m_fold(xs):
    if not xs: return ('L',)
    out = xs[-1]
    for x in reversed(xs[:-1]): out = ('O', x, out)
    return out

def sx_model(e):
    t = e[0]
    if t == 'lit': return ('L',)
    if t == 'var': return ('V', e[1])
    if t in ('len', 'tuple'): return m_fold([sx_model(x) for x in e[1]])
    if t == 'bin': return ('O', sx_model(e[2]), sx_model(e[3]))
    if t == 'gt0': return ('O', sx_model(e[1]), ('L',))
    if t == 'slice0': return ('O', ('V', e[1]), m_fold([sx_model(x) for x in e[2]]))
    if t == 'ifexp': return ('O', sx_model(e[1]), ('O', sx_model(e[2]), sx_model(e[3])))
    if t == 'attr': return ('V', e[1])
    if t == 'comp': return ('C', pat_names(e[1]), sx_model(e[2]), sx_model(e[3]))
    raise ValueError(e)

def sx_choices(e, inp, out):
    """oracle entries consumed while evaluating e (comprehension trip counts, in evaluation order)"""
    t = e[0]
    if t in ('lit', 'var', 'attr'): return
    if t in ('len', 'tuple'):
        for x in e[1]: sx_choices(x, inp, out)
    elif t == 'bin': sx_choices(e[2], inp, out); sx_choices(e[3], inp, out)
    elif t == 'gt0': sx_choices(e[1], inp, out)
    elif t == 'slice0':
        for x in e[2]: sx_choices(x, inp, out)
    elif t == 'ifexp':
        sx_choices(e[1], inp, out); sx_choices(e[2], inp, out); sx_choices(e[3], inp, out)
    elif t == 'comp':
        sx_choices(e[2], inp, out)
        n = inp[e[4]]
        out.append(n)
        for _ in range(n): sx_choices(e[3], inp, out)

# ---------------------------------------------------------------------------
# instrumentation: abstract skeleton -> concrete program with steering arguments

NUMERIC = ('a',)

class Build:
    """turns an abstract body into (surface body, sites); sites: list of (kind, argname, pattern|None)"""
    def __init__(self, R, a_numeric=True, nobare=()):
        self.R = R; self.sites = []
        self.nobare = set(nobare)   # free variables (functions, modules, ...): only ever mentioned inside len([...])
        self.NUMERIC = NUMERIC if a_numeric else ()
    def site(self, kind, pat=None):
        pre = {'if': 'k', 'while': 'w', 'for': 'xs', 'comp': 'ys'}[kind]
        name = f'{pre}{sum(1 for s in self.sites if s[0] == kind)}'
        self.sites.append((kind, name, pat))
        return name
    def parts(self, ae, numeric=()):
        uses, comp = ae
        ps = [('var', u) for u in uses]
        if comp is not None:
            ps.append(self.comp(comp, numeric))
        return ps
    def comp(self, comp, numeric=()):
        pat, iuses, body = comp
        xs = self.site('comp', pat)
        it = ('var', xs) if not iuses else ('slice0', xs, [('var', u) for u in iuses])
        inner_numeric = tuple(numeric) + tuple(pat_names(pat))
        return ('comp', pat, it, self.num(body, inner_numeric, allow_any=False), xs)
    def num(self, ae, numeric=(), allow_any=True):
        """an expression mentioning exactly the uses of `ae` (in order); value: a number, unless
        `allow_any` (assignment source, return value: any FPy value will do)"""
        R = self.R
        ps = self.parts(ae, numeric)
        if not ps: return ('lit',)
        if len(ps) == 1:
            p = ps[0]
            if p[0] == 'comp' and allow_any: return p
            if p[0] == 'var' and p[1] not in self.nobare and (allow_any or p[1] in numeric or p[1] in self.NUMERIC) and R.random() < 0.6:
                return p
            return ('len', ps)
        # several parts
        if all(p[0] == 'var' and (p[1] in numeric or p[1] in self.NUMERIC) for p in ps) and R.random() < 0.5:
            out = ps[0]
            for p in ps[1:]: out = ('bin', R.choice('+-*'), out, p)
            return out
        if R.random() < 0.3 and len(ps) >= 2:
            k = R.randint(1, len(ps) - 1)
            return ('bin', R.choice('+*'), ('len', ps[:k]), ('len', ps[k:]))
        return ('len', ps)
    def cond(self, ae, arg):
        ps = self.parts(ae)
        if not ps: return ('gt0', ('var', arg))
        return ('gt0', ('bin', '*', ('var', arg), ('len', ps)))
    def rhs(self, pat, ae):
        if pat[0] != 't': return self.num(ae)
        first = [True]
        def go(p):
            if p[0] == 't': return ('tuple', [go(q) for q in p[1]])
            if first[0]:
                first[0] = False
                return self.num(ae, allow_any=False)
            return ('lit',)
        return go(pat)
    def block(self, blk):
        return [self.stmt(s) for s in blk]
    def stmt(self, s):
        k = s[0]
        if k == 'A': return ('A', s[1], self.rhs(s[1], s[2]))
        if k == 'I':
            a = self.site('if'); c = self.cond(s[1], a)
            return ('I', c, self.block(s[2]), self.block(s[3]), a)
        if k == 'J':
            a = self.site('if'); c = self.cond(s[1], a)
            return ('J', c, self.block(s[2]), a)
        if k == 'W':
            a = self.site('while'); c = self.cond(s[1], a)
            dec = ('A', ('n', a), ('bin', '-', ('var', a), ('lit',)))
            return ('W', c, [dec] + self.block(s[2]), a)
        if k == 'F':
            xs = self.site('for', s[1])
            it = ('var', xs) if not s[2] else ('slice0', xs, [('var', u) for u in s[2]])
            return ('F', s[1], it, self.block(s[3]), xs)
        if k == 'X':
            ps = self.parts(s[1])
            e = ('attr', 'fq', 'FP64') if not ps else ('ifexp', ('gt0', ('len', ps)), ('attr', 'fq', 'FP64'), ('attr', 'fq', 'FP32'))
            return ('X', e, s[2], self.block(s[3]))
        if k == 'R': return ('R', self.num(s[1]))
        if k == 'E':
            e = self.num(s[1])
            return ('E', e if e[0] != 'var' else ('len', [e]))
        if k == 'P': return ('P',)
        raise ValueError(s)

def stmt_src(s, ind, out):
    k = s[0]; pad = '    ' * ind
    def body(b):
        for t in b: stmt_src(t, ind + 1, out)
    if k == 'A': out.append(f'{pad}{pat_src(s[1])} = {sx_src(s[2])}')
    elif k == 'I':
        out.append(f'{pad}if {sx_src(s[1])}:'); body(s[2]); out.append(f'{pad}else:'); body(s[3])
    elif k == 'J': out.append(f'{pad}if {sx_src(s[1])}:'); body(s[2])
    elif k == 'W': out.append(f'{pad}while {sx_src(s[1])}:'); body(s[2])
    elif k == 'F': out.append(f'{pad}for {pat_src(s[1])} in {sx_src(s[2])}:'); body(s[3])
    elif k == 'X':
        out.append(f'{pad}with {sx_src(s[1])}' + (f' as {s[2]}' if s[2] else '') + ':'); body(s[3])
    elif k == 'R': out.append(f'{pad}return {sx_src(s[1])}')
    elif k == 'E': out.append(f'{pad}{sx_src(s[1])}')
    elif k == 'P': out.append(f'{pad}pass')

def stmt_model(s):
    k = s[0]
    if k == 'A': return ('A', pat_names(s[1]), sx_model(s[2]))
    if k == 'I': return ('I', sx_model(s[1]), [stmt_model(t) for t in s[2]], [stmt_model(t) for t in s[3]])
    if k in ('J', 'W'): return (k, sx_model(s[1]), [stmt_model(t) for t in s[2]])
    if k == 'F': return ('F', pat_names(s[1]), sx_model(s[2]), [stmt_model(t) for t in s[3]])
    if k == 'X': return ('X', sx_model(s[1]), s[2], [stmt_model(t) for t in s[3]])
    if k in ('R', 'E'): return (k, sx_model(s[1]))
    return ('P',)

class Namer:
    """names -> naturals for the driver (fixed scheme, so encodings are canonical)"""
    BASE = {'fq': 0, 'a': 1}
    PRE = [('xs', 300), ('ys', 400), ('k', 100), ('w', 200), ('v', 10), ('t', 50)]
    @classmethod
    def num(cls, n):
        if n in cls.BASE: return cls.BASE[n]
        for pre, base in cls.PRE:
            if n.startswith(pre) and n[len(pre):].isdigit(): return base + int(n[len(pre):])
        raise ValueError(n)
    @classmethod
    def name(cls, i):
        for n, v in cls.BASE.items():
            if v == i: return n
        for pre, base in sorted(cls.PRE, key=lambda x: -x[1]):
            if i >= base: return f'{pre}{i - base}'
        raise ValueError(i)

def tok_expr(e, out):
    t = e[0]
    if t == 'L': out.append('L')
    elif t == 'V': out += ['V', str(Namer.num(e[1]))]
    elif t == 'O': out.append('O'); tok_expr(e[1], out); tok_expr(e[2], out)
    elif t == 'C':
        out += ['C', str(len(e[1]))] + [str(Namer.num(n)) for n in e[1]]
        tok_expr(e[2], out); tok_expr(e[3], out)

def tok_block(b, out):
    out += ['B', str(len(b))]
    for s in b: tok_stmt(s, out)

def tok_stmt(s, out):
    k = s[0]
    if k == 'A':
        out += ['A', str(len(s[1]))] + [str(Namer.num(n)) for n in s[1]]; tok_expr(s[2], out)
    elif k == 'I': out.append('I'); tok_expr(s[1], out); tok_block(s[2], out); tok_block(s[3], out)
    elif k in ('J', 'W'): out.append(k); tok_expr(s[1], out); tok_block(s[2], out)
    elif k == 'F':
        out += ['F', str(len(s[1]))] + [str(Namer.num(n)) for n in s[1]]; tok_expr(s[2], out); tok_block(s[3], out)
    elif k == 'X':
        out.append('X'); tok_expr(s[1], out); out.append('-' if s[2] is None else str(Namer.num(s[2]))); tok_block(s[3], out)
    elif k in ('R', 'E'): out.append(k); tok_expr(s[1], out)
    else: out.append('P')

class Returned(Exception): pass

def simulate(body, inp):
    """the oracle (list of naturals, in the order the model's `exec` consumes them) that the
    inputs `inp` (argument name -> steering value) induce; control flow only, no name tracking"""
    out = []
    w = {k: v for k, v in inp.items() if k.startswith('w')}
    steps = [0]
    def blk(b):
        for s in b: st(s)
    def st(s):
        steps[0] += 1
        k = s[0]
        if k in ('A', 'E'): sx_choices(s[-1] if k == 'E' else s[2], inp, out)
        elif k == 'R': sx_choices(s[1], inp, out); raise Returned()
        elif k == 'I':
            sx_choices(s[1], inp, out); t = inp[s[4]] > 0; out.append(1 if t else 0); blk(s[2] if t else s[3])
        elif k == 'J':
            sx_choices(s[1], inp, out); t = inp[s[3]] > 0; out.append(1 if t else 0)
            if t: blk(s[2])
        elif k == 'W':
            while True:
                sx_choices(s[1], inp, out)
                if w[s[3]] > 0:
                    out.append(1); w[s[3]] -= 1; blk(s[2][1:])   # s[2][0] is the decrement
                else:
                    out.append(0); break
        elif k == 'F':
            sx_choices(s[2], inp, out); n = inp[s[4]]; out.append(n)
            for _ in range(n): blk(s[3])
        elif k == 'X': sx_choices(s[1], inp, out); blk(s[3])
    try:
        blk(body)
    except Returned:
        pass
    return out

# ---------------------------------------------------------------------------
# the environment the decorator sees: what the program's LOCAL names collide with

import builtins as _builtins
BUILTIN_NAMES = ['max', 'min', 'abs', 'sum', 'range', 'round', 'pow', 'int', 'float', 'list', 'id', 'all']
GNUM_NAMES = ['scale', 'acc', 'total', 'eps']
GOBJ_NAMES = ['helper', 'gfun', 'math', 'fp']
CLOSURE_NAMES = ['cv0', 'cv1', 'cv2', 'cv3']
PRELUDE = (
    'import fpy2 as fq\n'
    'import fpy2 as fp\n'
    'import math\n'
    'scale = 2.0\nacc = 0.0\ntotal = 1.5\neps = 0.25\n'
    'def helper(x):\n    return x\n'
    '@fq.fpy\n'
    'def gfun(x):\n    return x\n\n')
MODULE_GLOBALS = {'fq', 'fp', 'math', 'helper', 'gfun'} | set(GNUM_NAMES)
SCHEMES = ['plain', 'builtin', 'gnum', 'gobj', 'closure', 'self', 'mixed']

def make_scheme(R, kind, fname):
    """-> (rename: pool variable -> identifier, closure: bool).  The identifier is what the program's
    local is CALLED; whether it is a local or a free variable is decided by the program (a name bound
    anywhere at function level is a local, Python's rule)."""
    V = [f'v{i}' for i in range(4)]
    if kind == 'plain': return {}, False
    if kind == 'builtin': return dict(zip(V, R.sample(BUILTIN_NAMES, 4))), False
    if kind == 'gnum': return dict(zip(V, R.sample(GNUM_NAMES, 4))), False
    if kind == 'gobj': return dict(zip(V, R.sample(GOBJ_NAMES, 4))), False
    if kind == 'closure': return dict(zip(V, CLOSURE_NAMES)), True
    if kind == 'self':
        rest = R.sample(BUILTIN_NAMES + GNUM_NAMES, 2)
        order = [fname, 'a'] if R.random() < 0.5 else ['a', fname]
        return dict(zip(V, order + rest)), False
    # mixed: every variable draws independently
    menu = BUILTIN_NAMES + GNUM_NAMES + GOBJ_NAMES + CLOSURE_NAMES + [fname, 'a']
    out = {}
    for v in V:
        if R.random() < 0.25: continue
        c = R.choice([m for m in menu if m not in out.values()])
        out[v] = c
    return out, any(c in CLOSURE_NAMES for c in out.values())

def subst_abs(blk, v, new):
    """rename pool variable v to `new` throughout an abstract block (used for collisions with a parameter)"""
    def nm(u): return new if u == v else u
    def pat(p):
        if p[0] == 'n': return ('n', nm(p[1]))
        if p[0] == '_': return p
        return ('t', tuple(pat(q) for q in p[1]))
    def ex(ae):
        uses, comp = ae
        c = None if comp is None else (pat(comp[0]), tuple(nm(u) for u in comp[1]), ex(comp[2]))
        return (tuple(nm(u) for u in uses), c)
    out = []
    for s in blk:
        k = s[0]
        if k == 'A': out.append(('A', pat(s[1]), ex(s[2])))
        elif k == 'I': out.append(('I', ex(s[1]), subst_abs(s[2], v, new), subst_abs(s[3], v, new)))
        elif k in ('J', 'W'): out.append((k, ex(s[1]), subst_abs(s[2], v, new)))
        elif k == 'F': out.append(('F', pat(s[1]), tuple(nm(u) for u in s[2]), subst_abs(s[3], v, new)))
        elif k == 'X': out.append(('X', ex(s[1]), None if s[2] is None else nm(s[2]), subst_abs(s[3], v, new)))
        elif k in ('R', 'E'): out.append((k, ex(s[1])))
        else: out.append(s)
    return out

def names_of(blk, local, used):
    """function-level binding names (assignment / for / with-as targets: Python makes them locals) and
    every name mentioned (comprehension targets are not function-level)"""
    def ex(ae):
        used.update(ae[0])
        if ae[1] is not None:
            used.update(ae[1][1]); used.update(pat_names(ae[1][0])); ex(ae[1][2])
    for s in blk:
        k = s[0]
        if k == 'A': local.update(pat_names(s[1])); ex(s[2])
        elif k == 'I': ex(s[1]); names_of(s[2], local, used); names_of(s[3], local, used)
        elif k in ('J', 'W'): ex(s[1]); names_of(s[2], local, used)
        elif k == 'F': local.update(pat_names(s[1])); used.update(s[2]); names_of(s[3], local, used)
        elif k == 'X':
            ex(s[1])
            if s[2]: local.add(s[2])
            names_of(s[3], local, used)
        elif k in ('R', 'E'): ex(s[1])
    used.update(local)

class Prog:
    __slots__ = ('abs', 'body', 'sites', 'args', 'src', 'toks', 'fname', 'origin', 'real', 'fn', 'py',
                 'scheme', 'rename', 'unrename', 'free', 'collisions')
    def __init__(self, abs_body, R, idx, origin, scheme='plain'):
        import re
        self.fname = f'p{idx}'
        self.scheme = scheme
        rename, closure = make_scheme(R, scheme, self.fname)
        # a local named like the parameter IS the parameter
        for v, ident in list(rename.items()):
            if ident == 'a':
                abs_body = subst_abs(abs_body, v, 'a'); del rename[v]
        local, used = set(), set()
        names_of(abs_body, local, used)
        rename = {v: c for v, c in rename.items() if v in used}
        closure = closure and any(c in CLOSURE_NAMES for c in rename.values())
        resolvable = MODULE_GLOBALS | set(dir(_builtins)) | {self.fname} | (set(CLOSURE_NAMES) if closure else set())
        self.free = []   # set below, once the source text exists
        self.collisions = sorted(c for v, c in rename.items() if v in local) + (['a'] if 'a' in local else [])
        self.rename = rename
        self.unrename = {c: v for v, c in rename.items()}
        # free variables = what CPython itself compiles as a global / closure reference in this function
        # (its symbol table is the ground truth for "local or not": a name bound anywhere at function
        # level is a local; 3.12's inlined comprehensions have corner cases of their own) and that the
        # defining environment resolves.  Rendering does not change which names are mentioned where, so a
        # provisional rendering (no free variables protected) is compiled first.
        def code_names(text):
            def find(co):
                if co.co_name == self.fname: return co
                for c in co.co_consts:
                    if hasattr(c, 'co_code'):
                        r = find(c)
                        if r is not None: return r
                return None
            co = find(compile(text, '<c15>', 'exec'))
            return set(co.co_names) | set(co.co_freevars)
        def render(body, args):
            lines = [f'def {self.fname}({", ".join(args)}):']
            for st in body: stmt_src(st, 1, lines)
            text = '\n'.join(lines) + '\n'
            if rename:
                text = re.sub(r'\bv\d+\b', lambda m: rename.get(m.group(0), m.group(0)), text)
            if closure:
                inner = ''.join('    ' + l + '\n' for l in text.splitlines())
                text = (f'def _mk_{self.fname}():\n' + ''.join(f'    {c} = {i + 2}.5\n' for i, c in enumerate(CLOSURE_NAMES))
                        + inner + f'    return {self.fname}\n{self.fname} = _mk_{self.fname}()\n')
            return text
        cand = sorted(v for v in used if v.startswith('v') and v not in local and rename.get(v, v) in resolvable)
        if cand:
            st0 = R.getstate()
            b0 = Build(R, a_numeric=('a' not in local), nobare=cand)
            glob = code_names(render(b0.block(abs_body), ['a'] + [x[1] for x in b0.sites]))
            R.setstate(st0)
            self.free = [v for v in cand if rename.get(v, v) in glob]
        b = Build(R, a_numeric=('a' not in local), nobare=cand)
        self.abs = abs_body
        self.body = b.block(abs_body)
        self.sites = b.sites
        self.args = ['a'] + [s[1] for s in b.sites]
        text = render(self.body, self.args)
        self.src = text
        margs = [Namer.num(a) for a in self.args] + [Namer.num(v) for v in self.free]
        out = [str(len(margs) + 1), '0'] + [str(x) for x in margs]
        tok_block([stmt_model(s) for s in self.body], out)
        self.toks = ' '.join(out)
        self.origin = origin
        self.real = None; self.fn = None; self.py = None
    def num(self, ident):
        """identifier in the rendered source -> model name"""
        return Namer.num(self.unrename.get(ident, ident))
    def show(self, i):
        n = Namer.name(int(i))
        return self.rename.get(n, n)
    def inputs(self, R, cap):
        """steering inputs: every combination of branch outcomes and trip counts {0,1,2} (sampled above `cap`)"""
        doms = []
        for kind, name, pat in self.sites:
            doms.append([1.0, -1.0] if kind == 'if' else [0, 1, 2])
        total = 1
        for d in doms: total *= len(d)
        if total <= cap:
            combos = list(itertools.product(*doms))
        else:
            combos = {tuple(d[0] for d in doms), tuple(d[-1] for d in doms),
                      tuple((d[0] if len(d) == 2 else 0) for d in doms), tuple((d[1] if len(d) == 2 else 0) for d in doms)}
            while len(combos) < cap:
                combos.add(tuple(R.choice(d) for d in doms))
            combos = sorted(combos)
        return [dict(zip([s[1] for s in self.sites], c)) for c in combos], total
    def call_args(self, inp):
        out = [3.0]
        for kind, name, pat in self.sites:
            v = inp[name]
            if kind == 'if': out.append(v)
            elif kind == 'while': out.append(float(v))
            else: out.append([pat_val(pat)] * v)
        return out

# ---------------------------------------------------------------------------
# generators

def E(*uses): return (tuple(uses), None)
def C(pat, iuses, body): return ((), (pat, tuple(iuses), body))
def N(x): return ('n', x)
def T(*ps): return ('t', tuple(ps))

def first_occurrences(blk, seen):
    """pool names (v*) in order of first textual occurrence"""
    def ex(ae):
        for u in ae[0]: nm(u)
        if ae[1] is not None:
            pat, iu, body = ae[1]
            for u in iu: nm(u)
            for u in pat_names(pat): nm(u)
            ex(body)
    def nm(u):
        if u.startswith('v') and u not in seen: seen.append(u)
    for s in blk:
        k = s[0]
        if k == 'A': ex(s[2]); [nm(u) for u in pat_names(s[1])]
        elif k == 'I': ex(s[1]); first_occurrences(s[2], seen); first_occurrences(s[3], seen)
        elif k in ('J', 'W'): ex(s[1]); first_occurrences(s[2], seen)
        elif k == 'F': [nm(u) for u in s[2]]; [nm(u) for u in pat_names(s[1])]; first_occurrences(s[3], seen)
        elif k == 'X':
            ex(s[1])
            if s[2]: nm(s[2])
            first_occurrences(s[3], seen)
        elif k in ('R', 'E'): ex(s[1])
    return seen

def canonical(blk):
    seen = first_occurrences(blk, [])
    return seen == [f'v{i}' for i in range(len(seen))]

def enum_programs(max_size, pool, rich):
    """every abstract program with at most `max_size` statements over the menus below"""
    V = [f'v{i}' for i in range(pool)]
    uses0 = [E()] + [E(v) for v in V]
    exprs = [E(), E('a')] + [E(v) for v in V]
    comps = [C(N(V[0]), (), E(V[0]))]
    if pool > 1:
        comps += [C(N(V[0]), (), E(V[1])), C(N(V[0]), (V[1],), E(V[0]))]
    rexprs = exprs + comps
    pats = [N(v) for v in V] + ([T(N(V[0]), N(V[1]))] if pool > 1 else [])
    fpats = pats + [('_',)]
    conds = uses0 if rich else [E(), E(V[0])]
    iters = [()] + ([(V[-1],)] if rich else [])
    asn = [None] + V
    simple = [('A', p, e) for p in pats for e in rexprs] + [('R', e) for e in rexprs] + [('P',)]
    from functools import lru_cache
    @lru_cache(None)
    def blocks(n):
        """all blocks with exactly n statements (n >= 1)"""
        out = []
        for first in range(1, n + 1):
            for s in stmts(first):
                if first == n: out.append((s,))
                else:
                    for rest in blocks(n - first): out.append((s,) + rest)
        return out
    @lru_cache(None)
    def stmts(n):
        """all statements of total size n"""
        if n == 1: return list(simple)
        out = []
        inner = n - 1
        for b in blocks(inner):
            for c in conds:
                out.append(('J', c, b)); out.append(('W', c, b))
            for p in fpats:
                for it in iters: out.append(('F', p, it, b))
            for a in asn: out.append(('X', E(), a, b))
        for i in range(1, inner):
            for b1 in blocks(i):
                for b2 in blocks(inner - i):
                    for c in conds: out.append(('I', c, b1, b2))
        return out
    for n in range(1, max_size + 1):
        for b in blocks(n):
            if canonical(b): yield list(b)

def terminates(b):
    """no path through the block reaches its end (used to pick programs, not to judge them)"""
    for s in b:
        k = s[0]
        if k == 'R': return True
        if k == 'I' and terminates(s[2]) and terminates(s[3]): return True
        if k == 'X' and terminates(s[3]): return True
    return False

def lend_family(max_size):
    """`if c: <block that always returns> else: v0 = a` (and mirrored), then `return v0`: the front end's
    terminated paths and the interpreter's fall-through test must agree on EVERY shape of returning block"""
    for t in enum_programs(max_size, 1, False):
        if not terminates(t): continue
        t1 = subst_abs(list(t), 'v0', 'v1')
        yield [('I', E(), t1, [('A', N('v0'), E('a'))]), ('R', E('v0'))]
        yield [('I', E(), [('A', N('v0'), E('a'))], t1), ('R', E('v0'))]

def rand_program(R, pool=4):
    """a random larger program, biased towards acceptance (names mostly used after they were
    defined on the path at hand) so that many of them reach the run stage"""
    V = [f'v{i}' for i in range(pool)]
    budget = [R.randint(3, 9)]
    def pick_use(defd):
        if R.random() < 0.93: return R.choice(sorted(defd) + ['a'])
        return R.choice(V)
    def aexpr(defd, allow_comp=True):
        n = R.choice([0, 1, 1, 1, 2])
        uses = tuple(pick_use(defd) for _ in range(n))
        comp = None
        if allow_comp and R.random() < 0.2:
            pat = pattern(R.random() < 0.3)
            iu = tuple(pick_use(defd) for _ in range(R.choice([0, 0, 1])))
            inner = set(defd) | set(pat_names(pat))
            comp = (pat, iu, aexpr(inner, allow_comp=R.random() < 0.3))
        return (uses, comp)
    def pattern(tup):
        if not tup:
            return N(R.choice(V)) if R.random() < 0.9 else ('_',)
        k = R.randint(2, 3)
        elts = []
        for _ in range(k):
            r = R.random()
            if r < 0.7: elts.append(N(R.choice(V)))
            elif r < 0.85: elts.append(('_',))
            else: elts.append(T(N(R.choice(V)), R.choice([N(R.choice(V)), ('_',)])))
        return T(*elts)
    def block(defd, depth, must_return):
        """returns (block, defined-after or None if it always returns)"""
        out = []
        n = R.randint(1, 3)
        for i in range(n):
            if budget[0] <= 0 and out: break
            budget[0] -= 1
            r = R.random()
            if depth >= 3 or r < 0.38:
                pat = pattern(R.random() < 0.2)
                out.append(('A', pat, aexpr(defd))); defd = defd | set(pat_names(pat))
            elif r < 0.48:
                b1, d1 = block(defd, depth + 1, False); b2, d2 = block(defd, depth + 1, False)
                out.append(('I', aexpr(defd, False), b1, b2))
                if d1 is None and d2 is None: return out, None
                defd = d2 if d1 is None else d1 if d2 is None else (d1 & d2)
            elif r < 0.58:
                b1, d1 = block(defd, depth + 1, False)
                out.append(('J', aexpr(defd, False), b1))
                if R.random() < 0.15 and d1: defd = defd | d1       # deliberately leak sometimes
            elif r < 0.66:
                b1, d1 = block(defd, depth + 1, False)
                out.append(('W', aexpr(defd, False), b1))
            elif r < 0.80:
                pat = pattern(R.random() < 0.3)
                iu = tuple(pick_use(defd) for _ in range(R.choice([0, 0, 1])))
                b1, d1 = block(defd | set(pat_names(pat)), depth + 1, False)
                out.append(('F', pat, iu, b1))
                if R.random() < 0.25: defd = defd | set(pat_names(pat))   # the shape of F6
            elif r < 0.88:
                a = R.choice([None] + V)
                inner = defd | ({a} if a else set())
                b1, d1 = block(inner, depth + 1, False)
                out.append(('X', aexpr(defd, False), a, b1))
                if d1 is None: return out, None
                defd = d1
            elif r < 0.93:
                out.append(('E', aexpr(defd) if R.random() < 0.8 else E(pick_use(defd))))
            elif r < 0.95:
                out.append(('P',))
            else:
                out.append(('R', aexpr(defd)))
                if R.random() < 0.9: return out, None
        if must_return:
            if R.random() < 0.93:
                out.append(('R', aexpr(defd))); return out, None
        return out, defd
    b, _ = block(set(), 0, True)
    return b

CORPUS = [
    # F6 and relatives
    [('F', N('v0'), (), [('P',)]), ('R', E('v0'))],
    [('F', T(N('v0'), N('v1')), (), [('P',)]), ('R', E('v1'))],
    [('F', N('v0'), (), [('A', N('v0'), E('a'))]), ('R', E('v0'))],
    [('A', N('v0'), E('a')), ('F', N('v0'), (), [('P',)]), ('R', E('v0'))],
    [('F', N('v0'), (), [('A', N('v1'), E('v0'))]), ('R', E('v1'))],
    [('F', N('v0'), (), [('R', E('v0'))]), ('R', E('a'))],
    # a returning branch lends its sibling's names
    [('I', E(), [('R', E('a'))], [('A', N('v0'), E())]), ('R', E('v0'))],
    [('I', E(), [('A', N('v0'), E())], [('R', E('a'))]), ('R', E('v0'))],
    [('J', E(), [('R', E('a'))]), ('R', E('a'))],
    [('I', E(), [('R', E('a'))], [('R', E())])],
    [('I', E(), [('R', E('a'))], [('R', E())]), ('A', N('v0'), E('v0')), ('R', E())],
    # leaks that must be rejected
    [('J', E(), [('A', N('v0'), E())]), ('R', E('v0'))],
    [('W', E(), [('A', N('v0'), E())]), ('R', E('v0'))],
    [('W', E('v0'), [('A', N('v0'), E())]), ('R', E())],
    [('A', N('v1'), C(N('v0'), (), E('v0'))), ('R', E('v0'))],
    [('X', E(), 'v0', [('A', N('v1'), E('v0'))]), ('R', E('v0', 'v1'))],
    [('I', E(), [('A', N('v0'), E())], [('A', N('v0'), E('a'))]), ('R', E('v0'))],
    [('R', E('a')), ('P',)],
    [('A', N('v0'), E())],
]

# ---------------------------------------------------------------------------
# real code

def real_decision(fp, fn_py, num=Namer.num):
    from fpy2.analysis.syntax_check import FPySyntaxError
    from fpy2.analysis.reachability import ReachabilityError
    import re
    try:
        f = fp.fpy(fn_py)
        return 'accept', f
    except FPySyntaxError as e:
        msg = str(e)
        m = re.match(r'unbound variable `(\w+)`', msg)
        if m: return f'reject unbound {num(m.group(1))}', None
        m = re.match(r'variable `(\w+)` not defined along all paths', msg)
        if m: return f'reject notallpaths {num(m.group(1))}', None
        return 'other FPySyntaxError ' + msg[:80], None
    except ReachabilityError as e:
        msg = str(e)
        if 'unreachable statements' in msg: return 'reject unreachable', None
        if 'not all paths have a return' in msg: return 'reject fallthrough', None
        return 'other ReachabilityError ' + msg[:80], None
    except Exception as e:   # noqa
        return f'other {type(e).__name__} {str(e)[:80]}', None

def real_run(f, args, num=Namer.num):
    """-> outcome in the model's vocabulary ('returned' | 'felloff' | 'unbound <n>') or 'other …',
    and where the failure came from"""
    from fpy2.ast import NamedId
    try:
        r = f(*args)
        if r is None: return 'felloff', 'value'
        return 'returned', ''
    except NameError as e:      # includes UnboundLocalError
        import re
        n = getattr(e, 'name', None)
        if n is None:
            m = re.search(r"'(\w+)'", str(e)); n = m.group(1) if m else '?'
        return f'unbound {num(n)}', type(e).__name__
    except KeyError as e:
        if e.args and isinstance(e.args[0], NamedId):
            return f'unbound {num(str(e.args[0]))}', 'KeyError(define_use)'
        if e.args and isinstance(e.args[0], str) and e.args[0].isidentifier():
            # the byte-code compiler looking a free variable up in the defining environment
            try:
                return f'unbound {num(e.args[0])}', 'KeyError(environment lookup)'
            except ValueError:
                pass
        return f'other KeyError {e}', ''
    except TypeError as e:
        if 'not an FPy value: None' in str(e): return 'felloff', 'from_value(None)'
        return f'other TypeError {str(e)[:80]}', ''
    except Exception as e:   # noqa
        return f'other {type(e).__name__} {str(e)[:80]}', ''

class _Shim:
    """stands in for `fp` when the rendered source is run as plain Python (no FPy involved)"""
    import contextlib as _c
    FP64 = _c.nullcontext(64.0)
    FP32 = _c.nullcontext(32.0)
    fpy = staticmethod(lambda f: f)

def plain_run(pyf, args, num=Namer.num):
    """the rendered source executed by CPython itself: the reference for the model's `exec`
    (binding semantics of the compiled body, without the interpreter's pre-pass)"""
    import re
    try:
        r = pyf(*args)
        return 'felloff' if r is None else 'returned'
    except NameError as e:
        n = getattr(e, 'name', None)
        if n is None:
            m = re.search(r"'(\w+)'", str(e)); n = m.group(1) if m else '?'
        return f'unbound {num(n)}'
    except Exception as e:   # noqa
        return f'other {type(e).__name__} {str(e)[:80]}'

def stmt_kinds(blk, rep):
    for s in blk:
        k = s[0]
        rep.count('stmt:' + {'A': 'assign', 'I': 'if-else', 'J': 'if1', 'W': 'while', 'F': 'for', 'X': 'with',
                             'R': 'return', 'E': 'effect', 'P': 'pass'}[k])
        if k == 'A' and s[1][0] == 't': rep.count('stmt:assign-tuple-pattern')
        if k == 'F' and s[1][0] == 't': rep.count('stmt:for-tuple-pattern')
        if k == 'X' and s[2]: rep.count('stmt:with-as')
        ae = s[2] if k == 'A' else s[1] if k in 'IJWXRE' else None
        while ae is not None and ae[1] is not None:
            rep.count('expr:comprehension'); ae = ae[1][2]
        if k == 'I': stmt_kinds(s[2], rep); stmt_kinds(s[3], rep)
        elif k in ('J', 'W'): stmt_kinds(s[2], rep)
        elif k in ('F', 'X'): stmt_kinds(s[3], rep)

def load_module(path, name):
    spec = importlib.util.spec_from_file_location(name, path)
    mod = importlib.util.module_from_spec(spec)
    sys.modules[name] = mod
    spec.loader.exec_module(mod)
    return mod

def run(rep, tier, seed):
    import fpy2 as fp
    R = Prng(seed, 'C15')
    quick = tier != 'thorough'
    t0 = time.time()
    progs: list[Prog] = []
    collide = [k for k in SCHEMES if k != 'plain']
    # 1. corpus (under every environment), 2. exhaustive by size, 3. random larger programs
    for b in CORPUS:
        for k in SCHEMES: progs.append(Prog(b, R, len(progs), 'corpus', k))
    levels = [(2, 2, True)] if quick else [(2, 3, True), (3, 2, True)]
    ex_count = {}
    seen_abs = set()
    for (size, pool, rich) in levels:
        n0 = len(progs)
        for b in enum_programs(size, pool, rich):
            key = repr(b)
            if key in seen_abs: continue
            seen_abs.add(key)
            progs.append(Prog(b, R, len(progs), f'exhaustive<={size}'))
            # the same program with its locals named like things the decorator can see: the smallest
            # level under EVERY environment, larger ones under one drawn at random
            has_var = 'v0' in key
            if has_var:
                for k in (collide if size <= 2 else [R.choice(collide)] if R.random() < 0.35 else []):
                    progs.append(Prog(b, R, len(progs), f'exhaustive<={size}', k))
        ex_count[f'size<={size},names={pool},{"rich" if rich else "reduced"}-menu'] = len(seen_abs)
        ex_count[f'size<={size}: renderings incl. environments'] = len(progs) - n0
    # returning blocks of every shape opposite a branch that defines a name used afterwards
    n0 = len(progs)
    fam2 = list(lend_family(2))
    fam3 = [b for b in lend_family(3) if repr(b) not in {repr(x) for x in fam2}]
    for b in fam2 + (R.sample(fam3, 500) if quick else fam3):
        progs.append(Prog(b, R, len(progs), 'returning-branch-family', 'plain' if R.random() < 0.6 else R.choice(collide)))
    ex_count['returning-branch family (blocks <=2 all' + (', <=3 sample of 500)' if quick else ', <=3 all)')] = len(progs) - n0
    if quick:
        # a seeded sample of the size-3 level as well
        lvl3 = [b for b in enum_programs(3, 2, True) if repr(b) not in seen_abs]
        for b in R.sample(lvl3, min(800, len(lvl3))):
            progs.append(Prog(b, R, len(progs), 'sample-of-size-3', R.choice(SCHEMES)))
    nrand = 2000 if quick else 20000
    for _ in range(nrand):
        progs.append(Prog(rand_program(R), R, len(progs), 'random', 'plain' if R.random() < 0.4 else R.choice(collide)))
    rep.count('origin:corpus', len(CORPUS) * len(SCHEMES))
    t_gen = time.time() - t0

    tmp = tempfile.mkdtemp(prefix='c15_', dir='/var/tmp')
    try:
        # (a) front end vs model
        CH = 500
        for ci in range(0, len(progs), CH):
            chunk = progs[ci:ci + CH]
            name = f'c15mod_{seed}_{ci}'
            path = os.path.join(tmp, name + '.py')
            body = '\n'.join(p.src for p in chunk)
            with open(path, 'w') as fh:
                fh.write(PRELUDE + body)
            mod = load_module(path, name)
            ns = {'_Shim': _Shim}
            plain = PRELUDE.replace('import fpy2 as fq', 'fq = _Shim').replace('import fpy2 as fp', 'fp = _Shim')
            exec(compile(plain + body, f'<{name}:plain>', 'exec'), ns)   # noqa: S102
            for p in chunk:
                p.real, p.fn = real_decision(fp, getattr(mod, p.fname), p.num)
                p.py = ns[p.fname]
        t_front = time.time() - t0 - t_gen
        lines = []
        for p in progs:
            lines += [f'check real {p.toks}', f'check legacy {p.toks}', f'prepass {p.toks}', f'prepass_legacy {p.toks}']
        model = run_driver(lines)
        rep.cov['evaluations'] = len(progs)
        accepted = []
        for i, p in enumerate(progs):
            m_real, m_legacy, m_pre, m_pre_legacy = model[4 * i: 4 * i + 4]
            rep.distinct.add(p.toks)
            rep.count('origin:' + p.origin.split('<')[0]) if p.origin != 'corpus' else None
            stmt_kinds(p.abs, rep)
            rep.count('frontend:' + ' '.join(p.real.split()[:2]))
            rep.count(f'environment:{p.scheme}')
            if p.collisions: rep.count(f'frontend[a local collides with the environment]:' + ' '.join(p.real.split()[:2]))
            if p.free: rep.count(f'frontend[has free variables]:' + p.real.split()[0])
            for c in p.collisions:
                rep.count('local named like:' + ('builtin' if c in BUILTIN_NAMES else 'module number' if c in GNUM_NAMES else
                          'module function/module' if c in GOBJ_NAMES else 'closure variable' if c in CLOSURE_NAMES else
                          'parameter' if c == 'a' else 'own function name'))
            rep.count(f'frontend[{p.origin.split("<")[0]}]:' + p.real.split()[0])
            if p.real != m_real:
                rep.broke('correspondence', 'C15.check', f'real={p.real} model={m_real}\n{p.src}\ncheck real {p.toks}')
            if p.real == 'accept':
                accepted.append(p)
                rep.count('accepted:prepass-' + m_pre.split()[0] + ',old-prepass-' + m_pre_legacy.split()[0])
            elif m_legacy == 'accept':
                rep.count('rejected-today,accepted-before-F6-repair')
            if i % 97 == 0: rep.sample({'program': p.src, 'frontend': p.real, 'model': m_real})
        # (b) run every accepted program on every steering input (real interpreter = Spec oracle;
        #     model `run` on the induced oracle = correspondence)
        cap = 36 if quick else 81
        run_lines, run_meta = [], []
        seen_viol = {}
        for p in accepted:
            inputs, total = p.inputs(R, cap)
            rep.count('inputs:exhaustive' if total <= cap else 'inputs:sampled')
            for inp in inputs:
                args = p.call_args(inp)
                got, how = real_run(p.fn, args, p.num)
                rep.count('run:' + got.split()[0] + (f'[{how}]' if how else ''))
                ch = simulate(p.body, inp)
                chs = f'{len(ch)} ' + ' '.join(map(str, ch))
                run_lines.append(f'run 0 {FUEL} {p.toks} {chs}')
                run_meta.append(('C15.run', p, inp, got))
                run_lines.append(f'exec 0 {FUEL} {p.toks} {chs}')
                pl = plain_run(p.py, args, p.num)
                run_meta.append(('C15.exec', p, inp, pl))
                rep.count('accepted,plain-python-binding-semantics:' + pl.split()[0])
                if got.startswith('other'):
                    rep.broke('harness', 'C15.render', f'unexpected failure of the rendered program: {got}\n{p.src}\nargs={args}')
                elif got != 'returned':
                    rep.count('violation-runs')
                    key = (p.fname, got)
                    if key in seen_viol:
                        seen_viol[key]['failing_inputs'] += 1
                        continue
                    what = ('accepted program fails with an unbound variable' if got.startswith('unbound')
                            else 'accepted program falls off its end')
                    rep.count('violation-programs')
                    rep.violation(f'{what} ({got.split()[0]} `{p.show(got.split()[1]) if " " in got else ""}` via {how})',
                                  {'program': PRELUDE + p.src, 'fname': p.fname, 'environment': p.scheme, 'args': args, 'steering': inp, 'outcome': got, 'raised': how,
                                   'failing_inputs': 1, 'inputs_tried': len(inputs), 'finding': None})
                    seen_viol[key] = rep.violations[-1]
        # (c) binding semantics of the model (`exec`, no pre-pass) against CPython running the same source,
        #     on rejected programs too (that is where genuinely unbound reads and fall-through live)
        acc_set = {id(t) for t in accepted}
        for p in progs:
            if id(p) in acc_set: continue
            inputs, total = p.inputs(R, 4 if quick else 6)
            for inp in inputs:
                ch = simulate(p.body, inp)
                run_lines.append(f'exec 0 {FUEL} {p.toks} {len(ch)} ' + ' '.join(map(str, ch)))
                run_meta.append(('C15.exec', p, inp, plain_run(p.py, p.call_args(inp), p.num)))
        model_runs = run_driver(run_lines) if run_lines else []
        rep.cov['evaluations'] += len(run_lines)
        for (name, p, inp, got), mr, line in zip(run_meta, model_runs, run_lines):
            if name == 'C15.exec': rep.count('plain-python:' + got.split()[0])
            if got.startswith('other'):
                if name == 'C15.exec':
                    rep.broke('harness', 'C15.render', f'plain Python run of the rendered program failed: {got}\n{p.src}\nsteering={inp}')
                continue
            if got != mr:
                rep.broke('correspondence', name, f'real={got} model={mr} steering={inp}\n{p.src}\n{line}')
        rep.cov['programs'] = len(progs)
        rep.cov['accepted_programs'] = len(accepted)
        rep.cov['runs_of_accepted_programs'] = sum(1 for m in run_meta if m[0] == 'C15.run')
        rep.cov['plain_python_runs'] = sum(1 for m in run_meta if m[0] == 'C15.exec')
        rep.cov['exhaustive_levels'] = ex_count
        rep.cov['timing_s'] = {'generate': round(t_gen, 1), 'front_end': round(t_front, 1), 'total': round(time.time() - t0, 1)}
        rep.cov['rule'] = (
            'environments: each corpus program and each program of the smallest exhaustive level is rendered under 7 naming '
            'environments (plain; locals named like builtins / module numbers / module functions+modules / closure variables of an '
            'enclosing def / own function name + parameter / mixed), larger levels and random programs under one drawn at random; '
            'free variables (used, not bound at function level per CPython\'s symbol table, resolvable) are bound on entry in the model. '
            'returning-branch family: `if c: <every block of <=2 (sample of <=3) statements that always returns> else: v = a` and mirrored, then `return v`. '
            'programs: fixed corpus + EVERY program (canonical up to renaming of its variables) with at most N statements over '
            'assignments (name and tuple patterns), return, pass, if/else, one-armed if, while, for (name, tuple, `_` targets), '
            'with [as], comprehensions, with uses drawn from {none, the real argument, each variable} (levels in `exhaustive`) '
            '+ seeded random programs of 3-10 statements, depth <= 3, 4 variables, nested tuple patterns, nested comprehensions, '
            'biased towards acceptance. Each is rendered as FPy source (conditions are comparisons on one real argument per `if`, '
            '`for`/comprehensions iterate over one list argument each, `while` counts one argument down) and given to the real '
            'front end and to the model (decision, error kind and name must agree). Each accepted program is run on the real '
            'interpreter on every combination of branch outcomes and trip counts {0,1,2} (sampled above the cap, extremes kept); '
            'outcome compared with the model `run` (pre-pass + execution) on the induced oracle. Independently the same source is '
            'executed by CPython itself (all programs, rejected ones included) and compared with the model `exec` (binding semantics '
            'without the pre-pass). distinct = distinct program encodings.')
        rep.assumptions += [
            'Spec oracle: NameError/UnboundLocalError from the compiled body, KeyError(NamedId) from the interpreter\'s definition-use pre-pass, '
            'or a None result (from_value(None)) when calling the accepted Function count as the forbidden failures',
            'the model binds a function\'s free variables on entry; which names are free is read off CPython\'s compilation of the same source '
            '(co_names/co_freevars) intersected with what the generated module, the enclosing def and builtins define',
            'an `if` takes the same branch each time it is reached within one run (one steering argument per site); the Lean theorem quantifies over all oracles',
        ]
    finally:
        shutil.rmtree(tmp, ignore_errors=True)
        for k in [k for k in sys.modules if k.startswith(f'c15mod_{seed}_')]:
            del sys.modules[k]

def replay(rep, data):
    """re-run the stored violations: prints the outcome of each stored (program, args)"""
    import fpy2 as fp
    tmp = tempfile.mkdtemp(prefix='c15r_', dir='/var/tmp')
    rc = 0
    try:
        for i, v in enumerate(data.get('violations', [])):
            path = os.path.join(tmp, f'c15replay_{i}.py')
            with open(path, 'w') as fh: fh.write(v['program'])
            mod = load_module(path, f'c15replay_{i}')
            fname = v['fname']
            dec, f = real_decision(fp, getattr(mod, fname), str)
            if f is None:
                print(f'[{i}] front end now says: {dec}'); continue
            def tup(e): return tuple(tup(x) for x in e) if isinstance(e, (list, tuple)) else e
            args = [[tup(e) for e in a] if isinstance(a, list) else a for a in v['args']]
            got, how = real_run(f, args, str)
            print(f'[{i}] {got} {how}   (recorded: {v.get("what")})')
            if got != 'returned': rc = 1
    finally:
        shutil.rmtree(tmp, ignore_errors=True)
    return rc
