"""C08 — loop and iterator restructuring preserves results."""
from __future__ import annotations
import itertools
from xform import *   # noqa
import xgen

PROP = 'C08'
EXTRA_PROPS = ['C08Int']   # Fpy/Props/C08Int.lean is built and audited together with Props/C08

CORE = ['unroll_for(times=1)', 'unroll_for(times=2)', 'split(2)', 'split(3)', 'elim_iter()', 'fuse()', 'unroll_while(times=1)']
WHERES = [None, 0, 1, 2, ('site', 0), ('site', 1), ('stmt', 1), ('stmt', 3), ('body',), ('tail',)]

def all_recipes(prog):
    f = prog.get('factors') or []
    fnames = [x for x in f if x.isidentifier()]
    pn = prog.get('pnames') or []
    user = [n for n in pn[:2]] + ['acc', 'i', 'n', 't', 'j', 'm']
    ext = []
    for t in (1, 2, 3, 4, 5):
        for w in WHERES:
            ext.append(f'unroll_for(where={w!r}, times={t})')
            if w in (None, 0, 1, ('site', 0)): ext.append(f"unroll_for(where={w!r}, times={t}, strategy='STRICT')")
    for t in (0, 1, 2):
        ext += [f'ForUnroll(times={t})', f'ForUnroll(times={t}, shared=True)', f"ForUnroll(where=0, times={t}, strategy='STRICT')"]
    for u in user[:5]:
        ext += [f'unroll_for(times=1, temp_id={u!r})', f'unroll_for(times=2, len_id={u!r}, idx_id={u!r})', f'unroll_for(times=1, idx_id={u!r})',
                f'split(2, temp_id={u!r})', f'split(3, outer_id={u!r}, inner_id={u!r})', f'split(2, inner_id={u!r})']
    for t in (1, 2, 3):
        for w in (None, 0, 1, ('site', 0), ('site', 1), ('body',)):
            ext.append(f'unroll_while(where={w!r}, times={t})')
    ext += ['WhileUnroll(times=0)', 'WhileUnroll(times=2)', 'WhileUnroll(where=0, times=1)']
    for k in (1, 2, 3, 4, 5, 6):
        for w in (None, 0, 1, ('site', 0), ('body',)):
            ext.append(f'split({k}, where={w!r})')
            if w in (None, 0): ext.append(f"split({k}, where={w!r}, strategy='STRICT')")
    for name in fnames[:2]:
        for w in (None, 0, 1):
            ext += [f'split({name!r}, where={w!r})', f"split({name!r}, where={w!r}, strategy='STRICT')"]
    for e in f[:5]:
        ext += [f'SplitLoop({e!r})', f'SplitLoop({e!r}, where=0)', f"SplitLoop({e!r}, strategy='STRICT')", f'SplitLoop({e!r}, shared=True)']
    ext += ["SplitLoop('3')", "SplitLoop('2', shared=True, temp_id='i', outer_id='t', inner_id='t')"]
    ext += ['elim_iter(enumerate=False)', 'elim_iter(zip=False)', "single('ZipElim')", "single('EnumerateElim')",
            "seq(single('ZipElim'), single('EnumerateElim'))", "seq(single('EnumerateElim'), single('ZipElim'))", 'repeat(elim_iter(), 2)',
            "single('ReduceFusion')", 'repeat(fuse(), 2)']
    basics = ['elim_iter()', 'fuse()', 'unroll_for(times=1)', 'split(2)', 'unroll_while(times=1)', 'unroll_for(times=2)', 'split(3)'] + ([f'split({fnames[0]!r})'] if fnames else [])
    for a, b in itertools.permutations(basics, 2):
        ext.append(f'seq({a}, {b})')
    ext += ['repeat(unroll_for(times=1), 2)', 'repeat(unroll_for(times=1), 3)', 'repeat(split(2), 2)', 'repeat(unroll_while(times=1), 2)',
            'seq(elim_iter(), fuse(), unroll_for(times=1))', 'seq(fuse(), elim_iter(), split(2), unroll_for(times=1))',
            "seq(unroll_for(where=0, times=1), unroll_for(where=0, times=1))", "seq(split(2, where=0), split(3, where=0))"]
    for first in ('split(2, where=0)', 'unroll_for(where=0, times=1)', 'unroll_while(where=0, times=1)'):
        for second, w in (('unroll_for', ('site', 0)), ('unroll_for', ('site', 1)), ('split', ('site', 1)), ('split', ('site', 0)), ('unroll_while', ('site', 0)), ('unroll_for', ('body',))):
            ext.append(f'fwd({first}, {second!r}, {w!r})')
    return CORE, ext

PRE = ['simplify()', "single('ConstFold')", "single('CopyPropagate')", 'lift_context()', 'simplify(cf=0)']
PRE_CALL = ['inline()', 'seq(inline(), simplify())', 'inline(recursive=False)']

def pinned_recipes(prog, R):
    """recipes chosen by the features of the program: what the feature is there to exercise"""
    ax = prog.get('axes') or {}
    ids = set(ax.get('idioms') or [])
    f = prog.get('factors') or []
    out = [f'unroll_for(times={R.choice([1, 2, 3])})']
    if ax.get('effect') == 'reassign-factor' or 'split-factor' in ids:
        fn_ = [x for x in f if x.isidentifier()]
        if fn_: out += [f'split({fn_[0]!r})', R.choice([f"split({fn_[0]!r}, strategy='STRICT')", f'SplitLoop({f[-1]!r})', f'split({fn_[0]!r}, where=0)'])]
    if ax.get('iter') in ('zip', 'enumerate', 'enum-zip', 'pairs', 'nested-pairs') or 'zipcomp' in ids:
        out += ['elim_iter()', R.choice(['elim_iter(enumerate=False)', 'elim_iter(zip=False)', "seq(single('EnumerateElim'), single('ZipElim'))", 'seq(elim_iter(), unroll_for(times=1))'])]
    if ids & {'reduce', 'while'}:
        out += ['fuse()', f'unroll_while(times={R.choice([1, 2, 3])})']
    if ax.get('ctx') in ('lowprec', 'decorator', 'nested-static') or 'lowprec-loop' in ids:
        out += [f'unroll_for(times={R.choice([2, 3, 4])})', R.choice(['split(3)', 'split(5)', 'unroll_for(times=5)'])]
    if ax.get('effect') in ('mutate-list', 'rebind-list', 'reassign-bound', 'reassign-index', 'loopvar-after', 'early-return'):
        out += [R.choice(['unroll_for(times=2)', 'unroll_for(where=0, times=1)']), R.choice(['split(2)', 'split(3)']), 'elim_iter()']
    if ax.get('names') == 'gensym':
        u = (prog.get('pnames') or ['t'])[0]
        out += [f'unroll_for(times=1, temp_id={u!r}, idx_id={u!r})', f'split(2, temp_id={u!r}, inner_id={u!r})']
    if ax.get('iter') in ('literal', 'local-lit', 'range-lit') or 'static-loop' in ids:
        out += [R.choice(["unroll_for(times=1, strategy='STRICT')", "unroll_for(times=2, strategy='STRICT')"]), R.choice(["split(2, strategy='STRICT')", 'split(4)']), 'unroll_for(times=3)']
    seen, res = set(), []
    for r in out:
        if r not in seen: seen.add(r); res.append(r)
    return res

def recipes_for_factory(tier):
    def recipes_for(prog, R):
        core, ext = all_recipes(prog)
        pins = pinned_recipes(prog, R)
        if tier == 'quick':
            rs = pins[:7] + R.sample(core, 2) + R.sample(ext, 3)
        else:
            rs = pins + core + R.sample(ext, 30)
        seen, res = set(), []
        for r in rs:
            if r not in seen: seen.add(r); res.append(r)
        return res
    return recipes_for

def _has_lazy_reduction(fn) -> bool:
    """an any/all over a comprehension in a position the original evaluates conditionally: a later operand of and/or or of a
    comparison chain, or an assert message (fuse hoists its loop ahead of the statement)"""
    found = False
    def reds(e):
        return any(isinstance(x, (A.AnyOf, A.AllOf)) and isinstance(x.arg, A.ListComp) for _, x in _walk(e))
    from fpy2.transform.path import sub_exprs
    def _walk(e):
        yield None, e
        for _, _, x in sub_exprs(e): yield from _walk(x)
    for _, e in T.walk_exprs(fn.ast):
        if isinstance(e, (A.And, A.Or)) and any(reds(a) for a in e.args[1:]): found = True
        if isinstance(e, A.Compare) and len(e.args) > 2 and any(reds(a) for a in e.args[2:]): found = True
    for _, blk in T.walk_blocks(fn.ast):
        for s in blk.stmts:
            if isinstance(s, A.AssertStmt) and s.msg is not None and reds(s.msg): found = True
    return found

def _enumerate_comp_index_rebound(fn) -> bool:
    """a comprehension over enumerate(...) whose element (or later generator) holds an inner comprehension re-binding the index name"""
    from fpy2.transform.path import sub_exprs
    def walk(e):
        yield e
        for _, _, x in sub_exprs(e): yield from walk(x)
    def names(t):
        if isinstance(t, NamedId): return [t]
        if isinstance(t, A.TupleBinding): return [n for e in t.elts for n in names(e)]
        return []
    for _, e in T.walk_exprs(fn.ast):
        if not isinstance(e, A.ListComp): continue
        for t, it in zip(e.targets, e.iterables):
            if isinstance(it, A.Enumerate) and isinstance(t, A.TupleBinding) and t.elts and isinstance(t.elts[0], NamedId):
                idx = t.elts[0]
                for sub in [e.elt] + list(e.iterables):
                    for x in walk(sub):
                        if isinstance(x, A.ListComp) and x is not e and any(idx in names(tt) for tt in x.targets): return True
    return False

def classify(d, fn, xf):
    # (F61, enumerate elimination capturing an inner comprehension's binder, was repaired in /repo and is no longer tagged)
    if 'fuse' in d['strategy'] or 'ReduceFusion' in d['strategy']:
        if d['transformed_result'].startswith('err') and _has_lazy_reduction(fn): return 'F54'
    return None

def build_programs(seed, tier):
    R = Prng(seed, 'C08:progs')
    n_main, n_other, n_call = (170, 25, 20) if tier == 'quick' else (700, 150, 110)
    sc = float(os.environ.get('VERIF_XGEN_SCALE', '1'))   # debugging aid: shrink the run
    n_main, n_other, n_call = int(n_main * sc), int(n_other * sc), int(n_call * sc)
    progs = corpus_progs('c08_corpus.py', R)
    stats = {}
    for prop, n, pres, frac in (('C08', n_main, PRE, 0.2), ('C07', n_other, PRE, 0.3), ('C09', n_call, PRE_CALL, 1.0)):
        ps, st = xgen.programs(prop, seed, n)
        for k, v in st.items(): stats[f'{prop}:{k}'] = v
        for p in ps:
            d = p.to_dict()
            d['args'] = p.args + xgen.random_args(R, p.kinds, 3)
            if R.random() < frac:
                d['pre'] = R.choice(pres); d['loops'] = None
            progs.append(d)
    return progs, stats

def run(rep, tier, seed):
    progs, stats = build_programs(seed, tier)
    opts = {'inputs_cap': 5 if tier == 'quick' else None, 'loop_inputs_drop': (6, 9, 12, 13) if tier == 'quick' else None, 'ctx_every': 4 if tier == 'quick' else 2, 'max_traces': 3 if tier == 'quick' else 10, 'deadline_s': 900 if tier == 'quick' else 3600,
            'prog_budget': 60 if tier == 'quick' else 240}
    run_xforms(rep, tier, seed, PROP, progs, recipes_for_factory(tier), classify=classify, opts=opts)
    summarize_cov(rep, stats)
    rep.cov['rule'] = ('hand-written corpus + feature-axis synthesised programs (xgen: loops over lists / ranges / literals / zip / enumerate / nested pairs / slices / comprehensions, '
                       'bodies that reassign the split factor, the bound, the index, the iterated list, return early or use flags, low-precision ambient contexts with exact inner '
                       'contexts, names colliding with generated temporaries, while loops incl. reductions and calls in the condition, any/all in every position) + programs produced '
                       'by simplify / inline; unroll_for / ForUnroll times 0..5, by index / cursor / region / all, PEEL and STRICT (AssertionError accepted only where the length is '
                       'not divisible), custom temporaries; unroll_while; split by literal / variable / expression factor; elim_iter flags and passes in both orders; fuse; ordered '
                       'pairs and chains; cursors forwarded across a pass; list lengths 0..7, 17, 33, ~257; distinct = distinct (program, strategy, input, ctx) evaluations')

def replay(rep, data):
    from xform import replay as rp
    return rp(rep, data, PROP, classify)
