"""C08 — loop and iterator restructuring preserves results."""
from __future__ import annotations
from xform import *   # noqa
from fpy2 import strategies as S
from fpy2.transform.for_unroll import ForUnrollStrategy
from fpy2.transform.split_loop import SplitLoopStrategy

PROP = 'C08'

def n_sites(kind, fn):
    try: return len(S.sites(kind, fn))
    except Exception: return 0

def recipes():
    rs = []
    for t in (1, 2, 3):
        rs.append((f'unroll_for[all,times={t}]', lambda fn, R, t=t: S.unroll_for(fn, None, t)))
        rs.append((f'unroll_for[all,times={t}]!strict', lambda fn, R, t=t: S.unroll_for(fn, None, t, strategy=ForUnrollStrategy.STRICT)))
        rs.append((f'unroll_while[all,times={t}]', lambda fn, R, t=t: S.unroll_while(fn, None, t)))
        for j in (0, 1, 2):
            rs.append((f'unroll_for[{j},times={t}]', lambda fn, R, t=t, j=j: S.unroll_for(fn, j, t)))
            rs.append((f'unroll_while[{j},times={t}]', lambda fn, R, t=t, j=j: S.unroll_while(fn, j, t)))
    for f in (1, 2, 3, 4):
        rs.append((f'split[all,factor={f}]', lambda fn, R, f=f: S.split(fn, f)))
        rs.append((f'split[all,factor={f}]!strict', lambda fn, R, f=f: S.split(fn, f, strategy=SplitLoopStrategy.STRICT)))
        rs.append((f'split[0,factor={f}]', lambda fn, R, f=f: S.split(fn, f, 0)))
        rs.append((f'split[1,factor={f}]', lambda fn, R, f=f: S.split(fn, f, 1)))
    rs.append(('elim_iter', lambda fn, R: S.elim_iter(fn)))
    rs.append(('elim_iter[zip only]', lambda fn, R: S.elim_iter(fn, enable_enumerate=False)))
    rs.append(('elim_iter[enumerate only]', lambda fn, R: S.elim_iter(fn, enable_zip=False)))
    rs.append(('fuse', lambda fn, R: S.fuse(fn)))
    rs.append(('elim_iter;unroll_for', lambda fn, R: S.unroll_for(S.elim_iter(fn), None, 1)))
    rs.append(('unroll_for;unroll_for', lambda fn, R: S.unroll_for(S.unroll_for(fn, None, 1), None, 2)))
    rs.append(('split;unroll_for', lambda fn, R: S.unroll_for(S.split(fn, 2), None, 1)))
    rs.append(('fuse;unroll_for', lambda fn, R: S.unroll_for(S.fuse(fn), None, 2)))
    return rs

def run(rep, tier, seed):
    rs = recipes()
    if tier == 'quick':
        R0 = Prng(seed, 'C08r'); keep = R0.sample(rs, 14) + [r for r in rs if r[0] in ('elim_iter', 'fuse')]
    else: keep = rs
    run_xforms(rep, tier, seed, PROP, 'c08_corpus.py', keep, gen_programs=20 if tier == 'quick' else 250,
               n_inputs=7 if tier == 'quick' else 10, call_ctxs=(None,))
    rep.cov['rule'] = ('corpus (early return, mutation of the iterated list, nested loops, zip/enumerate, any/all, loop variable used after the loop, with inside loop) '
                       '+ random programs; unroll_for/unroll_while times 1..3 by index and all, both remainder strategies (STRICT judged only where its assertion holds), '
                       'split factor 1..4, elim_iter, fuse and compositions; list lengths 0..7; distinct = distinct (program, strategy, input)')
