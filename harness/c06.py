"""C06 — a numeric literal denotes exactly the number written.

Three layers, each judged by an independent positional parser written here with `Fraction`
(never Python's float()):
  A. the util functions decnum_to_fraction / hexnum_to_fraction / digits_to_fraction / Fraction(p, q)
     and Decnum/Hexnum.as_real on spellings and near-spellings       (oracle + model correspondence)
  B. one-line functions `return <literal expression>` decorated with the real @fp.fpy, evaluated under
     fp.REAL (must be the exact value / signed zero) and, as `return fp.round(<literal>)`, under narrow
     contexts (must be the real ctx.round of the exact value)           (oracle + model correspondence)
  C. the two CPython facts the front-end model rests on: float(<literal>) is the correctly rounded
     binary64 (model: Ctx.round of IEEE(11,64)), str(float) is the shortest round-trip decimal.
Known finding F5 (not repaired): a decimal float token reaches the parser as a Python float.
F24, F25, F26 are repaired: any other violation is reported (finding None).
"""
from __future__ import annotations
import importlib.util, os, re, shutil, struct, sys, tempfile
from fractions import Fraction
from numcanon import *   # noqa
from fpy2.utils import decnum_to_fraction, hexnum_to_fraction, digits_to_fraction
from fpy2.ast.fpyast import Decnum, Hexnum, Integer, Rational, Digits, Neg

PROP = 'C06'

# cause of a property failure -> id in known_findings.json (None: not a listed finding).
# 'float-path' is decided by the criterion in cause_of(): the observed value is exactly what the
# trip through Python float gives (int(f) if f is integral else Fraction(str(f)), f = float(token))
# and differs from the exact value.  F24/F25/F26 are repaired: their causes are labels only.
CAUSE_TO_FINDING = {
    'float-path': 'F5',            # decimal literal evaluated through Python float + str(float)
    'neg-fold-double-negation': None,
    'neg-zero-argument-rejected': None,
    'hex-empty-integer-part': None,
    'other': None,
}

# ----------------------------------------------------------------------------------------------
# independent positional oracle

DIG = {c: i for i, c in enumerate('0123456789abcdef')}
PY_SPACE = {chr(i) for i in range(0x3001) if chr(i).isspace()}   # what str.strip() removes

def pos_int(ds: str, base: int) -> int:
    """sum d_i * base^i, written directly"""
    n = len(ds)
    return sum(DIG[c] * base ** (n - 1 - i) for i, c in enumerate(ds))

def pos_frac(ds: str, base: int) -> Fraction:
    return sum((Fraction(DIG[c], base ** (j + 1)) for j, c in enumerate(ds)), Fraction(0))

def fmt_frac(v: Fraction) -> str:
    if v.numerator.bit_length() > 12000 or v.denominator.bit_length() > 12000: return f'<{v.numerator.bit_length()} bits>/<{v.denominator.bit_length()} bits>'
    return f'{v.numerator}/{v.denominator}'

def strip_py(s: str) -> str:
    i, j = 0, len(s)
    while i < j and s[i] in PY_SPACE: i += 1
    while j > i and s[j - 1] in PY_SPACE: j -= 1
    return s[i:j]

def oracle_sci(s: str, digits: str, prefix: str, expch: str, base: int, b: int, need_int: bool):
    """value of  [ws][+-]PREFIX(D+[.D+]|.D+)[E[+-]d+][ws]  -> ('ok', Fraction, negzero) | ('reject',)
    need_int: the grammar lists the `.D+` form; ('ok', ...) is still what the spelling denotes"""
    s = strip_py(s)
    neg = False
    if s[:1] in ('+', '-'):
        neg = s[0] == '-'; s = s[1:]
    if not s.startswith(prefix): return ('reject',)
    s = s[len(prefix):]
    k = 0
    while k < len(s) and s[k] in digits: k += 1
    ip, s = s[:k], s[k:]
    fp_ = None
    if s[:1] == '.':
        k = 1
        while k < len(s) and s[k] in digits: k += 1
        if k > 1:
            fp_, s = s[1:k], s[k:]
    if ip == '' and fp_ is None: return ('reject',)
    e = 0
    if s[:1] == expch:
        t = s[1:]
        eneg = False
        if t[:1] in ('+', '-'):
            eneg = t[0] == '-'; t = t[1:]
        if t == '' or any(c not in '0123456789' for c in t): return ('reject',)
        if len(t) > 4300: return ('limit',)      # CPython's int(str) digit limit: an environment limit, not judged
        e = pos_int(t, 10); e = -e if eneg else e
        s = ''
    if s != '': return ('reject',)
    if max(len(ip), len(fp_ or ''), 0) > 4300 and base == 10: return ('limit',)
    v = (Fraction(pos_int(ip, base)) + pos_frac(fp_ or '', base)) * Fraction(b) ** e
    return ('ok', -v if neg else v, neg and v == 0)

def oracle_dec(s): return oracle_sci(s, '0123456789', '', 'e', 10, 10, False)
def oracle_hex(s): return oracle_sci(s, '0123456789abcdef', '0x', 'p', 16, 2, True)

def oracle_pynum(text: str):
    """exact value of a Python numeric literal token: ('int', n) | ('float', Fraction)"""
    t = text.replace('_', '').lower()
    for pre, base in (('0x', 16), ('0o', 8), ('0b', 2)):
        if t.startswith(pre): return ('int', pos_int(t[2:], base))
    if '.' not in t and 'e' not in t: return ('int', pos_int(t, 10))
    m, _, e = t.partition('e')
    ip, _, fp_ = m.partition('.')
    ex = 0
    if e:
        ex = pos_int(e.lstrip('+-'), 10) * (-1 if e[0] == '-' else 1)
    return ('float', (Fraction(pos_int(ip, 10)) + pos_frac(fp_, 10)) * Fraction(10) ** ex)

class Undefined(Exception):
    """the spelling has no value (division by zero, non-integer argument, not in the grammar)"""

def denote(e, floatpath=False):
    """(value: Fraction, neg: bool) the expression denotes; neg matters for zero.
    floatpath=True: same, except that a float token is worth int(float(token)) if integral else Fraction(str(float(token)))
    (what the value would be if the only thing wrong were the trip through Python float)."""
    k = e[0]
    if k == 'num':
        kind, v = oracle_pynum(e[1])
        if kind == 'float' and floatpath:
            f = float(e[1].replace('_', ''))      # CPython's own parse: only used to classify, never to judge
            if f != f or f in (float('inf'), float('-inf')): raise Undefined('inf')
            v = Fraction(f) if f.is_integer() else Fraction(str(f))   # Integer(int(f)) / Decnum(str(f))
        return Fraction(v), False
    if k == 'hexfloat':
        o = oracle_hex(e[1])
        if o[0] != 'ok': raise Undefined('hex grammar')
        return o[1], (o[1] < 0 or o[2])
    if k == 'neg':
        v, s = denote(e[1], floatpath); return -v, (not s)
    if k == 'pos':
        return denote(e[1], floatpath)
    if k == 'rational':
        p, _ = denote(e[1], floatpath); q, _ = denote(e[2], floatpath)
        if p.denominator != 1 or q.denominator != 1 or q == 0: raise Undefined('rational args')
        v = Fraction(p.numerator, q.numerator); return v, v < 0
    if k == 'digits':
        m, _ = denote(e[1], floatpath); x, _ = denote(e[2], floatpath); b, _ = denote(e[3], floatpath)
        if m.denominator != 1 or x.denominator != 1 or b.denominator != 1: raise Undefined('digits args')
        if b == 0 and x < 0: raise Undefined('0**negative')
        v = m * Fraction(b.numerator) ** x.numerator; return v, v < 0
    raise ValueError(k)

def has_float_token(e):
    if e[0] == 'num': return oracle_pynum(e[1])[0] == 'float'
    if e[0] == 'hexfloat': return False
    return any(has_float_token(a) for a in e[1:] if isinstance(a, tuple))

def neg_depth(e):
    if e[0] in ('num', 'hexfloat'): return 0
    if e[0] == 'neg': return 1 + neg_depth(e[1])
    if e[0] == 'pos': return neg_depth(e[1])
    return 0

# ----------------------------------------------------------------------------------------------
# source text and driver tokens of an expression

def S(s: str) -> str: return 's' + ','.join(str(ord(c)) for c in s)

def py_text(e) -> str:
    k = e[0]
    if k == 'num': return e[1]
    if k == 'hexfloat': return f'fp.hexfloat({e[1]!r})'
    if k == 'neg': return '-' + (f'({py_text(e[1])})' if e[1][0] in ('neg', 'pos') and e[2] else py_text(e[1]))
    if k == 'pos': return '+' + py_text(e[1])
    if k == 'rational': return f'fp.rational({py_text(e[1])}, {py_text(e[2])})'
    if k == 'digits': return f'fp.digits({py_text(e[1])}, {py_text(e[2])}, {py_text(e[3])})'
    raise ValueError(k)

def drv_tok(e) -> str:
    k = e[0]
    if k in ('num', 'hexfloat'): return f'{k} {S(e[1])}'
    if k in ('neg', 'pos'): return f'{k} {drv_tok(e[1])}'
    return k + ' ' + ' '.join(drv_tok(a) for a in e[1:])

# ----------------------------------------------------------------------------------------------
# generators

def rdigits(R, n, first_nonzero=False):
    s = ''.join(R.choice('0123456789') for _ in range(n))
    if first_nonzero and s[0] == '0': s = R.choice('123456789') + s[1:]
    return s

def underscore(R, ds):
    """insert single underscores between digits"""
    if len(ds) < 2 or R.random() < 0.6: return ds
    out = ds[0]
    for c in ds[1:]:
        out += ('_' if R.random() < 0.3 else '') + c
    return out

def exact_decimal_of(fr: Fraction) -> str:
    """finite decimal expansion of a dyadic rational"""
    k = fr.denominator.bit_length() - 1
    n = fr.numerator * 5 ** k
    s = str(n).rjust(k + 1, '0')
    return (s[:-k] + '.' + s[-k:]) if k else s + '.0'

def rand_double(R):
    """a positive finite binary64 value as a Fraction, biased to edges"""
    t = R.random()
    if t < 0.15: c, e = R.getrandbits(R.randint(1, 52)) | 1, -1074                 # subnormal
    elif t < 0.3: c, e = 1 << 52, R.randint(-1074, 971)                            # power of two
    elif t < 0.4: c, e = (1 << 53) - 1, R.randint(-1074, 971)
    elif t < 0.8: c, e = (1 << 52) | R.getrandbits(52), R.randint(-80, 20)
    else: c, e = (1 << 52) | R.getrandbits(52), R.randint(-1074, 971)
    return Fraction(c) * Fraction(2) ** e

def gen_float_token(R):
    """(text, class) of a Python float literal"""
    t = R.random()
    if t < 0.14:    # short everyday decimals
        cls = 'short'; ip = rdigits(R, R.randint(1, 3), True); fp_ = rdigits(R, R.randint(1, 4)); ex = None
    elif t < 0.30:  # 18-60 significant digits
        cls = 'long'; n = R.randint(18, 60); k = R.randint(0, n)
        ip = rdigits(R, max(k, 1), True) if k else '0'; fp_ = rdigits(R, n - k) if n - k else ''
        ex = R.randint(-30, 30) if R.random() < 0.4 else None
    elif t < 0.42:  # integers at and above 2^53 written as floats
        cls = 'bigint-float'
        v = (1 << R.randint(53, 90)) + R.randint(-3, 3) if R.random() < 0.5 else int(rdigits(R, R.randint(16, 40), True))
        form = R.random()
        if form < 0.4: ip, fp_, ex = str(v), '0' * R.randint(1, 3), None
        elif form < 0.7:
            s = str(v); z = len(s) - len(s.rstrip('0')); s = s.rstrip('0') or '0'
            ip, fp_, ex = s, None, z + R.randint(0, 12)
        else:
            s = str(v); ip, fp_, ex = s[0], s[1:], len(s) - 1
    elif t < 0.54:  # exponents up to +-400: beyond the binary64 range on both sides
        cls = 'exponent'; ip = rdigits(R, R.randint(1, 4), True); fp_ = rdigits(R, R.randint(0, 20)) or None
        ex = R.choice([R.randint(-400, 400), R.randint(300, 400), R.randint(-400, -300), R.randint(-30, 30), 22, 23, 308, 309, -323, -324])
    elif t < 0.64:  # exact decimal expansion of a binary64 number (long, but loses nothing as a float)
        cls = 'exact-double'
        d = (Fraction((1 << 52) | R.getrandbits(52)) * Fraction(2) ** R.randint(-70, -30)) if R.random() < 0.7 else Fraction(R.getrandbits(20) | 1, 1 << R.randint(1, 30))
        s = exact_decimal_of(d); ip, _, fp_ = s.partition('.'); ex = None
    elif t < 0.74:  # halfway between two doubles, and a hair to either side
        cls = 'near-tie'
        if R.random() < 0.12: c, e = R.getrandbits(R.randint(1, 40)) | 1, -1074
        else: c, e = (1 << 52) | R.getrandbits(52), R.randint(-90, 30)
        mid = Fraction(2 * c + 1) * Fraction(2) ** (e - 1)
        k = R.random()
        if k < 0.4: s = exact_decimal_of(mid)
        elif k < 0.7: s = exact_decimal_of(mid) + '0' * R.randint(0, 3) + '1'
        else: s = exact_decimal_of(mid - Fraction(2) ** (e - 30))
        ip, _, fp_ = s.partition('.'); ex = None
    elif t < 0.84:  # leading / trailing zeros, odd but legal shapes
        cls = 'zeros-shapes'
        ip = '0' * R.randint(0, 4) + rdigits(R, R.randint(0, 4)); fp_ = '0' * R.randint(0, 5) + rdigits(R, R.randint(0, 22)) + '0' * R.randint(0, 5)
        ex = R.choice([None, None, 0, R.randint(-12, 12)])
        sh = R.random()
        if sh < 0.15 and ip: fp_ = ''         # "12."
        elif sh < 0.3 and fp_: ip = ''        # ".5"
        if not ip and not fp_: ip = '0'
    elif t < 0.92:  # zeros
        cls = 'zero'; ip = '0' * R.randint(1, 3); fp_ = R.choice(['', '0', '000', None]); ex = R.choice([None, 0, 5, -7, 400])
        if fp_ is None and ex is None: fp_ = '0'
    else:           # 16/17 significant digits: the repr boundary
        cls = 'digits-16-17'; n = R.randint(15, 18); ip = rdigits(R, 1, True); fp_ = rdigits(R, n - 1); ex = R.randint(-20, 20) if R.random() < 0.5 else None
    text = underscore(R, ip)
    if fp_ is not None: text += '.' + underscore(R, fp_)
    if ex is not None:
        es = str(abs(ex))
        if R.random() < 0.15: es = '0' + es
        text += R.choice('eE') + (('-' if ex < 0 else R.choice(['', '+']))) + underscore(R, es)
    if '.' not in text and ex is None: text += '.0'
    return text, cls

def gen_int_token(R):
    t = R.random()
    if t < 0.3: v = R.randint(0, 1000)
    elif t < 0.6: v = (1 << R.randint(53, 200)) + R.randint(-2, 2)
    else: v = int(rdigits(R, R.randint(1, 60), True))
    form = R.random()
    if form < 0.7: return underscore(R, str(v)), 'int-dec'
    if form < 0.8: return R.choice(['0x', '0X']) + underscore(R, format(v, R.choice(['x', 'X']))), 'int-hex'
    if form < 0.9: return R.choice(['0o', '0O']) + underscore(R, format(v, 'o')), 'int-oct'
    return R.choice(['0b', '0B']) + format(v, 'b'), 'int-bin'

def gen_hex_string(R, valid=True):
    sign = R.choice(['', '', '-', '+'])
    ip = ''.join(R.choice('0123456789abcdef') for _ in range(R.choice([1, 1, 2, 5, 14, 30])))
    if R.random() < 0.15: ip = '0' * R.randint(1, 3) + ip
    fp_ = ''.join(R.choice('0123456789abcdef') for _ in range(R.choice([1, 2, 13, 14, 30]))) if R.random() < 0.6 else None
    ex = R.choice([None, 0, R.randint(-20, 20), R.randint(-1100, 1100), -1074, 1023, 1024])
    if R.random() < 0.06: ip, fp_ = '0' * R.randint(1, 2), R.choice([None, '0', '000'])     # zeros
    s = sign + '0x' + ip + ('.' + fp_ if fp_ is not None else '')
    if ex is not None: s += 'p' + (('-' if ex < 0 else R.choice(['', '+']))) + str(abs(ex))
    if R.random() < 0.1: s = R.choice([' ', '\t', '  ']) + s + R.choice(['', ' ', '\n'])
    return s

def mutate(R, s, alphabet):
    k = R.random()
    if not s: return R.choice(alphabet)
    i = R.randrange(len(s))
    if k < 0.35: return s[:i] + R.choice(alphabet) + s[i:]
    if k < 0.7: return s[:i] + s[i + 1:]
    return s[:i] + R.choice(alphabet) + s[i + 1:]

def gen_int_arg(R, big=False):
    """an expression that is an integer argument of rational/digits"""
    t = R.random()
    v = R.randint(0, 10 ** R.randint(1, 40)) if big else R.randint(0, 40)
    if t < 0.7: e = ('num', str(v))
    elif t < 0.8: e = ('num', hex(v))
    elif t < 0.9: e = ('num', str(v) + '.0')
    else: e = ('num', f'{R.randint(1, 9)}e{R.randint(0, 25)}')
    if R.random() < 0.35: e = ('neg', e, False)
    return e

def gen_expr(R):
    """(expression, class)"""
    t = R.random()
    if t < 0.50:
        tok, cls = gen_float_token(R); e = ('num', tok)
    elif t < 0.60:
        tok, cls = gen_int_token(R); e = ('num', tok)
    elif t < 0.74:
        e = ('hexfloat', gen_hex_string(R)); cls = 'hexfloat'
        if R.random() < 0.06: e = ('hexfloat', R.choice(['0x.8', '0x.8p1', '-0x.ffp-3', '0X1p3', '0x1P3', '0x1.', '0xAB', '0x', '1.5', '0x1p', '0x1p+', '0x1.8p3 x'])); cls = 'hexfloat-odd'
    elif t < 0.86:
        e = ('rational', gen_int_arg(R, True), gen_int_arg(R, True)); cls = 'rational'
        if R.random() < 0.04: e = ('rational', e[1], ('num', '0')); cls = 'rational-zero-den'
    else:
        b = R.choice([2, 2, 10, 16, 3, 7, 36, 1, 0, R.randint(2, 1000)])
        be = ('num', str(b));
        if R.random() < 0.1 and b: be = ('neg', be, False)
        ee = ('num', str(R.randint(0, 60 if b < 40 else 12)))
        if R.random() < 0.5: ee = ('neg', ee, False)
        e = ('digits', gen_int_arg(R, True), ee, be); cls = 'digits'
    # signs
    u = R.random()
    if u < 0.22: e = ('neg', e, False)
    elif u < 0.26: e = ('pos', e)
    elif u < 0.30: e = ('neg', ('neg', e, False), True)
    elif u < 0.32: e = ('neg', ('pos', e), True)
    elif u < 0.34: e = ('pos', ('neg', e, False))
    return e, cls

NARROW = [
    dict(fam='ieee', es=8, nbits=32, rm='rne', ov='overflow', k=0),
    dict(fam='ieee', es=5, nbits=16, rm='rtp', ov='overflow', k=0),
    dict(fam='ieee', es=11, nbits=64, rm='rne', ov='overflow', k=0),
    dict(fam='mp', p=3, rm='rne', k=0, en=True, ei=True, nv=None, iv=None),
    dict(fam='mp', p=24, rm='rtz', k=0, en=True, ei=True, nv=None, iv=None),
    dict(fam='mps', p=8, emin=-20, rm='rtn', k=0, en=True, ei=True, nv=None, iv=None),
    dict(fam='fixed', signed=True, scale=-4, nbits=12, rm='rna', ov='saturate', k=0, nv=None, iv=None),
]

# ----------------------------------------------------------------------------------------------
# running the real front end

def obs_value(r):
    """canonical observation of a returned real: 'nan' | 'inf s' | (Fraction, negzero-or-negative)"""
    if isinstance(r, Fraction): return ('fin', r, r < 0)
    if isinstance(r, (int,)) and not isinstance(r, bool): return ('fin', Fraction(r), r < 0)
    if isinstance(r, Float):
        if r.isnan: return ('nan',)
        if r.isinf: return ('inf', bool(r.s))
        return ('fin', r.as_rational(), bool(r.s))
    return ('other', repr(r))

def big_str(n: int) -> str:
    """str(n) without CPython's 4300-digit guard (restored at once: the real code must keep seeing the default)"""
    if n.bit_length() < 14000: return str(n)
    lim = sys.get_int_max_str_digits()
    try:
        sys.set_int_max_str_digits(0); return str(n)
    finally:
        sys.set_int_max_str_digits(lim)

def show_obs(o):
    if o[0] == 'fin': return f'ok {big_str(o[1].numerator)}/{big_str(o[1].denominator)} nz={b01(o[1] == 0 and o[2])}'
    return ' '.join(str(x) for x in o)

def node_str(n) -> str:
    if isinstance(n, Integer): return f'Integer:{n.val}'
    if isinstance(n, Decnum): return f'Decnum:{S(n.val)}'
    if isinstance(n, Hexnum): return f'Hexnum:{S(n.val)}'
    if isinstance(n, Rational): return f'Rational:{n.p}:{n.q}'
    if isinstance(n, Digits): return f'Digits:{n.m}:{n.e}:{n.b}'
    if isinstance(n, Neg): return f'Neg({node_str(n.arg)})'
    return type(n).__name__

def load_module(path, name):
    spec = importlib.util.spec_from_file_location(name, path)
    mod = importlib.util.module_from_spec(spec)
    sys.modules[name] = mod
    spec.loader.exec_module(mod)
    return mod

def run_front(exprs, tmp, tag, wrap_round=False, chunk=400):
    """decorate `def f(): return <expr>` with the real @fp.fpy; returns list of ('decor-err', kind) | ('fn', fn)"""
    out = []
    for base in range(0, len(exprs), chunk):
        part = exprs[base:base + chunk]
        src = ['import fpy2 as fp', '']
        for i, e in enumerate(part):
            body = py_text(e)
            if wrap_round: body = f'fp.round({body})'
            src.append(f'def f{i}():\n    return {body}\n')
        name = f'c06_{tag}_{base}'
        path = os.path.join(tmp, name + '.py')
        with open(path, 'w') as fh: fh.write('\n'.join(src))
        try:
            mod = load_module(path, name)
        except SyntaxError as ex:
            # a generated token Python itself refuses: find the culprits one by one
            for e in part:
                try:
                    compile(py_text(e), '<lit>', 'eval'); out.append(('skip', 'module-syntax'))
                except SyntaxError:
                    out.append(('decor-err', 'SyntaxError'))
            continue
        for i, e in enumerate(part):
            try:
                out.append(('fn', fp.fpy(getattr(mod, f'f{i}'))))
            except Exception as ex:   # noqa
                out.append(('decor-err', 'FPyParserError' if type(ex).__name__ == 'FPyParserError' else err_name(ex)))
    return out

def call(fn, ctx):
    try:
        return ('val', fn(ctx=ctx))
    except Exception as ex:   # noqa
        return ('err', 'FPyParserError' if type(ex).__name__ == 'FPyParserError' else err_name(ex))

def returned_node(fn):
    try:
        return node_str(fn.ast.body.stmts[-1].expr)
    except Exception as ex:  # noqa
        return f'?{type(ex).__name__}'

# ----------------------------------------------------------------------------------------------

def cause_of(e, observed, exact):
    """why does the real code miss the exact value? observed/exact: ('fin', v, s) | ('err', kind)"""
    # 1. the trip through Python float explains it exactly
    if has_float_token(e):
        try:
            v, s = denote(e, floatpath=True)
            fpv = ('fin', v, s if v == 0 else v < 0)
        except Undefined:
            fpv = ('err',)
        if fpv[0] == 'fin' and observed[0] == 'fin' and observed[1] == fpv[1] and (fpv[1] != 0 or observed[2] == fpv[2]):
            if exact[0] != 'fin' or exact[1] != fpv[1] or (fpv[1] == 0 and exact[2] != fpv[2]):
                return 'float-path'
        if fpv[0] == 'err' and observed[0] == 'err':
            return 'float-path'
        # the token underflowed to zero (so the zero fold applied to a number that is not zero): still only the float trip
        if fpv[0] == 'fin' and fpv[1] == 0 and observed[0] == 'fin' and observed[1] == 0 and exact[0] == 'fin' and exact[1] != 0:
            return 'float-path'
    # 2. sign of a zero after two negations
    if exact[0] == 'fin' and exact[1] == 0 and observed[0] == 'fin' and observed[1] == 0 and observed[2] != exact[2] and neg_depth(e) >= 1:
        return 'neg-fold-double-negation'
    if observed[0] == 'err' and observed[1] == 'FPyParserError' and e[0] in ('rational', 'digits', 'neg', 'pos'):
        def has_neg_zero_arg(x):
            if x[0] in ('rational', 'digits'):
                for a in x[1:]:
                    try:
                        if a[0] == 'neg' and denote(a)[0] == 0: return True
                    except Undefined: pass
                return False
            if x[0] in ('neg', 'pos'): return has_neg_zero_arg(x[1])
            return False
        if has_neg_zero_arg(e): return 'neg-zero-argument-rejected'
    def inner(x):
        return inner(x[1]) if x[0] in ('neg', 'pos') else x
    i = inner(e)
    if i[0] == 'hexfloat' and observed[0] == 'err':
        t = strip_py(i[1]).lstrip('+-')
        if t.startswith('0x.'): return 'hex-empty-integer-part'
    return 'other'


def run(rep, tier, seed):
    R = Prng(seed, 'C06')
    quick = tier == 'quick'
    tmp = tempfile.mkdtemp(prefix='c06_', dir='/var/tmp')
    try:
        _run(rep, R, quick, tmp)
    finally:
        shutil.rmtree(tmp, ignore_errors=True)
        for k in [k for k in sys.modules if k.startswith('c06_')]: del sys.modules[k]


def violation(rep, what, e_or_text, cause, extra):
    d = {'literal': e_or_text if isinstance(e_or_text, str) else py_text(e_or_text), 'cause': cause,
         'finding': CAUSE_TO_FINDING.get(cause)}
    if not isinstance(e_or_text, str): d['expr'] = e_or_text
    d.update(extra)
    key = (d['literal'], str(extra.get('layer')), str(extra.get('ctx')))
    seen = rep.__dict__.setdefault('_c06_seen', set())
    if key in seen: return
    seen.add(key)
    rep.count('violation:' + cause)
    rep.violation(what, d)


def _run(rep, R, quick, tmp):
    n_util = 8000 if quick else 60000
    n_front = 6000 if quick else 40000
    n_repr = 3000 if quick else 50000
    evals = 0

    # ---------------- A. util functions -------------------------------------------------------
    cases = []   # (kind, text | tuple)
    for _ in range(n_util):
        t = R.random()
        if t < 0.4:
            tok, _ = gen_float_token(R) if R.random() < 0.8 else gen_int_token(R)
            s = tok.replace('_', '').replace('E', 'e')
            if s[:2].lower() in ('0x', '0o', '0b'): s = str(R.randint(0, 10 ** 30))
            if R.random() < 0.3: s = R.choice(['-', '+']) + s
            if R.random() < 0.1: s = R.choice([' ', '\n', '\t ', '\x1c', '\u2003', '\xa0']) + s + R.choice(['', ' ', '\r\n'])
            if R.random() < 0.25: s = mutate(R, s, '0123456789.eE+-_ x')
            cases.append(('dec', s))
        elif t < 0.7:
            s = gen_hex_string(R)
            if R.random() < 0.25: s = mutate(R, s, '0123456789abcdefABCDEFxXpP.+- _')
            if R.random() < 0.05: s = R.choice(['0x.8', '0x.8p1', '-0x.1', '+0x.ffp-4', '0x.0', '-0x.0p3'])
            cases.append(('hex', s))
        elif t < 0.85:
            b = R.choice([2, 10, 16, 3, -2, -10, 0, 1, -1, R.randint(-50, 50), R.randint(2, 10 ** 6)])
            cases.append(('digits', (R.randint(-10 ** R.randint(0, 30), 10 ** R.randint(0, 30)), R.randint(-60, 60) if abs(b) < 100 else R.randint(-8, 8), b)))
        else:
            q = R.choice([0, 1, -1, R.randint(-10 ** 20, 10 ** 20), R.randint(-50, 50)])
            cases.append(('rational', (R.randint(-10 ** R.randint(0, 40), 10 ** R.randint(0, 40)), q)))
    corpus = [('dec', x) for x in ['0.1', '-0.0', ' -0 ', '1.', '.5', '+.5e-1', '1e', '', '-', 'inf', 'nan', '1_0', '1E5', '\u0661', '1e+05', '00012.5000e-003', '0' * 4300 + '1', '0' * 4299 + '1', '0.' + '3' * 4301, '1e' + '0' * 4301 + '1']] + \
             [('hex', x) for x in ['0x1.8p3', '0x.8', '0X1', '0x1P3', '0xA', ' +0x1e5 ', '0x1.', '-0x0p0', '-0x0.000p-5', '0x' + 'f' * 3000, '0x1p' + '0' * 4301 + '1']]
    cases = corpus + cases
    # exponents with more than 5 digits only in the corpus (10**e is materialised by both sides)
    cases = [c for c in cases if not (c[0] in ('dec', 'hex') and re.search(r'[ep][-+]?[0-9]{6,}', c[1]) and len(c[1]) < 4000)]
    lines = []
    for kind, x in cases:
        if kind in ('dec', 'hex'): lines.append(f'lit {kind} {S(x)}')
        else: lines.append(f'lit {kind} ' + ' '.join(str(v) for v in x))
    model = run_driver(lines)
    for (kind, x), line, mod in zip(cases, lines, model):
        evals += 1
        # real code
        try:
            if kind == 'dec': got = Decnum(x, None).as_real(); raw = decnum_to_fraction(x)
            elif kind == 'hex': got = Hexnum(None, x, None).as_real(); raw = hexnum_to_fraction(x)
            elif kind == 'digits': got = raw = digits_to_fraction(*x)
            else: got = raw = Fraction(*x)
            go = obs_value(got)
            if go[0] == 'fin' and raw != go[1]:
                rep.broke('harness', 'as_real vs as_rational', f'{kind} {x!r}')
            gs = show_obs(go)
        except Exception as ex:   # noqa
            go = ('err', err_name(ex)); gs = 'err ' + err_name(ex)
        # oracle
        if kind == 'dec': o = oracle_dec(x)
        elif kind == 'hex': o = oracle_hex(x)
        elif kind == 'digits':
            m, e_, b = x
            o = ('reject',) if (b == 0 and e_ < 0) else ('ok', Fraction(m) * (Fraction(b) ** e_ if b != 0 else Fraction(0 if e_ > 0 else 1)), False)
        else:
            o = ('reject',) if x[1] == 0 else ('ok', Fraction(x[0]) / Fraction(x[1]), False)
        rep.count(f'util:{kind}:' + (o[0] if o[0] != 'ok' else ('zero' if o[1] == 0 else 'value')))
        text = x if isinstance(x, str) else f'{kind}{x}'
        if o[0] == 'ok':
            if go[0] != 'fin' or go[1] != o[1] or (o[1] == 0 and go[2] != o[2]):
                cause = 'hex-empty-integer-part' if (kind == 'hex' and strip_py(x).lstrip('+-').startswith('0x.') and go[0] == 'err') else 'other'
                violation(rep, f'{kind} spelling does not evaluate to its positional value', text, cause,
                          {'layer': 'util', 'impl': gs, 'exact': f'{fmt_frac(o[1])} nz={b01(o[2])}'})
        elif o[0] == 'reject':
            if go[0] != 'err':
                violation(rep, f'{kind}: a string outside the grammar was given a value', text, 'other', {'layer': 'util', 'impl': gs})
        # model correspondence
        if mod != gs:
            rep.broke('correspondence', f'C06.util.{kind}', f'line={line[:300]} text={text[:120]!r} impl={gs[:200]} model={mod[:200]}')
        rep.distinct.add(('util', kind, text))
        if evals % 400 == 0: rep.sample({'layer': 'util', 'kind': kind, 'text': text[:80], 'impl': gs[:80], 'model': mod[:80]})

    # ---------------- C. float(<literal>) and str(float) --------------------------------------
    toks = []
    for _ in range(n_repr):
        toks.append(gen_float_token(R)[0])
    toks += ['0.1', '1e23', '9007199254740993.0', '5e-324', '2.4703282292062327e-324', '2.4703282292062328e-324', '1.7976931348623157e308',
             '1.7976931348623158e308', '1.7976931348623159e308', '1e309', '2.2250738585072011e-308', '2.2250738585072014e-308', '0.5', '1e16', '1e-5', '0.0001', '123456789012345680.0']
    lines = [f'litf64 {S(t)}' for t in toks]
    doubles = []
    model = run_driver(lines)
    for t, mod in zip(toks, model):
        evals += 1
        f = float(t.replace('_', ''))
        if f == float('inf'): want = 'ok float inf'
        else:
            want = 'ok float ' + canon_rf(False, *_exp_c(f))
            if f > 0: doubles.append(f)
        rep.count('f64:' + ('inf' if f == float('inf') else 'zero' if f == 0 else 'subnormal' if f < 2.2250738585072014e-308 else 'normal'))
        if mod != want:
            rep.broke('correspondence', 'C06.float-parse', f'token={t} python={want} model={mod}')
    for _ in range(n_repr):
        d = rand_double(R); doubles.append(float(d))
    doubles += [5e-324, 1e-323, 2.2250738585072014e-308, 2.225073858507201e-308, 1.7976931348623157e308, 0.1, 0.3, 1 / 3, 2.0 ** -44, 2.0 ** -1022, 9.5367431640625e-07, 1e22, 1e21, 1e16, 123456.0, 9007199254740993.0, 1e-5, 0.0001, 1.5e300, 5e-5]
    lines = []
    for f in doubles:
        e_, c = _exp_c(f); lines.append(f'litrepr {c} {e_}')
    model = run_driver(lines)
    for f, mod in zip(doubles, model):
        evals += 1
        rep.count('repr:' + ('exp-form' if 'e' in repr(f) else 'fixed-form') + (':int' if f.is_integer() else ''))
        if mod != 'ok ' + str(f):
            rep.broke('correspondence', 'C06.float-repr', f'double={f.hex()} python={str(f)} model={mod}')
        rep.distinct.add(('repr', f))

    # ---------------- B. the front end --------------------------------------------------------
    exprs = []
    corpus = ['0.1', '0.1234567890123456789', '1e23', '9007199254740993.0', '9007199254740993', '1e22', '1.5e+300', '123456789.123456789', '1e999', '1e-400',
              '0.1000000000000000055511151231257827021181583404541015625', '5e-324', '4.35', '1_0.0_1e0_1', '0XfF', '00.5', '1.', '.5', '1.e-3', '0.3e1', '1E5', '0.0', '0', '00', '0e0']
    for c in corpus:
        exprs.append((('num', c), 'corpus'))
        exprs.append((('neg', ('num', c), False), 'corpus'))
    for z in ['0.0', '0', '0e5', '0x0', '00.000']:
        exprs.append((('neg', ('neg', ('num', z), False), True), 'corpus'))
        exprs.append((('pos', ('neg', ('num', z), False)), 'corpus'))
    exprs += [(('hexfloat', '-0x0p0'), 'corpus'), (('neg', ('hexfloat', '-0x0p0'), False), 'corpus'), (('neg', ('hexfloat', '0x0.0p9'), False), 'corpus'),
              (('neg', ('rational', ('num', '0'), ('num', '3')), False), 'corpus'), (('rational', ('neg', ('num', '0'), False), ('num', '3')), 'corpus'),
              (('digits', ('num', '3.0'), ('num', '1e1'), ('num', '2')), 'corpus'), (('rational', ('num', '1e23'), ('num', '3')), 'corpus'),
              (('hexfloat', '0x.8'), 'corpus'), (('neg', ('digits', ('num', '0'), ('num', '5'), ('num', '2')), False), 'corpus')]
    for _ in range(n_front):
        exprs.append(gen_expr(R))
    es = [e for e, _ in exprs]
    fns = run_front(es, tmp, 'a')
    # narrow contexts: `fp.round(<expr>)`, for a subset (at most one negation, so that Neg rounds once)
    narrow_idx = [i for i, e in enumerate(es) if neg_depth(e) <= 1 and (i < 120 or R.random() < 0.45)]
    gfns = run_front([es[i] for i in narrow_idx], tmp, 'r', wrap_round=True)
    ctx_objs = [ctx_obj(d) for d in NARROW]

    lines = [f'litfront {drv_tok(e)}' for e in es]
    model = run_driver(lines)
    real_results = {}
    for idx, ((e, cls), fr, line, mod) in enumerate(zip(exprs, fns, lines, model)):
        evals += 1
        text = py_text(e)
        rep.distinct.add(('front', text))
        rep.count('front:' + cls)
        # what the spelling denotes
        try:
            v, s = denote(e); exact = ('fin', v, s if v == 0 else v < 0)
        except Undefined as u:
            exact = ('undef', str(u))
        # the real code under REAL
        node = '-'
        if fr[0] == 'decor-err': observed = ('err', fr[1])
        elif fr[0] == 'skip': continue
        else:
            node = returned_node(fr[1])
            r = call(fr[1], fp.REAL)
            observed = ('err', r[1]) if r[0] == 'err' else obs_value(r[1])
        real_results[idx] = observed
        gs = ('err ' + observed[1]) if observed[0] == 'err' else show_obs(observed)
        # 1. property verdict
        if exact[0] == 'fin':
            okv = observed[0] == 'fin' and observed[1] == exact[1] and (exact[1] != 0 or observed[2] == exact[2])
            rep.count('front-verdict:' + ('exact' if okv else 'WRONG'))
            if not okv:
                cause = cause_of(e, observed, exact)
                violation(rep, 'literal does not evaluate under fp.REAL to the number (signed zero) its spelling denotes', e, cause,
                          {'layer': 'front-end', 'ctx': 'REAL', 'impl': gs, 'node': node,
                           'exact': f'{fmt_frac(exact[1])} nz={b01(exact[1] == 0 and exact[2])}'})
        else:
            rep.count('front-verdict:undefined-spelling')
            if observed[0] != 'err':
                violation(rep, 'an expression without a value (division by zero / outside the grammar) evaluated', e, 'other',
                          {'layer': 'front-end', 'ctx': 'REAL', 'impl': gs, 'node': node})
        # 2. correspondence with the model (value, sign of zero, error kind, AST node)
        mhead = mod.split(' node=')[0]
        mnode = mod.split(' node=')[1] if ' node=' in mod else '-'
        if mhead != gs or (node != '-' and mnode != '-' and mnode != node):
            rep.broke('correspondence', 'C06.front', f'expr={text[:200]} impl={gs[:200]} node={node[:120]} model={mod[:300]}')
        if idx % 150 == 0: rep.sample({'layer': 'front', 'literal': text[:80], 'impl': gs[:80], 'model': mod[:120]})

    # narrow contexts
    nlines, nmeta = [], []
    for j, i in enumerate(narrow_idx):
        e, cls = exprs[i]
        gr = gfns[j]
        if gr[0] != 'fn' or fns[i][0] != 'fn': continue
        try:
            v, s = denote(e); exact = ('fin', v, s if v == 0 else v < 0)
        except Undefined:
            continue
        for ci in R.sample(range(len(NARROW)), 2):
            d, ctx = NARROW[ci], ctx_objs[ci]
            evals += 1
            rep.count('narrow:' + d['fam'])
            operand = Float(s=True, exp=0, c=0) if (exact[1] == 0 and exact[2]) else exact[1]
            try: want = show_res(ctx.round(operand))
            except Exception as ex: want = 'err ' + err_name(ex)   # noqa
            r = call(gr[1], ctx)
            got = ('err ' + r[1]) if r[0] == 'err' else (show_res(r[1]) if isinstance(r[1], Float) else 'unrounded ' + repr(r[1]))
            wv, gv = parse_res(want), parse_res(got) if not got.startswith('unrounded') else ('unrounded',)
            if wv[:2] != gv[:2]:
                # is it the same miss as under REAL?
                cause = 'other'
                ro = real_results.get(i)
                if ro is not None and ro[0] == 'fin' and has_float_token(e):
                    try:
                        alt = show_res(ctx.round(Float(s=True, exp=0, c=0) if (ro[1] == 0 and ro[2]) else ro[1]))
                        if parse_res(alt)[:2] == gv[:2] and cause_of(e, ro, exact) == 'float-path': cause = 'float-path'
                    except Exception: pass   # noqa
                elif ro is not None and ro[0] == 'err' and cause_of(e, ro, exact) == 'float-path': cause = 'float-path'
                elif ro is not None:
                    c2 = cause_of(e, ro, exact)
                    if c2 != 'other' and (ro[0] == 'err' or (ro[0] == 'fin' and ro[1] == 0)): cause = c2
                violation(rep, 'round(<literal>) under a narrow context is not the exact value rounded once', e, cause,
                          {'layer': 'front-end', 'ctx': d, 'impl': got, 'spec': want})
            else:
                rep.count('narrow-verdict:rounded-once')
            # bare `return <literal>` under the narrow context: the literal itself is not rounded
            if neg_depth(e) == 0 or (exact[1] == 0):
                rb = call(fns[i][1], ctx)
                ob = ('err', rb[1]) if rb[0] == 'err' else obs_value(rb[1])
                ro = real_results.get(i)
                rep.count('bare-under-narrow:' + ('same-as-REAL' if ob == ro else 'differs'))
                if ob != ro:
                    rep.broke('correspondence', 'C06.front.bare', f'`return {py_text(e)}` under {d} gives {ob}, under REAL {ro}: the model assumes a literal is not rounded by `return`')
            # model
            if e[0] not in ('neg',) or exact[1] == 0:
                nlines.append(f'litround {ctx_tok(d)} {drv_tok(e)}'); nmeta.append((py_text(e), d, got))
    model = run_driver(nlines) if nlines else []
    for line, (text, d, got), mod in zip(nlines, nmeta, model):
        if verdict_part(mod) != verdict_part(got):
            # a Neg node is not a literal: the model's roundLit refuses it
            if mod == 'err TypeError': rep.count('narrow-model:neg-node-skipped'); continue
            rep.broke('correspondence', 'C06.round', f'expr={text[:200]} ctx={d} impl={got} model={mod}')
        else:
            rep.count('narrow-model:agree')

    rep.cov['evaluations'] = evals
    rep.cov['rule'] = (
        'A util layer: decimal / hex-float strings (rendered from Python-literal generators: 1-60 digits, exponents to +-400, leading/trailing zeros, '
        'padding with every str.isspace class, 25% single-character mutations, 4300-digit limit corpus), digits(m,e,b) with |m|<=10^30, b in [-50,50] and up to 10^6 incl. 0,+-1, '
        'Fraction(p,q) with |p|<=10^40 and q=0; B front end: one-line `return <expr>` functions through the real @fp.fpy under fp.REAL, and `return fp.round(<expr>)` under 2 of 7 narrow contexts; '
        'expr = float tokens (classes short, long 18-60 digits, integers >= 2^53 as floats, exponents +-400, exact expansions of doubles, midpoints between doubles and a hair off, '
        'zero shapes, 15-18 digits; with `_` separators and e/E), int tokens (dec/hex/oct/bin up to 60 digits), hexfloat strings (1-30 hex digits, exponents +-1100), '
        'rational(p,q), digits(m,e,b), each under -, +, --, -+, +-; C: float(<token>) bits and str(double) for tokens and random doubles (subnormals, powers of two, all-ones) vs the model; '
        'distinct = distinct spellings / doubles')
    rep.assumptions += [
        'the spelling\'s value is computed by an independent positional parser (harness/c06.py, Fraction arithmetic); Python float() is used only to classify a failure as F5',
        'grammar of decnum/hexnum strings = the language of the two regular expressions in fpy2/utils/fractions.py (re-implemented by hand in the oracle)',
        '`return <literal>` is not rounded by the context (FPy constants are exact reals); "rounded once" is observed through fp.round(<literal>)',
        'CPython facts modelled and checked each run: float(token) is correctly rounded (RNE) binary64; str(float) is the shortest round-trip decimal, nearest to the value',
        'a violation is tagged F5 only if the observed value is exactly int(f) (f integral) or Fraction(str(f)) (otherwise) for f = float(token), composed through the rest of the expression, and differs from the exact value',
    ]


def _exp_c(f: float):
    """(exp, c) with f = c * 2^exp exactly, f >= 0 finite"""
    if f == 0: return 0, 0
    b = struct.unpack('<Q', struct.pack('<d', f))[0]
    eb = (b >> 52) & 0x7ff; m = b & ((1 << 52) - 1)
    if eb == 0: return -1074, m
    return eb - 1075, m | (1 << 52)


def replay(rep, data):
    """re-run the stored violations on the real code; exit 1 if any still fails"""
    def tup(e): return tuple(tup(x) for x in e) if isinstance(e, list) else e
    tmp = tempfile.mkdtemp(prefix='c06r_', dir='/var/tmp')
    rc = 0
    try:
        vs = data.get('violations', [])
        front = [(i, tup(v['expr'])) for i, v in enumerate(vs) if v.get('layer') == 'front-end' and 'expr' in v]
        fns = run_front([e for _, e in front], tmp, 'replay')
        gfns = run_front([e for _, e in front], tmp, 'replayr', wrap_round=True)
        for (i, e), fr, gr in zip(front, fns, gfns):
            v = vs[i]
            try:
                x, s = denote(e); exact = ('fin', x, s if x == 0 else x < 0)
            except Undefined as u:
                exact = ('undef', str(u))
            if v.get('ctx') == 'REAL':
                if fr[0] != 'fn': observed = ('err', fr[1])
                else:
                    r = call(fr[1], fp.REAL); observed = ('err', r[1]) if r[0] == 'err' else obs_value(r[1])
                ok = exact[0] == 'fin' and observed[0] == 'fin' and observed[1] == exact[1] and (exact[1] != 0 or observed[2] == exact[2])
                if exact[0] != 'fin': ok = observed[0] == 'err'
                print(f'[{i}] {py_text(e)[:70]} under REAL -> {show_obs(observed) if observed[0] != "err" else "err " + observed[1]}'[:200] + f'   exact={"undefined" if exact[0] != "fin" else fmt_frac(exact[1])[:60]}  {"OK now" if ok else "STILL FAILS"}')
            else:
                d = v['ctx']; ctx = ctx_obj(d)
                operand = Float(s=True, exp=0, c=0) if (exact[0] == 'fin' and exact[1] == 0 and exact[2]) else exact[1]
                want = show_res(ctx.round(operand))
                r = call(gr[1], ctx) if gr[0] == 'fn' else ('err', gr[1])
                got = ('err ' + r[1]) if r[0] == 'err' else show_res(r[1])
                ok = parse_res(want)[:2] == parse_res(got)[:2]
                print(f'[{i}] round({py_text(e)[:60]}) under {d} -> {verdict_part(got)}   spec={verdict_part(want)}  {"OK now" if ok else "STILL FAILS"}')
            if not ok: rc = 1
        for i, v in enumerate(vs):
            if v.get('layer') != 'util': continue
            x = v['literal']
            kind = 'hex' if '0x' in x else 'dec'
            o = oracle_hex(x) if kind == 'hex' else oracle_dec(x)
            try:
                got = obs_value(Hexnum(None, x, None).as_real() if kind == 'hex' else Decnum(x, None).as_real())
            except Exception as ex:   # noqa
                got = ('err', err_name(ex))
            ok = (o[0] == 'ok' and got[0] == 'fin' and got[1] == o[1] and (o[1] != 0 or got[2] == o[2])) or (o[0] == 'reject' and got[0] == 'err')
            print(f'[{i}] {kind}num_to_fraction({x!r}) -> {got}  oracle={o}  {"OK now" if ok else "STILL FAILS"}'[:300])
            if not ok: rc = 1
    finally:
        shutil.rmtree(tmp, ignore_errors=True)
    return rc
