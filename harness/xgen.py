"""
xgen — feature-axis synthesiser of FPy programs for transformation testing (C07, C08, C09).

A program is assembled from orthogonal AXES (statement idioms x name-reuse policy x context pattern x inner
context x destructuring depth x side effects on loop-control variables x iterable kind x constant-expression
flavour x callee shape x call position ...).  A greedy covering array gives pairwise coverage of the axis
values; the holes every axis leaves open are filled by seeded random composition (type-directed, so that the
front end accepts the text and most programs return).  Everything derives from one Prng(seed, salt).

Output: `Prog` records = source text of a module with `@fp.fpy` functions, the entry name, designed argument
vectors (as Python source strings, evaluated with `fp` in scope), parameter kinds for random inputs, and
metadata the oracle needs (trip counts of `for` loops for the STRICT precondition, candidate split factors).

Programs are result-sensitive by construction: position-weighted accumulations / Horner forms (a skipped,
repeated or reordered iteration shows), signed zeros and inexact constants (a fold under the wrong context
shows), and every live variable and every list is returned.
"""
from __future__ import annotations
import itertools
from common import Prng

RMS = ['RNE', 'RNA', 'RTP', 'RTN', 'RTZ', 'RAZ', 'RTO', 'RTE']
GENSYM_NAMES = ['t', 't0', 't1', 't3', 'n', 'm', 'i', 'i3', 'j', '_i', '_src', 'acc', 'b', 'ctx', 'k', 'x', 'j7', 't4', 'n2', '_i1']
STATIC_ATTR = ['fp.FP64', 'fp.FP32', 'fp.FP16', 'fp.BF16', 'fp.FP8P4', 'fp.FP8P3', 'fp.TF32', 'fp.FP128']
LOWPREC = ['fp.FP8P4', 'fp.BF16', 'fp.FP8P3', 'fp.MPFloatContext(3, fp.RM.{rm})', 'fp.MPFloatContext(2, fp.RM.{rm})',
           'fp.MPFixedContext(0, fp.RM.{rm})', 'fp.MPFixedContext(2, fp.RM.{rm})', 'fp.IEEEContext(4, 8, fp.RM.{rm})',
           'fp.MPFloatContext(5, fp.RM.{rm})', 'fp.FP8P5', 'fp.IEEEContext(3, 6, fp.RM.{rm})']
STATIC_CTOR = ['fp.IEEEContext(5, 16, fp.RM.{rm})', 'fp.IEEEContext(8, 32, fp.RM.{rm})', 'fp.IEEEContext(11, 64, fp.RM.{rm})',
               'fp.MPFloatContext(12, fp.RM.{rm})', 'fp.MPFloatContext(24, fp.RM.{rm})', 'fp.MPSFloatContext(8, -10, fp.RM.{rm})',
               'fp.MPFixedContext(-8, fp.RM.{rm})', 'fp.IEEEContext(15, 128, fp.RM.{rm})', 'fp.MPFloatContext(60, fp.RM.{rm})']
CTX_ARGS = ['fp.FP64', 'fp.FP32', 'fp.FP16', 'fp.BF16', 'fp.FP8P4', 'fp.IEEEContext(11, 64, fp.RM.RTP)', 'fp.IEEEContext(11, 64, fp.RM.RTN)',
            'fp.IEEEContext(8, 32, fp.RM.RTZ)', 'fp.IEEEContext(5, 16, fp.RM.RAZ)', 'fp.MPFloatContext(3, fp.RM.RNA)',
            'fp.MPFloatContext(40, fp.RM.RTO)', 'fp.IEEEContext(15, 128, fp.RM.RNE)', 'fp.MPFixedContext(-4, fp.RM.RTE)', 'fp.FP128']
CALL_CTXS = [None, 'fp.IEEEContext(5, 16, fp.RM.RTZ)', 'fp.FP8P4', 'fp.BF16', 'fp.MPFloatContext(3, fp.RM.RAZ)', 'fp.FP32',
             'fp.MPFixedContext(0, fp.RM.RNE)', 'fp.IEEEContext(8, 32, fp.RM.RTP)']
LITS = ['0', '1', '2', '3', '7', '10', '0.5', '0.25', '1.5', '0.1', '0.3', '2.75', '100', '0.001', '1e3', '-1', '-0.0', '0.0', '5', '0.75', '-2.5']
EXACT_LITS = ['0', '1', '2', '3', '7', '10', '5', '-1', '100']

AXES = {
    'names':    ['fresh', 'shadow', 'gensym', 'mixed'],
    'ctx':      ['none', 'static-attr', 'static-ctor', 'lowprec', 'ctx-arg', 'computed-ctor', 'nested-dyn', 'decorator', 'as-target', 'nested-static'],
    'inner':    ['none', 'INTEGER', 'REAL', 'static', 'dyn'],
    'destruct': ['none', 'pair', 'nested', 'underscore', 'swap'],
    'effect':   ['none', 'reassign-factor', 'reassign-bound', 'mutate-list', 'rebind-list', 'reassign-index', 'loopvar-after', 'early-return', 'flag'],
    'iter':     ['list', 'range-lit', 'range-len', 'range3', 'literal', 'zip', 'enumerate', 'enum-zip', 'pairs', 'nested-pairs', 'slice', 'comp', 'local-lit'],
    'fold':     ['none', 'third', 'tenth', 'signed-zero', 'ops', 'compare', 'const-list', 'len-lit'],
    'wrap':     ['top', 'branch', 'loop', 'with'],
    'rm':       RMS,
}
AXES_C09 = {
    'callee':   ['leaf', 'own-ctx', 'mutates', 'ret-in-with', 'multi-ret', 'chain', 'clash-names', 'free-var', 'loop-body', 'tuple-ret', 'const', 'only-return', 'zero-param', 'with-as'],
    'callpos':  ['assign', 'twice', 'after-read', 'loop', 'nested-with', 'arg-effect', 'if-cond', 'while-cond', 'comp-elt', 'ifexpr', 'and-or', 'ctx-expr', 'effect-stmt', 'return', 'chain-cmp', 'index'],
}
IDIOMS = {
    'C07': ['copy-shadow', 'fold-ctx', 'phi-chain', 'swap-loop', 'dead', 'alias', 'for-acc', 'argmax', 'ctx-as', 'reduce', 'while', 'zipcomp', 'filler'],
    'C08': ['for-acc', 'lowprec-loop', 'while', 'reduce', 'zipcomp', 'swap-loop', 'argmax', 'nested-loops', 'split-factor', 'static-loop', 'copy-shadow', 'filler'],
    'C09': ['call', 'call', 'lift', 'free-var', 'for-acc', 'fold-ctx', 'copy-shadow', 'ctx-as', 'filler'],
}


class Prog:
    """one generated test program"""
    __slots__ = ('label', 'entry', 'src', 'args', 'kinds', 'pnames', 'axes', 'loops', 'factors', 'ctxs', 'pinned', 'samelen', 'quadratic', 'pre', 'helpers', 'assigned', 'corpus_file', 'export', 'decl')
    def __init__(self, **kw):
        for k in self.__slots__: setattr(self, k, kw.get(k))
    def to_dict(self):
        return {k: getattr(self, k) for k in self.__slots__}


def covering_rows(R, axes: dict, n_min: int):
    """greedy pairwise covering array over `axes`; at least n_min rows (extra rows are random)"""
    names = list(axes)
    uncovered = set()
    for a, b in itertools.combinations(names, 2):
        for va in axes[a]:
            for vb in axes[b]: uncovered.add((a, va, b, vb))
    rows = []
    while uncovered:
        best, bestc = None, -1
        for _ in range(30):
            row = {a: R.choice(axes[a]) for a in names}
            # seed the candidate with one uncovered pair so progress is guaranteed
            if _ % 2 == 0:
                a, va, b, vb = R.choice(sorted(uncovered)[:50]) if len(uncovered) > 50 else R.choice(sorted(uncovered))
                row[a] = va; row[b] = vb
            c = sum(1 for a, b in itertools.combinations(names, 2) if (a, row[a], b, row[b]) in uncovered)
            if c > bestc: best, bestc = row, c
        rows.append(best)
        for a, b in itertools.combinations(names, 2): uncovered.discard((a, best[a], b, best[b]))
    while len(rows) < n_min:
        rows.append({a: R.choice(axes[a]) for a in names})
    return rows


class FB:
    """builder of one function: tracks definitely-bound names and their types, emits indented source lines"""
    def __init__(self, G, name, params, decl=None, allow_calls=True):
        self.G = G; self.R = G.R; self.ax = G.ax
        self.name = name
        self.params = list(params)           # (name, type)
        self.env = {n: t for n, t in params}
        self.assigned = set()
        self.multi = set()                   # names (re)bound more than once or by a binder
        self.copied = []
        self.lines = []
        self.ind = 1
        self.decl = decl
        self.loops = []                      # trip-count expression (python, over parameter names) per `for`, visit order
        self.loop_deps = []
        self.fresh = itertools.count(1)
        self.allow_calls = allow_calls
        self.exact = 0                       # >0 inside REAL/INTEGER blocks: only exact operations
        self.in_loop = 0
        self.realised = set()
        self.quadratic = False
        self.loopdepth = 0
        self.hidden = set()                  # names never read again (dead)
        self.ctxvars = []

    # ------------------------------------------------------------------ plumbing
    def emit(self, s): self.lines.append('    ' * self.ind + s)
    def names(self, ty): return [n for n, t in self.env.items() if t == ty and n not in self.hidden]
    def mark(self, axis): self.realised.add(axis)

    def new(self, ty, role='local', hint=None):
        """a name for a new binding, chosen by the name-reuse policy"""
        R = self.R; pol = self.ax['names']
        if pol == 'mixed': pol = R.choice(['fresh', 'shadow', 'gensym'])
        if pol == 'shadow' and role in ('binder', 'comp') and ty == 'R':
            cands = [n for n in self.copied if self.env.get(n) in ('R', 'I')] * 3 + [n for n, t in self.params if t in ('R', 'I')] + self.names('R')
            if cands and R.random() < 0.75:
                self.mark('names'); n = R.choice(cands)
                if self.env.get(n, 'R') in ('R', 'I'): return n
        if pol == 'gensym':
            cands = [g for g in GENSYM_NAMES if self.env.get(g, ty) == ty and g not in self.G.reserved]
            if cands and R.random() < 0.8:
                self.mark('names'); return R.choice(cands)
        if pol == 'shadow' and role == 'local' and ty == 'R' and R.random() < 0.25 and self.names('R'):
            return R.choice(self.names('R'))
        self.mark('names') if pol == 'fresh' else None
        while True:
            n = f'{hint or "v"}{next(self.fresh)}'
            if n not in self.env and all(n != p for p, _ in self.params): return n

    def touch(self, n):
        if n in self.assigned or any(n == p for p, _ in self.params): self.multi.add(n)
        self.assigned.add(n)

    def bind(self, n, ty):
        self.env[n] = ty; self.touch(n); self.hidden.discard(n)

    # ------------------------------------------------------------------ expressions
    def lit(self):
        return self.R.choice(EXACT_LITS if self.exact else LITS)

    def const_expr(self):
        """a constant-only expression (what ConstFold evaluates under the statically known context)"""
        R = self.R; f = self.ax['fold']
        if f == 'none': f = R.choice(['third', 'ops', 'tenth'])
        self.mark('fold')
        if self.exact:
            return R.choice(['(1 + 2)', '(3 * 7)', '(10 - 3)', '(2 * 2 * 2)', '(0 * -1)', 'len([1, 2, 3])'])
        if f == 'third': return R.choice(['(1.0 / 3.0)', '(2 / 3)', '(1 / 7)', '(10 / 3)', '(1.0 / 3.0 + 1.0 / 3.0)'])
        if f == 'tenth': return R.choice(['(1.0 / 10.0)', '(0.1 + 0.2)', '(0.1 * 3)', '(1e3 + 0.001)', '(0.3 - 0.1)'])
        if f == 'signed-zero': return R.choice(['(0 * -1)', '(-0.0 + 0)', '(-0.0 * 1)', '(0.0 - 0.0)', '(-(0.0))', '(-0.0 - 0)', '(-1 * 0.0)'])
        if f == 'ops': return R.choice(['fp.sqrt(2)', 'fp.fma(0.1, 0.1, 1)', 'abs(-0.3 * 0.3)', 'max(0.1 + 0.2, 0.3)', 'fp.sqrt(0.1 + 0.9)', '(1 / 3 * 3)', 'min(1 / 3, 0.333)'])
        if f == 'compare': return R.choice(['(1.0 if 0.1 + 0.2 == 0.3 else 2.0)', '(1.0 if 1 / 3 < 0.3333333 else -1.0)', '(3.0 if 1 < 2 else 4.0)'])
        if f == 'const-list': return R.choice(['[1 / 3, 0.1, 2][0]', '[0.1, 0.2, 0.3][1 + 1]', 'sum([0.1, 0.2, 0.3])', 'max([0.1, 1 / 3])'])
        if f == 'len-lit': return R.choice(['len([1, 2, 3])', '(len([0.1]) / 3)', 'len([[1], [2]])'])
        return '(1 / 3)'

    def rexp(self, d=2):
        R = self.R
        reals = self.names('R') + self.names('I')
        lists = self.names('L')
        opts = ['var'] * 5 + ['lit'] * 2
        if d > 0:
            opts += ['add', 'sub', 'mul', 'add', 'mul', 'neg', 'abs', 'min', 'max', 'ite', 'const']
            if not self.exact: opts += ['div', 'sqrt', 'fma', 'const']
            if lists: opts += ['idx', 'sum', 'len', 'idx', 'suml']
            if self.G.helpers and self.allow_calls and self.G.prop == 'C09': opts += ['call'] * 3
        c = R.choice(opts)
        if c == 'var' and reals: return R.choice(reals)
        if c in ('var', 'lit'): return self.lit()
        X = lambda: self.rexp(d - 1)
        if c == 'add': return f'({X()} + {X()})'
        if c == 'sub': return f'({X()} - {X()})'
        if c == 'mul': return f'({X()} * {X()})'
        if c == 'div': return f'({X()} / {R.choice(["2", "3", "7", "10", X()])})'
        if c == 'neg': return f'(-{X()})'
        if c == 'abs': return f'abs({X()})'
        if c == 'sqrt': return f'fp.sqrt(abs({X()}))'
        if c == 'fma': return f'fp.fma({X()}, {X()}, {X()})'
        if c in ('min', 'max'): return f'{c}({X()}, {X()})'
        if c == 'ite': return f'({X()} if {self.bexp(d - 1)} else {X()})'
        if c == 'const': return self.const_expr()
        if c == 'idx':
            l = R.choice(lists); j = R.choice(['0', '0', '1', '2'])
            return f'({l}[{j}] if len({l}) > {j} else {X()})'
        if c == 'sum': return f'sum({self.lexp(d - 1)})' if not self.exact else f'len({R.choice(lists)})'
        if c == 'suml': return f'sum({R.choice(lists)})' if not self.exact else f'len({R.choice(lists)})'
        if c == 'len': return f'len({R.choice(lists)})'
        if c == 'call': return self.call_expr(d - 1)
        return '1'

    def bexp(self, d=1):
        R = self.R
        opts = ['cmp'] * 5 + ['bvar']
        if d > 0: opts += ['not', 'and', 'or', 'chain', 'pred']
        if d > 0 and self.names('L'): opts += ['any', 'all']
        c = R.choice(opts)
        if c == 'bvar':
            bs = self.names('B')
            return R.choice(bs) if bs else R.choice(['True', 'False'])
        if c == 'cmp': return f'({self.rexp(d)} {R.choice(["<", "<=", ">", ">=", "==", "!="])} {self.rexp(d)})'
        if c == 'chain': return f'({self.rexp(0)} {R.choice(["<", "<="])} {self.rexp(d)} {R.choice(["<", "<=", ">"])} {self.rexp(0)})'
        if c == 'not': return f'(not {self.bexp(d - 1)})'
        if c in ('and', 'or'): return f'({self.bexp(d - 1)} {c} {self.bexp(d - 1)})'
        if c == 'pred': return f'fp.{R.choice(["isnan", "isinf", "isfinite", "signbit"])}({self.rexp(d - 1)})'
        if c in ('any', 'all'):
            x = self.new('R', 'comp', 'c')
            l = R.choice(self.names('L'))
            return f'{c}([{x} {R.choice(["<", ">", ">=", "!="])} {self.rexp(0)} for {x} in {l}])'
        return 'True'

    def lexp(self, d=1):
        R = self.R
        ls = self.names('L')
        opts = ['var'] * 4 + ['lit']
        if d > 0:
            opts += ['comp', 'range', 'lit']
            if ls: opts += ['slice', 'comp', 'zipcomp', 'enumcomp']
        c = R.choice(opts)
        if c == 'var' and ls: return R.choice(ls)
        if c in ('var', 'lit'): return '[' + ', '.join(self.rexp(max(d - 1, 0)) for _ in range(R.randint(0, 3))) + ']'
        if c == 'range': return f'[{self.lit()} for _ in range({R.choice(["0", "1", "3"])})]'
        if c == 'slice':
            l = R.choice(ls)
            return R.choice([f'{l}[min(1, len({l})):]', f'{l}[:min(2, len({l}))]', f'{l}[0:len({l})]', f'{l}[:]', f'{l}[1:]'])
        x = self.new('R', 'comp', 'c')
        old = self.env.get(x); self.env[x] = 'R'
        try:
            if c == 'comp':
                src = R.choice(ls) if ls and R.random() < 0.8 else f'range({R.choice(["2", "3", "4"])})'
                return f'[{self.rexp(max(d - 1, 1))} for {x} in {src}]'
            y = self.new('R', 'comp', 'd')
            if y == x: y = y + 'q'
            oldy = self.env.get(y); self.env[y] = 'R'
            try:
                l = R.choice(ls)
                if c == 'zipcomp': return f'[{self.rexp(1)} for {x}, {y} in zip({l}, {l})]'
                return f'[{self.rexp(1)} for {x}, {y} in enumerate({l})]'
            finally:
                if oldy is None: self.env.pop(y, None)
                else: self.env[y] = oldy
        finally:
            if old is None: self.env.pop(x, None)
            else: self.env[x] = old

    def call_expr(self, d=1):
        R = self.R
        h = R.choice(list(self.G.helpers))
        ptys = self.G.helpers[h]['ptys']
        args = []
        for t in ptys:
            if t == 'L':
                ls = self.names('L')
                args.append(R.choice(ls) if ls else '[1.0, 2.0]')
            else: args.append(self.rexp(d))
        if self.G.helpers[h].get('tuple'): self.G.noexp = True
        return f'{h}(' + ', '.join(args) + ')' + ('[0]' if self.G.helpers[h].get('tuple') else '')

    # ------------------------------------------------------------------ contexts
    def rm(self):
        return self.ax['rm'] if self.R.random() < 0.7 else self.R.choice(RMS)

    def ctx_src(self, kind):
        """source text of a context expression of the given kind; ('exact' flag) says whether only exact ops are safe"""
        R = self.R
        if kind == 'static-attr': return R.choice(STATIC_ATTR), False
        if kind == 'static-ctor':
            if R.random() < 0.25: return self.const_arith_ctor(), False
            return R.choice(STATIC_CTOR).format(rm=self.rm()), False
        if kind == 'lowprec': return R.choice(LOWPREC).format(rm=self.rm()), False
        if kind == 'INTEGER': return 'fp.INTEGER', True
        if kind == 'REAL': return 'fp.REAL', True
        if kind == 'ctx-arg':
            cs = self.names('C')
            if cs: return R.choice(cs), False
            return 'fp.FP32', False
        if kind == 'computed-ctor':
            if R.random() < 0.15: return self.const_arith_ctor(), False
            qs = self.names('Q'); ls = self.names('L')
            forms = []
            if qs:
                q = R.choice(qs)
                forms += [f'fp.MPFloatContext({q}, fp.RM.{self.rm()})', f'fp.IEEEContext(15, {q} + 70, fp.RM.{self.rm()})', f'fp.MPFloatContext({q} + 1)',
                          f'fp.MPFixedContext(0 - {q}, fp.RM.{self.rm()})', f'fp.MPSFloatContext({q}, -20, fp.RM.{self.rm()})', f'fp.IEEEContext(8, {q} + 12)']
            if ls:
                l = R.choice(ls); forms += [f'fp.MPFloatContext(len({l}) + 2, fp.RM.{self.rm()})', f'fp.MPFixedContext(0 - len({l}))']
            if not forms: return 'fp.FP32', False
            return R.choice(forms), False
        return 'fp.FP64', False

    def const_arith_ctor(self):
        """a context constructor whose arguments are constant ARITHMETIC (statically evaluable, but not literals), possibly through a local constant"""
        R = self.R; rm = self.rm()
        if R.random() < 0.4:
            p = f'p{next(self.fresh)}'
            self.emit(f'{p} = {R.choice(["8", "3", "11", "4"])}')
            return R.choice([f'fp.MPFloatContext({p} + 1, fp.RM.{rm})', f'fp.IEEEContext(5, {p} * 2 + 10, fp.RM.{rm})', f'fp.MPFixedContext(0 - {p}, fp.RM.{rm})'])
        return R.choice([f'fp.MPFloatContext(8 + 1, fp.RM.{rm})', f'fp.MPFloatContext(2 * 2 + 1, fp.RM.{rm})', f'fp.IEEEContext(4 + 1, 8 * 2, fp.RM.{rm})',
                         f'fp.MPFixedContext(0 - 3, fp.RM.{rm})', f'fp.MPFloatContext(len([1, 2, 3]) + 9, fp.RM.{rm})', f'fp.IEEEContext(8, 16 + 16, fp.RM.{rm})'])

    def open_with(self, kind, as_name=None):
        src, exact = self.ctx_src(kind)
        self.emit(f'with {src}' + (f' as {as_name}' if as_name else '') + ':')
        self.ind += 1
        if exact: self.exact += 1
        return exact

    def close_with(self, exact):
        self.ind -= 1
        if exact: self.exact -= 1

    def inner_kind(self):
        k = self.ax['inner']
        if k == 'none': self.mark('inner'); return None
        self.mark('inner')
        if k == 'static': return self.R.choice(['static-attr', 'static-ctor', 'lowprec'])
        if k == 'dyn': return self.R.choice(['ctx-arg', 'computed-ctor'])
        return k

    # ------------------------------------------------------------------ small statement pieces
    def acc_var(self):
        rs = [n for n in self.names('R') if n not in [p for p, _ in self.params]]
        if rs and self.R.random() < 0.7: return self.R.choice(rs)
        a = self.new('R', 'local', 'acc')
        self.emit(f'{a} = {self.lit()}'); self.bind(a, 'R')
        return a

    def accumulate(self, acc, x, w=None):
        """one position-sensitive accumulation step"""
        R = self.R
        ik = self.inner_kind() if R.random() < 0.8 else None
        ex = self.open_with(ik) if ik else False
        if self.exact:
            if w is not None:
                self.emit(f'{acc} = {acc} + {x} * {w}'); self.emit(f'{w} = {w} + 1')
            else:
                self.emit(f'{acc} = {acc} * {R.choice(["2", "3", "-1"])} + {x}')
        else:
            form = R.choice(['horner', 'horner', 'weighted', 'mix', 'sub'])
            if form == 'weighted' and w is not None:
                self.emit(f'{acc} = {acc} + {x} * {w}'); self.emit(f'{w} = {w} + 1')
            elif form == 'mix': self.emit(f'{acc} = fp.fma({acc}, {R.choice(["0.5", "2", "1.5", "-1"])}, {x}) + {self.rexp(1)}')
            elif form == 'sub': self.emit(f'{acc} = {x} - {acc} / {R.choice(["2", "3", "10"])}')
            else: self.emit(f'{acc} = {acc} * {R.choice(["2", "3", "0.5", "10", "-2", "1.5"])} + {x}')
        if ik: self.close_with(ex)

    def tuple_assign(self, names=None, in_branch=False):
        """destructuring assignment onto (mostly existing) real variables, shape chosen by the `destruct` axis"""
        R = self.R; d = self.ax['destruct']
        if d == 'none': d = R.choice(['pair', 'swap', 'nested', 'underscore'])
        self.mark('destruct')
        rs = names or self.names('R')
        while len(rs) < 3:
            n = self.new('R', 'local'); self.emit(f'{n} = {self.lit()}'); self.bind(n, 'R'); rs = self.names('R')
        a, b, c = R.sample(rs, 3) if len(set(rs)) >= 3 else (rs[0], rs[1], rs[2])
        if d == 'swap':
            self.emit(R.choice([f'{a}, {b} = {b}, {a} + {b}', f'{a}, {b} = {b}, {a}', f'({a}, {b}) = ({b} * 2, {a} - 1)', f'{a}, {b}, {c} = {c}, {a}, {b}']))
        elif d == 'pair':
            self.emit(f'({a}, {b}) = ({self.rexp(1)}, {self.rexp(1)})')
        elif d == 'nested':
            self.emit(R.choice([f'(({a}, {b}), {c}) = (({self.rexp(1)}, {self.rexp(1)}), {self.rexp(1)})',
                                f'({a}, ({b}, {c})) = ({self.rexp(1)}, ({b} + 1, {a}))',
                                f'(({a}, _), ({b}, {c})) = (({b}, {self.rexp(0)}), ({self.rexp(1)}, {a}))']))
        else:
            self.emit(R.choice([f'({a}, _) = ({self.rexp(1)}, {self.rexp(1)})', f'(_, {b}) = ({a}, {self.rexp(1)})',
                                f'({a}, (_, {b})) = ({b}, ({a}, {self.rexp(1)}))', f'(_, _) = ({self.rexp(1)}, {self.rexp(1)})',
                                f'({a}, _, {c}) = ({c}, {b}, {a})']))
        for n in (a, b, c): self.touch(n); self.multi.add(n)

    def ret_tuple(self):
        rs = (self.names('R') + self.names('I'))[:12]
        parts = rs + self.names('B')[:3] + self.names('L')[:4] + self.names('P')[:1] + self.names('N')[:1]
        if not parts: parts = ['0']
        return '(' + ', '.join(parts) + (',' if len(parts) == 1 else '') + ')'

    # ------------------------------------------------------------------ iterables / loop headers
    def iterable(self, kind=None):
        """(target text, iterable text, bound element names [(name, type)], trip expr, deps, setup lines)"""
        R = self.R
        kind = kind or self.ax['iter']
        ls = self.names('L'); ps = self.names('P'); ns = self.names('N'); Is = self.names('I')
        if kind in ('list', 'zip', 'enumerate', 'enum-zip', 'slice', 'comp', 'range-len', 'range3') and not ls: kind = 'range-lit'
        if kind == 'pairs' and not ps: kind = 'range-lit'
        if kind == 'nested-pairs' and not ns: kind = 'range-lit'
        self.mark('iter')
        x = self.new('R', 'binder', 'e')
        if kind == 'list':
            l = R.choice(ls); return x, l, [(x, 'R')], f'len({l})', {l}
        if kind == 'range-lit':
            n = R.choice([0, 1, 2, 3, 4, 5, 7])
            if Is and R.random() < 0.4:
                k = R.choice(Is); return x, f'range({k})', [(x, 'R')], f'max(int({k}), 0)', {k}
            return x, f'range({n})', [(x, 'R')], str(n), set()
        if kind == 'range-len':
            l = R.choice(ls)
            if R.random() < 0.5: return x, f'range(len({l}))', [(x, 'R')], f'len({l})', {l}
            return x, f'range(1, len({l}))', [(x, 'R')], f'max(len({l}) - 1, 0)', {l}
        if kind == 'range3':
            l = R.choice(ls); st = R.choice([2, 3])
            return x, f'range(0, len({l}), {st})', [(x, 'R')], f'(len({l}) + {st - 1}) // {st}', {l}
        if kind == 'literal':
            n = R.randint(1, 5); return x, '[' + ', '.join(self.rexp(1) for _ in range(n)) + ']', [(x, 'R')], str(n), set()
        if kind == 'local-lit':
            n = R.randint(2, 6); z = self.new('L', 'local', 'zs')
            self.emit(f'{z} = [' + ', '.join(self.rexp(0) for _ in range(n)) + ']'); self.bind(z, 'L')
            return x, z, [(x, 'R')], str(n), {z}
        if kind == 'slice':
            l = R.choice(ls)
            r = R.random()
            if r < 0.4: return x, f'{l}[min(1, len({l})):]', [(x, 'R')], f'max(len({l}) - 1, 0)', {l}
            if r < 0.7: return x, f'{l}[:min(2, len({l}))]', [(x, 'R')], f'min(len({l}), 2)', {l}
            if r < 0.85: return x, f'{l}[0:len({l})]', [(x, 'R')], f'len({l})', {l}
            return x, f'{l}[1:]', [(x, 'R')], f'max(len({l}) - 1, 0)', {l}
        if kind == 'comp':
            l = R.choice(ls); c = self.new('R', 'comp', 'c')
            return x, f'[{c} * 2 + 1 for {c} in {l}]', [(x, 'R')], f'len({l})', {l}
        y = self.new('R', 'binder', 'f')
        if y == x: y = y + 'b'
        if kind == 'zip':
            l = R.choice(ls); l2 = self.G.partner.get(l, l) if R.random() < 0.6 else l
            if l2 not in self.env: l2 = l
            form = R.choice(['pair', 'pair', 'whole', 'under'])
            if form == 'whole':
                x = f'pr{next(self.fresh)}'
                return x, f'zip({l}, {l2})', [(x, 'T')], f'len({l})', {l, l2}
            if form == 'under': return f'{x}, _', f'zip({l}, {l2})', [(x, 'R')], f'len({l})', {l, l2}
            return f'{x}, {y}', f'zip({l}, {l2})', [(x, 'R'), (y, 'R')], f'len({l})', {l, l2}
        if kind == 'enumerate':
            l = R.choice(ls)
            form = R.choice(['pair', 'pair', 'under'])
            if form == 'under': return f'_, {y}', f'enumerate({l})', [(y, 'R')], f'len({l})', {l}
            return f'{x}, {y}', f'enumerate({l})', [(x, 'R'), (y, 'R')], f'len({l})', {l}
        z = self.new('R', 'binder', 'g')
        if z in (x, y): z = z + 'c'
        if kind == 'enum-zip':
            l = R.choice(ls); l2 = self.G.partner.get(l, l)
            if l2 not in self.env: l2 = l
            return f'{x}, ({y}, {z})', f'enumerate(zip({l}, {l2}))', [(x, 'R'), (y, 'R'), (z, 'R')], f'len({l})', {l, l2}
        if kind == 'pairs':
            p = R.choice(ps)
            if R.random() < 0.3: return f'{x}, _', p, [(x, 'R')], f'len({p})', {p}
            return f'({x}, {y})', p, [(x, 'R'), (y, 'R')], f'len({p})', {p}
        if kind == 'nested-pairs':
            p = R.choice(ns)
            if R.random() < 0.3: return f'({x}, _), {z}', p, [(x, 'R'), (z, 'R')], f'len({p})', {p}
            return f'({x}, {y}), {z}', p, [(x, 'R'), (y, 'R'), (z, 'R')], f'len({p})', {p}
        return x, 'range(2)', [(x, 'R')], '2', set()

    def open_for(self, kind=None):
        tgt, it, bound, trip, deps = self.iterable(kind)
        self.emit(f'for {tgt} in {it}:')
        self.loops.append(trip); self.loop_deps.append(set(deps))
        self.ind += 1; self.in_loop += 1; self.loopdepth += 1
        if self.loopdepth >= 2: self.quadratic = True
        saved = {n: self.env.get(n) for n, _ in bound}
        for n, t in bound:
            self.env[n] = t; self.touch(n); self.multi.add(n)
        return bound, saved, it

    def close_for(self, bound, saved, keep=False):
        self.ind -= 1; self.in_loop -= 1; self.loopdepth -= 1
        for n, t in bound:
            if saved[n] is None:
                if not keep: self.env.pop(n, None)
            # a binder that shadowed an existing name stays bound (to the last element, or the old value)

    # ------------------------------------------------------------------ scoping helper
    def scope_begin(self): return dict(self.env)
    def scope_end(self, snap):
        """names first bound inside a branch / loop body are not definitely bound afterwards"""
        for n in list(self.env):
            if n not in snap: del self.env[n]
            else: self.env[n] = snap[n] if snap[n] == self.env[n] else self.env[n]

    def real_of(self, bound):
        rs = [n for n, t in bound if t == 'R']
        if rs: return self.R.choice(rs)
        self.G.noexp = True
        return f'{bound[0][0]}[0]'

    # ------------------------------------------------------------------ filler statements
    def filler(self, depth=1):
        nl = len(self.lines)
        self._filler(depth)
        if len(self.lines) == nl:
            x = self.new('R'); self.emit(f'{x} = {self.rexp(1)}'); self.bind(x, 'R')

    def _filler(self, depth=1):
        R = self.R
        kinds = ['assign', 'assign', 'newvar', 'newvar', 'copy']
        if depth > 0: kinds += ['if', 'if1', 'with', 'tuple', 'iassign', 'assert', 'newlist', 'dead']
        k = R.choice(kinds)
        if k == 'assign' and self.names('R'):
            x = R.choice(self.names('R')); self.emit(f'{x} = {self.rexp(2)}'); self.touch(x)
        elif k in ('assign', 'newvar'):
            x = self.new('R'); self.emit(f'{x} = {self.rexp(2)}'); self.bind(x, 'R')
        elif k == 'copy':
            srcs = self.names('R') + self.names('I')
            if srcs:
                y = R.choice(srcs); t = self.new('R', 'local', 't'); 
                if t != y:
                    self.emit(f'{t} = {y}'); self.bind(t, 'R'); self.copied.append(y)
        elif k == 'newlist':
            x = self.new('L', 'local', 'l'); self.emit(f'{x} = {self.lexp(2)}'); self.bind(x, 'L')
        elif k == 'dead':
            x = f'd{next(self.fresh)}'; self.emit(f'{x} = {self.rexp(2)}')
        elif k == 'tuple': self.tuple_assign()
        elif k == 'iassign' and self.names('L'):
            l = R.choice(self.names('L')); j = R.choice(['0', '1', '2'])
            self.emit(f'if len({l}) > {j}:'); self.ind += 1; self.emit(f'{l}[{j}] = {self.rexp(1)}'); self.ind -= 1
        elif k == 'assert':
            self.emit(f'assert {self.bexp(1)} or True' + (R.choice(['', ', "m"'])))
        elif k == 'if':
            self.emit(f'if {self.bexp(1)}:'); self.ind += 1; s = self.scope_begin()
            for _ in range(R.randint(1, 2)): self.filler(depth - 1)
            self.scope_end(s); self.ind -= 1; self.emit('else:'); self.ind += 1; s = self.scope_begin()
            for _ in range(R.randint(1, 2)): self.filler(depth - 1)
            self.scope_end(s); self.ind -= 1
        elif k == 'if1':
            self.emit(f'if {self.bexp(1)}:'); self.ind += 1; s = self.scope_begin()
            for _ in range(R.randint(1, 2)): self.filler(depth - 1)
            self.scope_end(s); self.ind -= 1
        elif k == 'with':
            ex = self.open_with(R.choice(['static-attr', 'static-ctor', 'lowprec', 'ctx-arg', 'computed-ctor', 'INTEGER', 'REAL']))
            for _ in range(R.randint(1, 2)): self.filler(depth - 1)
            self.close_with(ex)
        else:
            x = self.new('R'); self.emit(f'{x} = {self.rexp(1)}'); self.bind(x, 'R')

    # ------------------------------------------------------------------ loop idioms
    def loop_body(self, bound, acc, w, it, deps, depth):
        R = self.R; eff = self.ax['effect']
        x = self.real_of(bound)
        Is = self.names('I')
        lists = [d for d in deps if self.env.get(d) == 'L']
        flag = None
        if eff == 'reassign-index' and R.random() < 0.8:
            b0 = bound[0][0]
            if (b0, 'R') in bound: self.emit(f'{b0} = {b0} + {R.choice(["1", "2", "0.5"])}'); self.mark('effect')
        if eff == 'early-return' and R.random() < 0.7:
            self.emit(f'if {x} {R.choice([">", "<", "=="])} {self.rexp(0)}:'); self.ind += 1
            self.emit(f'return {self.ret_tuple()}'); self.ind -= 1; self.mark('effect')
        self.accumulate(acc, x, w)
        if len([1 for n, t in bound if t == 'R']) > 1 and R.random() < 0.7:
            y = [n for n, t in bound if t == 'R' and n != x][0]
            self.emit(f'{acc} = {acc} + {y} * {R.choice(["0.5", "2", "3"]) if not self.exact else "2"}')
        if eff == 'reassign-factor' and Is:
            k = R.choice(Is); self.emit(R.choice([f'{k} = {k} - 1', f'{k} = {k} + 1', f'{k} = {k} * 2', f'{k} = 1'])); self.touch(k); self.multi.add(k); self.mark('effect')
        if eff == 'mutate-list' and lists:
            l = R.choice(lists); j = R.choice(['0', '1', '2', '3'])
            self.emit(f'if len({l}) > {j}:'); self.ind += 1; self.emit(f'{l}[{j}] = {x} + {R.choice(["1", acc, "0.5"])}'); self.ind -= 1; self.mark('effect')
        if eff == 'rebind-list' and lists:
            l = R.choice(lists); c = self.new('R', 'comp', 'c')
            self.emit(R.choice([f'{l} = {l}[min(1, len({l})):]', f'{l} = [{c} + 1 for {c} in {l}]', f'{l} = {l}[:min(1, len({l}))]', f'{l} = [{x}, {acc}]'])); self.touch(l); self.multi.add(l); self.mark('effect')
        if self.G.mut_helper and lists and R.random() < 0.3:
            self.emit(f'{acc} = {acc} + {self.G.mut_helper}({R.choice(lists)}, {x})'); self.mark('effect') if eff == 'mutate-list' else None
        r = R.random()
        if r < 0.35:
            self.emit(f'if {x} {R.choice([">", "<", ">=", "!="])} {R.choice([acc, self.rexp(0)])}:'); self.ind += 1; s = self.scope_begin()
            if R.random() < 0.6: self.tuple_assign()
            else: self.emit(f'{acc} = {self.rexp(1)} + {x}')
            self.scope_end(s); self.ind -= 1
        elif r < 0.5 and depth > 0:
            self.nested_for(acc, x, depth - 1)
        elif r < 0.6:
            self.filler(0)

    def nested_for(self, acc, x, depth):
        bound, saved, it = self.open_for(self.R.choice(['list', 'range-lit', 'zip', 'enumerate', 'literal', 'range-len', 'pairs']))
        y = self.real_of(bound)
        self.emit(f'{acc} = {acc} * {self.R.choice(["2", "3", "0.5"]) if not self.exact else "2"} + {x} * {y}')
        self.close_for(bound, saved)

    def idiom_for_acc(self, kind=None, depth=1, force_inner=None):
        R = self.R; eff = self.ax['effect']
        if eff == 'none': self.mark('effect')
        acc = self.acc_var()
        w = None
        if R.random() < 0.6:
            w = self.new('R', 'local', 'w')
            if w != acc: self.emit(f'{w} = 1'); self.bind(w, 'R')
            else: w = None
        flag = None
        if eff == 'flag':
            flag = self.new('B', 'local', 'done'); self.emit(f'{flag} = False'); self.bind(flag, 'B'); self.mark('effect')
        if eff == 'reassign-bound' and R.random() < 0.8:
            nb = self.new('R', 'local', 'nb'); ls = self.names('L'); Is = self.names('I')
            src = f'len({R.choice(ls)})' if ls and R.random() < 0.7 else (R.choice(Is) if Is else '4')
            self.emit(f'{nb} = {src}'); self.bind(nb, 'R')
            x = self.new('R', 'binder', 'e')
            self.emit(f'for {x} in range({nb}):'); self.loops.append(None); self.loop_deps.append(set())
            self.ind += 1; self.in_loop += 1; self.loopdepth += 1
            old = self.env.get(x); self.env[x] = 'R'; self.touch(x); self.multi.add(x)
            self.accumulate(acc, x, w)
            self.emit(R.choice([f'{nb} = {nb} - 1', f'{nb} = {nb} + 1', f'{nb} = 0'])); self.touch(nb); self.mark('effect')
            self.ind -= 1; self.in_loop -= 1; self.loopdepth -= 1
            if old is None: self.env.pop(x, None)
            return
        saved_inner = self.ax['inner']
        if force_inner: self.ax = dict(self.ax, inner=force_inner)
        tgt, it, bound, trip, deps = self.iterable(kind)
        if eff == 'loopvar-after' and R.random() < 0.85:
            for n, t in bound:
                if n not in self.env and t == 'R': self.emit(f'{n} = {self.lit()}'); self.bind(n, 'R')
            self.mark('effect')
        self.emit(f'for {tgt} in {it}:')
        self.loops.append(trip); self.loop_deps.append(set(deps))
        self.ind += 1; self.in_loop += 1; self.loopdepth += 1
        if self.loopdepth >= 2: self.quadratic = True
        saved = {n: self.env.get(n) for n, _ in bound}
        for n, t in bound: self.env[n] = t; self.touch(n); self.multi.add(n)
        s = self.scope_begin()
        if flag:
            self.emit(f'if not {flag}:'); self.ind += 1
            self.loop_body(bound, acc, w, it, deps, depth)
            self.ind -= 1
            self.emit(f'if {self.real_of(bound)} {R.choice([">", "<"])} {self.rexp(0)}:'); self.ind += 1; self.emit(f'{flag} = True'); self.ind -= 1
        else:
            self.loop_body(bound, acc, w, it, deps, depth)
        self.scope_end(s)
        self.close_for(bound, saved)
        if force_inner: self.ax = dict(self.ax, inner=saved_inner)

    def idiom_lowprec_loop(self):
        ex = self.open_with('lowprec')
        self.idiom_for_acc(self.R.choice(['list', 'list', 'zip', 'enumerate', 'range-len', 'pairs']), depth=0, force_inner=self.R.choice(['INTEGER', 'REAL']))
        self.close_with(ex)

    def idiom_nested_loops(self):
        self.idiom_for_acc(self.R.choice(['list', 'range-lit', 'range-len', 'enumerate']), depth=2)

    def idiom_static_loop(self):
        self.idiom_for_acc(self.R.choice(['literal', 'local-lit', 'range-lit']), depth=1)

    def idiom_split_factor(self):
        saved = self.ax
        self.ax = dict(self.ax, effect=self.R.choice(['reassign-factor', 'reassign-factor', self.ax['effect']]))
        self.idiom_for_acc(self.R.choice(['list', 'list', 'zip', 'range-len', 'enumerate']), depth=0)
        self.ax = saved

    def idiom_swap_loop(self):
        R = self.R
        rs = self.names('R')
        a = self.new('R', 'local', 'a'); self.emit(f'{a} = {self.rexp(0)}'); self.bind(a, 'R')
        b = self.new('R', 'local', 'b'); 
        if b == a: b = b + 'x'
        self.emit(f'{b} = {self.rexp(0)}'); self.bind(b, 'R')
        saved = self.ax; self.ax = dict(self.ax, destruct=R.choice(['swap', 'swap', self.ax['destruct']]))
        if R.random() < 0.6:
            bound, sv, it = self.open_for(); s = self.scope_begin()
            x = self.real_of(bound)
            if R.random() < 0.5: self.emit(f'{a}, {b} = {b}, {a} + {b} * {x}' if R.random() < 0.5 else f'({a}, {b}) = ({b} + {x}, {a})')
            else: self.tuple_assign([a, b, x] if '[' not in x else None)
            self.scope_end(s); self.close_for(bound, sv)
        else:
            k = self.new('R', 'local', 'k'); 
            if k in (a, b): k = k + 'z'
            self.emit(f'{k} = 0'); self.bind(k, 'R')
            self.emit(f'while {k} < {R.choice(["3", "4", "5"] + self.names("I"))} and {k} < 9:'); self.ind += 1
            self.emit(f'{a}, {b} = {b}, {a} + {b}')
            self.emit('with fp.INTEGER:'); self.emit(f'    {k} = {k} + 1'); self.ind -= 1
        self.ax = saved
        for n in (a, b): self.multi.add(n)

    def idiom_argmax(self):
        """conditional destructuring update at the tail of a loop body: leaves flow on only through merges"""
        R = self.R
        ls = self.names('L')
        if not ls: return self.idiom_phi_chain()
        l = R.choice(ls)
        best = self.new('R', 'local', 'best'); idx = self.new('R', 'local', 'idx')
        if idx == best: idx = idx + 'i'
        self.emit(f'{best} = {R.choice([self.rexp(0), "-1e3", f"({l}[0] if len({l}) > 0 else 0)"])}'); self.bind(best, 'R')
        self.emit(f'{idx} = {R.choice(["0", "-1"])}'); self.bind(idx, 'R')
        form = R.choice(['range', 'enumerate', 'plain'])
        i = self.new('R', 'binder', 'i'); x = self.new('R', 'binder', 'x')
        if x == i: x = x + 'e'
        if i in (best, idx) or x in (best, idx): i, x = f'i{next(self.fresh)}', f'x{next(self.fresh)}'
        cnt = None
        if form == 'range':
            self.emit(f'for {i} in range({R.choice(["0", "1"])}, len({l})):'); elem = f'{l}[{i}]'; pos = i
            self.loops.append(None); self.loop_deps.append(set())
        elif form == 'enumerate':
            self.emit(f'for {i}, {x} in enumerate({l}):'); elem = x; pos = i
            self.loops.append(f'len({l})'); self.loop_deps.append({l})
        else:
            cnt = self.new('R', 'local', 'cnt')
            if cnt in (best, idx, i, x): cnt = f'cnt{next(self.fresh)}'
            self.emit(f'{cnt} = 0'); self.bind(cnt, 'R')
            self.emit(f'for {x} in {l}:'); elem = x; pos = cnt
            self.loops.append(f'len({l})'); self.loop_deps.append({l})
        self.ind += 1
        if cnt and R.random() < 0.5:
            self.emit('with fp.INTEGER:'); self.emit(f'    {cnt} = {cnt} + 1')
            cnt = None
        d = self.ax['destruct']; self.mark('destruct')
        op = R.choice(['>', '<', '>='])
        self.emit(f'if {elem} {op} {best}:'); self.ind += 1
        if d == 'nested': self.emit(R.choice([f'(({best}, {idx}), _) = (({elem}, {pos}), 0)', f'({best}, ({idx}, _)) = ({elem}, ({pos}, {best}))']))
        elif d == 'underscore': self.emit(f'({best}, {idx}, _) = ({elem}, {pos}, {best})')
        elif d == 'none': self.emit(f'{best} = {elem}'); self.emit(f'{idx} = {pos}')
        else: self.emit(f'({best}, {idx}) = ({elem}, {pos})')
        self.ind -= 1
        if cnt:
            self.emit('with fp.INTEGER:'); self.emit(f'    {cnt} = {cnt} + 1')
        self.ind -= 1
        self.multi.update([best, idx])

    def idiom_while(self):
        R = self.R
        form = R.choice(['counter', 'counter', 'halve', 'flag', 'reduce', 'nested', 'call'] if self.G.mut_helper else ['counter', 'counter', 'halve', 'flag', 'reduce', 'nested'])
        acc = self.acc_var()
        k = self.new('R', 'local', 'k')
        if k == acc: k = f'k{next(self.fresh)}'
        ls = self.names('L'); Is = self.names('I')
        N = R.choice(['0', '1', '2', '3', '4', '5'] + ([f'len({R.choice(ls)})'] if ls else []) + Is)
        self.emit(f'{k} = 0'); self.bind(k, 'R')
        inc = lambda: (self.emit('with fp.INTEGER:'), self.emit(f'    {k} = {k} + 1')) if not self.exact else self.emit(f'{k} = {k} + 1')
        if form in ('counter', 'nested'):
            self.emit(f'while {k} < {N} and {k} < 40:'); self.ind += 1; s = self.scope_begin()
            self.accumulate(acc, k)
            if form == 'nested':
                j = self.new('R', 'local', 'j')
                if j in (k, acc): j = f'j{next(self.fresh)}'
                self.emit(f'{j} = 0'); self.bind(j, 'R')
                self.emit(f'while {j} < {k}:'); self.ind += 1
                self.emit(f'{acc} = {acc} + {j} * {k}' if self.exact else f'{acc} = {acc} * 0.5 + {j} * {k}')
                self.emit('with fp.INTEGER:'); self.emit(f'    {j} = {j} + 1'); self.ind -= 1
            elif R.random() < 0.4:
                self.emit(f'if {acc} > {self.rexp(0)}:'); self.ind += 1
                self.emit(f'return {self.ret_tuple()}' if self.ax['effect'] == 'early-return' else f'{acc} = {acc} - {k}'); self.ind -= 1
            inc(); self.scope_end(s); self.ind -= 1
        elif form == 'halve':
            h = self.new('R', 'local', 'h')
            if h in (k, acc): h = f'h{next(self.fresh)}'
            self.emit(f'{h} = abs({self.rexp(1)}) + 1'); self.bind(h, 'R')
            self.emit(f'while {h} > 1 and {k} < 30:'); self.ind += 1
            self.emit(f'{h} = {h} / 2'); self.emit(f'{acc} = {acc} + {h}'); inc(); self.ind -= 1
        elif form == 'flag':
            f = self.new('B', 'local', 'go')
            self.emit(f'{f} = True'); self.bind(f, 'B')
            self.emit(f'while {f}:'); self.ind += 1
            self.accumulate(acc, k); inc()
            self.emit(f'if {k} >= {N} or {k} > 30:'); self.emit(f'    {f} = False'); self.ind -= 1
        elif form == 'reduce' and ls:
            l = R.choice(ls); c = self.new('R', 'comp', 'c')
            self.emit(f'while {R.choice(["any", "all"])}([{c} > {k} for {c} in {l}]) and {k} < 12:'); self.ind += 1
            self.accumulate(acc, k); inc(); self.ind -= 1
        elif form == 'call' and ls:
            l = R.choice(ls)
            self.emit(f'while {self.G.mut_helper}({l}, 1) < {R.choice(["3", "5", "8"])} and {k} < 8:'); self.ind += 1
            self.accumulate(acc, k); inc(); self.ind -= 1
        else:
            self.emit(f'while {k} < 3:'); self.ind += 1; self.accumulate(acc, k); inc(); self.ind -= 1

    def idiom_reduce(self):
        R = self.R
        ls = self.names('L')
        if not ls:
            l = self.new('L', 'local', 'l'); self.emit(f'{l} = [{self.rexp(0)}, {self.rexp(0)}, 2.5]'); self.bind(l, 'L'); ls = [l]
        l = R.choice(ls); l2 = R.choice(ls)
        c = self.new('R', 'comp', 'c'); d = self.new('R', 'comp', 'd')
        if d == c: d = d + 'q'
        op = lambda: R.choice(['>', '<', '>=', '!=', '=='])
        red = lambda: R.choice(['any', 'all'])
        e0 = self.rexp(0)
        basic = f'{red()}([{c} {op()} {e0} for {c} in {l}])'
        forms = ['assign', 'assign', 'ifcond', 'ifexpr-cond', 'two', 'nested', 'zip', 'assert', 'not', 'enum', 'guarded', 'ifexpr-branch', 'pairs']
        f = R.choice(forms)
        b = self.new('B', 'local', 'p')
        if f == 'assign': self.emit(f'{b} = {basic}')
        elif f == 'not': self.emit(f'{b} = not {basic}')
        elif f == 'ifcond':
            self.emit(f'{b} = False'); self.emit(f'if {basic}:'); self.ind += 1; self.emit(f'{b} = True'); sc = self.scope_begin(); self.filler(0); self.scope_end(sc); self.ind -= 1
        elif f == 'ifexpr-cond': self.emit(f'{b} = ({self.rexp(0)} if {basic} else {self.rexp(0)}) > 1')
        elif f == 'ifexpr-branch':
            bs = self.names('B'); g = R.choice(bs) if bs else 'True'
            self.emit(f'{b} = ({basic} if {g} else False)')
        elif f == 'two': self.emit(f'{b} = {basic} {R.choice(["and", "or"])} {red()}([{d} {op()} {self.rexp(0)} for {d} in {l2}])')
        elif f == 'nested': self.quadratic = True; self.emit(f'{b} = {red()}([{red()}([{d} {op()} {c} for {d} in {l2}]) for {c} in {l}])')
        elif f == 'zip': self.emit(f'{b} = {red()}([{c} {op()} {d} for {c}, {d} in zip({l}, {self.G.partner.get(l, l) if self.G.partner.get(l, l) in self.env else l})])')
        elif f == 'enum': self.emit(f'{b} = {red()}([{c} * 2 {op()} {d} for {c}, {d} in enumerate({l})])')
        elif f == 'pairs' and self.names('P'):
            self.emit(f'{b} = {red()}([{c} {op()} {d} for {c}, {d} in {R.choice(self.names("P"))}])')
        elif f == 'assert': self.emit(f'assert {basic} or True'); self.emit(f'{b} = True')
        elif f == 'guarded':
            # a reduction in a lazily evaluated position whose element can fault (known F54 shape when the guard fails)
            self.emit(f'{b} = len({l}) > 2 and {red()}([{l}[2] {op()} {d} for {d} in {l2}])')
        else: self.emit(f'{b} = {basic}')
        self.bind(b, 'B')

    # ------------------------------------------------------------------ comprehension idioms
    def idiom_zipcomp(self):
        """comprehensions over zip/enumerate whose element holds inner comprehensions that re-bind outer targets"""
        R = self.R
        ls = self.names('L')
        if not ls: return self.filler(1)
        l = R.choice(ls); l2 = self.G.partner.get(l, l)
        if l2 not in self.env: l2 = l
        a = self.new('R', 'comp', 'a'); b = self.new('R', 'comp', 'b')
        if b == a: b = b + 'q'
        w, c = f'w{next(self.fresh)}', f'c{next(self.fresh)}'
        ps = self.names('P'); ns = self.names('N')
        inner_opts = [f'sum([{a} * 2 for {a} in {l2}])', f'sum([{a} + {b} for {a} in {l}])', f'len([{b} for {b} in {l}])',
                      f'sum([{a} * {w} for {a}, {w} in zip({l}, {l2})])', f'sum([{w} * {b} for {w}, {b} in enumerate({l})])',
                      f'sum([sum([{a} for {a} in {l2}]) + {c} for {c} in {l}])']
        if self.G.mut_helper: inner_opts += [f'{self.G.mut_helper}({l}, {a})', f'{self.G.mut_helper}({l2}, {b})'] * 2
        if ps: inner_opts += [f'sum([{a} * {w} for {a}, {w} in {ps[0]}])', f'sum([{w} - {b} for ({w}, {b}) in {ps[0]}])']
        if ns: inner_opts += [f'sum([{a} * {w} + {c} for ({a}, {w}), {c} in {ns[0]}])', f'sum([{w} + {b} for ({w}, {c}), {b} in {ns[0]}])',
                              f'sum([{c} * {b} for ({a}, {b}), {c} in {ns[0]}])'] * 2
        inner = R.choice(inner_opts) if R.random() < 0.75 else self.rexp(1)
        self.quadratic = True
        mark = self.ax['destruct'] in ('nested',) and ns
        forms = ['zip', 'zip', 'enumerate', 'enum-zip', 'whole', 'two-stage', 'zip3', 'under']
        if ps: forms += ['pair-slot']
        f = R.choice(forms)
        z = self.new('L', 'local', 'zs')
        if f == 'zip': self.emit(f'{z} = [{inner} + {a} * {b} for {a}, {b} in zip({l}, {l2})]')
        elif f == 'enumerate': self.emit(f'{z} = [{inner} + {a} * {b} for {a}, {b} in enumerate({l})]')
        elif f == 'enum-zip': self.emit(f'{z} = [{inner} + {a} * {b} + {c} for {c}, ({a}, {b}) in enumerate(zip({l}, {l2}))]')
        elif f == 'whole':
            self.G.noexp = True
            self.emit(f'{z} = [{inner} + {a}[0] * 2 + {a}[1] for {a} in zip({l}, {l2})]' if False else f'{z} = [{a}[0] * 2 + {a}[1] for {a} in zip({l}, {l2})]')
        elif f == 'two-stage': self.emit(f'{z} = [{a} * {c} + {b} for {a}, {b} in zip({l}, {l2}) for {c} in [{a}, {b}, 1]]')
        elif f == 'zip3': self.emit(f'{z} = [{inner} + {a} + {b} * {c} for {a}, {b}, {c} in zip({l}, {l2}, {l})]')
        elif f == 'under':
            import re
            inner = re.sub(r'(?<![A-Za-z0-9_])' + re.escape(b) + r'(?![A-Za-z0-9_])', a, inner)
            self.emit(f'{z} = [{inner} + {a} for {a}, _ in zip({l}, {l2})]')
        else: self.emit(f'{z} = [{inner} + {a} * {b} - {c} for ({a}, {b}), {c} in zip({ps[0]}, {ps[0]})]' if False else f'{z} = [{inner} + {a} for {a}, {b} in zip({l}, {l2})]')
        self.bind(z, 'L')
        acc = self.acc_var()
        v = f'z{next(self.fresh)}'
        self.emit(f'for {v} in {z}:'); self.loops.append(None); self.loop_deps.append(set())
        self.emit(f'    {acc} = {acc} * 2 + {v}' if not self.exact else f'    {acc} = {acc} + {v}')

    # ------------------------------------------------------------------ simplify idioms
    def idiom_copy_shadow(self):
        """t = y ... <binder or assignment re-using the name y> ... read of t inside / after its scope"""
        R = self.R
        srcs = [n for n, t in self.params if t in ('R', 'I') and n in self.env] + self.names('R')
        if not srcs: return self.filler(1)
        y = R.choice(srcs)
        t = self.new('R', 'local', 't')
        if t == y: t = f't{next(self.fresh)}'
        self.emit(f'{t} = {y}'); self.bind(t, 'R'); self.copied.append(y); self.mark('names')
        if R.random() < 0.3: self.filler(0)
        acc = self.acc_var()
        ls = self.names('L')
        how = R.choice(['for', 'for', 'comp', 'comp', 'assign', 'tuple', 'branch', 'nested-comp', 'for-tuple'])
        if not ls and how in ('comp', 'nested-comp', 'for-tuple'): how = 'for'
        if how == 'for':
            it = R.choice([f'range({R.choice(["2", "3", "4"])})'] + ls)
            self.emit(f'for {y} in {it}:'); self.loops.append(None); self.loop_deps.append(set())
            self.emit(f'    {acc} = {acc} + {t} * {y}'); self.touch(y); self.multi.add(y)
        elif how == 'for-tuple':
            l = R.choice(ls); o = f'o{next(self.fresh)}'
            self.emit(f'for {o}, {y} in enumerate({l}):'); self.loops.append(f'len({l})'); self.loop_deps.append({l})
            self.emit(f'    {acc} = {acc} * 2 + {t} * {y} + {o}'); self.touch(y); self.multi.add(y)
        elif how == 'comp':
            l = R.choice(ls); z = self.new('L', 'local', 'zs')
            self.emit(f'{z} = [{t} + {y} * 2 for {y} in {l}]'); self.bind(z, 'L')
        elif how == 'nested-comp':
            l = R.choice(ls); z = self.new('L', 'local', 'zs'); o = f'o{next(self.fresh)}'
            self.emit(f'{z} = [sum([{t} * {y} + {o} for {y} in {l}]) for {o} in {l}]'); self.bind(z, 'L'); self.quadratic = True
        elif how == 'assign':
            self.emit(f'{y} = {y} + {self.lit()}'); self.touch(y); self.multi.add(y)
        elif how == 'tuple':
            self.emit(f'({y}, {acc}) = ({acc} + 1, {y})'); self.touch(y); self.multi.add(y)
        else:
            self.emit(f'if {self.bexp(1)}:'); self.emit(f'    {y} = {self.rexp(1)}'); self.touch(y); self.multi.add(y)
        self.emit(f'{acc} = {acc} + {t} * 3')

    def idiom_fold_ctx(self):
        """constant-only expressions under static / dynamic / nested contexts"""
        R = self.R
        acc = self.acc_var()
        pat = R.choice(['static>dyn', 'static>dyn', 'dyn>static', 'static>static', 'dyn', 'static', 'dyn>dyn', 'static>exact', 'as'])
        kinds = {'static': lambda: R.choice(['static-attr', 'static-ctor', 'lowprec']), 'dyn': lambda: R.choice(['ctx-arg', 'computed-ctor']),
                 'exact': lambda: R.choice(['INTEGER', 'REAL'])}
        opened = []
        if pat == 'as':
            cv = self.new('C', 'local', 'cv')
            opened.append(self.open_with(kinds['static'](), cv)); self.env[cv] = 'C'
            opened.append(self.open_with(R.choice(['ctx-arg', 'computed-ctor'])))
        else:
            for part in pat.split('>'): opened.append(self.open_with(kinds[part]()))
        u = self.new('R', 'local', 'u')
        self.emit(f'{u} = {self.const_expr()}'); self.bind(u, 'R')
        if R.random() < 0.5: self.emit(f'{acc} = {acc} + {u} * {self.rexp(0)}')
        if R.random() < 0.4:
            v = self.new('R', 'local', 'u'); self.emit(f'{v} = {self.const_expr()} + {u}'); self.bind(v, 'R')
        for ex in reversed(opened): self.close_with(ex)

    def idiom_phi_chain(self):
        """destructuring assignments in branches whose leaves are consumed only through a further merge"""
        R = self.R
        rs = self.names('R')
        lo = self.new('R', 'local', 'lo'); hi = self.new('R', 'local', 'hi')
        if hi == lo: hi = hi + 'h'
        self.emit(f'{lo} = {self.rexp(0)}'); self.bind(lo, 'R')
        self.emit(f'{hi} = {self.rexp(0)}'); self.bind(hi, 'R')
        d = self.ax['destruct']; self.mark('destruct')
        def upd():
            if d == 'nested': self.emit(R.choice([f'(({lo}, _), {hi}) = (({hi}, 1), {lo})', f'({lo}, ({hi}, _)) = ({hi} + 1, ({lo}, 0))']))
            elif d == 'underscore': self.emit(R.choice([f'({lo}, _) = ({hi}, {lo})', f'(_, {hi}) = ({hi}, {lo})']))
            elif d == 'swap': self.emit(f'{lo}, {hi} = {hi}, {lo}')
            else: self.emit(f'({lo}, {hi}) = ({self.rexp(1)}, {lo})')
        form = R.choice(['two-ifs', 'two-ifs', 'nested-if', 'loop-tail', 'if-else', 'while-tail'])
        if form == 'two-ifs':
            self.emit(f'if {self.bexp(1)}:'); self.ind += 1; upd(); self.ind -= 1
            self.emit(f'if {self.bexp(1)}:'); self.ind += 1; self.emit(f'{R.choice([lo, hi])} = {self.rexp(0)}'); self.ind -= 1
        elif form == 'nested-if':
            self.emit(f'if {self.bexp(1)}:'); self.ind += 1
            self.emit(f'if {self.bexp(1)}:'); self.ind += 1; upd(); self.ind -= 1
            if R.random() < 0.5: self.emit('else:'); self.emit(f'    {hi} = {self.rexp(0)}')
            self.ind -= 1
        elif form == 'if-else':
            self.emit(f'if {self.bexp(1)}:'); self.ind += 1; upd(); self.ind -= 1
            self.emit('else:'); self.ind += 1
            self.emit(f'if {self.bexp(0)}:'); self.ind += 1; upd(); self.ind -= 1; self.emit('else:'); self.emit(f'    {lo} = {self.rexp(0)}'); self.ind -= 1
        elif form == 'loop-tail':
            bound, sv, it = self.open_for(); x = self.real_of(bound)
            if R.random() < 0.5: self.emit(f'{hi} = {hi} + {x}')
            self.emit(f'if {x} {R.choice([">", "<"])} {lo}:'); self.ind += 1; upd(); self.ind -= 1
            self.close_for(bound, sv)
        else:
            k = f'k{next(self.fresh)}'
            self.emit(f'{k} = 0'); self.emit(f'while {k} < {R.choice(["2", "3", "4"])}:'); self.ind += 1
            self.emit(f'if {lo} {R.choice([">", "<", "<="])} {hi} + {k}:'); self.ind += 1; upd(); self.ind -= 1
            self.emit('with fp.INTEGER:'); self.emit(f'    {k} = {k} + 1'); self.ind -= 1
        self.multi.update([lo, hi])

    def idiom_dead(self):
        R = self.R
        for _ in range(R.randint(1, 3)):
            k = R.choice(['unused', 'overwritten', 'dead-branch', 'while-false', 'tuple-unused', 'effect', 'assert-true', 'pass-if', 'self-assign', 'unused-list', 'dead-call'])
            if k == 'unused': self.emit(f'd{next(self.fresh)} = {self.rexp(2)}')
            elif k == 'overwritten':
                x = self.new('R'); self.emit(f'{x} = {self.rexp(1)}'); self.emit(f'{x} = {self.rexp(1)}'); self.bind(x, 'R'); self.multi.add(x)
            elif k == 'dead-branch':
                x = self.acc_var()
                self.emit(f'if {R.choice(["False", "1 > 2", "True", "1 < 2", "not True"])}:'); self.emit(f'    {x} = {self.rexp(1)}')
                if R.random() < 0.5: self.emit('else:'); self.emit(f'    {x} = {self.rexp(1)}')
            elif k == 'while-false':
                x = self.acc_var(); self.emit(f'while {R.choice(["False", "1 > 2"])}:'); self.emit(f'    {x} = {x} + 1')
            elif k == 'tuple-unused':
                x = self.acc_var(); self.emit(R.choice([f'({x}, d{next(self.fresh)}) = ({self.rexp(1)}, {self.rexp(1)})', f'(d{next(self.fresh)}, d{next(self.fresh)}) = ({self.rexp(1)}, {x})',
                                                        f'(d{next(self.fresh)}, ({x}, _)) = ({x}, ({self.rexp(1)}, 2))'])); self.multi.add(x)
            elif k == 'effect': self.emit(self.rexp(1) if R.random() < 0.5 else f'{self.rexp(1)} + 1')
            elif k == 'assert-true': self.emit(R.choice(['assert True', 'assert 1 < 2', 'assert True, "never"']))
            elif k == 'pass-if': self.emit(f'if {self.bexp(1)}:'); self.emit('    pass')
            elif k == 'self-assign' and self.names('R'):
                x = R.choice(self.names('R')); self.emit(f'{x} = {x}'); self.touch(x)
            elif k == 'unused-list' and self.names('L'):
                l = R.choice(self.names('L')); self.emit(f'd{next(self.fresh)} = {l}')
            elif k == 'dead-call' and self.G.mut_helper and self.names('L'):
                self.emit(f'd{next(self.fresh)} = {self.G.mut_helper}({R.choice(self.names("L"))}, {self.rexp(0)})')

    def idiom_alias(self):
        R = self.R
        ls = self.names('L')
        src = R.choice(ls) if ls and R.random() < 0.6 else None
        xs = self.new('L', 'local', 'l')
        if src and src != xs: self.emit(f'{xs} = {src}')
        elif R.random() < 0.5: self.emit(f'{xs} = [{self.lit()}, {self.const_expr()}, {self.lit()}]')
        else: self.emit(f'{xs} = [{self.rexp(0)}, {self.const_expr()}, {self.lit()}]')
        self.bind(xs, 'L')
        ys = self.new('L', 'local', 'm')
        if ys == xs: ys = ys + 'y'
        self.emit(f'{ys} = {xs}'); self.bind(ys, 'L')
        j = R.choice(['0', '1'])
        how = R.choice(['direct', 'direct', 'loop', 'call', 'branch'])
        if how == 'call' and not self.G.mut_helper: how = 'direct'
        if how == 'direct':
            self.emit(f'if len({ys}) > {j}:'); self.emit(f'    {ys}[{j}] = {self.rexp(1)}')
        elif how == 'loop':
            i = f'i{next(self.fresh)}'
            self.emit(f'for {i} in range(len({ys})):'); self.loops.append(None); self.loop_deps.append(set()); self.emit(f'    {ys}[{i}] = {ys}[{i}] * 2 + {i}')
        elif how == 'branch':
            self.emit(f'if {self.bexp(1)} and len({ys}) > 0:'); self.emit(f'    {ys}[0] = {self.rexp(0)}')
        else:
            v = self.new('R'); self.emit(f'{v} = {self.G.mut_helper}({ys}, {self.rexp(0)})'); self.bind(v, 'R')
        v = self.new('R')
        self.emit(f'{v} = ({xs}[{j}] if len({xs}) > {j} else 0) + sum({xs})'); self.bind(v, 'R')

    def idiom_ctx_as(self):
        R = self.R
        cv = self.new('C', 'local', 'cv')
        ex = self.open_with(R.choice(['static-attr', 'static-ctor', 'lowprec', 'ctx-arg', 'computed-ctor']), cv)
        self.env[cv] = 'C'; self.assigned.add(cv)
        self.filler(1)
        if R.random() < 0.5: self.idiom_fold_ctx()
        self.close_with(ex)
        if R.random() < 0.7:
            self.emit(f'with {cv}:'); self.ind += 1
            u = self.new('R', 'local', 'u'); self.emit(f'{u} = {self.const_expr()} + {self.rexp(1)}'); self.bind(u, 'R')
            self.ind -= 1

    def idiom_lift(self):
        """context constructors in positions that lift_context hoists (or must not)"""
        R = self.R
        acc = self.acc_var()
        bound, sv, it = self.open_for(R.choice(['list', 'range-lit', 'enumerate', 'zip']))
        x = self.real_of(bound)
        kind = R.choice(['static-ctor', 'static-ctor', 'computed-ctor', 'lowprec', 'static-attr', 'ctx-arg'])
        asn = self.new('C', 'local', 'ctx') if R.random() < 0.3 else None
        ex = self.open_with(kind, asn)
        self.emit(f'{acc} = {acc} * {R.choice(["2", "0.5", "3"])} + {x} / {R.choice(["3", "7", "10"])}')
        if R.random() < 0.4:
            ex2 = self.open_with(R.choice(['static-ctor', 'computed-ctor']))
            self.emit(f'{acc} = {acc} + {self.const_expr()}')
            self.close_with(ex2)
        self.close_with(ex)
        self.close_for(bound, sv)

    def idiom_free_var(self):
        R = self.R
        g = R.choice(self.G.globals_) if self.G.globals_ else None
        if not g: return self.filler(1)
        name, ty = g
        v = self.new('R')
        if ty == 'R': self.emit(f'{v} = {name} * {self.rexp(1)} + {name}')
        elif ty == 'T': self.emit(f'{v} = {name}[0] + {name}[1] * {self.rexp(0)}')
        else:
            self.emit(f'{v} = sum({name}) + len({name})')
            x = f'g{next(self.fresh)}'
            acc = self.acc_var() if False else None
        self.bind(v, 'R')
        if ty == 'L' and R.random() < 0.6:
            x = f'g{next(self.fresh)}'
            self.emit(f'for {x} in {name}:'); self.loops.append(str(self.G.global_len[name])); self.loop_deps.append(set())
            self.emit(f'    {v} = {v} * 2 + {x}')
        self.G.used_globals.add(name)

    # ------------------------------------------------------------------ calls (C09)
    def idiom_call(self):
        R = self.R; G = self.G
        if not G.helpers: return self.filler(1)
        pos = self.ax.get('callpos', 'assign')
        if R.random() < 0.25: pos = R.choice(AXES_C09['callpos'])
        self.mark('callpos')
        hs = list(G.helpers)
        h = R.choice(hs); info = G.helpers[h]
        ls = self.names('L')
        eff_list = R.choice(ls) if ls else '[1.0, 2.0]'
        def call(hh=None, eff=False):
            hh = hh or h; inf = G.helpers[hh]; args = []
            for t in inf['ptys']:
                if t == 'L': args.append(R.choice(self.names('L')) if self.names('L') else '[1.0, 2.0, 3.0]')
                elif eff and G.mut_helper and self.names('L') and hh != G.mut_helper:
                    args.append(f'{G.mut_helper}({eff_list}, {self.rexp(0)})')
                else: args.append(self.rexp(1))
            return f'{hh}(' + ', '.join(args) + ')'
        def cv(hh=None, eff=False):
            hh = hh or h
            e = call(hh, eff)
            if G.helpers[hh].get('tuple'):
                self.G.noexp = True; return f'{e}[0]'
            return e
        v = self.new('R', 'local', 't')
        acc = self.acc_var()
        if v == acc: v = f'v{next(self.fresh)}'
        if pos == 'assign':
            self.emit(f'{v} = {cv()} + {acc}')
        elif pos == 'twice':
            e1 = self.rexp(0)
            self.emit(f'{v} = {e1} * {cv()} + (1 - {e1}) * {cv()}')
        elif pos == 'after-read' and ls and G.mut_helper:
            l = R.choice(ls)
            self.emit(f'{v} = {acc}')
            self.emit(f'if len({l}) > 0:')
            self.emit(R.choice([f'    {v} = {l}[0] - {G.mut_helper}({l}, {self.rexp(0)})', f'    {v} = sum({l}) * 2 + {G.mut_helper}({l}, 1)',
                                f'    {v} = ({l}[0] + {acc}) * {G.mut_helper}({l}, {acc})', f'    {v} = max({l}[0], 1) / {G.mut_helper}({l}, 2)']))
        elif pos == 'return':
            self.emit(f'{v} = {cv()}')
        elif pos == 'arg-effect':
            two = [x for x in hs if G.helpers[x]['ptys'] == ['R', 'R']]
            if two: h = R.choice(two); info = G.helpers[h]
            self.emit(f'{v} = {cv(eff=True)} + {cv(R.choice(hs), eff=True)}')
        elif pos == 'loop':
            bound, sv, it = self.open_for(); x = self.real_of(bound)
            self.emit(f'{acc} = {acc} * 2 + {cv()} + {x}')
            self.close_for(bound, sv); self.emit(f'{v} = {acc}')
        elif pos == 'nested-with':
            e1 = self.open_with(R.choice(['static-ctor', 'lowprec', 'ctx-arg'])); e2 = self.open_with(R.choice(['static-attr', 'lowprec', 'computed-ctor', 'REAL']))
            self.emit(f'{v} = {cv()}'); self.close_with(e2)
            self.emit(f'{acc} = {acc} + {cv()} / 3'); self.close_with(e1)
        elif pos == 'if-cond':
            self.emit(f'{v} = 0'); self.emit(f'if {cv()} > {self.rexp(0)}:'); self.emit(f'    {v} = {cv()}')
        elif pos == 'while-cond':
            k = f'k{next(self.fresh)}'
            self.emit(f'{v} = 0'); self.emit(f'{k} = 0'); self.emit(f'while {cv()} > {k} and {k} < 4:'); self.ind += 1
            self.emit(f'{v} = {v} + {k}'); self.emit('with fp.INTEGER:'); self.emit(f'    {k} = {k} + 1'); self.ind -= 1
        elif pos == 'comp-elt':
            c = self.new('R', 'comp', 'c'); src = R.choice(ls) if ls else 'range(3)'
            self.emit(f'{v} = sum([{cv()} + {c} for {c} in {src}])')
        elif pos == 'ifexpr':
            self.emit(f'{v} = ({cv()} if {self.bexp(1)} else {self.rexp(0)})')
        elif pos == 'and-or':
            b = self.new('B', 'local', 'p'); self.emit(f'{b} = {self.bexp(1)} {R.choice(["and", "or"])} {cv()} > 0'); self.bind(b, 'B'); self.emit(f'{v} = {acc}')
        elif pos == 'chain-cmp':
            b = self.new('B', 'local', 'p'); self.emit(f'{b} = {self.rexp(0)} < {self.rexp(0)} < {cv()}'); self.bind(b, 'B'); self.emit(f'{v} = {acc}')
        elif pos == 'ctx-expr':
            if G.mut_helper and ls:
                self.emit(f'with fp.MPFloatContext(min(abs({G.mut_helper}({R.choice(ls)}, 1)), 40) + 2, fp.RM.{self.rm()}):'); self.emit(f'    {v} = {acc} / 3 + {self.rexp(0)}')
            else:
                self.emit(f'{v} = {cv()}')
        elif pos == 'effect-stmt':
            self.emit(call()); self.emit(f'{v} = {acc}')
        elif pos == 'index' and ls:
            l = R.choice(ls)
            self.emit(f'{v} = 0'); self.emit(f'if len({l}) > 1:'); self.emit(f'    {l}[{R.choice(["0", "1"])}] = {cv()}')
        else:
            self.emit(f'{v} = {cv()}')
        self.bind(v, 'R')


# ====================================================================== program assembly
SLOTS = [('a0', 'R'), ('a1', 'R'), ('xs', 'L'), ('ys', 'L2'), ('k', 'I'), ('cx', 'C'), ('q', 'Q'), ('fl', 'B'), ('ps', 'P'), ('ns', 'N')]
ANN = {'R': 'fp.Real', 'I': 'fp.Real', 'Q': 'fp.Real', 'L': 'list[fp.Real]', 'L2': 'list[fp.Real]', 'B': 'bool', 'C': 'fp.Context',
       'P': 'list[tuple[fp.Real, fp.Real]]', 'N': 'list[tuple[tuple[fp.Real, fp.Real], fp.Real]]'}

class Gen:
    def __init__(self, R, prop):
        self.R = R; self.prop = prop
        self.stats = {}
        self.helpers = {}; self.mut_helper = None; self.partner = {}
        self.globals_ = []; self.global_len = {}; self.used_globals = set(); self.reserved = set()
        self.ax = {}

    def count(self, k, n=1): self.stats[k] = self.stats.get(k, 0) + n

    # ------------------------------------------------------------------ callees
    def helper(self, name, shape, pnames):
        """source of one callee; registers it in self.helpers"""
        R = self.R
        rm = R.choice(RMS)
        cx = R.choice(STATIC_CTOR + LOWPREC).format(rm=rm)
        x, a, l = pnames
        t, u, i = R.choice([('t', 'u', 'i'), ('t', 't0', 'i'), ('acc', 'n', '_i'), ('y', 'z', 'j'), (x + '1', 't3', 'i3')])
        dec = '@fp.fpy'
        info = {'ptys': ['R'], 'mut': False, 'shape': shape}
        body = []
        if shape == 'leaf':
            body = [f'{t} = {x} * {x} + {R.choice(["1", "0.1", x])}', f'return {t} / {R.choice(["3", "1", "7"])}']
        elif shape == 'own-ctx':
            dec = f'@fp.fpy(ctx={cx})'
            body = [f'{t} = {x} / 3', f'{u} = {t} * {t} + 0.1', f'return {u}']
        elif shape == 'mutates':
            info['ptys'] = ['L', 'R']; info['mut'] = True
            j = R.choice(['0', '0', '1'])
            # the store does not commute with itself and the result depends on the contents: call order is observable
            body = [f'{t} = {a} * 2 + len({l})', f'if len({l}) > {j}:', f'    {l}[{j}] = {l}[{j}] * 2 + {a}', f'    {t} = {l}[{j}] + {t}', f'return {t}']
            if R.random() < 0.4:
                body = [f'{t} = {a} + 1', f'for {i} in range(len({l})):', f'    {l}[{i}] = {l}[{i}] * 2 + {a}', f'    {t} = {t} + {l}[{i}]', f'return {t}']
        elif shape == 'ret-in-with':
            info['ptys'] = ['R', 'R']
            cx2 = R.choice(STATIC_CTOR + LOWPREC).format(rm=R.choice(RMS))
            body = [f'{u} = {x} / 7 + {a}', f'with {cx2}:', f'    {t} = {u} / 3', f'    return {t} + {R.choice(["1", "0.1", a])}']
        elif shape == 'multi-ret':
            body = [f'if {x} > 0:', f'    return {x} / 3', f'return 0 - {x}']
        elif shape == 'chain':
            inner = R.choice([h for h, inf in self.helpers.items() if inf['ptys'] == ['R']] or [None])
            if inner is None: body = [f'return {x} + 1']
            else: body = [f'{t} = {inner}({x} + 1)', f'{u} = {inner}({t}) * 2', f'return {t} + {u}']
        elif shape == 'clash-names':
            info['ptys'] = ['R', 'R']
            body = [f'{t} = {x} + 1', f'{i} = {t} * 2', f'{u} = 0', f'for {i} in range(3):', f'    {u} = {u} * 2 + {i} + {a}', f'({t}, {u}) = ({u}, {t})', f'return {t} - {u} + {i}']
        elif shape == 'free-var':
            g = [n for n, ty in self.globals_ if ty == 'R']
            gn = g[0] if g else '2.5'
            if g: self.used_globals.add(gn)
            body = [f'{t} = {x} * {gn}', f'return {t} + {gn}']
        elif shape == 'loop-body':
            info['ptys'] = ['L', 'R']
            body = [f'{t} = {a}', f'for {i} in {l}:', f'    {t} = {t} * 2 + {i}', f'return {t}']
            if R.random() < 0.5: body = [f'with {cx}:'] + ['    ' + b for b in body]
        elif shape == 'const':
            info['ptys'] = []
            body = [f'return {R.choice(["1 / 3", "0.1", "2.5", "fp.sqrt(2)", "-0.0", "0.1 + 0.2"])}']
        elif shape == 'only-return':
            body = [f'return {x} * {R.choice(["2", "0.5", x])} + {R.choice(["1", "0.1", x])} / 3']
        elif shape == 'zero-param':
            info['ptys'] = []
            body = [f'{t} = 1 / 3', f'{u} = {t} * {t} + 0.1', f'return {u} - {t}']
        elif shape == 'with-as':
            info['ptys'] = ['R', 'R']
            cv = R.choice(['c', 'cv', 'ctx', t + 'c'])
            body = [f'with {cx} as {cv}:', f'    {t} = {x} / 3', f'{u} = {t} + {a}', f'with {cv}:', f'    {u} = {u} / 7 + {t}', f'return {u}']
        elif shape == 'tuple-ret':
            info['ptys'] = ['R', 'R']; info['tuple'] = True
            body = [f'{t} = {x} + {a}', f'return ({t}, {x} - {a})']
        if dec == '@fp.fpy' and R.random() < 0.3: dec = f'@fp.fpy(ctx={cx})'
        pn = {(): [], ('R',): [x], ('R', 'R'): [x, a], ('L', 'R'): [l, a]}[tuple(info['ptys'])]
        params = [f'{n}: {ANN[ty]}' for n, ty in zip(pn, info['ptys'])]
        self.helpers[name] = info
        return '\n'.join([dec, f'def {name}(' + ', '.join(params) + '):'] + ['    ' + b for b in body]) + '\n'

    # ------------------------------------------------------------------ one program
    def program(self, uid: int, row: dict) -> Prog:
        R = self.R; prop = self.prop
        self.ax = dict(row)
        self.helpers = {}; self.mut_helper = None; self.partner = {}; self.used_globals = set(); self.noexp = False
        pre = []
        tag = f'{prop.lower()}_{uid}'
        # module-level data (free variables for `close`)
        self.globals_ = []; self.global_len = {}
        gsrc = []
        if prop == 'C09' or R.random() < 0.15:
            n = R.randint(2, 5)
            self.globals_ = [(f'K_{tag}', 'R'), (f'T_{tag}', 'T'), (f'G_{tag}', 'L')]
            self.global_len[f'G_{tag}'] = n
            gsrc = [f'K_{tag} = {R.choice(["2.5", "0.1", "3", "-0.0", "1e3"])}', f'T_{tag} = ({R.choice(["1.5", "0.3"])}, {R.choice(["2", "-1.0"])})',
                    f'G_{tag} = [' + ', '.join(R.choice(['1.0', '2.0', '0.5', '3.0', '0.1']) for _ in range(n)) + ']']
        # parameter names
        pol = row['names']
        names = {s: s for s, _ in SLOTS}
        if pol in ('gensym', 'mixed'):
            pool = [g for g in GENSYM_NAMES if g not in ('k', 'q')]
            R.shuffle(pool)
            for s in ('a0', 'a1', 'k', 'q'):
                if R.random() < (0.7 if pol == 'gensym' else 0.3): names[s] = pool.pop()
            if R.random() < 0.4: names['xs'] = R.choice(['t', 'l', 'src', '_src'])
            if names['xs'] in (names['a0'], names['a1'], names['k'], names['q']): names['xs'] = 'xs'
        params = [(names[s], 'L' if t == 'L2' else t) for s, t in SLOTS]
        self.partner = {names['xs']: names['ys'], names['ys']: names['xs']}
        self.reserved = set()
        # callees
        hsrc = []
        if prop == 'C09':
            shapes = [row['callee'], 'mutates'] + [R.choice(AXES_C09['callee']) for _ in range(R.randint(0, 1))]
            if row['callee'] == 'chain': shapes = ['leaf'] + shapes
        else:
            shapes = ['mutates'] if R.random() < 0.45 else []
        for j, sh in enumerate(shapes):
            hn = f'h{j}_{tag}'
            clash = sh == 'clash-names' or R.random() < 0.4
            pn = (names['a0'], names['a1'], names['xs']) if clash else (R.choice(['x', 'u', 'p']), R.choice(['a', 'b', 'w']), R.choice(['l', 'zs', 'xs']))
            if pn[0] == pn[1]: pn = (pn[0], pn[1] + '2', pn[2])
            hsrc.append(self.helper(hn, sh, pn))
            if sh == 'mutates' and self.mut_helper is None: self.mut_helper = hn
            self.reserved.add(hn)
        # entry
        decl = None
        if row['ctx'] == 'decorator':
            decl = R.choice(STATIC_ATTR + STATIC_CTOR + LOWPREC).format(rm=row['rm'])
        fb = FB(self, f'f_{tag}', params, decl)
        fb.realised.add('rm')
        if any(i['shape'] == 'free-var' for i in self.helpers.values()) and self.globals_ and R.random() < 0.5:
            g = [n for n, ty in self.globals_ if ty == 'R'][0]
            if g in self.used_globals:
                fb.emit(f'{g} = {fb.rexp(1)}'); fb.bind(g, 'R')     # a local of the caller that shares its name with a callee's free variable
        amb = row['ctx']; opened = []
        whole = R.random() < 0.6
        def open_amb():
            if amb in ('none', 'decorator'): return
            fb.mark('ctx')
            if amb == 'as-target':
                cv = fb.new('C', 'local', 'cv'); opened.append(fb.open_with(R.choice(['static-attr', 'static-ctor', 'lowprec', 'ctx-arg']), cv)); fb.env[cv] = 'C'
            elif amb == 'nested-dyn':
                opened.append(fb.open_with(R.choice(['static-attr', 'static-ctor', 'lowprec']))); opened.append(fb.open_with(R.choice(['ctx-arg', 'computed-ctor'])))
            elif amb == 'nested-static':
                opened.append(fb.open_with(R.choice(['static-attr', 'static-ctor']))); opened.append(fb.open_with(R.choice(['lowprec', 'static-ctor', 'INTEGER'])))
            else: opened.append(fb.open_with(amb))
        def close_amb():
            while opened: fb.close_with(opened.pop())
        if amb == 'decorator': fb.mark('ctx')
        if amb == 'none': fb.mark('ctx')
        if whole: open_amb()
        idioms = [row['idiom']] + [R.choice(IDIOMS[prop]) for _ in range(R.randint(0, 2))]
        if R.random() < 0.5: idioms.insert(0, 'filler')
        R_first = True
        for idm in idioms:
            primary = idm == row['idiom'] and R_first
            if primary:
                R_first = False
                if not whole: open_amb()
                wrap = row['wrap']; snap = None
                if wrap == 'branch':
                    bs = fb.names('B'); fb.emit(f'if {R.choice(bs) if bs and R.random() < 0.6 else fb.bexp(1)}:'); fb.ind += 1; snap = fb.scope_begin()
                elif wrap == 'loop':
                    o = f'r{next(fb.fresh)}'; n = R.choice(['1', '2', '3'])
                    fb.emit(f'for {o} in range({n}):'); fb.loops.append(n); fb.loop_deps.append(set()); fb.ind += 1; fb.loopdepth += 1; snap = fb.scope_begin()
                elif wrap == 'with':
                    wex = fb.open_with(R.choice(['static-attr', 'static-ctor', 'lowprec', 'ctx-arg', 'computed-ctor']))
                fb.mark('wrap')
            nl = len(fb.lines)
            self.run_idiom(fb, idm)
            if len(fb.lines) == nl: fb.emit('pass')
            if primary:
                if wrap == 'branch': fb.scope_end(snap); fb.ind -= 1
                elif wrap == 'loop': fb.scope_end(snap); fb.ind -= 1; fb.loopdepth -= 1
                elif wrap == 'with': fb.close_with(wex)
                if not whole: close_amb()
        FIX = {'iter': 'for-acc', 'effect': 'for-acc', 'inner': 'for-acc', 'destruct': 'phi-chain', 'fold': 'fold-ctx', 'callpos': 'call'}
        for a in ('effect', 'iter', 'inner', 'destruct', 'fold', 'callpos'):
            if a in row and a not in fb.realised:
                nl = len(fb.lines); self.run_idiom(fb, FIX[a]); idioms.append(FIX[a] + '+')
        if prop == 'C09': fb.mark('callee')
        ret_inside = whole and opened and R.random() < 0.5
        if not ret_inside: close_amb()
        fb.emit(f'return {fb.ret_tuple()}')
        close_amb()
        fb.ind = 1
        # metadata
        pn = [p for p, _ in params]
        loops = []
        for trip, deps in zip(fb.loops, fb.loop_deps):
            ok = trip is not None and all((d in pn and d not in fb.assigned) or (d not in pn and d not in fb.multi) for d in deps)
            loops.append(trip if ok else None)
        dec = '@fp.fpy' if decl is None else f'@fp.fpy(ctx={decl})'
        sig = ', '.join(f'{names[s]}: {ANN[t]}' for s, t in SLOTS)
        src = 'import fpy2 as fp\n\n' + '\n'.join(gsrc) + '\n\n' + '\n'.join(hsrc) + '\n' + dec + f'\ndef f_{tag}({sig}):\n' + '\n'.join(fb.lines) + '\n'
        for a in row:
            if a in fb.realised or a == 'idiom': self.count(f'axis:{a}={row[a]}')
            else: self.count(f'axis-unrealised:{a}={row[a]}')
        for idm in idioms: self.count(f'idiom:{idm}')
        kinds = [t for _, t in SLOTS]
        factors = [names['k'], names['q'], f'{names["k"]} + 1', f'len({names["xs"]})', f'max({names["k"]}, 1)']
        p = Prog(label=f'xgen:{tag}', entry=f'f_{tag}', src=src, kinds=kinds, pnames=pn, axes=dict(row, idioms=[i.rstrip('+') for i in idioms], callees=[i['shape'] for i in self.helpers.values()]), loops=loops, factors=factors,
                 pinned=decl is not None, quadratic=fb.quadratic, pre=None, helpers=sorted(self.helpers), assigned=sorted(fb.assigned), export=not (self.noexp or self.used_globals), decl=decl)
        p.args = design_args(R, kinds, p.quadratic)
        p.ctxs = [None] + ([R.choice(CALL_CTXS[1:])] if decl is None else [])
        return p

    def run_idiom(self, fb, idm):
        m = {'copy-shadow': fb.idiom_copy_shadow, 'fold-ctx': fb.idiom_fold_ctx, 'phi-chain': fb.idiom_phi_chain, 'swap-loop': fb.idiom_swap_loop,
             'dead': fb.idiom_dead, 'alias': fb.idiom_alias, 'for-acc': fb.idiom_for_acc, 'argmax': fb.idiom_argmax, 'ctx-as': fb.idiom_ctx_as,
             'reduce': fb.idiom_reduce, 'while': fb.idiom_while, 'zipcomp': fb.idiom_zipcomp, 'lowprec-loop': fb.idiom_lowprec_loop,
             'nested-loops': fb.idiom_nested_loops, 'split-factor': fb.idiom_split_factor, 'static-loop': fb.idiom_static_loop,
             'call': fb.idiom_call, 'lift': fb.idiom_lift, 'free-var': fb.idiom_free_var,
             'filler': lambda: [fb.filler(2) for _ in range(self.R.randint(1, 3))]}
        m[idm]()


# ====================================================================== inputs
REALS = ['1.5', '-2.25', '0.1', '3.0', '100.0', '-0.0', '0.0', 'float("inf")', 'float("nan")', '1e30', '-7.0', '0.3', '2.0 ** -30', '5', '200.0', '1.0', '-1.0', '2.0', '0.5', '1e-320']
SAFE_REALS = ['1.5', '-2.25', '0.1', '3.0', '100.0', '-7.0', '0.3', '5', '1.0', '-1.0', '2.0', '0.5', '7.0', '-0.0', '0.0']

def elems(R, n, pat):
    if pat == 'count': return [f'{i + 1}.0' for i in range(n)]
    if pat == 'alt': return [f'{(i + 1) * (-1 if i % 2 else 1)}.0' for i in range(n)]
    if pat == 'frac': return [repr(0.5 * (i + 1) + (0.25 if i % 3 == 0 else 0)) for i in range(n)]
    if pat == 'desc': return [f'{n - i}.0' for i in range(n)]
    if pat == 'small': return [R.choice(['1.0', '2.0', '3.0', '0.5', '-1.0', '4.0', '0.0', '-0.0', '7.0']) for _ in range(n)]
    return [R.choice(REALS) for _ in range(n)]

def one_arg(R, kind, n, pat, prev_len=None, safe=True):
    pool = SAFE_REALS if safe else REALS
    if kind == 'R': return R.choice(pool)
    if kind == 'I': return R.choice(['1', '2', '3', '4', '5', '2', '3', '0', '-1', '2.0', '6'])
    if kind == 'Q': return R.choice(['2', '3', '5', '8', '12', '24', '53', '58', '4'])
    if kind == 'B': return R.choice(['True', 'False'])
    if kind == 'C': return R.choice(CTX_ARGS)
    if kind in ('L', 'L2'): return '[' + ', '.join(elems(R, n, pat)) + ']'
    if kind == 'P':
        e = elems(R, 2 * n, pat); return '[' + ', '.join(f'({e[2 * i]}, {e[2 * i + 1]})' for i in range(n)) + ']'
    if kind == 'N':
        m = min(n, 6); e = elems(R, 3 * m, pat if pat != 'spec' else 'small')
        return '[' + ', '.join(f'(({e[3 * i]}, {e[3 * i + 1]}), {e[3 * i + 2]})' for i in range(m)) + ']'
    raise ValueError(kind)

def design_args(R, kinds, quadratic, lengths=None):
    """designed argument vectors: every list length 0..7 (all unroll/split factors up to 6 see lengths below, at, above and
    non-divisible), and long lists whose length a low-precision context cannot represent"""
    lengths = lengths or ([0, 1, 2, 3, 4, 5, 6, 7] + ([9, 13] if quadratic else [17, R.choice([33, 35, 67]), R.choice([257, 131, 259, 37])]))
    out = []
    for n in lengths:
        pat = R.choice(['count', 'count', 'alt', 'frac', 'desc', 'small']) if n > 7 else R.choice(['count', 'alt', 'frac', 'desc', 'small', 'spec'])
        vec = [one_arg(R, k, n, pat, safe=(pat != 'spec')) for k in kinds]
        out.append('(' + ', '.join(vec) + (',' if len(vec) == 1 else '') + ')')
    return out

def random_args(R, kinds, n):
    out = []
    for _ in range(n):
        ln = R.choice([0, 1, 2, 3, 4, 5, 6, 8, 10])
        vec = [one_arg(R, k, ln, 'spec', safe=False) for k in kinds]
        out.append('(' + ', '.join(vec) + (',' if len(vec) == 1 else '') + ')')
    return out


def programs(prop: str, seed: int, n: int):
    """n generated programs for a property: pairwise covering rows first, random rows after; (progs, stats)"""
    R = Prng(seed, f'{prop}:xgen')
    axes = dict(AXES)
    axes['idiom'] = sorted(set(IDIOMS[prop]))
    if prop == 'C09': axes.update(AXES_C09)
    rows = covering_rows(R, axes, n)[:n] if n else []
    G = Gen(R, prop)
    progs = []
    for uid, row in enumerate(rows):
        try:
            progs.append(G.program(uid, row))
        except Exception as e:   # a generator slip must not lose the run
            G.count(f'generator-error:{type(e).__name__}')
    G.stats['covering_rows'] = len(rows)
    return progs, G.stats
