"""
An INDEPENDENT front end for C04: FPy source text (Python `ast` of the file) -> the S-expression program the Lean
evaluator runs.  It is written from the language reference (docs/USAGE.md, docs/source/dev/semantics.rst,
derived-semantics.rst) and resolves every builtin BY NAME from its own tables — it never looks at fpy2's parser
tables, at the FPy AST the real parser built, or at the interpreter.  The harness then
  * compares its output with `langexport.export_program(fn, ext=True)` (the real parser's AST printed in the same
    notation): a difference is a front-end correspondence failure found without running anything, and
  * runs the Lean evaluator on ITS text, so a wrong parser table / folded literal / mis-scoped name shows as a value
    difference as well.

Desugarings into modelled constructs (exact, stated in derived-semantics.rst):
  x op= e            ->  x = x op e
  assert t, m        ->  if not t: m; assert False          (the message is evaluated only on failure)
  fp.nan()/fp.inf()  ->  the literal NaN / +inf              (context independent)
  hexfloat/rational/digits/decimal/integer literal -> the exact rational it denotes (read from the SOURCE TEXT)
  fp.fst(t)/fp.snd(t)->  [a for (a, _) in [t]][0]            (M-Tuple on a pair, ValueError otherwise)
  fp.size(xs, 0)     ->  len(xs)                             ("exact integer counts, no rounding")
  fp.empty(d1..dn)   ->  nested comprehension over range(d_i) of an uninitialised placeholder
  fp.round_at(x, n)  ->  the rounded operator round_at of the operator table
  print(a, b)        ->  (a, b) evaluated and discarded
  a captured free variable -> bound at function entry to the value it has (containers rebuilt at each activation)
  a primitive        ->  the FPy twin the corpus declares for it in C04_TWINS
Not modelled (reported by reason): MPFR-valued operations and constants, isnormal, logb, dim, size(·, k>0),
attributes of run-time values, foreign values used as data, keyword arguments to FPy callees.
"""
from __future__ import annotations
import ast, inspect, enum
from fractions import Fraction
from numcanon import b01, ctx_tok
from langexport import Unsupported, desc_of_ctx, val_expr, is_value, is_foreign_value
import fpy2 as fp


class Dynamic(Exception):
    """a context expression that depends on program variables (or does not construct statically)"""


UNARY_OPS = {'fabs': 'fabs', 'abs': 'fabs', 'sqrt': 'sqrt', 'cbrt': 'cbrt', 'ceil': 'ceil', 'floor': 'floor', 'trunc': 'trunc',
             'roundint': 'roundint', 'nearbyint': 'nearbyint', 'round': 'round', 'cast': 'cast', 'round_exact': 'cast'}
BINARY_OPS = {'add': 'add', 'sub': 'sub', 'mul': 'mul', 'div': 'div', 'copysign': 'copysign', 'fdim': 'fdim', 'fmod': 'fmod',
              'remainder': 'remainder', 'hypot': 'hypot', 'pow': 'pow', 'round_at': 'round_at'}
PREDS = {'isnan': 'isnan', 'isinf': 'isinf', 'isfinite': 'isfinite', 'signbit': 'signbit'}
MPFR_UNARY = {'acos', 'asin', 'atan', 'cos', 'sin', 'tan', 'acosh', 'asinh', 'atanh', 'cosh', 'sinh', 'tanh', 'exp', 'exp2', 'expm1',
              'log', 'log10', 'log1p', 'log2', 'erf', 'erfc', 'lgamma', 'tgamma'}
MPFR_CONSTS = {'const_pi', 'const_e', 'const_log2e', 'const_log10e', 'const_ln2', 'const_pi_2', 'const_pi_4', 'const_1_pi', 'const_2_pi',
               'const_2_sqrt_pi', 'const_sqrt2', 'const_sqrt1_2'}
BINOPS = {ast.Add: 'add', ast.Sub: 'sub', ast.Mult: 'mul', ast.Div: 'div', ast.Mod: 'mod', ast.Pow: 'pow'}
CMPOPS = {ast.Lt: 'lt', ast.LtE: 'le', ast.Gt: 'gt', ast.GtE: 'ge', ast.Eq: 'eq', ast.NotEq: 'ne'}
# names that are builtins when written bare
# (`round` and `pow` written bare are Python's builtins, which FPy does not accept: the FPy operations are `fp.round`, `fp.pow`)
BARE = {'abs', 'min', 'max', 'sum', 'len', 'range', 'zip', 'enumerate', 'any', 'all', 'print'}

RM_NAMES = {'RNE': 'rne', 'RNA': 'rna', 'RTP': 'rtp', 'RTN': 'rtn', 'RTZ': 'rtz', 'RAZ': 'raz', 'RTO': 'rto', 'RTE': 'rte'}
OV_NAMES = {'OVERFLOW': 'overflow', 'SATURATE': 'saturate', 'WRAP': 'wrap', 'ASSERT': 'assert'}


def is_dyadic(q: Fraction) -> bool:
    d = q.denominator
    return d & (d - 1) == 0


def literal_text_value(text: str) -> Fraction:
    """the exact rational a Python numeric literal spells (decimal, exponent, hex/octal/binary integers, underscores)"""
    t = text.replace('_', '').strip()
    tl = t.lower()
    if tl.startswith(('0x', '0o', '0b')): return Fraction(int(t, 0))
    return Fraction(t)


def hexfloat_value(s: str):
    """exact value of a C99 hexadecimal floating constant; (sign, Fraction)"""
    t = s.strip().lower().replace('_', '')
    neg = t.startswith('-')
    if t[0] in '+-': t = t[1:]
    if not t.startswith('0x'): raise Unsupported('hexfloat-spelling')
    t = t[2:]
    if 'p' in t: mant, ex = t.split('p'); e = int(ex)
    else: mant, e = t, 0
    if '.' in mant: ip, fpart = mant.split('.')
    else: ip, fpart = mant, ''
    digits = (ip + fpart) or '0'
    q = Fraction(int(digits, 16), 16 ** len(fpart)) * Fraction(2) ** e
    return neg, q


class FuncInfo:
    def __init__(self, node: ast.FunctionDef, kind: str, enclosing: list):
        self.node = node; self.kind = kind; self.enclosing = enclosing     # kind: 'fpy' | 'prim' | 'py'


class Front:
    def __init__(self, path: str, mod, source: str | None = None, quirks=frozenset(), lenient: bool = False):
        """`quirks` re-reads the text the way a KNOWN defect of the implementation does (used only to classify a mismatch
        as that finding): 'size-rounds' (fp.size rounds the count under the active context, C04-F1),
        'literal-via-float' (a decimal literal is read through a Python float, C04-F2)"""
        self.quirks = frozenset(quirks)
        self.lenient = lenient      # print constructs the model cannot decide as opaque operators (text comparison only)
        self.path = path
        self.mod = mod
        self.src = source if source is not None else open(path).read()
        self.tree = ast.parse(self.src, path)
        self.funcs: dict[str, FuncInfo] = {}
        self._index(self.tree.body, [])
        self.twins = dict(getattr(mod, 'C04_TWINS', {}) or {})      # primitive name -> name of its FPy twin
        self.out: dict[str, str] = {}
        self.fresh = 0

    # ------------------------------------------------------------------ indexing
    def _decor_kind(self, d) -> str | None:
        t = d.func if isinstance(d, ast.Call) else d
        if isinstance(t, ast.Attribute) and isinstance(t.value, ast.Name) and t.value.id == 'fp':
            if t.attr == 'fpy': return 'fpy'
            if t.attr == 'fpy_primitive': return 'prim'
        return None

    def _index(self, body, enclosing):
        for st in body:
            if isinstance(st, ast.FunctionDef):
                kinds = [self._decor_kind(d) for d in st.decorator_list]
                kind = next((k for k in kinds if k), 'py')
                if kind in ('fpy', 'prim'):
                    self.funcs[st.name] = FuncInfo(st, kind, list(enclosing))
                else:
                    self._index(st.body, enclosing + [st])      # a factory: FPy functions defined inside close over its locals

    # ------------------------------------------------------------------ scopes
    @staticmethod
    def _locals_of(fn: ast.FunctionDef) -> set:
        out = {a.arg for a in fn.args.posonlyargs + fn.args.args}
        class V(ast.NodeVisitor):
            def visit_Name(s, n):
                if isinstance(n.ctx, ast.Store): out.add(n.id)
            def visit_ListComp(s, n):
                # comprehension targets are local to the comprehension; its iterables/elt may read enclosing names
                for g in n.generators: s.visit(g.iter)
                s.visit(n.elt)      # (reads only: a Store cannot occur in an expression, walrus is refused)
            def visit_FunctionDef(s, n):
                if n is fn:
                    for b in n.body: s.visit(b)
        V().visit(fn)
        return out

    def _closure_env(self, info: FuncInfo) -> dict:
        """values of the enclosing factory functions' simple assignments (the closure cells), innermost last"""
        env = {}
        for enc in info.enclosing:
            for st in enc.body:
                if isinstance(st, ast.Assign) and len(st.targets) == 1 and isinstance(st.targets[0], ast.Name):
                    try:
                        env[st.targets[0].id] = eval(compile(ast.Expression(st.value), self.path, 'eval'), dict(self.mod.__dict__), dict(env))
                    except Exception:
                        pass
        return env

    def _resolve_free(self, name: str, scope) -> object:
        if name in scope['closure']: return scope['closure'][name]
        if name in self.mod.__dict__: return self.mod.__dict__[name]
        import builtins
        if hasattr(builtins, name): return getattr(builtins, name)
        raise Unsupported(f'unresolved name {name}')

    # ------------------------------------------------------------------ static (context) expressions
    def _num_static(self, e, scope) -> Fraction:
        """exact value of a numeric expression without program variables"""
        if isinstance(e, ast.Constant) and isinstance(e.value, (int, float)) and not isinstance(e.value, bool):
            return self._literal(e)
        if isinstance(e, ast.UnaryOp) and isinstance(e.op, (ast.USub, ast.UAdd)):
            v = self._num_static(e.operand, scope)
            return -v if isinstance(e.op, ast.USub) else v
        # (arithmetic inside a constructor argument is left to the evaluator: it is computed exactly, under the real context)
        if isinstance(e, ast.Name):
            if e.id in scope['locals']: raise Dynamic(e.id)
            v = self._resolve_free(e.id, scope)
            if isinstance(v, bool) or not isinstance(v, (int, float, Fraction)): raise Dynamic(e.id)
            if isinstance(v, float) and (v != v or v in (float('inf'), float('-inf'))): raise Dynamic(e.id)
            return Fraction(v)
        raise Dynamic(type(e).__name__)

    def _attr_chain(self, e):
        names = []
        while isinstance(e, ast.Attribute):
            names.append(e.attr); e = e.value
        if not isinstance(e, ast.Name): raise Dynamic('attribute base')
        return e.id, list(reversed(names))

    def _static(self, e, scope):
        """a context-valued (or option-valued) expression evaluated at translation time"""
        if isinstance(e, ast.Attribute):
            base, names = self._attr_chain(e)
            if base in scope['locals']: raise Unsupported('attribute of a run-time value')
            obj = self._resolve_free(base, scope)
            for n in names: obj = getattr(obj, n)
            return obj
        if isinstance(e, ast.Name):
            if e.id in scope['locals']: raise Dynamic(e.id)
            return self._resolve_free(e.id, scope)
        if isinstance(e, ast.Constant) and isinstance(e.value, bool): return e.value
        if isinstance(e, ast.Constant) and e.value is None: return None
        if isinstance(e, ast.Call):
            cls = self._static(e.func, scope)
            if not (isinstance(cls, type) and issubclass(cls, fp.Context)): raise Dynamic('not a context class')
            sig = inspect.signature(cls.__init__)
            params = list(sig.parameters)[1:]
            def conv(name, node):
                ann = sig.parameters[name].annotation if name in sig.parameters else None
                if ann in (int, float, fp.RealFloat):
                    q = self._num_static(node, scope)
                    if ann is int:
                        if q.denominator != 1: raise Dynamic('non-integer')
                        return int(q)
                    if ann is float:
                        f = float(q)
                        if Fraction(f) != q: raise Dynamic('not a float')
                        return f
                    if not is_dyadic(q): raise Dynamic('non-dyadic')
                    return fp.RealFloat(s=q < 0, exp=-(q.denominator.bit_length() - 1), c=abs(q.numerator))
                try:
                    v = self._static(node, scope)
                except Dynamic:
                    raise
                if isinstance(v, (int, float, Fraction)) and not isinstance(v, (bool, enum.Enum)): raise Dynamic('number for an unconverted parameter')
                return v
            if len(e.args) > len(params): raise Dynamic('too many arguments')
            args = [conv(n, a) for n, a in zip(params, e.args)]
            kwargs = {}
            for kw in e.keywords:
                if kw.arg is None or kw.arg not in sig.parameters: raise Dynamic('unknown keyword')
                kwargs[kw.arg] = conv(kw.arg, kw.value)
            try:
                return cls(*args, **kwargs)
            except Exception as ex:
                raise Dynamic(f'constructor raised {type(ex).__name__}')
        raise Dynamic(type(e).__name__)

    def _dynamic_ctx(self, e, scope) -> str:
        """constructor with computed numeric arguments: reserved callee names of the model (`ctxCtor`)"""
        if not isinstance(e, ast.Call): raise Unsupported('dynamic context expression')
        try:
            cls = self._static(e.func, scope)
        except Dynamic:
            raise Unsupported('dynamic context expression')
        if not (isinstance(cls, type) and issubclass(cls, fp.Context)): raise Unsupported('dynamic context expression')
        params = list(inspect.signature(cls.__init__).parameters)[1:]
        bound = dict(zip(params, e.args))
        for kw in e.keywords: bound[kw.arg] = kw.value
        X = lambda n: self.expr(n, scope)
        def opt(name, default, table):
            if name not in bound: return default
            try: v = self._static(bound[name], scope)
            except Dynamic: raise Unsupported('dynamic context option')
            if not isinstance(v, enum.Enum) or v.name not in table: raise Unsupported('dynamic context option')
            return table[v.name]
        def done(tag, used):
            extra = set(bound) - set(used)
            if extra: raise Unsupported(f'dynamic context with extra arguments {sorted(extra)}')
            return tag
        nm = cls.__name__
        def need(*names):
            for n in names:
                if n not in bound: raise Unsupported('dynamic context expression')
        if cls is fp.MPFloatContext:
            need('pmax'); return f"(call {done('@mp/' + opt('rm', 'rne', RM_NAMES), ['pmax', 'rm'])} {X(bound['pmax'])})"
        if cls is fp.MPSFloatContext:
            need('pmax', 'emin'); return f"(call {done('@mps/' + opt('rm', 'rne', RM_NAMES), ['pmax', 'emin', 'rm'])} {X(bound['pmax'])} {X(bound['emin'])})"
        if cls is fp.IEEEContext:
            need('es', 'nbits')
            return f"(call {done('@ieee/' + opt('rm', 'rne', RM_NAMES) + '/' + opt('overflow', 'overflow', OV_NAMES), ['es', 'nbits', 'rm', 'overflow'])} {X(bound['es'])} {X(bound['nbits'])})"
        if cls is fp.MPFixedContext:
            need('nmin'); return f"(call {done('@mpfix/' + opt('rm', 'rne', RM_NAMES), ['nmin', 'rm'])} {X(bound['nmin'])})"
        if cls is fp.FixedContext:
            need('signed', 'scale', 'nbits')
            try: sg = self._static(bound['signed'], scope)
            except Dynamic: raise Unsupported('dynamic context option')
            if not isinstance(sg, bool): raise Unsupported('dynamic context option')
            return (f"(call {done('@fixed/' + opt('rm', 'rne', RM_NAMES) + '/' + opt('overflow', 'wrap', OV_NAMES) + '/' + b01(sg), ['signed', 'scale', 'nbits', 'rm', 'overflow'])} "
                    f"{X(bound['scale'])} {X(bound['nbits'])})")
        raise Unsupported(f'dynamic context {nm}')

    def ctx_expr(self, e, scope) -> str:
        try:
            c = self._static(e, scope)
        except Dynamic:
            return self._dynamic_ctx(e, scope)
        if not isinstance(c, fp.Context): raise Unsupported('context expression is not a context')
        return '(ctx ' + ctx_tok(desc_of_ctx(c)) + ')'

    # ------------------------------------------------------------------ literals
    def _literal(self, e: ast.Constant) -> Fraction:
        if 'literal-via-float' in self.quirks and isinstance(e.value, float):
            return Fraction(int(e.value)) if e.value.is_integer() else Fraction(str(e.value))
        seg = ast.get_source_segment(self.src, e)
        if seg is None: return Fraction(e.value)
        return literal_text_value(seg)

    @staticmethod
    def _num_sx(q: Fraction) -> str:
        return f'(num Q{q.numerator}/{q.denominator})'

    def _int_literal(self, e, scope) -> int:
        """an integer literal argument of rational/digits (a sign is part of the literal)"""
        if isinstance(e, ast.UnaryOp) and isinstance(e.op, (ast.USub, ast.UAdd)) and isinstance(e.operand, ast.Constant):
            v = self._int_literal(e.operand, scope)
            return -v if isinstance(e.op, ast.USub) else v
        if isinstance(e, ast.Constant) and isinstance(e.value, (int, float)) and not isinstance(e.value, bool):
            q = self._literal(e)
            if q.denominator == 1: return int(q)
        raise Unsupported('literal argument expected')

    # ------------------------------------------------------------------ expressions
    def _callee(self, f, scope):
        """('fpy', name) | ('prim', name) | ('builtin', name) | ('ctxclass', cls) for a call target"""
        if isinstance(f, ast.Name):
            if f.id in scope['locals']: raise Unsupported('call of a run-time value')
            if f.id in self.funcs: return (self.funcs[f.id].kind, f.id)
            if f.id in BARE and f.id not in scope['closure'] and f.id not in self.mod.__dict__: return ('builtin', f.id)
            obj = self._resolve_free(f.id, scope)
        elif isinstance(f, ast.Attribute):
            base, names = self._attr_chain(f) if isinstance(f.value, (ast.Name, ast.Attribute)) else (None, None)
            if base is None or base in scope['locals']: raise Unsupported('call of an attribute of a run-time value')
            if base == 'fp' and len(names) == 1 and not (isinstance(getattr(fp, names[0], None), type)):
                return ('builtin', names[0])
            obj = self._resolve_free(base, scope)
            for n in names: obj = getattr(obj, n)
        else:
            raise Unsupported('call target')
        if isinstance(obj, type) and issubclass(obj, fp.Context): return ('ctxclass', obj)
        from fpy2.function import Function
        from fpy2.primitive import Primitive
        if isinstance(obj, Function): return ('fpy-object', obj)
        if isinstance(obj, Primitive): return ('prim', obj.name)
        raise Unsupported('call of a Python object')

    def expr(self, e, scope) -> str:
        X = lambda n: self.expr(n, scope)
        if isinstance(e, ast.Name):
            return f'(var {e.id})'
        if isinstance(e, ast.Constant):
            v = e.value
            if isinstance(v, bool): return f'(bool {b01(v)})'
            if isinstance(v, (int, float)): return self._num_sx(self._literal(e))
            if v is None or isinstance(v, str): return '(bool 1)'       # an opaque constant: passed along or discarded
            raise Unsupported('constant')
        if isinstance(e, ast.UnaryOp):
            if isinstance(e.op, ast.UAdd): return X(e.operand)
            if isinstance(e.op, ast.Not): return f'(not {X(e.operand)})'
            if isinstance(e.op, ast.USub):
                o = e.operand
                while isinstance(o, ast.UnaryOp) and isinstance(o.op, ast.UAdd): o = o.operand
                inner = X(o)
                # a sign applied to a zero literal is the zero of the opposite sign (a signed literal, not a rounded negation)
                if inner == '(num Q0/1)': return '(num Ff1:0:0)'
                if inner == '(num Ff1:0:0)': return '(num Q0/1)'
                # a sign applied to an integer literal is part of the literal
                v = self._int_class(o)
                if v is not None: return self._num_sx(-v)
                return f'(op neg {inner})'
            raise Unsupported('unary operator')
        if isinstance(e, ast.BinOp):
            if type(e.op) not in BINOPS: raise Unsupported('binary operator')
            return f'(op {BINOPS[type(e.op)]} {X(e.left)} {X(e.right)})'
        if isinstance(e, ast.BoolOp):
            return ('(and ' if isinstance(e.op, ast.And) else '(or ') + ' '.join(X(v) for v in e.values) + ')'
        if isinstance(e, ast.Compare):
            ops = []
            for o in e.ops:
                if type(o) not in CMPOPS: raise Unsupported('comparator')
                ops.append(CMPOPS[type(o)])
            return '(cmp (' + ' '.join(ops) + ') ' + ' '.join(X(a) for a in [e.left] + e.comparators) + ')'
        if isinstance(e, ast.IfExp): return f'(ite {X(e.test)} {X(e.body)} {X(e.orelse)})'
        if isinstance(e, ast.Tuple): return '(tuple ' + ' '.join(X(a) for a in e.elts) + ')'
        if isinstance(e, ast.List): return '(list ' + ' '.join(X(a) for a in e.elts) + ')'
        if isinstance(e, ast.ListComp):
            gens = []
            sc = scope
            for g in e.generators:
                if g.is_async or g.ifs: raise Unsupported('comprehension form')
                gens.append(f'({self.pat(g.target)} {self.expr(g.iter, sc)})')
                sc = dict(sc, locals=sc['locals'] | self._pat_names(g.target))
            return '(comp (' + ' '.join(gens) + f') {self.expr(e.elt, sc)})'
        if isinstance(e, ast.Subscript):
            if isinstance(e.slice, ast.Slice):
                if e.slice.step is not None: raise Unsupported('slice step')
                s = '_' if e.slice.lower is None else X(e.slice.lower)
                t = '_' if e.slice.upper is None else X(e.slice.upper)
                return f'(slice {X(e.value)} {s} {t})'
            return f'(index {X(e.value)} {X(e.slice)})'
        if isinstance(e, ast.Attribute):
            return self.ctx_expr(e, scope)
        if isinstance(e, ast.Call):
            return self.call(e, scope)
        raise Unsupported(f'expression {type(e).__name__}')

    def _int_class(self, o):
        """the value of an expression the reference reads as ONE integer literal (`3`, `2.0`, `1e3`, `-3`, `-(-3)`), else None"""
        if isinstance(o, ast.Constant) and isinstance(o.value, (int, float)) and not isinstance(o.value, bool):
            q = self._literal(o)
            return q if q.denominator == 1 else None
        if isinstance(o, ast.UnaryOp) and isinstance(o.op, ast.UAdd): return self._int_class(o.operand)
        if isinstance(o, ast.UnaryOp) and isinstance(o.op, ast.USub):
            v = self._int_class(o.operand)
            return None if v is None or v == 0 else -v
        return None

    def call(self, e: ast.Call, scope) -> str:
        X = lambda n: self.expr(n, scope)
        kind, what = self._callee(e.func, scope)
        if kind == 'ctxclass':
            return self.ctx_expr(e, scope)
        if kind in ('fpy', 'fpy-object'):
            if e.keywords: raise Unsupported('kwargs')
            name = what if kind == 'fpy' else what.ast.name
            if name not in self.funcs: raise Unsupported('callee defined elsewhere')
            self.function(name)
            return f'(call {name} ' + ' '.join(X(a) for a in e.args) + ')'
        if kind == 'prim':
            if e.keywords: raise Unsupported('kwargs')
            twin = self.twins.get(what)
            if twin is None: raise Unsupported('primitive-without-twin')
            self.function(twin)
            return f'(call {twin} ' + ' '.join(X(a) for a in e.args) + ')'
        name = what
        a = e.args
        if e.keywords: raise Unsupported('kwargs')
        def arity(n):
            if len(a) != n: raise Unsupported(f'arity of {name}')
        if name in ('nan', 'inf'):
            arity(0); return '(num Fn0)' if name == 'nan' else '(num Fi0)'
        if name in MPFR_CONSTS:
            if self.lenient: arity(0); return f'(const {name})'
            raise Unsupported(f'mpfr-constant:{name}')
        if name in MPFR_UNARY or name == 'atan2':
            if self.lenient: arity(2 if name == 'atan2' else 1); return f'(op {name} ' + ' '.join(X(x) for x in a) + ')'
            raise Unsupported(f'mpfr-op:{name}')
        if name in ('isnormal', 'logb', 'dim'):
            if self.lenient: arity(1); return f'({name} {X(a[0])})'
            raise Unsupported(name)
        if name in UNARY_OPS: arity(1); return f'(op {UNARY_OPS[name]} {X(a[0])})'
        if name in PREDS: arity(1); return f'(pred {PREDS[name]} {X(a[0])})'
        if name in BINARY_OPS: arity(2); return f'(op {BINARY_OPS[name]} {X(a[0])} {X(a[1])})'
        if name == 'fma': arity(3); return f'(op fma {X(a[0])} {X(a[1])} {X(a[2])})'
        if name in ('min', 'fmin', 'max', 'fmax'):
            if not a: raise Unsupported('arity of min/max')
            return ('(min ' if name in ('min', 'fmin') else '(max ') + ' '.join(X(x) for x in a) + ')'
        if name in ('len', 'sum', 'any', 'all', 'enumerate'): arity(1); return f'({name} {X(a[0])})'
        if name == 'range':
            if len(a) not in (1, 2, 3): raise Unsupported('arity of range')
            return '(range ' + ' '.join(X(x) for x in a) + ')'
        if name == 'zip': return '(zip ' + ' '.join(X(x) for x in a) + ')'
        if name == 'print': return '(tuple ' + ' '.join(X(x) for x in a) + ')'
        if name == 'hexfloat':
            arity(1)
            if not (isinstance(a[0], ast.Constant) and isinstance(a[0].value, str)): raise Unsupported('hexfloat argument')
            neg, q = hexfloat_value(a[0].value)
            if q == 0 and neg: return '(num Ff1:0:0)'
            return self._num_sx(-q if neg else q)
        if name == 'rational':
            arity(2)
            p, q = self._int_literal(a[0], scope), self._int_literal(a[1], scope)
            if q == 0: raise Unsupported('rational with a zero denominator')
            return self._num_sx(Fraction(p, q))
        if name == 'digits':
            arity(3)
            m, ex, b = (self._int_literal(x, scope) for x in a)
            if b < 2: raise Unsupported('digits base')
            return self._num_sx(Fraction(m) * Fraction(b) ** ex)
        if name in ('fst', 'snd'):
            arity(1)
            self.fresh += 1
            v = f'@p{self.fresh}'
            pat = f'(tup {v} _)' if name == 'fst' else f'(tup _ {v})'
            return f'(index (comp (({pat} (list {X(a[0])}))) (var {v})) (num Q0/1))'
        if name == 'size':
            arity(2)
            k = a[1]
            if isinstance(k, ast.Constant) and not isinstance(k.value, bool) and isinstance(k.value, (int, float)) and self._literal(k) == 0:
                return f'(op round (len {X(a[0])}))' if 'size-rounds' in self.quirks else f'(len {X(a[0])})'
            if self.lenient: return f'(size {X(a[0])} {X(a[1])})'
            raise Unsupported('size-of-inner-dimension')
        if name == 'empty':
            if not a: raise Unsupported('arity of empty')
            out = '(bool 0)'
            for d in reversed(a): out = f'(comp ((_ (range {X(d)}))) {out})'
            return out
        raise Unsupported(f'builtin {name}')

    # ------------------------------------------------------------------ patterns / statements
    def pat(self, t) -> str:
        if isinstance(t, ast.Name): return '_' if t.id == '_' else t.id
        if isinstance(t, ast.Tuple): return '(tup ' + ' '.join(self.pat(x) for x in t.elts) + ')'
        raise Unsupported('binding target')

    def _pat_names(self, t) -> set:
        if isinstance(t, ast.Name): return set() if t.id == '_' else {t.id}
        if isinstance(t, ast.Tuple): return set().union(*[self._pat_names(x) for x in t.elts]) if t.elts else set()
        return set()

    def block(self, stmts, scope) -> str:
        return '(' + ' '.join(self.stmt(s, scope) for s in stmts) + ')'

    def stmt(self, s, scope) -> str:
        X = lambda n: self.expr(n, scope)
        if isinstance(s, ast.Assign):
            if len(s.targets) != 1: raise Unsupported('multiple assignment')
            t = s.targets[0]
            if isinstance(t, ast.Subscript):
                idx_nodes = []
                while isinstance(t, ast.Subscript):
                    if isinstance(t.slice, ast.Slice): raise Unsupported('slice assignment')
                    idx_nodes.append(t.slice); t = t.value
                idx_nodes.reverse()
                idxs = [X(n) for n in idx_nodes]
                if not isinstance(t, ast.Name): raise Unsupported('indexed assignment base')
                if len(idxs) > 1:
                    # xs[i][j] = e : the value first, then xs[i] (which may fail) BEFORE j is even converted
                    self.fresh += 1
                    tv, tr = f'@v{self.fresh}', f'@r{self.fresh}'
                    out = f'(assign {tv} {X(s.value)}) (assign {tr} (index (var {t.id}) {idxs[0]}))'
                    for k in idxs[1:-1]: out += f' (assign {tr} (index (var {tr}) {k}))'
                    return out + f' (iassign {tr} ({idxs[-1]}) (var {tv}))'
                return f'(iassign {t.id} (' + ' '.join(idxs) + f') {X(s.value)})'
            return f'(assign {self.pat(t)} {X(s.value)})'
        if isinstance(s, ast.AugAssign):
            if not isinstance(s.target, ast.Name) or type(s.op) not in BINOPS: raise Unsupported('augmented assignment form')
            return f'(assign {s.target.id} (op {BINOPS[type(s.op)]} (var {s.target.id}) {X(s.value)}))'
        if isinstance(s, ast.AnnAssign):
            if not isinstance(s.target, ast.Name) or s.value is None: raise Unsupported('annotated assignment form')
            return f'(assign {s.target.id} {X(s.value)})'
        if isinstance(s, ast.If):
            if s.orelse: return f'(if {X(s.test)} {self.block(s.body, scope)} {self.block(s.orelse, scope)})'
            return f'(if1 {X(s.test)} {self.block(s.body, scope)})'
        if isinstance(s, ast.While):
            if s.orelse: raise Unsupported('while-else')
            return f'(while {X(s.test)} {self.block(s.body, scope)})'
        if isinstance(s, ast.For):
            if s.orelse: raise Unsupported('for-else')
            return f'(for {self.pat(s.target)} {X(s.iter)} {self.block(s.body, scope)})'
        if isinstance(s, ast.Return):
            if s.value is None: raise Unsupported('bare return')
            return f'(return {X(s.value)})'
        if isinstance(s, ast.With):
            if len(s.items) != 1: raise Unsupported('with items')
            it = s.items[0]
            nm = '_'
            if it.optional_vars is not None:
                if not isinstance(it.optional_vars, ast.Name): raise Unsupported('with target')
                nm = it.optional_vars.id
            ce = it.context_expr
            cx = f'(var {ce.id})' if isinstance(ce, ast.Name) else self.ctx_or_expr(ce, scope)
            return f'(with {cx} {nm} {self.block(s.body, scope)})'
        if isinstance(s, ast.Assert):
            if s.msg is not None:
                return f'(if1 (not {X(s.test)}) ((effect {X(s.msg)}) (assert (bool 0))))'
            return f'(assert {X(s.test)})'
        if isinstance(s, ast.Expr): return f'(effect {X(s.value)})'
        if isinstance(s, ast.Pass): return '(pass)'
        raise Unsupported(f'statement {type(s).__name__}')

    def ctx_or_expr(self, e, scope) -> str:
        if isinstance(e, (ast.Attribute, ast.Call)):
            return self.expr(e, scope)
        return self.expr(e, scope)

    # ------------------------------------------------------------------ functions
    def function(self, name: str):
        if name in self.out: return
        info = self.funcs.get(name)
        if info is None or info.kind != 'fpy': raise Unsupported(f'no FPy function {name} in this file')
        self.out[name] = None
        fn = info.node
        locs = self._locals_of(fn)
        scope = {'locals': locs, 'closure': self._closure_env(info)}
        # declared context
        cs = '_'
        for d in fn.decorator_list:
            if isinstance(d, ast.Call) and self._decor_kind(d) == 'fpy':
                for kw in d.keywords:
                    if kw.arg == 'ctx' and not (isinstance(kw.value, ast.Constant) and kw.value.value is None):
                        # the decorator's argument is ordinary Python, evaluated by Python when the function is defined
                        try:
                            c = eval(compile(ast.Expression(kw.value), self.path, 'eval'), dict(self.mod.__dict__), dict(scope['closure']))
                        except Exception:
                            raise Unsupported('declared context')
                        if not isinstance(c, fp.Context): raise Unsupported('declared context')
                        cs = '(' + ctx_tok(desc_of_ctx(c)) + ')'
        body = list(fn.body)
        if body and isinstance(body[0], ast.Expr) and isinstance(body[0].value, ast.Constant) and isinstance(body[0].value.value, str):
            body = body[1:]      # docstring
        # free variables read by the body: bound at entry to their captured values
        loaded = set()
        class V(ast.NodeVisitor):
            def visit_Name(s, n):
                if isinstance(n.ctx, ast.Load): loaded.add(n.id)
            def visit_arg(s, n): pass
            def visit_FunctionDef(s, n):
                for b in body: s.visit(b)
        for b in body: V().visit(b)
        comp_locals = set()
        for n in ast.walk(ast.Module(body=body, type_ignores=[])):
            if isinstance(n, ast.ListComp):
                for g in n.generators: comp_locals |= self._pat_names(g.target)
        entry = ''
        for nm in sorted(loaded - locs):
            if nm in comp_locals and nm not in scope['closure'] and nm not in self.mod.__dict__: continue
            try:
                val = self._resolve_free(nm, scope)
            except Unsupported:
                if nm in comp_locals: continue
                raise
            if is_value(val): entry += f'(assign {nm} {val_expr(val)}) '
            elif is_foreign_value(val): entry += f'(assign {nm} (bool 1)) '
        params = ' '.join(a.arg for a in fn.args.posonlyargs + fn.args.args)
        if fn.args.vararg or fn.args.kwarg or fn.args.kwonlyargs: raise Unsupported('parameter form')
        b = self.block(body, scope)
        if entry: b = '(' + entry + b[1:]
        self.out[name] = f'(func {name} ({params}) {cs} {b})'

    def program(self, entry: str) -> tuple[str, str]:
        self.out = {}
        self.fresh = 0
        self.function(entry)
        return entry, '(' + ' '.join(v for v in self.out.values() if v) + ')'


def front_program(path: str, mod, entry: str, cache: dict | None = None, lenient: bool = False) -> tuple[str, str]:
    """(entry, program text) translated from the SOURCE FILE, independently of fpy2's parser"""
    key = (path, lenient)
    fr = None if cache is None else cache.get(key)
    if fr is None:
        fr = Front(path, mod, lenient=lenient)
        if cache is not None: cache[key] = fr
    return fr.program(entry)
